//go:build verif

package bufcas

// VerifLemma_C13E_FileNodePath: a FileNode / manifest path is accepted only if it is already a normalized, relative
// path without ".." components (so a manifest cannot name anything outside the bucket it is materialised into).
func VerifLemma_C13E_FileNodePath() {
	path := verifNondetString(verifParam("N"))
	digest := Digest(newDigest(DigestTypeShake256, make([]byte, 64)))
	err := validateFileNodeParameters(path, digest)
	verifCover("called")
	plain := len(path) > 0
	for i := 0; i < len(path); i++ {
		c := path[i]
		if !(c >= 'a' && c <= 'z') {
			plain = false
		}
	}
	if plain {
		verifAssert(err == nil, "a plain file name is a valid file node path")
	}
	if err != nil {
		return
	}
	verifCover("accepted")
	verifAssert(len(path) > 0 && path[0] != '/', "accepted file node path is non-empty and relative")
	start := 0
	for i := 0; i <= len(path); i++ {
		if i == len(path) || path[i] == '/' {
			n := i - start
			verifAssert(n > 0, "accepted file node path has no empty component")
			verifAssert(!(n == 2 && path[start] == '.' && path[start+1] == '.'), "accepted file node path has no .. component")
			verifAssert(!(n == 1 && path[start] == '.') || len(path) == 1, "accepted file node path has no . component (except the bare root spelling)")
			start = i + 1
		}
	}
	_, nerr := NewFileNode(path, digest)
	verifAssert(nerr == nil, "NewFileNode accepts what validateFileNodeParameters accepts")
}
