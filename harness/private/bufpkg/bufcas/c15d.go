//go:build verif

package bufcas

import (
	"bytes"
	"context"
	"errors"

	"github.com/bufbuild/buf/private/pkg/storage"
)

// ---- fault-injecting write bucket (copy of the C15-D stub; harness files cannot be shared across packages) ----
//
// Put, each Write and each Close are numbered in execution order; operation failAt (and failAt2) returns an error.
// Non-atomic Put publishes at Put/Write time; atomic Put publishes at a successful Close and is skipped after any
// failed Write (contract of storage.PutWithAtomic). A failing Write may be short (all but one byte transferred).

var vdErrInjected = errors.New("vd: injected write fault")

type vdFObj struct {
	path string
	data []byte
}

type vdFaultBucket struct {
	storage.ReadWriteBucket
	objs       []*vdFObj
	ops        int
	failAt     int
	failAt2    int
	short      bool
	faulted    bool
	puts       int
	open       int // writers not yet closed
	openAtomic int // atomic writers not yet closed (on a disk bucket each would leave a temp file behind)
}

func (b *vdFaultBucket) find(path string) *vdFObj {
	for _, o := range b.objs {
		if o.path == path {
			return o
		}
	}
	return nil
}

func (b *vdFaultBucket) set(path string, data []byte) {
	if o := b.find(path); o != nil {
		o.data = data
		return
	}
	b.objs = append(b.objs, &vdFObj{path: path, data: data})
}

func (b *vdFaultBucket) step() error {
	b.ops++
	if b.ops == b.failAt || b.ops == b.failAt2 {
		b.faulted = true
		return vdErrInjected
	}
	return nil
}

type vdFWriter struct {
	b      *vdFaultBucket
	path   string
	atomic bool
	buf    []byte
	failed bool
	closed int
}

func (b *vdFaultBucket) Put(ctx context.Context, path string, opts ...storage.PutOption) (storage.WriteObjectCloser, error) {
	b.puts++
	if err := b.step(); err != nil {
		return nil, err
	}
	w := &vdFWriter{b: b, path: path, atomic: storage.NewPutOptions(opts).Atomic()}
	b.open++
	if w.atomic {
		b.openAtomic++
	}
	if !w.atomic {
		b.set(path, nil)
	}
	return w, nil
}

func (w *vdFWriter) Write(p []byte) (int, error) {
	if err := w.b.step(); err != nil {
		w.failed = true
		n := 0
		if w.b.short && len(p) > 0 {
			n = len(p) - 1
			w.buf = append(w.buf, p[:n]...)
			if !w.atomic {
				w.b.set(w.path, append([]byte(nil), w.buf...))
			}
		}
		return n, err
	}
	w.buf = append(w.buf, p...)
	if !w.atomic {
		w.b.set(w.path, append([]byte(nil), w.buf...))
	}
	return len(p), nil
}

func (w *vdFWriter) Close() error {
	w.closed++
	if w.closed == 1 {
		w.b.open--
		if w.atomic {
			w.b.openAtomic--
		}
	}
	if err := w.b.step(); err != nil {
		return err
	}
	if w.atomic {
		if w.failed {
			return vdErrInjected
		}
		w.b.set(w.path, append([]byte(nil), w.buf...))
	}
	return nil
}
func (w *vdFWriter) SetExternalPath(string) error { return nil }
func (w *vdFWriter) SetLocalPath(string) error    { return nil }

func (b *vdFaultBucket) SetExternalAndLocalPathsSupported() bool { return false }

type vdSrcFiles struct{ objs []*vdFObj }

// VerifLemma_C15D_PutFileSetToBucket: a FileSet (real NewManifest/NewBlobSet/NewFileSet) of 1..FILES files with symbolic
// contents and fixed distinct digests (a file may share the blob of the first file) is written with PutFileSetToBucket into a bucket whose k-th (and l-th)
// Put/Write/Close fails. (1) a failure seen by the code is reported; (2) nil error: every file is in the
// destination with exactly its content; (3) every opened writer is closed exactly once; (4) files are put atomically,
// so whatever is visible in the destination is a complete file of the set.
func VerifLemma_C15D_PutFileSetToBucket() {
	names := []string{"a.proto", "b/c.proto", "d.txt"}
	n := verifNondetChoice(verifParam("FILES")) + 1
	src := &vdSrcFiles{}
	var fileNodes []FileNode
	var blobs []Blob
	for i := 0; i < n; i++ {
		// file i > 0 either has its own blob or shares the blob (digest and content) of file 0
		own := i == 0 || verifNondetBool()
		var digest Digest
		var data []byte
		if own {
			value := make([]byte, 64)
			for k := range value {
				value[k] = byte(i + 1)
			}
			d, err := NewDigest(value)
			verifAssert(err == nil, "harness: digest constructed")
			digest, data = d, verifNondetBytes(verifParam("DATA"))
			blobs = append(blobs, newBlob(digest, data))
		} else {
			digest, data = fileNodes[0].Digest(), src.objs[0].data
		}
		node, err := NewFileNode(names[i], digest)
		verifAssert(err == nil, "harness: file node constructed")
		fileNodes = append(fileNodes, node)
		src.objs = append(src.objs, &vdFObj{path: names[i], data: data})
	}
	manifest, err := NewManifest(fileNodes)
	verifAssert(err == nil, "harness: manifest constructed")
	blobSet, err := NewBlobSet(blobs)
	verifAssert(err == nil, "harness: blob set constructed")
	fileSet, err := NewFileSet(manifest, blobSet)
	verifAssert(err == nil && fileSet != nil, "harness: file set constructed")
	if err != nil {
		return
	}
	dst := &vdFaultBucket{failAt: verifNondetInt(0, 3*n), short: verifNondetBool()}
	if verifParam("DOUBLE") == 1 {
		dst.failAt2 = verifNondetInt(0, 3*n)
		verifAssume(dst.failAt2 == 0 || dst.failAt2 > dst.failAt)
	}
	err = PutFileSetToBucket(context.Background(), fileSet, dst)
	verifCover("returned")
	verifAssert(!dst.faulted || err != nil, "PutFileSetToBucket: an injected failure seen by the code is reported")
	// a failed *atomic* put must leave no new object behind (C15): an atomic writer that is never closed would leave its
	// temp file; whether a non-atomic writer is closed after a failure is a leak question, not a C15 one
	verifAssert(dst.openAtomic == 0, "PutFileSetToBucket: every atomic writer is closed, also after a failure")
	if err == nil {
		verifCover("success")
		verifAssert(len(dst.objs) == n && dst.open == 0, "PutFileSetToBucket: nil error implies every file was written and closed")
	}
	// (whether PutFileSetToBucket uses atomic puts is not documented, so nothing is required of the visible objects after a
	// failure; with atomic puts - today's code - the stub makes partial objects invisible anyway)
	for _, o := range dst.objs {
		if err != nil {
			break
		}
		var want []byte
		found := false
		for _, s := range src.objs {
			if s.path == o.path {
				want, found = s.data, true
			}
		}
		verifAssert(found && bytes.Equal(o.data, want), "PutFileSetToBucket: nil error implies every destination object is a complete file of the set")
	}
}
