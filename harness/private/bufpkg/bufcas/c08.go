//go:build verif

package bufcas

// ---- shared helpers for the C08 lemmas of bufcas (file nodes, manifests, digests) ----

// viDigest returns a shake256 Digest: concrete (64 bytes derived from seed) when sym is false, 64 fully symbolic
// bytes when sym is true.
func viDigest(sym bool, seed byte) Digest {
	nsym := 0
	if sym {
		nsym = 64
	}
	return viDigestN(nsym, seed)
}

// viDigestN: the first nsym bytes of the value are symbolic, the rest concrete.
func viDigestN(nsym int, seed byte) Digest {
	return viDigestAt(0, nsym, seed)
}

// viDigestAt: bytes pos..pos+nsym-1 of the value are symbolic, the rest concrete.
func viDigestAt(pos int, nsym int, seed byte) Digest {
	value := make([]byte, 64)
	for i := range value {
		value[i] = seed + byte(i)*7
	}
	if nsym > 0 {
		copy(value[pos:], verifNondetBytesN(nsym))
	}
	d, err := NewDigest(value)
	if err != nil {
		verifAssert(false, "NewDigest accepts every 64-byte value")
	}
	return d
}

// refIHasDoubleSpace reports whether p contains two consecutive spaces.
func refIHasDoubleSpace(p string) bool {
	for i := 0; i+1 < len(p); i++ {
		if p[i] == ' ' && p[i+1] == ' ' {
			return true
		}
	}
	return false
}

// refIHasByte reports whether p contains byte c.
func refIHasByte(p string, c byte) bool {
	for i := 0; i < len(p); i++ {
		if p[i] == c {
			return true
		}
	}
	return false
}

// viAcceptedNodes builds n file nodes with arbitrary paths (<= N bytes, every byte value) that NewFileNode accepts;
// paths not accepted end the path (they are outside the quantifier: "any valid relative path").
func viAcceptedNodes(n int, maxLen int, symDigests bool) []FileNode {
	nodes := make([]FileNode, 0, n)
	for i := 0; i < n; i++ {
		p := verifNondetString(maxLen)
		node, err := NewFileNode(p, viDigest(symDigests, byte(17*i+1)))
		if err != nil {
			verifAssume(false)
		}
		nodes = append(nodes, node)
	}
	return nodes
}

// VerifLemma_C08A_ManifestRoundTrip: the canonical text of any manifest of <= FILES file nodes parses back to an
// equal manifest: ParseManifest(NewManifest(nodes).String()) succeeds, has the same number of nodes, and the i-th
// node has the same path and digest.
func VerifLemma_C08A_ManifestRoundTrip() {
	n := verifNondetChoice(verifParam("FILES") + 1)
	nodes := viAcceptedNodes(n, verifParam("N"), verifParam("SYMDIGEST") != 0)
	m, err := NewManifest(nodes)
	if err != nil {
		// duplicate paths: decided by C08-B
		return
	}
	verifCover("manifest built")
	text := m.String()
	anyDoubleSpace, anyNewline := false, false
	for _, node := range nodes {
		if refIHasDoubleSpace(node.Path()) {
			anyDoubleSpace = true
		}
		if refIHasByte(node.Path(), '\n') {
			anyNewline = true
		}
	}
	if verifKnown("F5-filenode-double-space", anyDoubleSpace) {
		return
	}
	if verifKnown("F5-manifest-newline-in-path", anyNewline) {
		return
	}
	m2, err := ParseManifest(text)
	verifAssert(err == nil, "canonical manifest text parses back")
	got, want := m2.FileNodes(), m.FileNodes()
	verifAssert(len(got) == len(want), "parsed manifest has the same number of file nodes")
	for i := range want {
		verifAssert(got[i].Path() == want[i].Path(), "parsed manifest: same path at every position")
		verifAssert(DigestEqual(got[i].Digest(), want[i].Digest()), "parsed manifest: same digest at every position")
	}
	verifAssert(m2.String() == text, "parsed manifest renders to the same canonical text")
}

// VerifLemma_C08A_FileNodeRoundTrip: ParseFileNode(node.String()) returns an equal node for every accepted path.
func VerifLemma_C08A_FileNodeRoundTrip() {
	nodes := viAcceptedNodes(1, verifParam("N"), verifParam("SYMDIGEST") != 0)
	node := nodes[0]
	verifCover("node accepted")
	if verifKnown("F5-filenode-double-space", refIHasDoubleSpace(node.Path())) {
		return
	}
	node2, err := ParseFileNode(node.String())
	verifAssert(err == nil, "canonical file node text parses back")
	verifAssert(node2.Path() == node.Path(), "parsed file node: same path")
	verifAssert(DigestEqual(node2.Digest(), node.Digest()), "parsed file node: same digest")
}

// VerifLemma_C08A_DigestRoundTrip: ParseDigest(d.String()) == d and the text is "shake256:" + 128 lower-case hex
// characters. The value has SYMBYTES consecutive fully symbolic bytes at every possible position; the remaining
// bytes are a concrete pattern (hex encoding and decoding are byte-local).
func VerifLemma_C08A_DigestRoundTrip() {
	w := verifParam("SYMBYTES")
	d := viDigestAt(verifNondetChoice(64-w+1), w, 0)
	s := d.String()
	verifCover("digest rendered")
	verifAssert(len(s) == 9+128, "digest text is shake256: + 128 hex chars")
	verifAssert(s[:9] == "shake256:", "digest text starts with the type")
	value := d.Value()
	const hexdigits = "0123456789abcdef"
	for i := 0; i < 64; i++ {
		verifAssert(s[9+2*i] == hexdigits[value[i]>>4] && s[9+2*i+1] == hexdigits[value[i]&15], "digest text is the lower-case hex of the value")
	}
	d2, err := ParseDigest(s)
	verifAssert(err == nil, "digest text parses back")
	verifAssert(d2.Type() == d.Type(), "parsed digest: same type")
	verifAssert(DigestEqual(d, d2), "parsed digest: same value")
	verifAssert(d2.String() == s, "parsed digest renders to the same text")
}
