//go:build verif

package bufcas

// ---- shared helpers for the C08 lemmas of bufcas (file nodes, manifests, digests) ----

// viDigest returns a shake256 Digest: concrete (64 bytes derived from seed) when sym is false, 64 fully symbolic
// bytes when sym is true. (Also used by c13e.go of this directory - keep the signature.)
func viDigest(sym bool, seed byte) Digest {
	if sym {
		return viDigestN(64, seed)
	}
	return viDigestN(0, seed)
}

// viDigestN: the first nsym bytes of the value are symbolic, the rest concrete.
func viDigestN(nsym int, seed byte) Digest {
	return viDigestAt(0, nsym, seed)
}

// viDigestAt: bytes pos..pos+nsym-1 of the value are symbolic, the rest concrete.
func viDigestAt(pos int, nsym int, seed byte) Digest {
	value := make([]byte, 64)
	for i := range value {
		value[i] = seed + byte(i)*7
	}
	if nsym > 0 {
		copy(value[pos:], verifNondetBytesN(nsym))
	}
	d, err := NewDigest(value)
	if err != nil {
		verifAssert(false, "NewDigest accepts every 64-byte value")
	}
	return d
}

// refIHasDoubleSpace reports whether p contains two consecutive spaces.
func refIHasDoubleSpace(p string) bool {
	for i := 0; i+1 < len(p); i++ {
		if p[i] == ' ' && p[i+1] == ' ' {
			return true
		}
	}
	return false
}

// refIHasByte reports whether p contains byte c.
func refIHasByte(p string, c byte) bool {
	for i := 0; i < len(p); i++ {
		if p[i] == c {
			return true
		}
	}
	return false
}

// viAcceptedNodes builds n file nodes with arbitrary paths (<= N bytes, every byte value) that NewFileNode accepts
// and digests whose first symDigestBytes value bytes are symbolic (the rest concrete, different per node);
// paths not accepted end the path (they are outside the quantifier: "any valid relative path").
func viAcceptedNodes(n int, maxLen int, symDigestBytes int) []FileNode {
	nodes := make([]FileNode, 0, n)
	for i := 0; i < n; i++ {
		p := verifNondetString(maxLen)
		node, err := NewFileNode(p, viDigestN(symDigestBytes, byte(17*i+1)))
		if err != nil {
			verifAssume(false)
		}
		nodes = append(nodes, node)
	}
	return nodes
}

// VerifLemma_C08A_ManifestRoundTrip: the canonical text of any manifest of <= FILES file nodes parses back to an
// equal manifest: ParseManifest(NewManifest(nodes).String()) succeeds, has the same number of nodes, and the i-th
// node has the same path and digest.
func VerifLemma_C08A_ManifestRoundTrip() {
	n := verifNondetChoice(verifParam("FILES") + 1)
	nodes := viAcceptedNodes(n, verifParam("N"), verifParam("SYMDIGEST"))
	m, err := NewManifest(nodes)
	if err != nil {
		// duplicate paths: decided by C08-B
		return
	}
	verifCover("manifest built")
	text := m.String()
	anyDoubleSpace, anyNewline := false, false
	for _, node := range nodes {
		if refIHasDoubleSpace(node.Path()) {
			anyDoubleSpace = true
		}
		if refIHasByte(node.Path(), '\n') {
			anyNewline = true
		}
	}
	if verifKnown("F5-filenode-double-space", anyDoubleSpace) {
		return
	}
	if verifKnown("F5-manifest-newline-in-path", anyNewline) {
		return
	}
	m2, err := ParseManifest(text)
	verifAssert(err == nil, "canonical manifest text parses back")
	got, want := m2.FileNodes(), m.FileNodes()
	verifAssert(len(got) == len(want), "parsed manifest has the same number of file nodes")
	for i := range want {
		verifAssert(got[i].Path() == want[i].Path(), "parsed manifest: same path at every position")
		verifAssert(DigestEqual(got[i].Digest(), want[i].Digest()), "parsed manifest: same digest at every position")
	}
	verifAssert(m2.String() == text, "parsed manifest renders to the same canonical text")
}

// VerifLemma_C08A_FileNodeRoundTrip: ParseFileNode(node.String()) returns an equal node for every accepted path.
func VerifLemma_C08A_FileNodeRoundTrip() {
	nodes := viAcceptedNodes(1, verifParam("N"), verifParam("SYMDIGEST"))
	node := nodes[0]
	verifCover("node accepted")
	if verifKnown("F5-filenode-double-space", refIHasDoubleSpace(node.Path())) {
		return
	}
	node2, err := ParseFileNode(node.String())
	verifAssert(err == nil, "canonical file node text parses back")
	verifAssert(node2.Path() == node.Path(), "parsed file node: same path")
	verifAssert(DigestEqual(node2.Digest(), node.Digest()), "parsed file node: same digest")
}

// VerifLemma_C08A_DigestRoundTrip: ParseDigest(d.String()) == d and the text is "shake256:" + 128 lower-case hex
// characters. The value has SYMBYTES consecutive fully symbolic bytes at POSITIONS evenly spaced positions; the remaining
// bytes are a concrete pattern (hex encoding and decoding are byte-local).
func VerifLemma_C08A_DigestRoundTrip() {
	w := verifParam("SYMBYTES")
	np := verifParam("POSITIONS") // evenly spaced start positions, first = 0, last = 64-w
	pos := 0
	if np > 1 {
		pos = verifNondetChoice(np) * (64 - w) / (np - 1)
	}
	d := viDigestAt(pos, w, 0)
	s := d.String()
	verifCover("digest rendered")
	verifAssert(len(s) == 9+128, "digest text is shake256: + 128 hex chars")
	verifAssert(s[:9] == "shake256:", "digest text starts with the type")
	value := d.Value()
	const hexdigits = "0123456789abcdef"
	for i := 0; i < 64; i++ {
		verifAssert(s[9+2*i] == hexdigits[value[i]>>4] && s[9+2*i+1] == hexdigits[value[i]&15], "digest text is the lower-case hex of the value")
	}
	d2, err := ParseDigest(s)
	verifAssert(err == nil, "digest text parses back")
	verifAssert(d2.Type() == d.Type(), "parsed digest: same type")
	verifAssert(DigestEqual(d, d2), "parsed digest: same value")
	verifAssert(d2.String() == s, "parsed digest renders to the same text")
}

// refILess is bytewise lexicographic a < b.
func refILess(a, b string) bool {
	for i := 0; i < len(a) && i < len(b); i++ {
		if a[i] != b[i] {
			return a[i] < b[i]
		}
	}
	return len(a) < len(b)
}

// viPermute returns a nondeterministically chosen permutation of nodes (every permutation is explored).
func viPermute(nodes []FileNode) []FileNode {
	out := make([]FileNode, 0, len(nodes))
	rest := append([]FileNode(nil), nodes...)
	for len(rest) > 0 {
		k := 0
		if len(rest) > 1 {
			k = verifNondetChoice(len(rest))
		}
		out = append(out, rest[k])
		rest = append(rest[:k:k], rest[k+1:]...)
	}
	return out
}

// VerifLemma_C08B_Canonical: NewManifest fails if two nodes share a path with different digests, succeeds for pairwise
// different paths (an exact duplicate may be rejected or deduplicated); on success String() is exactly the
// reference text (lines "digest  path\n" in strictly increasing bytewise path order), FileNodes() is in that order,
// GetFileNode/GetDigest find exactly the nodes, and every permutation of the input gives the same text.
func VerifLemma_C08B_Canonical() {
	n := verifNondetChoice(verifParam("FILES") + 1)
	nodes := viAcceptedNodes(n, verifParam("N"), verifParam("SYMDIGEST"))
	// optionally the last node repeats the digest of the first one (an exact duplicate when the paths are equal too)
	if n >= 2 && verifNondetBool() {
		node, err := NewFileNode(nodes[n-1].Path(), nodes[0].Digest())
		verifAssume(err == nil)
		nodes[n-1] = node
	}
	dupDifferent, dupSame := false, false
	for i := 0; i < n; i++ {
		for j := i + 1; j < n; j++ {
			if nodes[i].Path() == nodes[j].Path() {
				if DigestEqual(nodes[i].Digest(), nodes[j].Digest()) {
					dupSame = true
				} else {
					dupDifferent = true
				}
			}
		}
	}
	m, err := NewManifest(nodes)
	verifCover("NewManifest returned")
	if dupDifferent {
		// documented: "if two FileNodes with the same path have different Digests, an error is returned"
		verifAssert(err != nil, "NewManifest fails when a path is duplicated with different digests")
		return
	}
	if dupSame {
		// documented as "deduplicated upon construction"; the current code rejects exact duplicates as well. Both are
		// accepted; when a manifest is returned it must be the manifest of the deduplicated set (checked below).
		verifCover("exact duplicate")
		if err != nil {
			return
		}
	} else {
		verifAssert(err == nil, "NewManifest accepts nodes with pairwise different paths")
	}
	// reference: insertion sort by path, exact duplicates dropped
	sorted := make([]FileNode, 0, n)
	for _, node := range nodes {
		seen := false
		for _, other := range sorted {
			if other.Path() == node.Path() {
				seen = true
			}
		}
		if seen {
			continue
		}
		k := len(sorted)
		for k > 0 && refILess(node.Path(), sorted[k-1].Path()) {
			k--
		}
		sorted = append(sorted, nil)
		copy(sorted[k+1:], sorted[k:])
		sorted[k] = node
	}
	want := ""
	for _, node := range sorted {
		want += node.Digest().String() + "  " + node.Path() + "\n"
	}
	text := m.String()
	verifAssert(text == want, "manifest text is the path-sorted list of digest SP SP path LF lines")
	got := m.FileNodes()
	verifAssert(len(got) == len(sorted), "FileNodes has every node")
	for i := range got {
		// equality of the (path, digest) values; whether the very same FileNode objects are handed back is not part of the contract
		verifAssert(got[i].Path() == sorted[i].Path() && DigestEqual(got[i].Digest(), sorted[i].Digest()), "FileNodes is sorted by path")
		found := m.GetFileNode(sorted[i].Path())
		verifAssert(found != nil && found.Path() == sorted[i].Path() && DigestEqual(found.Digest(), sorted[i].Digest()), "GetFileNode finds each node by path")
		verifAssert(DigestEqual(m.GetDigest(sorted[i].Path()), sorted[i].Digest()), "GetDigest finds each digest by path")
	}
	if n >= 2 && !dupSame {
		m2, err := NewManifest(viPermute(nodes))
		verifAssert(err == nil, "a permutation of distinct paths is accepted")
		verifAssert(m2.String() == text, "manifest text does not depend on input order")
		verifCover("permutation compared")
	}
}

// VerifLemma_C08B_Absent: GetFileNode/GetDigest of a path that is not in the manifest return nil.
func VerifLemma_C08B_Absent() {
	n := verifNondetChoice(verifParam("FILES") + 1)
	nodes := viAcceptedNodes(n, verifParam("N"), 0)
	m, err := NewManifest(nodes)
	if err != nil {
		return
	}
	q := verifNondetString(verifParam("N"))
	for _, node := range nodes {
		verifAssume(node.Path() != q)
	}
	verifCover("absent path queried")
	verifAssert(m.GetFileNode(q) == nil, "GetFileNode of an absent path is nil")
	verifAssert(m.GetDigest(q) == nil, "GetDigest of an absent path is nil")
}
