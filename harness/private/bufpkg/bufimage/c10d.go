//go:build verif

package bufimage

import (
	"context"

	"github.com/bufbuild/buf/private/bufpkg/bufmodule"
	"github.com/bufbuild/buf/private/bufpkg/bufparse"
	"github.com/bufbuild/buf/private/gen/data/datawkt"
	"github.com/bufbuild/buf/private/pkg/slogext"
	"github.com/bufbuild/buf/private/pkg/storage/storagemem"
	"github.com/bufbuild/protocompile/linker"
	"github.com/google/uuid"
	"google.golang.org/protobuf/types/descriptorpb"
)

// ---- C10-D (grpF): ls-files (ImageFileInfosWithOnlyTargetsAndTargetImports) lists exactly the files that build
// (getImage) puts into the image, on the same nondet import graph. ----

const vfWKTPath = "google/protobuf/any.proto"

// vfWKTChainPath is a built-in well-known type that itself imports other well-known types
// (api.proto -> source_context.proto, type.proto; type.proto -> any.proto, source_context.proto).
const vfWKTChainPath = "google/protobuf/api.proto"

// vfWKTClosure: the well-known type path and every well-known type it transitively imports, according to the real
// datawkt import table.
func vfWKTClosure(path string, into map[string]struct{}) {
	if _, ok := into[path]; ok {
		return
	}
	into[path] = struct{}{}
	imports, _ := datawkt.FileImports(path)
	for _, imp := range imports {
		vfWKTClosure(imp, into)
	}
}

// vfWKTStub: a stub compiler result for a built-in well-known type, with its built-in imports.
func vfWKTStub(path string, built map[string]*vfFile) *vfFile {
	if f, ok := built[path]; ok {
		return f
	}
	name := path
	f := &vfFile{idx: -1, path: path, fdp: &descriptorpb.FileDescriptorProto{Name: &name}}
	built[path] = f
	imports, _ := datawkt.FileImports(path)
	for _, imp := range imports {
		f.deps = append(f.deps, vfWKTStub(imp, built))
		f.fdp.Dependency = append(f.fdp.Dependency, imp)
	}
	return f
}

func VerifLemma_C10D_LsFilesEqualsBuild() {
	ctx := context.Background()
	g := vfNondetGraph(verifParam("N"), 1, false, false)
	n := g.n
	// Optionally one file also imports a well-known type that the workspace does not provide.
	wktImporter := verifNondetChoice(n+1) - 1
	wktPath := vfWKTPath
	if wktImporter >= 0 {
		if verifNondetBool() {
			wktPath = vfWKTChainPath
		}
		name := wktPath
		f := g.files[wktImporter]
		f.deps = append(f.deps, vfWKTStub(name, map[string]*vfFile{}))
		f.fdp.Dependency = append(f.fdp.Dependency, name)
	}
	isTarget := [vfMax]bool{}
	nTargets := 0
	var compiled linker.Files
	for i := 0; i < n; i++ {
		if verifNondetBool() {
			isTarget[i] = true
			nTargets++
			compiled = append(compiled, g.files[i])
		}
	}
	verifAssume(nTargets > 0)
	// ls-files side: every file of the (self-contained) workspace as an ImageFileInfo, imports flagged.
	var infos []ImageFileInfo
	for i := 0; i < n; i++ {
		name := g.names[i]
		file, err := NewImageFile(
			&descriptorpb.FileDescriptorProto{Name: &name, Dependency: g.files[i].fdp.Dependency},
			nil, uuid.Nil, "", "", !isTarget[i], false, nil,
		)
		verifAssert(err == nil, "image file is valid")
		infos = append(infos, file)
	}
	verifCover("inputs built")
	listed, err := ImageFileInfosWithOnlyTargetsAndTargetImports(ctx, datawkt.ReadBucket, infos)
	verifAssert(err == nil, "ls-files closure succeeds on a self-contained workspace")
	if err != nil {
		return
	}
	image, err := getImage(ctx, false, compiled, nil, newParserAccessorHandler(ctx, nil), map[string]struct{}{}, map[string]map[string]struct{}{})
	verifAssert(err == nil && image != nil, "getImage succeeds")
	if err != nil {
		return
	}
	verifCover("both built")
	built := image.Files()
	verifAssert(len(listed) == len(built), "ls-files lists as many files as build puts in the image")
	for _, info := range listed {
		imageFile := image.GetFile(info.Path())
		verifAssert(imageFile != nil, "every listed file is in the image")
		if imageFile != nil {
			verifAssert(imageFile.IsImport() == info.IsImport(), "listed import flag equals the image's")
		}
	}
	for k := 0; k+1 < len(listed); k++ {
		verifAssert(listed[k].Path() < listed[k+1].Path(), "ls-files result sorted by path, no duplicates")
	}
	if wktImporter >= 0 {
		reached := false
		for t := 0; t < n; t++ {
			if isTarget[t] && g.reach[t][wktImporter] {
				reached = true
			}
		}
		if reached {
			verifCover("well-known type import listed")
		}
		wktClosure := map[string]struct{}{}
		vfWKTClosure(wktPath, wktClosure)
		verifAssert(wktPath != vfWKTChainPath || len(wktClosure) >= 4, "the chained well-known type has transitive built-in imports")
		for path := range wktClosure {
			verifAssert((image.GetFile(path) != nil) == reached, "a well-known type is in the image iff a target reaches its importer")
			found := false
			for _, info := range listed {
				if info.Path() == path {
					found = true
				}
			}
			verifAssert(found == reached, "ls-files lists a (transitively) imported well-known type iff a target reaches its importer")
		}
	}
}

// ---- C10-F (grpF): workspace -> module set -> ls-files, through the real ModuleSetBuilder ----

func vfModName(i int) string {
	switch i {
	case 0:
		return "m0"
	case 1:
		return "m1"
	case 2:
		return "m2"
	}
	return "m3"
}

func vfModFile(i int) string { return vfModName(i) + "/a.proto" }

// VerifLemma_C10F_WorkspaceLsFiles: 1..N local modules added to the real ModuleSetBuilder (in-memory buckets with
// generated sources; module i owns <mi>/a.proto importing any subset of the other modules' files and optionally a
// well-known type), every non-empty subset of target modules; module 0 is named and a remote module with the same
// name is also added (pinned in buf.lock) as a non-target. Then, as `buf ls-files --include-imports` does:
//   - the local module wins over the same-named pinned one (no provider is asked), one module per OpaqueID
//   - target file infos of the union bucket are exactly the files of target modules
//   - ls-files lists exactly the target modules' files (non-import) plus their transitive imports (import), files of
//     non-target modules never as non-import; sorted; the well-known type only when reached.
func VerifLemma_C10F_WorkspaceLsFiles() {
	ctx := context.Background()
	n := verifNondetChoice(verifParam("N")) + 1
	adj := [vfMax][vfMax]bool{}
	for i := 0; i < n; i++ {
		for j := 0; j < n; j++ {
			if i != j && verifNondetBool() {
				adj[i][j] = true
			}
		}
	}
	wktImporter := verifNondetChoice(n+1) - 1
	wktPath := vfWKTPath
	if wktImporter >= 0 && verifNondetBool() {
		wktPath = vfWKTChainPath
	}
	isTarget := [vfMax]bool{}
	nTargets := 0
	for i := 0; i < n; i++ {
		if verifNondetBool() {
			isTarget[i] = true
			nTargets++
		}
	}
	verifAssume(nTargets > 0)
	remoteFirst := verifNondetBool()
	fullName, err := bufparse.NewFullName("buf.build", "acme", "m0")
	verifAssert(err == nil, "full name")
	remoteKey, err := bufmodule.NewModuleKey(fullName, uuid.UUID{9}, func() (bufmodule.Digest, error) { return nil, nil })
	verifAssert(err == nil, "module key")
	builder := bufmodule.NewModuleSetBuilder(ctx, slogext.NopLogger, bufmodule.NopModuleDataProvider, bufmodule.NopCommitProvider)
	if remoteFirst {
		builder.AddRemoteModule(remoteKey, false)
	}
	for i := 0; i < n; i++ {
		src := "syntax = \"proto3\";\npackage " + vfModName(i) + ";\n"
		if i == wktImporter {
			src += "import \"" + wktPath + "\";\n"
		}
		for j := 0; j < n; j++ {
			if adj[i][j] {
				src += "import \"" + vfModFile(j) + "\";\n"
			}
		}
		bucket, err := storagemem.NewReadBucket(map[string][]byte{
			vfModFile(i): []byte(src),
			"LICENSE":    []byte("license " + vfModName(i)),
		})
		verifAssert(err == nil, "memory bucket")
		if i == 0 {
			builder.AddLocalModule(bucket, vfModName(i), isTarget[i], bufmodule.LocalModuleWithFullName(fullName))
		} else {
			builder.AddLocalModule(bucket, vfModName(i), isTarget[i])
		}
	}
	if !remoteFirst {
		builder.AddRemoteModule(remoteKey, false)
	}
	moduleSet, err := builder.Build()
	verifAssert(err == nil && moduleSet != nil, "workspace builds")
	if err != nil {
		return
	}
	verifCover("module set built")
	modules := moduleSet.Modules()
	verifAssert(len(modules) == n, "one module per OpaqueID: the pinned duplicate is dropped")
	named := moduleSet.GetModuleForFullName(fullName)
	verifAssert(named != nil && named.IsLocal() && named.IsTarget() == isTarget[0], "the local module takes precedence over the same-named pinned one")

	readBucket := bufmodule.ModuleSetToModuleReadBucketWithOnlyProtoFiles(moduleSet)
	targetFileInfos, err := bufmodule.GetTargetFileInfos(ctx, readBucket)
	verifAssert(err == nil, "target files are listed")
	if err != nil {
		return
	}
	verifAssert(len(targetFileInfos) == nTargets, "one target file per target module")
	k := 0
	for i := 0; i < n; i++ {
		if isTarget[i] && k < len(targetFileInfos) {
			verifAssert(targetFileInfos[k].Path() == vfModFile(i), "target files are exactly the target modules' files, sorted")
			k++
		}
	}
	fileInfos, err := bufmodule.GetFileInfos(ctx, readBucket)
	verifAssert(err == nil && len(fileInfos) == n, "all .proto files are listed, LICENSE files are not")
	if err != nil {
		return
	}
	var infos []ImageFileInfo
	for _, fileInfo := range fileInfos {
		infos = append(infos, ImageFileInfoForModuleFileInfo(fileInfo))
	}
	listed, err := ImageFileInfosWithOnlyTargetsAndTargetImports(ctx, datawkt.ReadBucket, infos)
	verifAssert(err == nil, "ls-files closure succeeds")
	if err != nil {
		return
	}
	verifCover("listed")
	reach := adj
	for i := 0; i < n; i++ {
		reach[i][i] = true
	}
	for m := 0; m < n; m++ {
		for i := 0; i < n; i++ {
			for j := 0; j < n; j++ {
				if reach[i][m] && reach[m][j] {
					reach[i][j] = true
				}
			}
		}
	}
	wantCount := 0
	for j := 0; j < n; j++ {
		want := false
		for t := 0; t < n; t++ {
			if isTarget[t] && reach[t][j] {
				want = true
			}
		}
		found := 0
		for _, info := range listed {
			if info.Path() == vfModFile(j) {
				found++
				verifAssert(info.IsImport() == !isTarget[j], "files of non-target modules are listed only as imports")
			}
		}
		if want {
			wantCount++
			verifAssert(found == 1, "a file reached from a target is listed once")
		} else {
			verifAssert(found == 0, "a file not reached from any target is not listed")
		}
	}
	wktReached := false
	if wktImporter >= 0 {
		for t := 0; t < n; t++ {
			if isTarget[t] && reach[t][wktImporter] {
				wktReached = true
			}
		}
	}
	wktClosure := map[string]struct{}{}
	vfWKTClosure(wktPath, wktClosure)
	for path := range wktClosure {
		wktFound := 0
		for _, info := range listed {
			if info.Path() == path {
				wktFound++
				verifAssert(info.IsImport(), "the well-known type is an import")
			}
		}
		if wktReached {
			wantCount++
			verifCover("well-known type listed")
			verifAssert(wktFound == 1, "a (transitively) imported well-known type is listed once")
		} else {
			verifAssert(wktFound == 0, "an unreached well-known type is not listed")
		}
	}
	verifAssert(len(listed) == wantCount, "nothing else is listed")
	for i := 0; i+1 < len(listed); i++ {
		verifAssert(listed[i].Path() < listed[i+1].Path(), "ls-files result sorted by path")
	}
}
