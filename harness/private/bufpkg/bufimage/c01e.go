//go:build verif

package bufimage

import (
	"context"
	"errors"
	"io"
	"io/fs"

	"github.com/bufbuild/buf/private/bufpkg/bufmodule"
	"github.com/bufbuild/buf/private/bufpkg/bufparse"
	"github.com/bufbuild/buf/private/gen/data/datawkt"
	"github.com/bufbuild/buf/private/pkg/slogext"
	"github.com/bufbuild/buf/private/pkg/storage/storagemem"
	"github.com/google/uuid"
)

// ---- C01-E (grpF): the compiler's file accessor: workspace files first, built-in well-known types otherwise ----

func vfReadAll(readCloser io.ReadCloser) string {
	data, err := io.ReadAll(readCloser)
	verifAssert(err == nil, "source is readable")
	verifAssert(readCloser.Close() == nil, "source closes")
	return string(data)
}

// VerifLemma_C01E_ParserAccessor: a real module set (ModuleSetBuilder, storagemem buckets) of two local modules;
// module m0 (named, with a commit, nondet) has m0/a.proto, module m1 has m1/a.proto and (nondet) its own copy of
// google/protobuf/any.proto. parserAccessorHandler.Open, as used by the compiler:
//   - a workspace file: its own source text; owner module name/commit recorded for the image file
//   - a well-known type the workspace does not supply: the built-in copy, external path = path, no owner
//   - a well-known type the workspace supplies: the workspace's copy with its owner
//   - anything else: fs.ErrNotExist
func VerifLemma_C01E_ParserAccessor() {
	ctx := context.Background()
	named := verifNondetBool()
	suppliesWKT := verifNondetBool()
	fullName, err := bufparse.NewFullName("buf.build", "acme", "m0")
	verifAssert(err == nil, "full name")
	commitID := uuid.UUID{7}
	src0 := "syntax = \"proto3\";\npackage m0;\n"
	src1 := "syntax = \"proto3\";\npackage m1;\nimport \"google/protobuf/any.proto\";\n"
	ownAny := "syntax = \"proto3\";\npackage google.protobuf;\nmessage Any { string workspace_copy = 1; }\n"
	bucket0, err := storagemem.NewReadBucket(map[string][]byte{"m0/a.proto": []byte(src0), "LICENSE": []byte("l0")})
	verifAssert(err == nil, "bucket 0")
	data1 := map[string][]byte{"m1/a.proto": []byte(src1)}
	if suppliesWKT {
		data1[vfWKTPath] = []byte(ownAny)
	}
	bucket1, err := storagemem.NewReadBucket(data1)
	verifAssert(err == nil, "bucket 1")
	builder := bufmodule.NewModuleSetBuilder(ctx, slogext.NopLogger, bufmodule.NopModuleDataProvider, bufmodule.NopCommitProvider)
	if named {
		builder.AddLocalModule(bucket0, "m0", true, bufmodule.LocalModuleWithFullNameAndCommitID(fullName, commitID))
	} else {
		builder.AddLocalModule(bucket0, "m0", true)
	}
	builder.AddLocalModule(bucket1, "m1", verifNondetBool())
	moduleSet, err := builder.Build()
	verifAssert(err == nil && moduleSet != nil, "workspace builds")
	if err != nil {
		return
	}
	moduleReadBucket := bufmodule.ModuleReadBucketWithOnlyProtoFiles(bufmodule.ModuleSetToModuleReadBucketWithOnlyProtoFiles(moduleSet))
	handler := newParserAccessorHandler(ctx, moduleReadBucket)
	verifCover("handler built")

	// workspace file of the (possibly named) module
	rc, err := handler.Open("m0/a.proto")
	verifAssert(err == nil && rc != nil, "workspace file opens")
	if err != nil {
		return
	}
	verifAssert(vfReadAll(rc) == src0, "workspace file has its own source")
	verifAssert(handler.ExternalPath("m0/a.proto") == "m0/a.proto", "external path of a memory bucket file is its path")
	if named {
		gotName := handler.FullName("m0/a.proto")
		verifAssert(gotName != nil && gotName.String() == "buf.build/acme/m0", "owner module name recorded")
		verifAssert(handler.CommitID("m0/a.proto") == commitID, "owner commit recorded")
	} else {
		verifAssert(handler.FullName("m0/a.proto") == nil && handler.CommitID("m0/a.proto") == uuid.Nil, "unnamed module records no owner")
	}

	// the well-known type
	rc, err = handler.Open(vfWKTPath)
	verifAssert(err == nil && rc != nil, "well-known type opens")
	if err != nil {
		return
	}
	got := vfReadAll(rc)
	if suppliesWKT {
		verifCover("workspace supplies the well-known type")
		verifAssert(got == ownAny, "the workspace's copy of a well-known type wins")
	} else {
		verifCover("built-in well-known type")
		builtin, err := datawkt.ReadBucket.Get(ctx, vfWKTPath)
		verifAssert(err == nil, "built-in copy exists")
		if err != nil {
			return
		}
		verifAssert(got == vfReadAll(builtin), "an unsupplied well-known type resolves to the built-in copy")
		verifAssert(handler.ExternalPath(vfWKTPath) == vfWKTPath, "built-in external path is the path")
		verifAssert(handler.FullName(vfWKTPath) == nil && handler.CommitID(vfWKTPath) == uuid.Nil && handler.LocalPath(vfWKTPath) == "", "built-in file has no owner and no local path")
	}

	// a well-known type nobody overrides, a license (filtered: only .proto), and an absent path
	rc, err = handler.Open("google/protobuf/timestamp.proto")
	verifAssert(err == nil && rc != nil, "another well-known type opens")
	if err == nil {
		verifAssert(len(vfReadAll(rc)) > 0, "built-in source is not empty")
	}
	_, err = handler.Open("zz/none.proto")
	verifAssert(err != nil && errors.Is(err, fs.ErrNotExist), "an unprovided path does not exist")
	// every path "<two symbolic lower-case letters or digits>/a.proto": provided iff it is one of the two module files
	prefix := verifNondetStringN(2)
	for i := 0; i < len(prefix); i++ {
		c := prefix[i]
		verifAssume((c >= 'a' && c <= 'z') || (c >= '0' && c <= '9'))
	}
	symbolicPath := prefix + "/a.proto"
	rc, err = handler.Open(symbolicPath)
	provided := symbolicPath == "m0/a.proto" || symbolicPath == "m1/a.proto"
	verifAssert((err == nil) == provided, "exactly the workspace's files are provided under <xx>/a.proto")
	if err != nil {
		verifAssert(errors.Is(err, fs.ErrNotExist), "an unprovided path is reported as not existing")
	} else if symbolicPath == "m1/a.proto" {
		verifCover("symbolic path hits m1")
		verifAssert(vfReadAll(rc) == src1, "the file of m1 has its own source")
	}
	_, err = handler.Open("LICENSE")
	verifAssert(err != nil && errors.Is(err, fs.ErrNotExist), "non-.proto files are not visible to the compiler")
}
