//go:build verif

package internal

import (
	"github.com/bufbuild/buf/private/bufpkg/bufimage"
	"google.golang.org/protobuf/types/descriptorpb"
)

type (
	iImageFile = bufimage.ImageFile
	iImage     = bufimage.Image
)

type vSweepFile struct {
	iImageFile
	fdp *descriptorpb.FileDescriptorProto
}

func (f *vSweepFile) Path() string                                          { return f.fdp.GetName() }
func (f *vSweepFile) FileDescriptorProto() *descriptorpb.FileDescriptorProto { return f.fdp }

type vSweepImage struct {
	iImage
	files []bufimage.ImageFile
}

func (i *vSweepImage) Files() []bufimage.ImageFile { return i.files }

// VerifLemma_C18D_SweepImage: markSweeper.Mark + Sweep over an image of F files in any rotation, where a nondet
// subset of the files has no SourceCodeInfo and options are marked on any subset of the files (also on files without
// source info). Every file WITH source info is swept exactly as the single-file rule says (marked file option + its
// [8] parent, marked field option + its emptied FieldOptions parent; everything else survives in order), independent
// of the other files and of the file order; files without source info stay without.
func VerifLemma_C18D_SweepImage() {
	nFiles := verifParam("F")
	names := []string{"a.proto", "b/b.proto", "c.proto"}
	nn := func() int32 { return verifNondetInt32(0, 0x7fffffff) }
	x, a, b, c := nn(), nn(), nn(), nn()
	type rec struct {
		f                                    *vSweepFile
		hasInfo, markFileOpt, markFieldOpt   bool
		lPkg, lParent, lOpt, lFld, lRoot, lFO *descriptorpb.SourceCodeInfo_Location
	}
	recs := make([]*rec, nFiles)
	for i := range recs {
		name := names[i]
		r := &rec{f: &vSweepFile{fdp: &descriptorpb.FileDescriptorProto{Name: &name}}}
		r.hasInfo = verifNondetBool()
		r.markFileOpt = verifNondetBool()
		r.markFieldOpt = verifNondetBool()
		if r.hasInfo {
			r.lPkg = &descriptorpb.SourceCodeInfo_Location{Path: []int32{2}}
			r.lParent = &descriptorpb.SourceCodeInfo_Location{Path: []int32{8}}
			r.lOpt = &descriptorpb.SourceCodeInfo_Location{Path: []int32{8, x}}
			r.lFld = &descriptorpb.SourceCodeInfo_Location{Path: []int32{4, a, 2, b}}
			r.lRoot = &descriptorpb.SourceCodeInfo_Location{Path: []int32{4, a, 2, b, 8}}
			r.lFO = &descriptorpb.SourceCodeInfo_Location{Path: []int32{4, a, 2, b, 8, c}}
			r.f.fdp.SourceCodeInfo = &descriptorpb.SourceCodeInfo{Location: []*descriptorpb.SourceCodeInfo_Location{
				r.lPkg, r.lParent, r.lOpt, r.lFld, r.lRoot, r.lFO}}
		}
		recs[i] = r
	}
	// file order: any rotation
	rot := verifNondetChoice(nFiles)
	files := make([]bufimage.ImageFile, nFiles)
	for i := range recs {
		files[i] = recs[(i+rot)%nFiles].f
	}
	sweeper := newMarkSweeper(&vSweepImage{files: files})
	// marks are made in file order of recs (independent of the image order)
	for _, r := range recs {
		if r.markFileOpt {
			sweeper.Mark(r.f, []int32{8, x})
		}
		if r.markFieldOpt {
			sweeper.Mark(r.f, []int32{4, a, 2, b, 8, c})
		}
	}
	err := sweeper.Sweep()
	verifCover("swept")
	verifAssert(err == nil, "Sweep succeeds on well-formed source info")
	for _, r := range recs {
		if !r.hasInfo {
			verifAssert(r.f.fdp.SourceCodeInfo == nil, "a file without source info stays without")
			continue
		}
		want := []*descriptorpb.SourceCodeInfo_Location{r.lPkg}
		if !r.markFileOpt {
			want = append(want, r.lParent, r.lOpt)
		}
		want = append(want, r.lFld)
		if !r.markFieldOpt {
			want = append(want, r.lRoot, r.lFO)
		}
		got := r.f.fdp.SourceCodeInfo.Location
		verifAssert(len(got) == len(want), "each file with source info loses exactly its own marked options (+ parents)")
		for k := range want {
			verifAssert(k < len(got) && vPathEq(got[k].Path, want[k].Path), "survivors of each file are untouched and in order")
		}
		if r.markFileOpt || r.markFieldOpt {
			verifCover("a file is swept")
		}
	}
}
