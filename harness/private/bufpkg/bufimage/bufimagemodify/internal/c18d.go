//go:build verif

package internal

import (
	"google.golang.org/protobuf/types/descriptorpb"
)

// ---------- nondet helpers ----------

// vNondetPath returns an int32 path of nondet length 0..maxLen with symbolic non-negative elements.
func vNondetPath(maxLen int) []int32 {
	n := verifNondetChoice(maxLen + 1)
	p := make([]int32, n)
	for i := range p {
		p[i] = verifNondetInt32(0, 0x7fffffff)
	}
	return p
}

func vPathEq(a, b []int32) bool {
	if len(a) != len(b) {
		return false
	}
	for i := range a {
		if a[i] != b[i] {
			return false
		}
	}
	return true
}

// vIsProperPrefix: a is a proper prefix of b.
func vIsProperPrefix(a, b []int32) bool {
	if len(a) >= len(b) {
		return false
	}
	for i := range a {
		if a[i] != b[i] {
			return false
		}
	}
	return true
}

// ---------- reference grammar of location paths (descriptor.proto tags) ----------
//
//	fieldPath   := 7 idx                      (file-level extension)
//	             | 4 idx (3 idx)* (2|6) idx   (message, nested messages, field or message-level extension)
//	optionsRoot := fieldPath 8
//	option      := optionsRoot elem+
func refPathType(p []int32) pathType {
	i := 0
	if len(p) == 0 {
		return pathTypeNotFieldOption
	}
	if p[0] == 7 {
		i = 1
	} else if p[0] == 4 {
		i = 1
		for {
			if i >= len(p) { // message index expected
				return pathTypeNotFieldOption
			}
			i++
			if i >= len(p) { // a message
				return pathTypeNotFieldOption
			}
			if p[i] == 3 {
				i++
				continue
			}
			if p[i] == 2 || p[i] == 6 {
				i++
				break
			}
			return pathTypeNotFieldOption
		}
	} else {
		return pathTypeNotFieldOption
	}
	if i >= len(p) { // field index expected
		return pathTypeNotFieldOption
	}
	i++
	if i >= len(p) { // a field
		return pathTypeNotFieldOption
	}
	if p[i] != 8 {
		return pathTypeNotFieldOption
	}
	i++
	if i == len(p) {
		return pathTypeFieldOptionsRoot
	}
	return pathTypeFieldOption
}

// VerifLemma_C18D_PathType: getPathType (the DFA) == the reference grammar for every int32 path of length 0..L.
func VerifLemma_C18D_PathType() {
	p := vNondetPath(verifParam("L"))
	got := getPathType(p)
	verifCover("classified")
	verifAssert(got == refPathType(p), "getPathType agrees with the reference grammar")
	if got == pathTypeFieldOptionsRoot {
		verifCover("root")
	}
	if got == pathTypeFieldOption {
		verifCover("option")
		// an option path has exactly one options-root prefix
		n := 0
		for k := 1; k < len(p); k++ {
			if getPathType(p[:k]) == pathTypeFieldOptionsRoot {
				n++
			}
		}
		verifAssert(n == 1, "a field option path has exactly one FieldOptions prefix")
	}
}

// VerifLemma_C18D_PathKey: getPathKey is injective (also across lengths) and isPathForFileOption is exactly {8, x}.
func VerifLemma_C18D_PathKey() {
	l := verifParam("L")
	p := vNondetPath(l)
	q := vNondetPath(l)
	// full int32 range for the key (the sign bit must not collide either)
	for i := range p {
		p[i] = verifNondetInt32(-0x80000000, 0x7fffffff)
	}
	for i := range q {
		q[i] = verifNondetInt32(-0x80000000, 0x7fffffff)
	}
	kp, kq := getPathKey(p), getPathKey(q)
	verifCover("keys computed")
	verifAssert((kp == kq) == vPathEq(p, q), "getPathKey(p) == getPathKey(q) <=> p == q")
	verifAssert(isPathForFileOption(p) == (len(p) == 2 && p[0] == 8), "isPathForFileOption <=> {8, x}")
}

// ---------- fieldOptionsTrie vs a list model ----------

// VerifLemma_C18D_Trie: after inserting K paths (location index = insertion position) and registering D
// descendants, indicesWithoutDescendant returns exactly the indices of the distinct inserted paths (last
// insertion wins for a repeated path) for which no registered descendant has that path as its SHORTEST inserted
// proper prefix; no index twice.
func VerifLemma_C18D_Trie() {
	k, d, l := verifParam("K"), verifParam("D"), verifParam("L")
	ins := make([][]int32, k)
	for i := range ins {
		n := 1 + verifNondetChoice(l)
		ins[i] = make([]int32, n)
		for j := range ins[i] {
			ins[i][j] = verifNondetInt32(0, 0x7fffffff)
		}
	}
	desc := make([][]int32, d)
	for i := range desc {
		desc[i] = vNondetPath(l + 1)
	}
	// Domain of the caller: FieldOptions paths are pairwise distinct and never prefixes of one another (a
	// FieldOptions path ends the location grammar: C18-D.path-type). Outside it the trie's behaviour (which duplicate
	// wins, which of two nested roots owns a descendant) is representation, not contract.
	for i := range ins {
		for j := range ins {
			if i != j {
				verifAssume(!vPathEq(ins[i], ins[j]) && !vIsProperPrefix(ins[i], ins[j]))
			}
		}
	}
	var trie fieldOptionsTrie
	for i, p := range ins {
		trie.insert(p, i)
	}
	for _, p := range desc {
		trie.registerDescendant(p)
	}
	got := trie.indicesWithoutDescendant()
	verifCover("trie built")

	// list model
	count := make([]int, k)
	for _, dp := range desc {
		for plen := 1; plen < len(dp); plen++ {
			hit := -1
			for i := range ins {
				if len(ins[i]) == plen && vIsProperPrefix(ins[i], dp) {
					hit = i // the last insertion of that path owns the node
				}
			}
			if hit >= 0 {
				// all insertions of the same path share the node
				for i := range ins {
					if vPathEq(ins[i], ins[hit]) {
						count[i]++
					}
				}
				break
			}
		}
	}
	for i := range ins {
		last := true
		for j := i + 1; j < k; j++ {
			if vPathEq(ins[i], ins[j]) {
				last = false
			}
		}
		want := last && count[i] == 0
		n := 0
		for _, g := range got {
			if g == i {
				n++
			}
		}
		if want {
			verifAssert(n == 1, "index of a childless inserted path is returned exactly once")
		} else {
			verifAssert(n == 0, "index of a path with a registered descendant (or overwritten) is not returned")
		}
	}
	for _, g := range got {
		verifAssert(g >= 0 && g < k, "only inserted indices are returned")
	}
}

// ---------- removeLocationsFromSourceCodeInfo ----------

func vMarked(paths [][]int32, p []int32) bool {
	for _, m := range paths {
		if vPathEq(m, p) {
			return true
		}
	}
	return false
}

// vCheckSweep runs the real removeLocationsFromSourceCodeInfo on locs with the marked paths and compares with the
// documented behaviour. Preconditions (well-formed SourceCodeInfo, as produced by the compilers): every
// FieldOptions location precedes the locations of its options, and FieldOptions paths are pairwise distinct.
func vCheckSweep(paths [][]int32, marked [][]int32) {
	n := len(paths)
	for i := 0; i < n; i++ {
		if refPathType(paths[i]) != pathTypeFieldOptionsRoot {
			continue
		}
		for j := 0; j < n; j++ {
			if j != i {
				verifAssume(!vPathEq(paths[i], paths[j]))
			}
			if j < i {
				verifAssume(!vIsProperPrefix(paths[i], paths[j]))
			}
		}
	}
	locs := make([]*descriptorpb.SourceCodeInfo_Location, n)
	for i := range locs {
		locs[i] = &descriptorpb.SourceCodeInfo_Location{Path: paths[i]}
	}
	info := &descriptorpb.SourceCodeInfo{Location: locs}
	toRemove := make(map[string]struct{})
	for _, m := range marked {
		toRemove[getPathKey(m)] = struct{}{}
	}
	err := removeLocationsFromSourceCodeInfo(info, toRemove)
	verifCover("swept")

	// reference
	wantErr := false
	remove := make([]bool, n)
	for i := 0; i < n && !wantErr; i++ {
		if !vMarked(marked, paths[i]) {
			continue
		}
		if i == 0 {
			wantErr = true
		} else if len(paths[i]) == 2 && paths[i][0] == 8 {
			if len(paths[i-1]) == 1 && paths[i-1][0] == 8 {
				remove[i-1] = true
				remove[i] = true
			} else {
				wantErr = true
			}
		} else if refPathType(paths[i]) == pathTypeFieldOption {
			remove[i] = true
		} else {
			wantErr = true
		}
	}
	if wantErr {
		verifCover("error case")
		// Malformed input (a marked path that is the first location, a file option without its [8] parent, a marked
		// path that is no option at all): the function's doc only says each path "must be" an option path. Whether it
		// rejects or tolerates such input, and what the source info looks like after an error, is not part of C18.
		return
	}
	verifAssert(err == nil, "well-formed marked paths are swept without error")
	for i := 0; i < n; i++ {
		if refPathType(paths[i]) != pathTypeFieldOptionsRoot {
			continue
		}
		hasChild := false
		for j := 0; j < n; j++ {
			if !vMarked(marked, paths[j]) && vIsProperPrefix(paths[i], paths[j]) {
				hasChild = true
			}
		}
		if !hasChild {
			remove[i] = true
		}
	}
	// survivors are exactly the non-removed locations, same objects, same order
	k := 0
	for i := 0; i < n; i++ {
		if remove[i] {
			verifCover("a location is removed")
			continue
		}
		verifAssert(k < len(info.Location) && vPathEq(info.Location[k].Path, paths[i]), "every other location survives, in order, untouched")
		k++
	}
	verifAssert(k == len(info.Location), "exactly the marked options (+ emptied parents) are removed")
}

// VerifLemma_C18D_SweepSymbolic: N locations with fully symbolic paths (length 0..L), M marked symbolic paths.
func VerifLemma_C18D_SweepSymbolic() {
	n, l, m := verifParam("N"), verifParam("L"), verifParam("M")
	paths := make([][]int32, n)
	for i := range paths {
		paths[i] = vNondetPath(l)
	}
	marked := make([][]int32, m)
	for i := range marked {
		marked[i] = vNondetPath(l)
	}
	vCheckSweep(paths, marked)
}

// VerifLemma_C18D_SweepShapes: N locations, each one of 8 (+2 with EXT) shapes over shared symbolic indexes
// (message a, fields b1/b2, option tags own), in any order (so the error cases and the parent-before-child
// precondition matter); any subset of the locations' paths is marked (also non-option paths: error cases).
func VerifLemma_C18D_SweepShapes() {
	n := verifParam("N")
	shapes := 8
	if verifParam("EXT") > 0 {
		shapes = 10
	}
	nn := func() int32 { return verifNondetInt32(0, 0x7fffffff) }
	a, b1, b2 := nn(), nn(), nn()
	paths := make([][]int32, n)
	var marked [][]int32
	for i := range paths {
		switch verifNondetChoice(shapes) {
		case 0:
			paths[i] = []int32{8}
		case 1:
			paths[i] = []int32{8, nn()}
		case 2:
			paths[i] = []int32{4, a, 2, b1}
		case 3:
			paths[i] = []int32{4, a, 2, b1, 8}
		case 4:
			paths[i] = []int32{4, a, 2, b2, 8}
		case 5:
			paths[i] = []int32{4, a, 2, b1, 8, nn()}
		case 6:
			paths[i] = []int32{4, a, 2, b2, 8, nn()}
		case 7:
			paths[i] = []int32{nn(), nn()}
		case 8:
			paths[i] = []int32{7, b1, 8}
		case 9:
			paths[i] = []int32{7, b1, 8, nn(), nn()}
		}
		if verifNondetBool() {
			marked = append(marked, paths[i])
		}
	}
	vCheckSweep(paths, marked)
}

// VerifLemma_C18D_SweepLayout: a realistic layout with symbolic tags and indexes:
//
//	[8] [8,x] [8] [8,y]   [4,a,2,b,8] [4,a,2,b,8,c] [4,a,2,b,8,d..]   [4,a,2,e] [4,a,2,e,8] [4,a,2,e,8,f]
//
// where any subset of the five option locations is marked.
func VerifLemma_C18D_SweepLayout() {
	nn := func() int32 { return verifNondetInt32(0, 0x7fffffff) }
	x, y, a, b, c, d, e, f := nn(), nn(), nn(), nn(), nn(), nn(), nn(), nn()
	verifAssume(b != e)
	verifAssume(c != d)
	paths := [][]int32{
		{8}, {8, x}, {8}, {8, y},
		{4, a, 2, b, 8}, {4, a, 2, b, 8, c}, {4, a, 2, b, 8, d, 1},
		{4, a, 2, e}, {4, a, 2, e, 8}, {4, a, 2, e, 8, f},
	}
	var marked [][]int32
	for _, i := range []int{1, 3, 5, 6, 9} {
		if verifNondetBool() {
			marked = append(marked, paths[i])
		}
	}
	vCheckSweep(paths, marked)
}
