//go:build verif

package bufimagemodify

import (
	"github.com/bufbuild/buf/private/bufpkg/bufconfig"
	"google.golang.org/protobuf/types/descriptorpb"
)

var vJSTypeNames = []string{"JS_NORMAL", "JS_STRING", "JS_NUMBER"}

type vFieldRec struct {
	fd       *descriptorpb.FieldDescriptorProto
	fullName string
	path     []int32
	oldOpts  *descriptorpb.FieldOptions
	oldJS    *descriptorpb.FieldOptions_JSType
	oldJSVal descriptorpb.FieldOptions_JSType
}

func refIs64BitInt(t descriptorpb.FieldDescriptorProto_Type) bool {
	// int64 = 3, uint64 = 4, fixed64 = 6, sfixed64 = 16, sint64 = 18 (descriptor.proto)
	return t == 3 || t == 4 || t == 6 || t == 16 || t == 18
}

// VerifLemma_C18E_JSType: modifyJsType sets jstype exactly on the 64-bit integer fields that are covered by a
// jstype override (file-wide or by field name, last one wins) and not exempted by a disable rule (whole file or by
// field name), not on fields whose option is preserved or already equal; it marks exactly the path of each field it
// rewrote (+[8,6]); everything else in the file is untouched.
func VerifLemma_C18E_JSType() {
	f := vFixedFile("pk")
	t0 := descriptorpb.FieldDescriptorProto_Type(verifNondetInt32(1, 18))
	t1 := descriptorpb.FieldDescriptorProto_TYPE_INT64
	t2 := descriptorpb.FieldDescriptorProto_TYPE_UINT64
	t3 := descriptorpb.FieldDescriptorProto_TYPE_SFIXED64
	fld0 := &descriptorpb.FieldDescriptorProto{Name: vStrPtr("x"), Type: &t0}
	fld1 := &descriptorpb.FieldDescriptorProto{Name: vStrPtr("y"), Type: &t1}
	fld2 := &descriptorpb.FieldDescriptorProto{Name: vStrPtr("z"), Type: &t2}
	ext0 := &descriptorpb.FieldDescriptorProto{Name: vStrPtr("e"), Type: &t3, Extendee: vStrPtr(".pk.M")}
	// pre-set jstype on y: none | empty FieldOptions | a symbolic jstype
	switch verifNondetChoice(3) {
	case 1:
		fld1.Options = &descriptorpb.FieldOptions{}
	case 2:
		js := descriptorpb.FieldOptions_JSType(verifNondetInt32(0, 2))
		fld1.Options = &descriptorpb.FieldOptions{Jstype: &js}
	}
	nested := &descriptorpb.DescriptorProto{Name: vStrPtr("N"), Field: []*descriptorpb.FieldDescriptorProto{fld2}}
	msg := &descriptorpb.DescriptorProto{Name: vStrPtr("M"), Field: []*descriptorpb.FieldDescriptorProto{fld0, fld1}, NestedType: []*descriptorpb.DescriptorProto{nested}}
	f.fdp.MessageType = []*descriptorpb.DescriptorProto{msg}
	f.fdp.Extension = []*descriptorpb.FieldDescriptorProto{ext0}
	fields := []*vFieldRec{
		{fd: fld0, fullName: "pk.M.x", path: []int32{4, 0, 2, 0}},
		{fd: fld1, fullName: "pk.M.y", path: []int32{4, 0, 2, 1}},
		{fd: fld2, fullName: "pk.M.N.z", path: []int32{4, 0, 3, 0, 2, 0}},
		{fd: ext0, fullName: "pk.e", path: []int32{7, 0}},
	}
	for _, fr := range fields {
		fr.oldOpts = fr.fd.Options
		if fr.fd.Options != nil {
			fr.oldJS = fr.fd.Options.Jstype
			if fr.oldJS != nil {
				fr.oldJSVal = *fr.oldJS
			}
		}
	}
	names := []string{"", "pk.M.x", "pk.M.y", "pk.M.N.z"}

	var disables []bufconfig.ManagedDisableRule
	var drecs []vRule
	for i := 0; i < verifParam("D"); i++ {
		if !verifNondetBool() {
			continue
		}
		r := vRule{fieldName: names[verifNondetChoice(len(names))]}
		r.path, r.module = vWhere(verifParam("W"))
		switch verifNondetChoice(3) {
		case 1:
			r.fieldOption = bufconfig.FieldOptionJSType
		case 2:
			r.fileOption = bufconfig.FileOptionJavaPackage // a file-option rule: irrelevant for fields
		}
		rule, err := bufconfig.NewManagedDisableRule(r.path, r.module, r.fieldName, r.fileOption, r.fieldOption)
		verifAssume(err == nil)
		disables = append(disables, rule)
		drecs = append(drecs, r)
	}
	var overrides []bufconfig.ManagedOverrideRule
	var orecs []vRule
	for i := 0; i < verifParam("O"); i++ {
		if !verifNondetBool() {
			continue
		}
		r := vRule{fieldName: names[verifNondetChoice(len(names))], fieldOption: bufconfig.FieldOptionJSType}
		r.path, r.module = vWhere(verifParam("W"))
		k := verifNondetChoice(3)
		r.value = descriptorpb.FieldOptions_JSType(k)
		rule, err := bufconfig.NewManagedOverrideRuleForFieldOption(r.path, r.module, r.fieldName, bufconfig.FieldOptionJSType, vJSTypeNames[k])
		verifAssume(err == nil)
		overrides = append(overrides, rule)
		orecs = append(orecs, r)
	}
	// an override of a file option is irrelevant here
	if verifNondetBool() {
		rule, err := bufconfig.NewManagedOverrideRuleForFileOption("", "", bufconfig.FileOptionJavaPackage, "jp")
		verifAssume(err == nil)
		overrides = append(overrides, rule)
		orecs = append(orecs, vRule{fileOption: bufconfig.FileOptionJavaPackage, value: "jp"})
	}
	config := bufconfig.NewGenerateManagedConfig(true, disables, overrides)
	preserve := verifNondetBool()
	var opts []ModifyOption
	if preserve {
		opts = append(opts, ModifyPreserveExisting())
	}
	snap := vTakeSnap(f.fdp)
	sw := &vSweeper{}
	err := modifyJsType(sw, f, config, opts...)
	verifCover("modified")
	verifAssert(err == nil, "jstype: no error for a validated config")
	verifAssert(vFrameOK(snap, f.fdp) && vOptionsPresenceKept(snap, f.fdp) && vOtherOptionsOK(snap, f.fdp, bufconfig.FileOptionUnspecified), "jstype: file-level fields, messages, other field options and file options untouched")

	// reference
	fileOff := false
	for _, r := range drecs {
		applies := r.fieldOption == bufconfig.FieldOptionJSType || (r.fieldOption == bufconfig.FieldOptionUnspecified && r.fileOption == bufconfig.FileOptionUnspecified)
		if applies && r.fieldName == "" && refFileMatches(f, r.path, r.module) {
			fileOff = true
		}
	}
	nMarks := 0
	for _, fr := range fields {
		var want *descriptorpb.FieldOptions_JSType
		if !fileOff {
			off := false
			for _, r := range drecs {
				applies := r.fieldOption == bufconfig.FieldOptionJSType || (r.fieldOption == bufconfig.FieldOptionUnspecified && r.fileOption == bufconfig.FileOptionUnspecified)
				if applies && r.fieldName == fr.fullName && refFileMatches(f, r.path, r.module) {
					off = true
				}
			}
			if !off {
				for _, r := range orecs {
					if r.fieldOption == bufconfig.FieldOptionJSType && refFileMatches(f, r.path, r.module) && (r.fieldName == "" || r.fieldName == fr.fullName) {
						v := r.value.(descriptorpb.FieldOptions_JSType)
						want = &v
					}
				}
			}
		}
		rewrite := want != nil && refIs64BitInt(*fr.fd.Type) && !(preserve && fr.oldJS != nil) && !(fr.oldJS != nil && *fr.oldJS == *want)
		if rewrite {
			verifCover("a field is rewritten")
			verifAssert(fr.fd.Options != nil && fr.fd.Options.Jstype != nil && *fr.fd.Options.Jstype == *want, "jstype: eligible field gets the last matching override")
			nMarks++
			found := 0
			for k, p := range sw.paths {
				if len(p) == len(fr.path)+2 && vPathIs(p[:len(fr.path)], fr.path) && p[len(fr.path)] == 8 && p[len(fr.path)+1] == 6 && sw.files[k].Path() == "a/b.proto" {
					found++
				}
			}
			verifAssert(found >= 1, "jstype: the rewritten field's [..,8,6] path is marked")
		} else {
			// value equality: same presence of a FieldOptions message, same jstype presence and value
			nowJS := (*descriptorpb.FieldOptions_JSType)(nil)
			if fr.fd.Options != nil {
				nowJS = fr.fd.Options.Jstype
			}
			verifAssert((fr.fd.Options != nil) == (fr.oldOpts != nil) && (nowJS != nil) == (fr.oldJS != nil) && (nowJS == nil || *nowJS == fr.oldJSVal),
				"jstype: field not eligible / disabled / preserved / equal is untouched")
			// and none of its marks
			for k, p := range sw.paths {
				isMine := len(p) == len(fr.path)+2 && vPathIs(p[:len(fr.path)], fr.path) && sw.files[k].Path() == "a/b.proto"
				verifAssert(!isMine, "jstype: nothing is marked for a field that is not rewritten")
			}
		}
		verifAssert(fr.fd.Type != nil && fr.fd.Name != nil, "jstype: other field attributes untouched")
	}
	verifAssert(len(sw.paths) >= nMarks && (nMarks > 0 || len(sw.paths) == 0), "jstype: marks only for rewritten fields")
}
