//go:build verif

package bufimagemodify

import (
	"github.com/bufbuild/buf/private/bufpkg/bufconfig"
	"github.com/bufbuild/buf/private/bufpkg/bufimage"
	"github.com/bufbuild/buf/private/bufpkg/bufimage/bufimagemodify/internal"
	"google.golang.org/protobuf/types/descriptorpb"
)

type vModifyFunc func(internal.MarkSweeper, bufimage.ImageFile, bufconfig.GenerateManagedConfig, ...ModifyOption) error

// vNondetDisables builds <=nd disable rules through the real constructor. Each rule: file option unspecified |
// the target option | another option | (unspecified file option + field option jstype, which must NOT disable a
// file option); nondet path and module.
func vNondetDisables(nd int, target, other bufconfig.FileOption) ([]bufconfig.ManagedDisableRule, []vRule) {
	var rules []bufconfig.ManagedDisableRule
	var recs []vRule
	for i := 0; i < nd; i++ {
		if !verifNondetBool() {
			continue
		}
		r := vRule{}
		r.path, r.module = vRuleWhere()
		switch verifNondetChoice(4) {
		case 1:
			r.fileOption = target
		case 2:
			r.fileOption = other
		case 3:
			r.fieldOption = bufconfig.FieldOptionJSType
		}
		rule, err := bufconfig.NewManagedDisableRule(r.path, r.module, "", r.fileOption, r.fieldOption)
		// precondition: the rule is accepted by the config reader's validation (e.g. not entirely empty)
		verifAssume(err == nil)
		rules = append(rules, rule)
		recs = append(recs, r)
	}
	return rules, recs
}

type vBoolOption struct {
	opt, other bufconfig.FileOption
	def        bool
	get        func(*descriptorpb.FileOptions) bool
	ptr        func(*descriptorpb.FileOptions) *bool
	set        func(*descriptorpb.FileOptions, *bool)
	path       []int32
	modify     vModifyFunc
}

var vBoolOptions = []vBoolOption{
	{bufconfig.FileOptionCcEnableArenas, bufconfig.FileOptionJavaMultipleFiles, true,
		func(o *descriptorpb.FileOptions) bool { return o.GetCcEnableArenas() },
		func(o *descriptorpb.FileOptions) *bool { return o.CcEnableArenas },
		func(o *descriptorpb.FileOptions, v *bool) { o.CcEnableArenas = v }, []int32{8, 31}, modifyCcEnableArenas},
	{bufconfig.FileOptionJavaMultipleFiles, bufconfig.FileOptionCcEnableArenas, true,
		func(o *descriptorpb.FileOptions) bool { return o.GetJavaMultipleFiles() },
		func(o *descriptorpb.FileOptions) *bool { return o.JavaMultipleFiles },
		func(o *descriptorpb.FileOptions, v *bool) { o.JavaMultipleFiles = v }, []int32{8, 10}, modifyJavaMultipleFiles},
	{bufconfig.FileOptionJavaStringCheckUtf8, bufconfig.FileOptionCcEnableArenas, false,
		func(o *descriptorpb.FileOptions) bool { return o.GetJavaStringCheckUtf8() },
		func(o *descriptorpb.FileOptions) *bool { return o.JavaStringCheckUtf8 },
		func(o *descriptorpb.FileOptions, v *bool) { o.JavaStringCheckUtf8 = v }, []int32{8, 27}, modifyJavaStringCheckUtf8},
}

func vPathIs(p []int32, want []int32) bool {
	if len(p) != len(want) {
		return false
	}
	for i := range p {
		if p[i] != want[i] {
			return false
		}
	}
	return true
}

// VerifLemma_C18A_BoolOptions: cc_enable_arenas / java_multiple_files / java_string_check_utf8.
//
//	result = preserved-existing or disabled ? untouched : (last matching override ?? default)
//
// the option's source path is marked iff the value changed; every other field and option of the descriptor is
// pointer-equal to before (frame, C18-C).
func VerifLemma_C18A_BoolOptions() {
	bo := vBoolOptions[verifNondetChoice(len(vBoolOptions))]
	f := vFixedFile("")
	// pre-state of the option
	switch verifNondetChoice(3) {
	case 1:
		f.fdp.Options = &descriptorpb.FileOptions{GoPackage: vStrPtr("keep")}
	case 2:
		v := verifNondetBool()
		f.fdp.Options = &descriptorpb.FileOptions{GoPackage: vStrPtr("keep")}
		bo.set(f.fdp.Options, &v)
	}
	disables, drecs := vNondetDisables(verifParam("D"), bo.opt, bo.other)
	var overrides []bufconfig.ManagedOverrideRule
	var orecs []vRule
	for i := 0; i < verifParam("O"); i++ {
		if !verifNondetBool() {
			continue
		}
		r := vRule{fileOption: bo.opt}
		r.path, r.module = vRuleWhere()
		if verifNondetBool() {
			r.fileOption = bo.other
		}
		v := verifNondetBool()
		r.value = v
		rule, err := bufconfig.NewManagedOverrideRuleForFileOption(r.path, r.module, r.fileOption, v)
		verifAssume(err == nil)
		overrides = append(overrides, rule)
		orecs = append(orecs, r)
	}
	config := bufconfig.NewGenerateManagedConfig(true, disables, overrides)
	preserve := verifNondetBool()
	var opts []ModifyOption
	if preserve {
		opts = append(opts, ModifyPreserveExisting())
	}
	snap := vTakeSnap(f.fdp)
	oldPtr := (*bool)(nil)
	if f.fdp.Options != nil {
		oldPtr = bo.ptr(f.fdp.Options)
	}
	oldVal := bo.get(f.fdp.Options)
	sw := &vSweeper{}
	err := bo.modify(sw, f, config, opts...)
	verifCover("modified")
	verifAssert(err == nil, "bool option: no error for a validated config")

	// reference
	untouched := (preserve && oldPtr != nil) || refDisabled(f, drecs, bo.opt)
	want := bo.def
	for _, r := range orecs {
		if r.fileOption == bo.opt && refFileMatches(f, r.path, r.module) {
			want = r.value.(bool)
		}
	}
	if !untouched && want != oldVal {
		verifCover("value rewritten")
		verifAssert(f.fdp.Options != nil && bo.ptr(f.fdp.Options) != nil && *bo.ptr(f.fdp.Options) == want, "bool option: set to last matching override, else the default")
		verifAssert(vMarksOnly(sw, f.Path(), bo.path), "bool option: exactly its source path is marked when rewritten")
	} else {
		verifCover("value kept")
		verifAssert(vOptionsPresenceKept(snap, f.fdp), "bool option: no options message appears when disabled / preserved / already equal")
		verifAssert(vGovernedKept(snap, f.fdp, bo.opt), "bool option: value untouched when disabled / preserved / already equal")
		verifAssert(len(sw.paths) == 0, "bool option: nothing marked when nothing is rewritten")
	}
	verifAssert(vFrameOK(snap, f.fdp), "bool option: every other descriptor field is unchanged")
	verifAssert(vOtherOptionsOK(snap, f.fdp, bo.opt), "bool option: every other file option is unchanged")
}

var vOptimizeModes = []string{"SPEED", "CODE_SIZE", "LITE_RUNTIME"}

// VerifLemma_C18A_OptimizeFor: same oracle for the enum option optimize_for (default SPEED).
func VerifLemma_C18A_OptimizeFor() {
	f := vFixedFile("")
	switch verifNondetChoice(3) {
	case 1:
		f.fdp.Options = &descriptorpb.FileOptions{GoPackage: vStrPtr("keep")}
	case 2:
		v := descriptorpb.FileOptions_OptimizeMode(verifNondetInt32(1, 3))
		f.fdp.Options = &descriptorpb.FileOptions{GoPackage: vStrPtr("keep"), OptimizeFor: &v}
	}
	disables, drecs := vNondetDisables(verifParam("D"), bufconfig.FileOptionOptimizeFor, bufconfig.FileOptionCcEnableArenas)
	var overrides []bufconfig.ManagedOverrideRule
	var orecs []vRule
	for i := 0; i < verifParam("O"); i++ {
		if !verifNondetBool() {
			continue
		}
		r := vRule{fileOption: bufconfig.FileOptionOptimizeFor}
		r.path, r.module = vRuleWhere()
		k := verifNondetChoice(3)
		r.value = descriptorpb.FileOptions_OptimizeMode(k + 1)
		rule, err := bufconfig.NewManagedOverrideRuleForFileOption(r.path, r.module, r.fileOption, vOptimizeModes[k])
		verifAssume(err == nil)
		overrides = append(overrides, rule)
		orecs = append(orecs, r)
	}
	config := bufconfig.NewGenerateManagedConfig(true, disables, overrides)
	preserve := verifNondetBool()
	var opts []ModifyOption
	if preserve {
		opts = append(opts, ModifyPreserveExisting())
	}
	snap := vTakeSnap(f.fdp)
	var oldPtr *descriptorpb.FileOptions_OptimizeMode
	if f.fdp.Options != nil {
		oldPtr = f.fdp.Options.OptimizeFor
	}
	oldVal := f.fdp.Options.GetOptimizeFor()
	sw := &vSweeper{}
	err := modifyOptimizeFor(sw, f, config, opts...)
	verifCover("modified")
	verifAssert(err == nil, "optimize_for: no error for a validated config")
	untouched := (preserve && oldPtr != nil) || refDisabled(f, drecs, bufconfig.FileOptionOptimizeFor)
	want := descriptorpb.FileOptions_SPEED
	for _, r := range orecs {
		if refFileMatches(f, r.path, r.module) {
			want = r.value.(descriptorpb.FileOptions_OptimizeMode)
		}
	}
	if !untouched && want != oldVal {
		verifCover("value rewritten")
		verifAssert(f.fdp.Options != nil && f.fdp.Options.OptimizeFor != nil && *f.fdp.Options.OptimizeFor == want, "optimize_for: set to last matching override, else SPEED")
		verifAssert(vMarksOnly(sw, f.Path(), []int32{8, 9}), "optimize_for: exactly its source path is marked when rewritten")
	} else {
		verifCover("value kept")
		verifAssert(vOptionsPresenceKept(snap, f.fdp) && vGovernedKept(snap, f.fdp, bufconfig.FileOptionOptimizeFor), "optimize_for: untouched when disabled / preserved / already equal")
		verifAssert(len(sw.paths) == 0, "optimize_for: nothing marked when nothing is rewritten")
	}
	verifAssert(vFrameOK(snap, f.fdp), "optimize_for: every other descriptor field is unchanged")
	verifAssert(vOtherOptionsOK(snap, f.fdp, bufconfig.FileOptionOptimizeFor), "optimize_for: every other file option is unchanged")
}

// VerifLemma_C18A_FileMatch: fileMatchConfig(file, rulePath, ruleModule) == the documented rule: an empty path
// matches every file, otherwise the path equals the file path or is a directory containing it ("." contains
// everything); an empty module matches every file, otherwise the file's module name must be equal.
func VerifLemma_C18A_FileMatch() {
	n := verifParam("N")
	f := vNondetFile(n, "")
	rulePath := vRulePath(n)
	ruleModule := vRuleModule()
	got := fileMatchConfig(f, rulePath, ruleModule)
	verifCover("matched")
	verifAssert(got == refFileMatches(f, rulePath, ruleModule), "fileMatchConfig agrees with the documented matching rule")
	// and the three users of it agree on a one-rule config
	d, err := bufconfig.NewManagedDisableRule(rulePath, ruleModule, "", bufconfig.FileOptionGoPackage, bufconfig.FieldOptionUnspecified)
	verifAssume(err == nil)
	config := bufconfig.NewGenerateManagedConfig(true, []bufconfig.ManagedDisableRule{d}, nil)
	verifAssert(isFileOptionDisabledForFile(f, bufconfig.FileOptionGoPackage, config) == got, "a disable rule for the option applies iff the file matches")
	verifAssert(!isFileOptionDisabledForFile(f, bufconfig.FileOptionJavaPackage, config), "a disable rule for another option never applies")
}
