//go:build verif

package bufimagemodify

import (
	"github.com/bufbuild/buf/private/bufpkg/bufconfig"
	"github.com/bufbuild/buf/private/bufpkg/bufimage"
	"github.com/bufbuild/buf/private/bufpkg/bufparse"
	"google.golang.org/protobuf/types/descriptorpb"
)

// ---------- stub image / image file / sweeper ----------

type (
	iImageFile = bufimage.ImageFile
	iImage     = bufimage.Image
)

// vImageFile implements bufimage.ImageFile over a plain *descriptorpb.FileDescriptorProto.
type vImageFile struct {
	iImageFile
	fdp      *descriptorpb.FileDescriptorProto
	fullName bufparse.FullName
	isImport bool
}

func (f *vImageFile) IsImport() bool { return f.isImport }

func (f *vImageFile) Path() string                                          { return f.fdp.GetName() }
func (f *vImageFile) FullName() bufparse.FullName                            { return f.fullName }
func (f *vImageFile) FileDescriptorProto() *descriptorpb.FileDescriptorProto { return f.fdp }

type vImage struct {
	iImage
	files []bufimage.ImageFile
}

func (i *vImage) Files() []bufimage.ImageFile { return i.files }

// vSweeper records the marks (implements internal.MarkSweeper).
type vSweeper struct {
	files []bufimage.ImageFile
	paths [][]int32
}

func (s *vSweeper) Mark(imageFile bufimage.ImageFile, path []int32) {
	s.files = append(s.files, imageFile)
	s.paths = append(s.paths, append([]int32(nil), path...))
}
func (s *vSweeper) Sweep() error { return nil }

// ---------- nondet helpers ----------

var vModulePool = []string{"buf.build/acme/one", "buf.build/acme/two"}

func vComp(n int) string {
	s := verifNondetString(n)
	verifAssume(len(s) > 0)
	for i := 0; i < len(s); i++ {
		c := s[i]
		verifAssume(c > ' ' && c < 0x7f && c != '/')
	}
	verifAssume(s != "." && s != "..")
	return s
}

// vFilePath: "<comp>.proto" or "<comp>/<comp>.proto" (normalized, relative).
func vFilePath(n int) string {
	p := vComp(n)
	if verifNondetBool() {
		p = p + "/" + vComp(n)
	}
	return p + ".proto"
}

// vRulePath: "" (any file) | "." | a directory "<comp>" | a file "<comp>/<comp>.proto" | "<comp>.proto".
func vRulePath(n int) string {
	switch verifNondetChoice(5) {
	case 1:
		return "."
	case 2:
		return vComp(n)
	case 3:
		return vComp(n) + "/" + vComp(n) + ".proto"
	case 4:
		return vComp(n) + ".proto"
	}
	return ""
}

// vRuleModule: "" (any module) or one of the pool.
func vRuleModule() string {
	switch verifNondetChoice(3) {
	case 1:
		return vModulePool[0]
	case 2:
		return vModulePool[1]
	}
	return ""
}

// vNondetFile: a file with symbolic path, optional module name (none | pool[0] | pool[1]), given package.
func vNondetFile(n int, pkg string) *vImageFile {
	f := &vImageFile{fdp: &descriptorpb.FileDescriptorProto{Name: vStrPtr(vFilePath(n))}}
	if pkg != "" {
		f.fdp.Package = vStrPtr(pkg)
	}
	switch verifNondetChoice(3) {
	case 1:
		f.fullName = vMustFullName(vModulePool[0])
	case 2:
		f.fullName = vMustFullName(vModulePool[1])
	}
	return f
}

func vStrPtr(s string) *string { return &s }

func vMustFullName(s string) bufparse.FullName {
	fn, err := bufparse.ParseFullName(s)
	verifAssume(err == nil)
	return fn
}

// vFixedFile: the file "a/b.proto" of module pool[0] (the precedence lemmas vary the rules, not the file; rule
// matching over symbolic paths is decided by C18-A.file-match).
func vFixedFile(pkg string) *vImageFile {
	f := &vImageFile{fdp: &descriptorpb.FileDescriptorProto{Name: vStrPtr("a/b.proto")}, fullName: vMustFullName(vModulePool[0])}
	if pkg != "" {
		f.fdp.Package = vStrPtr(pkg)
	}
	return f
}

// vRuleWhere returns (path, module) of a rule relative to vFixedFile: matching by default | matching by directory |
// matching by file path and module | not matching (other directory) | not matching (other module).
func vRuleWhere() (string, string) {
	switch verifNondetChoice(5) {
	case 1:
		return "a", ""
	case 2:
		return "a/b.proto", vModulePool[0]
	case 3:
		return "b", ""
	case 4:
		return "", vModulePool[1]
	}
	return "", ""
}

// ---------- reference semantics of rule matching ----------

// refPathMatches: rule path "" matches all; otherwise the rule path equals the file path or is a directory
// prefix of it ("." contains everything).
func refPathMatches(rulePath, filePath string) bool {
	if rulePath == "" || rulePath == "." {
		return true
	}
	if rulePath == filePath {
		return true
	}
	return len(filePath) > len(rulePath) && filePath[:len(rulePath)] == rulePath && filePath[len(rulePath)] == '/'
}

func refFileMatches(f *vImageFile, rulePath, ruleModule string) bool {
	if !refPathMatches(rulePath, f.Path()) {
		return false
	}
	if ruleModule != "" && (f.fullName == nil || f.fullName.String() != ruleModule) {
		return false
	}
	return true
}

// vRule is the harness' own record of a rule (what it asked the real constructors to build).
type vRule struct {
	path, module string
	fileOption   bufconfig.FileOption
	fieldOption  bufconfig.FieldOption
	fieldName    string
	value        any
}

// refDisabled: the documented disable semantics for a file option: a rule without field option whose file option
// is unspecified or the given one, matching the file.
func refDisabled(f *vImageFile, rules []vRule, opt bufconfig.FileOption) bool {
	for _, r := range rules {
		if r.fieldOption != bufconfig.FieldOptionUnspecified {
			continue
		}
		if r.fileOption != bufconfig.FileOptionUnspecified && r.fileOption != opt {
			continue
		}
		if refFileMatches(f, r.path, r.module) {
			return true
		}
	}
	return false
}

// ---------- snapshot of everything in a file descriptor except one governed option ----------

type vSnap struct {
	name, pkg, syntax *string
	deps              []string
	msgs              []*descriptorpb.DescriptorProto
	enums             []*descriptorpb.EnumDescriptorProto
	svcs              []*descriptorpb.ServiceDescriptorProto
	exts              []*descriptorpb.FieldDescriptorProto
	sci               *descriptorpb.SourceCodeInfo
	locs              []*descriptorpb.SourceCodeInfo_Location
	options           *descriptorpb.FileOptions
	opt               descriptorpb.FileOptions // shallow copy of the option pointers (nil options => zero)
}

func vTakeSnap(d *descriptorpb.FileDescriptorProto) *vSnap {
	s := &vSnap{name: d.Name, pkg: d.Package, syntax: d.Syntax, deps: d.Dependency, msgs: d.MessageType,
		enums: d.EnumType, svcs: d.Service, exts: d.Extension, sci: d.SourceCodeInfo, options: d.Options}
	if d.SourceCodeInfo != nil {
		s.locs = d.SourceCodeInfo.Location
	}
	if o := d.Options; o != nil {
		s.opt.JavaPackage, s.opt.JavaOuterClassname, s.opt.JavaMultipleFiles = o.JavaPackage, o.JavaOuterClassname, o.JavaMultipleFiles
		s.opt.JavaGenerateEqualsAndHash, s.opt.JavaStringCheckUtf8, s.opt.OptimizeFor = o.JavaGenerateEqualsAndHash, o.JavaStringCheckUtf8, o.OptimizeFor
		s.opt.GoPackage, s.opt.CcGenericServices, s.opt.JavaGenericServices, s.opt.PyGenericServices = o.GoPackage, o.CcGenericServices, o.JavaGenericServices, o.PyGenericServices
		s.opt.Deprecated, s.opt.CcEnableArenas, s.opt.ObjcClassPrefix, s.opt.CsharpNamespace = o.Deprecated, o.CcEnableArenas, o.ObjcClassPrefix, o.CsharpNamespace
		s.opt.SwiftPrefix, s.opt.PhpClassPrefix, s.opt.PhpNamespace, s.opt.PhpMetadataNamespace = o.SwiftPrefix, o.PhpClassPrefix, o.PhpNamespace, o.PhpMetadataNamespace
		s.opt.RubyPackage, s.opt.Features, s.opt.UninterpretedOption = o.RubyPackage, o.Features, o.UninterpretedOption
	}
	return s
}

func vSameMsgs(a, b []*descriptorpb.DescriptorProto) bool {
	if len(a) != len(b) {
		return false
	}
	for i := range a {
		if a[i] != b[i] {
			return false
		}
	}
	return true
}

// vFrameOK: everything but the file options is pointer/field-equal to the snapshot.
func vFrameOK(s *vSnap, d *descriptorpb.FileDescriptorProto) bool {
	if d.Name != s.name || d.Package != s.pkg || d.Syntax != s.syntax || d.SourceCodeInfo != s.sci {
		return false
	}
	if len(d.Dependency) != len(s.deps) || len(d.EnumType) != len(s.enums) || len(d.Service) != len(s.svcs) || len(d.Extension) != len(s.exts) {
		return false
	}
	for i := range s.deps {
		if d.Dependency[i] != s.deps[i] {
			return false
		}
	}
	for i := range s.exts {
		if d.Extension[i] != s.exts[i] {
			return false
		}
	}
	return vSameMsgs(s.msgs, d.MessageType)
}

// vOtherOptionsOK: every file option other than `governed` holds the very pointer it held before (nil before => nil).
func vOtherOptionsOK(s *vSnap, d *descriptorpb.FileDescriptorProto, governed bufconfig.FileOption) bool {
	o := d.Options
	if o == nil {
		return s.options == nil
	}
	b := &s.opt
	ok := true
	chk := func(opt bufconfig.FileOption, same bool) {
		if opt != governed && !same {
			ok = false
		}
	}
	chk(bufconfig.FileOptionJavaPackage, o.JavaPackage == b.JavaPackage)
	chk(bufconfig.FileOptionJavaOuterClassname, o.JavaOuterClassname == b.JavaOuterClassname)
	chk(bufconfig.FileOptionJavaMultipleFiles, o.JavaMultipleFiles == b.JavaMultipleFiles)
	chk(bufconfig.FileOptionJavaStringCheckUtf8, o.JavaStringCheckUtf8 == b.JavaStringCheckUtf8)
	chk(bufconfig.FileOptionOptimizeFor, o.OptimizeFor == b.OptimizeFor)
	chk(bufconfig.FileOptionGoPackage, o.GoPackage == b.GoPackage)
	chk(bufconfig.FileOptionCcEnableArenas, o.CcEnableArenas == b.CcEnableArenas)
	chk(bufconfig.FileOptionObjcClassPrefix, o.ObjcClassPrefix == b.ObjcClassPrefix)
	chk(bufconfig.FileOptionCsharpNamespace, o.CsharpNamespace == b.CsharpNamespace)
	chk(bufconfig.FileOptionPhpNamespace, o.PhpNamespace == b.PhpNamespace)
	chk(bufconfig.FileOptionPhpMetadataNamespace, o.PhpMetadataNamespace == b.PhpMetadataNamespace)
	chk(bufconfig.FileOptionRubyPackage, o.RubyPackage == b.RubyPackage)
	// options managed mode never governs
	chk(bufconfig.FileOptionUnspecified-1, o.JavaGenerateEqualsAndHash == b.JavaGenerateEqualsAndHash && o.CcGenericServices == b.CcGenericServices &&
		o.JavaGenericServices == b.JavaGenericServices && o.PyGenericServices == b.PyGenericServices && o.Deprecated == b.Deprecated &&
		o.SwiftPrefix == b.SwiftPrefix && o.PhpClassPrefix == b.PhpClassPrefix && o.Features == b.Features &&
		len(o.UninterpretedOption) == len(b.UninterpretedOption))
	return ok
}
