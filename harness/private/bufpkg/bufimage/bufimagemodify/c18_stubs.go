//go:build verif

package bufimagemodify

import (
	"github.com/bufbuild/buf/private/bufpkg/bufconfig"
	"github.com/bufbuild/buf/private/bufpkg/bufimage"
	"github.com/bufbuild/buf/private/bufpkg/bufparse"
	"google.golang.org/protobuf/types/descriptorpb"
)

// ---------- stub image / image file / sweeper ----------

type (
	iImageFile = bufimage.ImageFile
	iImage     = bufimage.Image
)

// vImageFile implements bufimage.ImageFile over a plain *descriptorpb.FileDescriptorProto.
type vImageFile struct {
	iImageFile
	fdp      *descriptorpb.FileDescriptorProto
	fullName bufparse.FullName
	isImport bool
}

func (f *vImageFile) IsImport() bool { return f.isImport }

func (f *vImageFile) Path() string                                          { return f.fdp.GetName() }
func (f *vImageFile) FullName() bufparse.FullName                            { return f.fullName }
func (f *vImageFile) FileDescriptorProto() *descriptorpb.FileDescriptorProto { return f.fdp }

type vImage struct {
	iImage
	files []bufimage.ImageFile
}

func (i *vImage) Files() []bufimage.ImageFile { return i.files }

// vSweeper records the marks (implements internal.MarkSweeper).
type vSweeper struct {
	files []bufimage.ImageFile
	paths [][]int32
}

func (s *vSweeper) Mark(imageFile bufimage.ImageFile, path []int32) {
	s.files = append(s.files, imageFile)
	s.paths = append(s.paths, append([]int32(nil), path...))
}
func (s *vSweeper) Sweep() error { return nil }

// ---------- nondet helpers ----------

var vModulePool = []string{"buf.build/acme/one", "buf.build/acme/two"}

func vComp(n int) string {
	s := verifNondetString(n)
	verifAssume(len(s) > 0)
	for i := 0; i < len(s); i++ {
		c := s[i]
		verifAssume(c > ' ' && c < 0x7f && c != '/')
	}
	verifAssume(s != "." && s != "..")
	return s
}

// vFilePath: "<comp>.proto" or "<comp>/<comp>.proto" (normalized, relative).
func vFilePath(n int) string {
	p := vComp(n)
	if verifNondetBool() {
		p = p + "/" + vComp(n)
	}
	return p + ".proto"
}

// vRulePath: "" (any file) | "." | a directory "<comp>" | a file "<comp>/<comp>.proto" | "<comp>.proto".
func vRulePath(n int) string {
	switch verifNondetChoice(5) {
	case 1:
		return "."
	case 2:
		return vComp(n)
	case 3:
		return vComp(n) + "/" + vComp(n) + ".proto"
	case 4:
		return vComp(n) + ".proto"
	}
	return ""
}

// vRuleModule: "" (any module) or one of the pool.
func vRuleModule() string {
	switch verifNondetChoice(3) {
	case 1:
		return vModulePool[0]
	case 2:
		return vModulePool[1]
	}
	return ""
}

// vNondetFile: a file with symbolic path, optional module name (none | pool[0] | pool[1]), given package.
func vNondetFile(n int, pkg string) *vImageFile {
	f := &vImageFile{fdp: &descriptorpb.FileDescriptorProto{Name: vStrPtr(vFilePath(n))}}
	if pkg != "" {
		f.fdp.Package = vStrPtr(pkg)
	}
	switch verifNondetChoice(3) {
	case 1:
		f.fullName = vMustFullName(vModulePool[0])
	case 2:
		f.fullName = vMustFullName(vModulePool[1])
	}
	return f
}

func vStrPtr(s string) *string { return &s }

func vMustFullName(s string) bufparse.FullName {
	fn, err := bufparse.ParseFullName(s)
	verifAssume(err == nil)
	return fn
}

// vFixedFile: the file "a/b.proto" of module pool[0] (the precedence lemmas vary the rules, not the file; rule
// matching over symbolic paths is decided by C18-A.file-match).
func vFixedFile(pkg string) *vImageFile {
	f := &vImageFile{fdp: &descriptorpb.FileDescriptorProto{Name: vStrPtr("a/b.proto")}, fullName: vMustFullName(vModulePool[0])}
	if pkg != "" {
		f.fdp.Package = vStrPtr(pkg)
	}
	return f
}

// vRuleWhere returns (path, module) of a rule relative to vFixedFile: matching by default | matching by directory |
// matching by file path and module | not matching (other directory) | not matching (other module).
func vRuleWhere() (string, string) {
	switch verifNondetChoice(5) {
	case 1:
		return "a", ""
	case 2:
		return "a/b.proto", vModulePool[0]
	case 3:
		return "b", ""
	case 4:
		return "", vModulePool[1]
	}
	return "", ""
}

// ---------- reference semantics of rule matching ----------

// refPathMatches: rule path "" matches all; otherwise the rule path equals the file path or is a directory
// prefix of it ("." contains everything).
func refPathMatches(rulePath, filePath string) bool {
	if rulePath == "" || rulePath == "." {
		return true
	}
	if rulePath == filePath {
		return true
	}
	return len(filePath) > len(rulePath) && filePath[:len(rulePath)] == rulePath && filePath[len(rulePath)] == '/'
}

func refFileMatches(f *vImageFile, rulePath, ruleModule string) bool {
	if !refPathMatches(rulePath, f.Path()) {
		return false
	}
	if ruleModule != "" && (f.fullName == nil || f.fullName.String() != ruleModule) {
		return false
	}
	return true
}

// vRule is the harness' own record of a rule (what it asked the real constructors to build).
type vRule struct {
	path, module string
	fileOption   bufconfig.FileOption
	fieldOption  bufconfig.FieldOption
	fieldName    string
	value        any
}

// refDisabled: the documented disable semantics for a file option: a rule without field option whose file option
// is unspecified or the given one, matching the file.
func refDisabled(f *vImageFile, rules []vRule, opt bufconfig.FileOption) bool {
	for _, r := range rules {
		if r.fieldOption != bufconfig.FieldOptionUnspecified {
			continue
		}
		if r.fileOption != bufconfig.FileOptionUnspecified && r.fileOption != opt {
			continue
		}
		if refFileMatches(f, r.path, r.module) {
			return true
		}
	}
	return false
}

// ---------- snapshot of everything in a file descriptor except one governed option ----------
//
// The frame condition of C18 is about VALUES ("everything else in every descriptor is unchanged"), not about object
// identity: a modifier may legitimately re-allocate a string pointer or clone a message as long as the contents are
// the same. The snapshot therefore records values (presence + value of every optional scalar, the flattened
// name/number/type/type-name/jstype of every field of every message, the dependency list, the number and paths of
// the source locations), and the comparison is field equality.

type vFP struct {
	s string
	n int32
}

func vFPStr(tag string, p *string) vFP {
	if p == nil {
		return vFP{s: tag + ":<nil>"}
	}
	return vFP{s: tag + "=" + *p, n: 1}
}

func vFPFields(out []vFP, tag string, fields []*descriptorpb.FieldDescriptorProto) []vFP {
	out = append(out, vFP{s: tag + "#fields", n: int32(len(fields))})
	for _, f := range fields {
		out = append(out, vFPStr("fname", f.Name), vFPStr("ftypename", f.TypeName), vFPStr("extendee", f.Extendee))
		out = append(out, vFP{s: "fnumber", n: f.GetNumber()}, vFP{s: "ftype", n: int32(f.GetType())}, vFP{s: "flabel", n: int32(f.GetLabel())})
		if f.Type == nil {
			out = append(out, vFP{s: "ftype:<nil>"})
		}
		// field options other than jstype (jstype is the governed one; whether a FieldOptions message exists is
		// therefore not part of the frame): absent message == every option unset
		var packed, deprecated, lazy *bool
		if o := f.Options; o != nil {
			packed, deprecated, lazy = o.Packed, o.Deprecated, o.Lazy
		}
		out = append(out, vFP{s: "ctype", n: int32(f.Options.GetCtype())}, vFP{s: "packed", n: vB(packed)}, vFP{s: "deprecated", n: vB(deprecated)}, vFP{s: "lazy", n: vB(lazy)})
	}
	return out
}

func vB(p *bool) int32 {
	if p == nil {
		return -1
	}
	if *p {
		return 1
	}
	return 0
}

func vFPMessages(out []vFP, msgs []*descriptorpb.DescriptorProto) []vFP {
	out = append(out, vFP{s: "#msgs", n: int32(len(msgs))})
	for _, m := range msgs {
		out = append(out, vFPStr("mname", m.Name))
		out = vFPFields(out, "msg", m.Field)
		out = vFPFields(out, "msgext", m.Extension)
		out = vFPMessages(out, m.NestedType)
	}
	return out
}

// vFingerprint flattens every non-option part of a file descriptor into a list of values.
func vFingerprint(d *descriptorpb.FileDescriptorProto) []vFP {
	out := []vFP{vFPStr("name", d.Name), vFPStr("package", d.Package), vFPStr("syntax", d.Syntax)}
	out = append(out, vFP{s: "#deps", n: int32(len(d.Dependency))})
	for _, dep := range d.Dependency {
		out = append(out, vFP{s: "dep=" + dep})
	}
	out = vFPMessages(out, d.MessageType)
	out = vFPFields(out, "ext", d.Extension)
	out = append(out, vFP{s: "#enums", n: int32(len(d.EnumType))}, vFP{s: "#services", n: int32(len(d.Service))})
	return out
}

type vOptVal struct {
	set bool
	s   string
	n   int32
}

func vOS(p *string) vOptVal {
	if p == nil {
		return vOptVal{}
	}
	return vOptVal{set: true, s: *p}
}

func vOB(p *bool) vOptVal {
	if p == nil {
		return vOptVal{}
	}
	return vOptVal{set: true, n: vB(p)}
}

// vOptionValues: presence + value of every file option, keyed by the managed FileOption (ungoverned ones by name).
func vOptionValues(o *descriptorpb.FileOptions) (map[bufconfig.FileOption]vOptVal, []vOptVal) {
	m := map[bufconfig.FileOption]vOptVal{}
	if o == nil {
		return m, nil
	}
	m[bufconfig.FileOptionJavaPackage] = vOS(o.JavaPackage)
	m[bufconfig.FileOptionJavaOuterClassname] = vOS(o.JavaOuterClassname)
	m[bufconfig.FileOptionJavaMultipleFiles] = vOB(o.JavaMultipleFiles)
	m[bufconfig.FileOptionJavaStringCheckUtf8] = vOB(o.JavaStringCheckUtf8)
	if o.OptimizeFor != nil {
		m[bufconfig.FileOptionOptimizeFor] = vOptVal{set: true, n: int32(*o.OptimizeFor)}
	} else {
		m[bufconfig.FileOptionOptimizeFor] = vOptVal{}
	}
	m[bufconfig.FileOptionGoPackage] = vOS(o.GoPackage)
	m[bufconfig.FileOptionCcEnableArenas] = vOB(o.CcEnableArenas)
	m[bufconfig.FileOptionObjcClassPrefix] = vOS(o.ObjcClassPrefix)
	m[bufconfig.FileOptionCsharpNamespace] = vOS(o.CsharpNamespace)
	m[bufconfig.FileOptionPhpNamespace] = vOS(o.PhpNamespace)
	m[bufconfig.FileOptionPhpMetadataNamespace] = vOS(o.PhpMetadataNamespace)
	m[bufconfig.FileOptionRubyPackage] = vOS(o.RubyPackage)
	ungoverned := []vOptVal{vOB(o.JavaGenerateEqualsAndHash), vOB(o.CcGenericServices), vOB(o.JavaGenericServices), vOB(o.PyGenericServices),
		vOB(o.Deprecated), vOS(o.SwiftPrefix), vOS(o.PhpClassPrefix), {set: o.Features != nil}, {n: int32(len(o.UninterpretedOption))}}
	return m, ungoverned
}

type vSnap struct {
	fp         []vFP
	hasOptions bool
	hasSCI     bool
	locPaths   [][]int32
	opts       map[bufconfig.FileOption]vOptVal
	ungoverned []vOptVal
}

func vTakeSnap(d *descriptorpb.FileDescriptorProto) *vSnap {
	s := &vSnap{fp: vFingerprint(d), hasOptions: d.Options != nil, hasSCI: d.SourceCodeInfo != nil}
	if d.SourceCodeInfo != nil {
		for _, l := range d.SourceCodeInfo.Location {
			s.locPaths = append(s.locPaths, append([]int32(nil), l.Path...))
		}
	}
	s.opts, s.ungoverned = vOptionValues(d.Options)
	return s
}

// vFrameOK: every non-option part of the descriptor has the same values as in the snapshot (source info is compared
// by the lemmas that sweep; the per-option modifiers never touch it: presence must be the same).
func vFrameOK(s *vSnap, d *descriptorpb.FileDescriptorProto) bool {
	now := vFingerprint(d)
	if len(now) != len(s.fp) || (d.SourceCodeInfo != nil) != s.hasSCI {
		return false
	}
	for i := range now {
		if now[i] != s.fp[i] {
			return false
		}
	}
	return true
}

// vOptionsPresenceKept: a file without an options message still has none (message presence is observable).
func vOptionsPresenceKept(s *vSnap, d *descriptorpb.FileDescriptorProto) bool {
	return (d.Options != nil) == s.hasOptions
}

// vGovernedKept: the governed option has the same presence and value as before.
func vGovernedKept(s *vSnap, d *descriptorpb.FileDescriptorProto, governed bufconfig.FileOption) bool {
	now, _ := vOptionValues(d.Options)
	return now[governed] == s.opts[governed]
}

// vOtherOptionsOK: every file option other than `governed` has the same presence and value as before.
func vOtherOptionsOK(s *vSnap, d *descriptorpb.FileDescriptorProto, governed bufconfig.FileOption) bool {
	now, ungoverned := vOptionValues(d.Options)
	for opt, before := range s.opts {
		if opt != governed && now[opt] != before {
			return false
		}
	}
	if d.Options == nil || !s.hasOptions {
		// no options message before: nothing but the governed option may be set now
		for opt, v := range now {
			if opt != governed && v.set {
				return false
			}
		}
		for _, v := range ungoverned {
			if v.set || v.n != 0 {
				return false
			}
		}
		return true
	}
	for i := range ungoverned {
		if ungoverned[i] != s.ungoverned[i] {
			return false
		}
	}
	return true
}

// vMarksOnly: every recorded mark is for this file and this path, and there is at least one (Mark is a set insert:
// marking twice is harmless).
func vMarksOnly(sw *vSweeper, filePath string, path []int32) bool {
	if len(sw.paths) == 0 {
		return false
	}
	for i := range sw.paths {
		if !vPathIs(sw.paths[i], path) || sw.files[i].Path() != filePath {
			return false
		}
	}
	return true
}
