//go:build verif

package bufimagemodify

import (
	"github.com/bufbuild/buf/private/bufpkg/bufconfig"
	"google.golang.org/protobuf/types/descriptorpb"
)

// vWhere: placement of a rule relative to vFixedFile, w choices (2: match-all | other module; 3: + match by
// directory; 5: all of vRuleWhere).
func vWhere(w int) (string, string) {
	if w >= 5 {
		return vRuleWhere()
	}
	switch verifNondetChoice(w) {
	case 1:
		return "", vModulePool[1] // not matching
	case 2:
		return "a", "" // matching by directory
	}
	return "", ""
}

type vOptTriple struct{ v, p, s bufconfig.FileOption }

var vTriples = []vOptTriple{
	{bufconfig.FileOptionJavaPackage, bufconfig.FileOptionJavaPackagePrefix, bufconfig.FileOptionJavaPackageSuffix},
	{bufconfig.FileOptionGoPackage, bufconfig.FileOptionGoPackagePrefix, bufconfig.FileOptionUnspecified},
	{bufconfig.FileOptionRubyPackage, bufconfig.FileOptionUnspecified, bufconfig.FileOptionRubyPackageSuffix},
	{bufconfig.FileOptionObjcClassPrefix, bufconfig.FileOptionUnspecified, bufconfig.FileOptionUnspecified},
}

// vNondetStringRules builds <=nd disable rules and <=no override rules (string values, 1..n symbolic printable
// bytes) over the options of the triple (+ an unrelated option), through the real constructors.
func vNondetStringRules(t vOptTriple, nd, no, w, n int) (bufconfig.GenerateManagedConfig, []vRule, []vRule) {
	opts := []bufconfig.FileOption{t.v}
	if t.p != bufconfig.FileOptionUnspecified {
		opts = append(opts, t.p)
	}
	if t.s != bufconfig.FileOptionUnspecified {
		opts = append(opts, t.s)
	}
	other := bufconfig.FileOptionPhpNamespace
	var disables []bufconfig.ManagedDisableRule
	var drecs []vRule
	for i := 0; i < nd; i++ {
		if !verifNondetBool() {
			continue
		}
		r := vRule{}
		r.path, r.module = vWhere(w)
		if k := verifNondetChoice(len(opts) + 1); k < len(opts) {
			r.fileOption = opts[k]
		}
		rule, err := bufconfig.NewManagedDisableRule(r.path, r.module, "", r.fileOption, bufconfig.FieldOptionUnspecified)
		verifAssume(err == nil)
		disables = append(disables, rule)
		drecs = append(drecs, r)
	}
	var overrides []bufconfig.ManagedOverrideRule
	var orecs []vRule
	for i := 0; i < no; i++ {
		if !verifNondetBool() {
			continue
		}
		r := vRule{fileOption: other}
		r.path, r.module = vWhere(w)
		if k := verifNondetChoice(len(opts) + 1); k < len(opts) {
			r.fileOption = opts[k]
		}
		v := vComp(n)
		r.value = v
		rule, err := bufconfig.NewManagedOverrideRuleForFileOption(r.path, r.module, r.fileOption, v)
		verifAssume(err == nil)
		overrides = append(overrides, rule)
		orecs = append(orecs, r)
	}
	return bufconfig.NewGenerateManagedConfig(true, disables, overrides), drecs, orecs
}

// refStringOverride: declarative statement of the precedence rule.
//
//   - the value option disabled for the file: nothing is overridden ({}).
//   - a prefix (suffix) option that does not exist for this option or is disabled for the file is ignored: its
//     default is blank and its override rules are skipped.
//   - let iv = the last matching value override. If no (non-ignored) prefix/suffix override follows it, the result
//     is that value (or, without any value override, the defaults).
//   - otherwise the result has no value; prefix = last matching prefix override after iv, else the default prefix
//     if there is no value override (a value override wipes the defaults); suffix likewise.
func refStringOverride(f *vImageFile, drecs, orecs []vRule, def stringOverrideOptions, t vOptTriple) stringOverrideOptions {
	if refDisabled(f, drecs, t.v) {
		return stringOverrideOptions{}
	}
	ignoreP := t.p == bufconfig.FileOptionUnspecified || refDisabled(f, drecs, t.p)
	ignoreS := t.s == bufconfig.FileOptionUnspecified || refDisabled(f, drecs, t.s)
	if ignoreP {
		def.prefix = ""
	}
	if ignoreS {
		def.suffix = ""
	}
	iv := -1
	for i, r := range orecs {
		if r.fileOption == t.v && refFileMatches(f, r.path, r.module) {
			iv = i
		}
	}
	ip, is := -1, -1
	for i := iv + 1; i < len(orecs); i++ {
		r := orecs[i]
		if !refFileMatches(f, r.path, r.module) {
			continue
		}
		if !ignoreP && r.fileOption == t.p {
			ip = i
		}
		if !ignoreS && r.fileOption == t.s {
			is = i
		}
	}
	if ip < 0 && is < 0 {
		if iv >= 0 {
			return stringOverrideOptions{value: orecs[iv].value.(string)}
		}
		return def
	}
	base := def
	if iv >= 0 {
		base = stringOverrideOptions{}
	}
	res := stringOverrideOptions{prefix: base.prefix, suffix: base.suffix}
	if ip >= 0 {
		res.prefix = orecs[ip].value.(string)
	}
	if is >= 0 {
		res.suffix = orecs[is].value.(string)
	}
	return res
}

// VerifLemma_C18B_OverridePrecedence: stringOverrideFromConfig == refStringOverride for the (value, prefix, suffix)
// option triples of java_package, go_package, ruby_package and objc_class_prefix, symbolic defaults.
func VerifLemma_C18B_OverridePrecedence() {
	n := verifParam("N")
	t := vTriples[verifNondetChoice(len(vTriples))]
	f := vFixedFile("")
	config, drecs, orecs := vNondetStringRules(t, verifParam("D"), verifParam("O"), verifParam("W"), n)
	def := stringOverrideOptions{}
	switch verifNondetChoice(3) {
	case 1:
		def.value = verifNondetStringN(1)
	case 2:
		def.prefix = verifNondetStringN(1)
		def.suffix = verifNondetString(1)
	}
	got, err := stringOverrideFromConfig(f, config, def, t.v, t.p, t.s)
	verifCover("computed")
	verifAssert(err == nil, "stringOverrideFromConfig: no error for a validated config")
	want := refStringOverride(f, drecs, orecs, def, t)
	// compare what the triple MEANS (a value wins over prefix/suffix; otherwise prefix and suffix), not its representation
	if want.value != "" {
		verifAssert(got.value == want.value, "stringOverrideFromConfig follows the documented precedence (disable > value/prefix/suffix by order)")
	} else {
		verifAssert(got.value == "" && got.prefix == want.prefix && got.suffix == want.suffix, "stringOverrideFromConfig: prefix and suffix follow the documented precedence")
	}
}

// VerifLemma_C18B_JavaPackage: modifyJavaPackage end to end. Expected java_package:
//
//	untouched if preserved-existing, disabled, file without package, or equal already;
//	else value override, or [prefix "."] package ["." suffix] with default prefix "com".
//
// source path [8,1] marked iff rewritten; all other fields/options pointer-equal.
func VerifLemma_C18B_JavaPackage() {
	n := verifParam("N")
	t := vTriples[0]
	pkg := ""
	if verifNondetBool() {
		pkg = "pk." + verifNondetStringN(1)
	}
	f := vFixedFile(pkg)
	switch verifNondetChoice(3) {
	case 1:
		f.fdp.Options = &descriptorpb.FileOptions{GoPackage: vStrPtr("keep")}
	case 2:
		f.fdp.Options = &descriptorpb.FileOptions{GoPackage: vStrPtr("keep"), JavaPackage: vStrPtr(verifNondetString(n + 4))}
	}
	config, drecs, orecs := vNondetStringRules(t, verifParam("D"), verifParam("O"), verifParam("W"), n)
	preserve := verifNondetBool()
	var opts []ModifyOption
	if preserve {
		opts = append(opts, ModifyPreserveExisting())
	}
	snap := vTakeSnap(f.fdp)
	var oldPtr *string
	if f.fdp.Options != nil {
		oldPtr = f.fdp.Options.JavaPackage
	}
	oldVal := f.fdp.Options.GetJavaPackage()
	sw := &vSweeper{}
	err := modifyJavaPackage(sw, f, config, opts...)
	verifCover("modified")
	verifAssert(err == nil, "java_package: no error for a validated config")

	o := refStringOverride(f, drecs, orecs, stringOverrideOptions{prefix: "com"}, t)
	want := o.value
	if want == "" && pkg != "" && (o.prefix != "" || o.suffix != "") {
		want = pkg
		if o.prefix != "" {
			want = o.prefix + "." + want
		}
		if o.suffix != "" {
			want = want + "." + o.suffix
		}
	}
	untouched := (preserve && oldPtr != nil) || want == "" || want == oldVal
	if !untouched {
		verifCover("value rewritten")
		verifAssert(f.fdp.Options != nil && f.fdp.Options.JavaPackage != nil && *f.fdp.Options.JavaPackage == want, "java_package: value override, else [prefix.]package[.suffix]")
		verifAssert(vMarksOnly(sw, f.Path(), []int32{8, 1}), "java_package: exactly [8,1] is marked when rewritten")
	} else {
		verifCover("value kept")
		verifAssert(vOptionsPresenceKept(snap, f.fdp) && vGovernedKept(snap, f.fdp, bufconfig.FileOptionJavaPackage), "java_package: untouched when disabled / preserved / no package / already equal")
		verifAssert(len(sw.paths) == 0, "java_package: nothing marked when nothing is rewritten")
	}
	verifAssert(vFrameOK(snap, f.fdp), "java_package: every other descriptor field is unchanged")
	verifAssert(vOtherOptionsOK(snap, f.fdp, bufconfig.FileOptionJavaPackage), "java_package: every other file option is unchanged")
}
