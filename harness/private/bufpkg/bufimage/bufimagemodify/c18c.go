//go:build verif

package bufimagemodify

import (
	"github.com/bufbuild/buf/private/bufpkg/bufconfig"
	"github.com/bufbuild/buf/private/bufpkg/bufimage"
	"google.golang.org/protobuf/types/descriptorpb"
)

func vLoc(path ...int32) *descriptorpb.SourceCodeInfo_Location {
	return &descriptorpb.SourceCodeInfo_Location{Path: path}
}

// vCountLoc counts the locations that are the object l.
func vCountLoc(sci *descriptorpb.SourceCodeInfo, l *descriptorpb.SourceCodeInfo_Location) int {
	n := 0
	for _, x := range sci.Location {
		if x == l {
			n++
		}
	}
	return n
}

// VerifLemma_C18C_ModifyImage: the whole Modify pipeline (all 13 modifiers, the real mark-sweeper) on an image of a
// well-known-type file and one ordinary file with source info.
//
//   - managed mode not enabled: nothing at all changes;
//   - the well-known-type file is never touched;
//   - for each governed file option that has a source location: the location (and its [8] parent) is removed iff
//     the option was rewritten; the other locations survive in order; every non-option field is unchanged;
//   - the int64 field gets the jstype override, its FieldOptions location handling follows the same rule.
func VerifLemma_C18C_ModifyImage() {
	wktOpts := &descriptorpb.FileOptions{JavaPackage: vStrPtr("com.google.protobuf")}
	wkt := &vImageFile{fdp: &descriptorpb.FileDescriptorProto{
		Name: vStrPtr("google/protobuf/any.proto"), Package: vStrPtr("google.protobuf"), Options: wktOpts,
		SourceCodeInfo: &descriptorpb.SourceCodeInfo{Location: []*descriptorpb.SourceCodeInfo_Location{vLoc(8), vLoc(8, 1)}},
	}}
	// a well-known type may be an import or vendored into the module (a non-import file): skipped either way
	wkt.isImport = verifNondetBool()

	i64 := descriptorpb.FieldDescriptorProto_TYPE_INT64
	str := descriptorpb.FieldDescriptorProto_TYPE_STRING
	fld0 := &descriptorpb.FieldDescriptorProto{Name: vStrPtr("x"), Number: vI32Ptr(1), Type: &i64}
	fld1 := &descriptorpb.FieldDescriptorProto{Name: vStrPtr("y"), Number: vI32Ptr(2), Type: &str}
	msg := &descriptorpb.DescriptorProto{Name: vStrPtr("M"), Field: []*descriptorpb.FieldDescriptorProto{fld0, fld1}}
	// pre-set options: java_package either what managed mode computes ("com.pk.v1": kept) or something else; go_package set
	jp := "other"
	if verifNondetBool() {
		jp = "com.pk.v1"
	}
	opts := &descriptorpb.FileOptions{JavaPackage: &jp, GoPackage: vStrPtr("keep/go")}
	if verifNondetBool() {
		t := true
		opts.CcEnableArenas = &t // equals the managed default: kept
	}
	lParentJ, lJ := vLoc(8), vLoc(8, 1)
	lParentG, lG := vLoc(8), vLoc(8, 11)
	lParentC, lC := vLoc(8), vLoc(8, 31)
	lMsg, lFld, lFldName := vLoc(4, 0), vLoc(4, 0, 2, 0), vLoc(4, 0, 2, 0, 1)
	lPkg := vLoc(2)
	f := &vImageFile{
		fdp: &descriptorpb.FileDescriptorProto{
			Name: vStrPtr("a/b.proto"), Package: vStrPtr("pk.v1"), Options: opts,
			MessageType: []*descriptorpb.DescriptorProto{msg},
			SourceCodeInfo: &descriptorpb.SourceCodeInfo{Location: []*descriptorpb.SourceCodeInfo_Location{
				lPkg, lParentJ, lJ, lParentG, lG, lParentC, lC, lMsg, lFld, lFldName}},
		},
		fullName: vMustFullName(vModulePool[0]),
	}
	nLocs := len(f.fdp.SourceCodeInfo.Location)

	// config
	var disables []bufconfig.ManagedDisableRule
	var overrides []bufconfig.ManagedOverrideRule
	if verifNondetBool() {
		p, m := vWhere(3)
		opt := bufconfig.FileOptionUnspecified
		if verifNondetBool() {
			opt = bufconfig.FileOptionJavaPackage
		}
		r, err := bufconfig.NewManagedDisableRule(p, m, "", opt, bufconfig.FieldOptionUnspecified)
		verifAssume(err == nil)
		disables = append(disables, r)
	}
	if verifNondetBool() {
		p, m := vWhere(3)
		r, err := bufconfig.NewManagedOverrideRuleForFileOption(p, m, bufconfig.FileOptionGoPackagePrefix, "g")
		verifAssume(err == nil)
		overrides = append(overrides, r)
	}
	if verifNondetBool() {
		p, m := vWhere(3)
		r, err := bufconfig.NewManagedOverrideRuleForFileOption(p, m, bufconfig.FileOptionCcEnableArenas, false)
		verifAssume(err == nil)
		overrides = append(overrides, r)
	}
	jsOverride := verifNondetBool()
	if jsOverride {
		p, m := vWhere(3)
		r, err := bufconfig.NewManagedOverrideRuleForFieldOption(p, m, "", bufconfig.FieldOptionJSType, "JS_STRING")
		verifAssume(err == nil)
		overrides = append(overrides, r)
	}
	enabled := verifNondetBool()
	config := bufconfig.NewGenerateManagedConfig(enabled, disables, overrides)
	image := &vImage{files: []bufimage.ImageFile{wkt, f}}

	snap := vTakeSnap(f.fdp)
	wktSnap := vTakeSnap(wkt.fdp)
	err := Modify(image, config)
	verifCover("modified")
	verifAssert(err == nil, "Modify succeeds on a well-formed image and validated config")

	// the well-known-type file is never touched (values: descriptor, every option, source locations)
	verifAssert(vFrameOK(wktSnap, wkt.fdp) && vOptionsPresenceKept(wktSnap, wkt.fdp) && vOtherOptionsOK(wktSnap, wkt.fdp, bufconfig.FileOptionUnspecified) &&
		vLocPathsEq(wkt.fdp.SourceCodeInfo, wktSnap.locPaths), "well-known-type file untouched")
	// non-option parts of the ordinary file (names, package, messages, fields and their non-jstype options)
	verifAssert(vFrameOK(snap, f.fdp) && f.fdp.Options != nil, "non-option fields unchanged")
	verifAssert(fld1.Options.GetJstype() == descriptorpb.FieldOptions_JS_NORMAL && (fld1.Options == nil || fld1.Options.Jstype == nil), "fields not eligible for jstype are untouched")
	sci := f.fdp.SourceCodeInfo
	cur := f.fdp.Options
	changed := func(opt bufconfig.FileOption) bool { return !vGovernedKept(snap, f.fdp, opt) }
	if !enabled {
		verifCover("managed mode off")
		verifAssert(vOtherOptionsOK(snap, f.fdp, bufconfig.FileOptionUnspecified) && (fld0.Options == nil || fld0.Options.Jstype == nil), "managed mode off: no option is written")
		verifAssert(vLocPathsEq(sci, snap.locPaths), "managed mode off: source info untouched")
		return
	}
	verifCover("managed mode on")
	// the location of an option (+ one [8] parent) is removed iff the option's value was rewritten
	changedJ, changedG, changedC := changed(bufconfig.FileOptionJavaPackage), changed(bufconfig.FileOptionGoPackage), changed(bufconfig.FileOptionCcEnableArenas)
	verifAssert((vCountPath(sci, 8, 1) == 0) == changedJ && vCountPath(sci, 8, 1) <= 1, "java_package location removed iff rewritten")
	verifAssert((vCountPath(sci, 8, 11) == 0) == changedG && vCountPath(sci, 8, 11) <= 1, "go_package location removed iff rewritten")
	verifAssert((vCountPath(sci, 8, 31) == 0) == changedC && vCountPath(sci, 8, 31) <= 1, "cc_enable_arenas location removed iff rewritten")
	removed := 0
	for _, c := range []bool{changedJ, changedG, changedC} {
		if c {
			removed++
		}
	}
	verifAssert(vCountPath(sci, 8) == 3-removed, "one [8] parent location is removed per rewritten file option")
	if changedJ {
		verifCover("java_package rewritten")
	}
	if changedG {
		verifCover("go_package rewritten")
		verifAssert(cur.GetGoPackage() == "g/a;pkv1", "go_package = prefix/dir;packageversion")
	}
	// other locations survive, in order
	verifAssert(vCountPath(sci, 2) == 1 && vCountPath(sci, 4, 0) == 1 && vCountPath(sci, 4, 0, 2, 0) == 1 && vCountPath(sci, 4, 0, 2, 0, 1) == 1, "locations of ungoverned elements survive")
	verifAssert(len(sci.Location) == nLocs-2*removed, "nothing else is removed")
	verifAssert(vPathIs(sci.Location[0].Path, []int32{2}) && vPathIs(sci.Location[len(sci.Location)-1].Path, []int32{4, 0, 2, 0, 1}), "order preserved")
	// jstype
	if fld0.Options != nil && fld0.Options.Jstype != nil {
		verifCover("jstype set")
		verifAssert(jsOverride && *fld0.Options.Jstype == descriptorpb.FieldOptions_JS_STRING, "jstype only from a jstype override")
	}
}

func vCountPath(sci *descriptorpb.SourceCodeInfo, path ...int32) int {
	n := 0
	for _, l := range sci.Location {
		if vPathIs(l.Path, path) {
			n++
		}
	}
	return n
}

// vLocPathsEq: the source info has exactly the given location paths, in order (nil info <=> no paths recorded).
func vLocPathsEq(sci *descriptorpb.SourceCodeInfo, paths [][]int32) bool {
	if sci == nil {
		return len(paths) == 0
	}
	if len(sci.Location) != len(paths) {
		return false
	}
	for i := range paths {
		if !vPathIs(sci.Location[i].Path, paths[i]) {
			return false
		}
	}
	return true
}

func vI32Ptr(v int32) *int32 { return &v }

var vWKTPaths = []string{
	"google/protobuf/any.proto", "google/protobuf/timestamp.proto", "google/protobuf/descriptor.proto",
	"google/protobuf/compiler/plugin.proto", "google/protobuf/wrappers.proto",
}

// VerifLemma_C18C_WKTUntouched: a file at a well-known-type path is never modified by Modify - whether it is an
// import or a (vendored) non-import file, whatever module it belongs to, with or without options / source info, under
// a config that would rewrite every governed option of an ordinary file (checked on a second, ordinary file).
func VerifLemma_C18C_WKTUntouched() {
	path := vWKTPaths[verifNondetChoice(len(vWKTPaths))]
	i64 := descriptorpb.FieldDescriptorProto_TYPE_INT64
	fld := &descriptorpb.FieldDescriptorProto{Name: vStrPtr("v"), Number: vI32Ptr(1), Type: &i64}
	msg := &descriptorpb.DescriptorProto{Name: vStrPtr("W"), Field: []*descriptorpb.FieldDescriptorProto{fld}}
	wkt := &vImageFile{fdp: &descriptorpb.FileDescriptorProto{Name: &path, Package: vStrPtr("google.protobuf"),
		MessageType: []*descriptorpb.DescriptorProto{msg}}, isImport: verifNondetBool()}
	switch verifNondetChoice(3) {
	case 1:
		wkt.fullName = vMustFullName(vModulePool[0])
	case 2:
		wkt.fullName = vMustFullName(vModulePool[1])
	}
	var wktOpts *descriptorpb.FileOptions
	if verifNondetBool() {
		wktOpts = &descriptorpb.FileOptions{GoPackage: vStrPtr("google.golang.org/protobuf/types/known/anypb"), JavaPackage: vStrPtr("com.google.protobuf")}
		wkt.fdp.Options = wktOpts
	}
	var wktLocs []*descriptorpb.SourceCodeInfo_Location
	if verifNondetBool() {
		wktLocs = []*descriptorpb.SourceCodeInfo_Location{vLoc(8), vLoc(8, 11), vLoc(8), vLoc(8, 1), vLoc(4, 0, 2, 0)}
		wkt.fdp.SourceCodeInfo = &descriptorpb.SourceCodeInfo{Location: wktLocs}
	}
	ordOpts := &descriptorpb.FileOptions{GoPackage: vStrPtr("keep/go")}
	ord := &vImageFile{fdp: &descriptorpb.FileDescriptorProto{Name: vStrPtr("a/b.proto"), Package: vStrPtr("pk.v1"), Options: ordOpts,
		SourceCodeInfo: &descriptorpb.SourceCodeInfo{Location: []*descriptorpb.SourceCodeInfo_Location{vLoc(8), vLoc(8, 11)}}},
		fullName: vMustFullName(vModulePool[0])}
	var overrides []bufconfig.ManagedOverrideRule
	for _, o := range []struct {
		opt bufconfig.FileOption
		val any
	}{{bufconfig.FileOptionGoPackagePrefix, "g"}, {bufconfig.FileOptionJavaPackagePrefix, "org"}, {bufconfig.FileOptionCcEnableArenas, false},
		{bufconfig.FileOptionOptimizeFor, "CODE_SIZE"}, {bufconfig.FileOptionCsharpNamespacePrefix, "Cs"}} {
		r, err := bufconfig.NewManagedOverrideRuleForFileOption("", "", o.opt, o.val)
		verifAssume(err == nil)
		overrides = append(overrides, r)
	}
	js, err := bufconfig.NewManagedOverrideRuleForFieldOption("", "", "", bufconfig.FieldOptionJSType, "JS_STRING")
	verifAssume(err == nil)
	overrides = append(overrides, js)
	config := bufconfig.NewGenerateManagedConfig(true, nil, overrides)
	files := []bufimage.ImageFile{wkt, ord}
	if verifNondetBool() {
		files = []bufimage.ImageFile{ord, wkt}
	}
	snap := vTakeSnap(wkt.fdp)
	err = Modify(&vImage{files: files}, config)
	verifCover("modified")
	verifAssert(err == nil, "Modify succeeds")
	// the ordinary file IS rewritten (the config is effective) ...
	oo := ord.fdp.Options
	verifAssert(oo.GetGoPackage() == "g/a;pkv1" && oo.JavaPackage != nil && oo.OptimizeFor != nil &&
		len(ord.fdp.SourceCodeInfo.Location) == 0, "the ordinary file is rewritten and swept")
	// ... the well-known-type file is not (value equality of every part)
	verifAssert(vFrameOK(snap, wkt.fdp) && vOptionsPresenceKept(snap, wkt.fdp), "well-known-type file: descriptor fields untouched, no options message appears")
	verifAssert(vOtherOptionsOK(snap, wkt.fdp, bufconfig.FileOptionUnspecified), "well-known-type file: no file option written or changed")
	verifAssert(fld.Options == nil || fld.Options.Jstype == nil, "well-known-type file: no jstype written")
	verifAssert(vLocPathsEq(wkt.fdp.SourceCodeInfo, snap.locPaths), "well-known-type file: source info not swept")
}
