//go:build verif

package bufimagemodify

import (
	"github.com/bufbuild/buf/private/bufpkg/bufconfig"
	"github.com/bufbuild/buf/private/bufpkg/bufimage"
	"google.golang.org/protobuf/types/descriptorpb"
)

func vLoc(path ...int32) *descriptorpb.SourceCodeInfo_Location {
	return &descriptorpb.SourceCodeInfo_Location{Path: path}
}

// vCountLoc counts the locations that are the object l.
func vCountLoc(sci *descriptorpb.SourceCodeInfo, l *descriptorpb.SourceCodeInfo_Location) int {
	n := 0
	for _, x := range sci.Location {
		if x == l {
			n++
		}
	}
	return n
}

// VerifLemma_C18C_ModifyImage: the whole Modify pipeline (all 13 modifiers, the real mark-sweeper) on an image of a
// well-known-type file and one ordinary file with source info.
//
//   - managed mode not enabled: nothing at all changes;
//   - the well-known-type file is never touched;
//   - for each governed file option that has a source location: the location (and its [8] parent) is removed iff
//     the option was rewritten; the other locations survive in order; every non-option field is unchanged;
//   - the int64 field gets the jstype override, its FieldOptions location handling follows the same rule.
func VerifLemma_C18C_ModifyImage() {
	wktOpts := &descriptorpb.FileOptions{JavaPackage: vStrPtr("com.google.protobuf")}
	wkt := &vImageFile{fdp: &descriptorpb.FileDescriptorProto{
		Name: vStrPtr("google/protobuf/any.proto"), Package: vStrPtr("google.protobuf"), Options: wktOpts,
		SourceCodeInfo: &descriptorpb.SourceCodeInfo{Location: []*descriptorpb.SourceCodeInfo_Location{vLoc(8), vLoc(8, 1)}},
	}}
	wktLocs := wkt.fdp.SourceCodeInfo.Location
	// a well-known type may be an import or vendored into the module (a non-import file): skipped either way
	wkt.isImport = verifNondetBool()

	i64 := descriptorpb.FieldDescriptorProto_TYPE_INT64
	str := descriptorpb.FieldDescriptorProto_TYPE_STRING
	fld0 := &descriptorpb.FieldDescriptorProto{Name: vStrPtr("x"), Number: vI32Ptr(1), Type: &i64}
	fld1 := &descriptorpb.FieldDescriptorProto{Name: vStrPtr("y"), Number: vI32Ptr(2), Type: &str}
	msg := &descriptorpb.DescriptorProto{Name: vStrPtr("M"), Field: []*descriptorpb.FieldDescriptorProto{fld0, fld1}}
	// pre-set options: java_package either what managed mode computes ("com.pk.v1": kept) or something else; go_package set
	jp := "other"
	if verifNondetBool() {
		jp = "com.pk.v1"
	}
	opts := &descriptorpb.FileOptions{JavaPackage: &jp, GoPackage: vStrPtr("keep/go")}
	if verifNondetBool() {
		t := true
		opts.CcEnableArenas = &t // equals the managed default: kept
	}
	lParentJ, lJ := vLoc(8), vLoc(8, 1)
	lParentG, lG := vLoc(8), vLoc(8, 11)
	lParentC, lC := vLoc(8), vLoc(8, 31)
	lMsg, lFld, lFldName := vLoc(4, 0), vLoc(4, 0, 2, 0), vLoc(4, 0, 2, 0, 1)
	lPkg := vLoc(2)
	f := &vImageFile{
		fdp: &descriptorpb.FileDescriptorProto{
			Name: vStrPtr("a/b.proto"), Package: vStrPtr("pk.v1"), Options: opts,
			MessageType: []*descriptorpb.DescriptorProto{msg},
			SourceCodeInfo: &descriptorpb.SourceCodeInfo{Location: []*descriptorpb.SourceCodeInfo_Location{
				lPkg, lParentJ, lJ, lParentG, lG, lParentC, lC, lMsg, lFld, lFldName}},
		},
		fullName: vMustFullName(vModulePool[0]),
	}
	nLocs := len(f.fdp.SourceCodeInfo.Location)

	// config
	var disables []bufconfig.ManagedDisableRule
	var overrides []bufconfig.ManagedOverrideRule
	if verifNondetBool() {
		p, m := vWhere(3)
		opt := bufconfig.FileOptionUnspecified
		if verifNondetBool() {
			opt = bufconfig.FileOptionJavaPackage
		}
		r, err := bufconfig.NewManagedDisableRule(p, m, "", opt, bufconfig.FieldOptionUnspecified)
		verifAssume(err == nil)
		disables = append(disables, r)
	}
	if verifNondetBool() {
		p, m := vWhere(3)
		r, err := bufconfig.NewManagedOverrideRuleForFileOption(p, m, bufconfig.FileOptionGoPackagePrefix, "g")
		verifAssume(err == nil)
		overrides = append(overrides, r)
	}
	if verifNondetBool() {
		p, m := vWhere(3)
		r, err := bufconfig.NewManagedOverrideRuleForFileOption(p, m, bufconfig.FileOptionCcEnableArenas, false)
		verifAssume(err == nil)
		overrides = append(overrides, r)
	}
	jsOverride := verifNondetBool()
	if jsOverride {
		p, m := vWhere(3)
		r, err := bufconfig.NewManagedOverrideRuleForFieldOption(p, m, "", bufconfig.FieldOptionJSType, "JS_STRING")
		verifAssume(err == nil)
		overrides = append(overrides, r)
	}
	enabled := verifNondetBool()
	config := bufconfig.NewGenerateManagedConfig(enabled, disables, overrides)
	image := &vImage{files: []bufimage.ImageFile{wkt, f}}

	snap := vTakeSnap(f.fdp)
	oldJ, oldG, oldC := opts.JavaPackage, opts.GoPackage, opts.CcEnableArenas
	err := Modify(image, config)
	verifCover("modified")
	verifAssert(err == nil, "Modify succeeds on a well-formed image and validated config")

	// the well-known-type file is never touched
	verifAssert(wkt.fdp.Options == wktOpts && *wktOpts.JavaPackage == "com.google.protobuf" && wktOpts.GoPackage == nil &&
		len(wkt.fdp.SourceCodeInfo.Location) == 2 && wkt.fdp.SourceCodeInfo.Location[0] == wktLocs[0], "well-known-type file untouched")
	// non-option fields of the ordinary file
	verifAssert(vFrameOK(snap, f.fdp) && f.fdp.Options == opts, "non-option fields unchanged")
	verifAssert(fld1.Options == nil && fld0.Name != nil && msg.Field[0] == fld0 && msg.Field[1] == fld1, "fields not eligible for jstype are untouched")
	sci := f.fdp.SourceCodeInfo
	if !enabled {
		verifCover("managed mode off")
		verifAssert(opts.JavaPackage == oldJ && opts.GoPackage == oldG && opts.CcEnableArenas == oldC && opts.JavaMultipleFiles == nil &&
			opts.CsharpNamespace == nil && fld0.Options == nil, "managed mode off: no option is written")
		verifAssert(len(sci.Location) == nLocs, "managed mode off: source info untouched")
		return
	}
	verifCover("managed mode on")
	// location of an option is removed iff the option was rewritten
	changedJ, changedG := opts.JavaPackage != oldJ, opts.GoPackage != oldG
	changedC := opts.CcEnableArenas != oldC
	verifAssert((vCountLoc(sci, lJ) == 0) == changedJ && (vCountLoc(sci, lParentJ) == 0) == changedJ, "java_package location (+parent) removed iff rewritten")
	verifAssert((vCountLoc(sci, lG) == 0) == changedG && (vCountLoc(sci, lParentG) == 0) == changedG, "go_package location (+parent) removed iff rewritten")
	verifAssert((vCountLoc(sci, lC) == 0) == changedC && (vCountLoc(sci, lParentC) == 0) == changedC, "cc_enable_arenas location (+parent) removed iff rewritten")
	if changedJ {
		verifCover("java_package rewritten")
	}
	if changedG {
		verifCover("go_package rewritten")
		verifAssert(*opts.GoPackage == "g/a;pkv1", "go_package = prefix/dir;packageversion")
	}
	// other locations survive, in order
	verifAssert(vCountLoc(sci, lPkg) == 1 && vCountLoc(sci, lMsg) == 1 && vCountLoc(sci, lFld) == 1 && vCountLoc(sci, lFldName) == 1, "locations of ungoverned elements survive")
	removed := 0
	for _, c := range []bool{changedJ, changedG, changedC} {
		if c {
			removed += 2
		}
	}
	verifAssert(len(sci.Location) == nLocs-removed, "nothing else is removed")
	verifAssert(sci.Location[0] == lPkg && sci.Location[len(sci.Location)-1] == lFldName, "order preserved")
	// jstype
	if fld0.Options != nil && fld0.Options.Jstype != nil {
		verifCover("jstype set")
		verifAssert(jsOverride && *fld0.Options.Jstype == descriptorpb.FieldOptions_JS_STRING, "jstype only from a jstype override")
	}
}

func vI32Ptr(v int32) *int32 { return &v }

var vWKTPaths = []string{
	"google/protobuf/any.proto", "google/protobuf/timestamp.proto", "google/protobuf/descriptor.proto",
	"google/protobuf/compiler/plugin.proto", "google/protobuf/wrappers.proto",
}

// VerifLemma_C18C_WKTUntouched: a file at a well-known-type path is never modified by Modify - whether it is an
// import or a (vendored) non-import file, whatever module it belongs to, with or without options / source info, under
// a config that would rewrite every governed option of an ordinary file (checked on a second, ordinary file).
func VerifLemma_C18C_WKTUntouched() {
	path := vWKTPaths[verifNondetChoice(len(vWKTPaths))]
	i64 := descriptorpb.FieldDescriptorProto_TYPE_INT64
	fld := &descriptorpb.FieldDescriptorProto{Name: vStrPtr("v"), Number: vI32Ptr(1), Type: &i64}
	msg := &descriptorpb.DescriptorProto{Name: vStrPtr("W"), Field: []*descriptorpb.FieldDescriptorProto{fld}}
	wkt := &vImageFile{fdp: &descriptorpb.FileDescriptorProto{Name: &path, Package: vStrPtr("google.protobuf"),
		MessageType: []*descriptorpb.DescriptorProto{msg}}, isImport: verifNondetBool()}
	switch verifNondetChoice(3) {
	case 1:
		wkt.fullName = vMustFullName(vModulePool[0])
	case 2:
		wkt.fullName = vMustFullName(vModulePool[1])
	}
	var wktOpts *descriptorpb.FileOptions
	if verifNondetBool() {
		wktOpts = &descriptorpb.FileOptions{GoPackage: vStrPtr("google.golang.org/protobuf/types/known/anypb"), JavaPackage: vStrPtr("com.google.protobuf")}
		wkt.fdp.Options = wktOpts
	}
	var wktLocs []*descriptorpb.SourceCodeInfo_Location
	if verifNondetBool() {
		wktLocs = []*descriptorpb.SourceCodeInfo_Location{vLoc(8), vLoc(8, 11), vLoc(8), vLoc(8, 1), vLoc(4, 0, 2, 0)}
		wkt.fdp.SourceCodeInfo = &descriptorpb.SourceCodeInfo{Location: wktLocs}
	}
	ordOpts := &descriptorpb.FileOptions{GoPackage: vStrPtr("keep/go")}
	ord := &vImageFile{fdp: &descriptorpb.FileDescriptorProto{Name: vStrPtr("a/b.proto"), Package: vStrPtr("pk.v1"), Options: ordOpts,
		SourceCodeInfo: &descriptorpb.SourceCodeInfo{Location: []*descriptorpb.SourceCodeInfo_Location{vLoc(8), vLoc(8, 11)}}},
		fullName: vMustFullName(vModulePool[0])}
	var overrides []bufconfig.ManagedOverrideRule
	for _, o := range []struct {
		opt bufconfig.FileOption
		val any
	}{{bufconfig.FileOptionGoPackagePrefix, "g"}, {bufconfig.FileOptionJavaPackagePrefix, "org"}, {bufconfig.FileOptionCcEnableArenas, false},
		{bufconfig.FileOptionOptimizeFor, "CODE_SIZE"}, {bufconfig.FileOptionCsharpNamespacePrefix, "Cs"}} {
		r, err := bufconfig.NewManagedOverrideRuleForFileOption("", "", o.opt, o.val)
		verifAssume(err == nil)
		overrides = append(overrides, r)
	}
	js, err := bufconfig.NewManagedOverrideRuleForFieldOption("", "", "", bufconfig.FieldOptionJSType, "JS_STRING")
	verifAssume(err == nil)
	overrides = append(overrides, js)
	config := bufconfig.NewGenerateManagedConfig(true, nil, overrides)
	files := []bufimage.ImageFile{wkt, ord}
	if verifNondetBool() {
		files = []bufimage.ImageFile{ord, wkt}
	}
	snap := vTakeSnap(wkt.fdp)
	err = Modify(&vImage{files: files}, config)
	verifCover("modified")
	verifAssert(err == nil, "Modify succeeds")
	// the ordinary file IS rewritten (the config is effective) ...
	verifAssert(ordOpts.GoPackage != nil && *ordOpts.GoPackage == "g/a;pkv1" && ordOpts.JavaPackage != nil && ordOpts.OptimizeFor != nil &&
		len(ord.fdp.SourceCodeInfo.Location) == 0, "the ordinary file is rewritten and swept")
	// ... the well-known-type file is not
	verifAssert(wkt.fdp.Options == wktOpts && vFrameOK(snap, wkt.fdp), "well-known-type file: descriptor fields and Options pointer untouched")
	if wktOpts != nil {
		verifAssert(*wktOpts.GoPackage == "google.golang.org/protobuf/types/known/anypb" && *wktOpts.JavaPackage == "com.google.protobuf" &&
			wktOpts.OptimizeFor == nil && wktOpts.CcEnableArenas == nil && wktOpts.CsharpNamespace == nil && wktOpts.JavaMultipleFiles == nil &&
			wktOpts.ObjcClassPrefix == nil && wktOpts.RubyPackage == nil && wktOpts.PhpNamespace == nil && wktOpts.JavaOuterClassname == nil,
			"well-known-type file: no file option written")
	}
	verifAssert(fld.Options == nil, "well-known-type file: no jstype written")
	if wktLocs != nil {
		sci := wkt.fdp.SourceCodeInfo
		verifAssert(len(sci.Location) == len(wktLocs), "well-known-type file: source info not swept")
		for i := range wktLocs {
			verifAssert(sci.Location[i] == wktLocs[i], "well-known-type file: locations untouched")
		}
	}
}
