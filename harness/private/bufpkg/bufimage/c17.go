//go:build verif

package bufimage

import (
	"github.com/google/uuid"
	"google.golang.org/protobuf/types/descriptorpb"
	"google.golang.org/protobuf/types/pluginpb"
)

// ---- C17 (grpI): identifiers are prefixed vi / refI ----

const viMaxFiles = 6

// viWKTPaths are well-known-type paths used as concrete choices (datawkt.Exists is true for exactly these among
// the paths the harness can produce: every other harness path is shorter than the shortest WKT path).
// (a function, not a package variable: reading a package variable makes the engine run the package initialiser.)
func viWKTPaths() []string {
	return []string{"google/protobuf/any.proto", "google/protobuf/compiler/plugin.proto", "google/protobuf/empty.proto"}
}

// viLower assumes every byte of s is a lower-case letter.
func viLower(s string) {
	for i := 0; i < len(s); i++ {
		c := s[i]
		verifAssume(c >= 'a' && c <= 'z')
	}
}

// ---- C17-B: isFileToGenerate truth table ----

// VerifLemma_C17B_IsFileToGenerate: isFileToGenerate against the documented rule, for an image file with an
// arbitrary path (symbolic or a well-known type), import flag, include flags and tracking maps (nil or holding
// arbitrary other paths that may or may not equal the file's path).
func VerifLemma_C17B_IsFileToGenerate() {
	var path string
	isWKT := verifNondetBool()
	if isWKT {
		path = viWKTPaths()[verifNondetChoice(len(viWKTPaths()))]
	} else {
		stem := verifNondetString(verifParam("N"))
		verifAssume(len(stem) > 0)
		viLower(stem)
		path = stem + ".proto"
	}
	isImport := verifNondetBool()
	includeImports, includeWKT := verifNondetBool(), verifNondetBool()
	file := newImageFileNoValidate(&descriptorpb.FileDescriptorProto{Name: &path}, nil, uuid.Nil, "", "", isImport, false, nil)

	// tracking maps: nil, or a map holding 0..1 arbitrary paths
	var used, nonImports map[string]struct{}
	inUsed, inNonImports := false, false
	usedOther := ""
	if verifNondetBool() {
		used = make(map[string]struct{})
		if verifNondetBool() {
			if verifNondetBool() {
				used[path] = struct{}{}
				inUsed = true
			} else {
				usedOther = verifNondetString(verifParam("N")) + ".proto"
				verifAssume(usedOther != path)
				used[usedOther] = struct{}{}
			}
		}
	}
	if verifNondetBool() {
		nonImports = make(map[string]struct{})
		if verifNondetBool() {
			if verifNondetBool() {
				nonImports[path] = struct{}{}
				inNonImports = true
			} else {
				other := verifNondetString(verifParam("N")) + ".proto"
				verifAssume(other != path)
				nonImports[other] = struct{}{}
			}
		}
	}
	got := isFileToGenerate(file, used, nonImports, includeImports, includeWKT)
	verifCover("isFileToGenerate returned")

	want := true
	if isImport {
		want = includeImports && (includeWKT || !isWKT) && !inUsed && !inNonImports
	}
	verifAssert(got == want, "isFileToGenerate: non-imports always; imports iff includeImports, (not WKT or includeWKT), not yet used, not a non-import elsewhere")
	// How the "already used" bookkeeping is split between isFileToGenerate and its caller is an implementation detail;
	// its effect (exactly once across requests) is decided end to end by C17-A.exactly-once.
	_ = usedOther
}

// ---- C17-A: exactly once across requests ----

type viImageSpec struct {
	n        int
	paths    [viMaxFiles]string
	dirs     [viMaxFiles]string // "." for root files
	isWKT    [viMaxFiles]bool
	isImport [viMaxFiles]bool
	adj      [viMaxFiles][viMaxFiles]bool // adj[i][j] (j < i): file i imports file j
	fdps     [viMaxFiles]*descriptorpb.FileDescriptorProto
	files    []ImageFile
}

// viNondetImage builds an image of 1..FILES files in dependency order with pairwise distinct paths:
// a root file "x.proto", a file "d/x.proto" (d: 1..DIR letters), optionally nested "d/e/x.proto" or one of the first WKT (<= 3) well-known-type paths;
// arbitrary acyclic imports (file i may import any earlier file) and arbitrary import flags.
func viNondetImage() *viImageSpec {
	s := &viImageSpec{}
	s.n = verifNondetChoice(verifParam("FILES")) + 1
	kinds := 2
	if verifParam("NESTED") != 0 {
		kinds++
	}
	if verifParam("WKT") != 0 {
		kinds++
	}
	for i := 0; i < s.n; i++ {
		kind := verifNondetChoice(kinds)
		if kind == 2 && verifParam("NESTED") == 0 {
			kind = 3
		}
		switch kind {
		case 0: // root
			name := verifNondetStringN(1)
			viLower(name)
			s.dirs[i] = "."
			s.paths[i] = name + ".proto"
		case 1: // one directory
			dir := verifNondetString(verifParam("DIR"))
			verifAssume(len(dir) > 0)
			viLower(dir)
			name := verifNondetStringN(1)
			viLower(name)
			s.dirs[i] = dir
			s.paths[i] = dir + "/" + name + ".proto"
		case 2: // nested directory
			d1, d2, name := verifNondetStringN(1), verifNondetStringN(1), verifNondetStringN(1)
			viLower(d1)
			viLower(d2)
			viLower(name)
			s.dirs[i] = d1 + "/" + d2
			s.paths[i] = s.dirs[i] + "/" + name + ".proto"
		case 3: // well-known type
			k := 0
			if verifParam("WKT") > 1 {
				k = verifNondetChoice(verifParam("WKT"))
			}
			s.paths[i] = viWKTPaths()[k]
			s.dirs[i] = "google/protobuf"
			if k == 1 {
				s.dirs[i] = "google/protobuf/compiler"
			}
			s.isWKT[i] = true
		}
		for j := 0; j < i; j++ {
			verifAssume(s.paths[j] != s.paths[i])
		}
		s.isImport[i] = verifNondetBool()
		var deps []string
		for j := 0; j < i; j++ {
			if verifNondetBool() {
				s.adj[i][j] = true
				deps = append(deps, s.paths[j])
			}
		}
		p := s.paths[i]
		s.fdps[i] = &descriptorpb.FileDescriptorProto{Name: &p, Dependency: deps}
		s.files = append(s.files, newImageFileNoValidate(s.fdps[i], nil, uuid.Nil, "", "", s.isImport[i], false, nil))
	}
	return s
}

// indexOf identifies a descriptor found in an image or request: the original descriptor object, or (a copy, e.g. with
// source-retention options stripped) by its file name - paths are pairwise distinct.
func (s *viImageSpec) indexOf(fdp *descriptorpb.FileDescriptorProto) int {
	for i := 0; i < s.n; i++ {
		if s.fdps[i] == fdp {
			return i
		}
	}
	if fdp == nil {
		return -1
	}
	for i := 0; i < s.n; i++ {
		if fdp.GetName() == s.paths[i] {
			return i
		}
	}
	return -1
}

// reachableFromNonImport[i]: file i is a non-import or a transitive import of one.
func (s *viImageSpec) reachableFromNonImport() [viMaxFiles]bool {
	var r [viMaxFiles]bool
	for i := s.n - 1; i >= 0; i-- {
		if !s.isImport[i] {
			r[i] = true
		}
		if r[i] {
			for j := 0; j < i; j++ {
				if s.adj[i][j] {
					r[j] = true
				}
			}
		}
	}
	return r
}

// viCheckRequests checks the exactly-once and closure clauses on the requests built for one plugin.
func viCheckRequests(s *viImageSpec, requests []*pluginpb.CodeGeneratorRequest, byDir bool, includeImports, includeWKT bool) {
	var count [viMaxFiles]int
	for _, request := range requests {
		verifAssert(len(request.FileToGenerate) == len(request.SourceFileDescriptors), "FileToGenerate and SourceFileDescriptors are parallel")
		// ProtoFile: known files only, no duplicates, every dependency earlier in the same request
		var pos [viMaxFiles]int
		for i := range pos {
			pos[i] = -1
		}
		for k, fdp := range request.ProtoFile {
			i := s.indexOf(fdp)
			verifAssert(i >= 0, "every ProtoFile entry is a file of the image")
			verifAssert(pos[i] < 0, "no file appears twice in ProtoFile")
			pos[i] = k
			for j := 0; j < i; j++ {
				if s.adj[i][j] {
					verifAssert(pos[j] >= 0, "every import of a ProtoFile entry precedes it in the same request")
				}
			}
		}
		for k, fdp := range request.SourceFileDescriptors {
			i := s.indexOf(fdp)
			verifAssert(i >= 0, "every file to generate is a file of the image")
			verifAssert(request.FileToGenerate[k] == s.paths[i], "FileToGenerate names the path of its descriptor")
			verifAssert(pos[i] >= 0, "every file to generate is in ProtoFile")
			count[i]++
		}
		if byDir {
			// the non-imports of one request share one directory
			first := -1
			for _, fdp := range request.SourceFileDescriptors {
				i := s.indexOf(fdp)
				if s.isImport[i] {
					continue
				}
				if first < 0 {
					first = i
				} else {
					verifAssert(s.dirs[i] == s.dirs[first], "strategy directory: the targeted files of one request share a directory")
				}
			}
			verifAssert(first >= 0, "strategy directory: every request targets at least one file")
		}
	}
	reach := s.reachableFromNonImport()
	for i := 0; i < s.n; i++ {
		switch {
		case !s.isImport[i]:
			verifAssert(count[i] == 1, "every targeted file is generated exactly once across the requests")
		case !includeImports || (s.isWKT[i] && !includeWKT):
			verifAssert(count[i] == 0, "imports are not generated unless requested (well-known types only with include_wkt)")
		case reach[i] || !byDir:
			// which request carries it is not specified - only that exactly one does
			verifAssert(count[i] == 1, "a requested import is generated exactly once across the requests")
		default:
			// an import that no targeted file depends on is in no per-directory image today; generating it once would
			// also be within "imports when requested"
			verifAssert(count[i] <= 1, "an import no targeted file depends on is generated at most once")
		}
	}
}

// VerifLemma_C17A_ExactlyOnce: ImageByDir + ImagesToCodeGeneratorRequests (strategy directory) and
// ImagesToCodeGeneratorRequests over the whole image (strategy all), for all four (include_imports, include_wkt).
func VerifLemma_C17A_ExactlyOnce() {
	s := viNondetImage()
	image, err := NewImage(s.files)
	verifAssert(err == nil, "NewImage accepts distinct paths in dependency order")
	includeImports, includeWKT := verifNondetBool(), verifNondetBool()
	byDir := verifNondetBool()
	images := []Image{image}
	if byDir {
		images, err = ImageByDir(image)
		verifAssert(err == nil, "ImageByDir succeeds")
		// one image per directory of targeted files (the order of the images is deterministic - sorted today - but no
		// particular order is part of the property)
		var firsts []int
		for _, dirImage := range images {
			first := -1
			for _, file := range dirImage.Files() {
				if !file.IsImport() {
					first = s.indexOf(file.FileDescriptorProto())
					break
				}
			}
			verifAssert(first >= 0, "ImageByDir: every image has a targeted file")
			for _, other := range firsts {
				verifAssert(s.dirs[other] != s.dirs[first], "ImageByDir: no two images target the same directory")
			}
			firsts = append(firsts, first)
		}
	}
	requests, err := ImagesToCodeGeneratorRequests(images, "", nil, includeImports, includeWKT)
	verifAssert(err == nil, "ImagesToCodeGeneratorRequests succeeds")
	verifAssert(len(requests) == len(images), "one request per image")
	verifCover("requests built")
	viCheckRequests(s, requests, byDir, includeImports, includeWKT)
}
