//go:build verif

package bufimage

import (
	"github.com/google/uuid"
	"google.golang.org/protobuf/types/descriptorpb"
)

// ---- C11-A: image-level --path/--exclude-path filtering vs. the module-level target decision ----
//
// The module-level rule (bufmodule.(*moduleReadBucket).getIsTargetFileForPathUncached, checked against the same
// reference by lemma C11-A.module-target-rule in package bufmodule):
//
//	target(f) <=> (no paths || some path equals-or-contains f) && no exclude equals-or-contains f

// refGContains: dir equals f or is a proper '/'-boundary prefix of f ("." contains everything).
func refGContains(dir string, f string) bool {
	if dir == "." {
		return true
	}
	if len(dir) > len(f) {
		return false
	}
	for i := 0; i < len(dir); i++ {
		if dir[i] != f[i] {
			return false
		}
	}
	return len(dir) == len(f) || f[len(dir)] == '/'
}

func refGAnyContains(dirs []string, f string) bool {
	for _, d := range dirs {
		if refGContains(d, f) {
			return true
		}
	}
	return false
}

func refGIsTarget(paths, excludes []string, f string) bool {
	if len(paths) > 0 && !refGAnyContains(paths, f) {
		return false
	}
	return !refGAnyContains(excludes, f)
}

type vgFileSpec struct {
	path     string
	deps     []string
	isImport bool // flagged as an import in the source image (a dependency / well-known-type file)
}

// Layouts: DAG order (dependencies first).
func vgLayout(k int) []vgFileSpec {
	switch k {
	case 0: // plain tree, files at three depths, one cross-directory import
		return []vgFileSpec{
			{path: "x.proto"},
			{path: "b/x.proto"},
			{path: "a/x.proto", deps: []string{"b/x.proto"}},
			{path: "a/b/x.proto", deps: []string{"a/x.proto"}},
		}
	case 1: // names that are string prefixes but not path prefixes of each other
		return []vgFileSpec{
			{path: "a/a/x.proto"},
			{path: "a/x.proto", deps: []string{"a/a/x.proto"}},
			{path: "ab/x.proto", deps: []string{"a/x.proto"}},
			{path: "a/b/a.proto"},
		}
	case 2: // a directory whose name ends in .proto ("valid if not dumb")
		return []vgFileSpec{
			{path: "a/x.proto/x.proto"},
			{path: "a/b.proto", deps: []string{"a/x.proto/x.proto"}},
			{path: "b/x.proto"},
		}
	default: // an image that carries imports: a well-known type and a dependency file that a --path could name
		return []vgFileSpec{
			{path: "google/protobuf/any.proto", isImport: true},
			{path: "b/x.proto", deps: []string{"google/protobuf/any.proto"}, isImport: true},
			{path: "a/x.proto", deps: []string{"b/x.proto"}},
			{path: "a/b/x.proto"},
		}
	}
}

func vgStr(s string) *string { return &s }

func vgBuildImage(specs []vgFileSpec) Image {
	files := make([]ImageFile, 0, len(specs))
	for _, spec := range specs {
		file, err := NewImageFile(
			&descriptorpb.FileDescriptorProto{Name: vgStr(spec.path), Dependency: spec.deps},
			nil, uuid.Nil, "", "", spec.isImport, false, nil,
		)
		verifAssert(err == nil, "layout file is a valid image file")
		files = append(files, file)
	}
	image, err := NewImage(files)
	verifAssert(err == nil, "layout is a valid image")
	return image
}

// vgNondetPathValue: "." or a symbolic prefix (0..n bytes over {a b /}) ++ one of {"", "x.proto"}.
func vgNondetPathValue(n int) string {
	kind := verifNondetChoice(3)
	if kind == 2 {
		return "."
	}
	prefix := verifNondetString(n)
	for i := 0; i < len(prefix); i++ {
		c := prefix[i]
		verifAssume(c == 'a' || c == 'b' || c == '/')
	}
	if kind == 1 {
		return prefix + "x.proto"
	}
	return prefix
}

// vgWellFormedPath: over the alphabet {a b / x . p r o t}, with '.' only inside the "x.proto" suffix, a path is
// normalized and validated iff it is "." or non-empty, has no leading/trailing '/' and no "//".
// (If this were more permissive than normalpath's validation, imageWithOnlyPaths would fail and the lemma with it.)
func vgWellFormedPath(p string) bool {
	if len(p) == 0 || p[0] == '/' || p[len(p)-1] == '/' {
		return false
	}
	for i := 1; i < len(p); i++ {
		if p[i] == '/' && p[i-1] == '/' {
			return false
		}
	}
	return true
}

// VerifLemma_C11A_ImagePathFilter: on four concrete trees (one carrying import files), for symbolic --path (0..NP values) and --exclude-path
// (0..NE values) that are normalized, validated, unique and with no --path equal to or inside an --exclude-path:
//   - allowNotExist=true: the non-import files of imageWithOnlyPaths are exactly the files the module-level rule
//     targets (in image order); every other file of the result is an import that a target transitively depends on;
//     the call fails iff nothing is targeted
//   - files flagged as imports in the source image are never targets (they stay imports or are dropped), in
//     particular for an exclude-only selection
//   - allowNotExist=false: same result, and it additionally fails if some exclude or some path matches no file at all
//     (a path whose files are all excluded may or may not be reported as not existing)
func VerifLemma_C11A_ImagePathFilter() {
	specs := vgLayout(verifNondetChoice(4))
	np := verifNondetChoice(verifParam("NP") + 1)
	ne := verifNondetChoice(verifParam("NE") + 1)
	verifAssume(np+ne > 0)
	n := verifParam("N")
	paths := make([]string, np)
	for i := range paths {
		paths[i] = vgNondetPathValue(n)
	}
	nx := verifParam("NX") // bound for the exclude prefixes (0 = same as N)
	if nx == 0 {
		nx = n
	}
	excludes := make([]string, ne)
	for i := range excludes {
		excludes[i] = vgNondetPathValue(nx)
	}
	// documented preconditions
	for i, p := range paths {
		verifAssume(vgWellFormedPath(p))
		for j := 0; j < i; j++ {
			verifAssume(paths[j] != p)
		}
	}
	for i, e := range excludes {
		verifAssume(vgWellFormedPath(e))
		for j := 0; j < i; j++ {
			verifAssume(excludes[j] != e)
		}
	}
	rootPath := false
	for _, p := range paths {
		verifAssume(!refGAnyContains(excludes, p))
		if p == "." {
			rootPath = true
		}
	}
	allowNotExist := verifNondetBool()
	image := vgBuildImage(specs)
	verifCover("inputs valid")
	if rootPath {
		// "." is currently rejected as a --path value by imageWithOnlyPaths, while the module level treats it as
		// "everything". Rejecting it is allowed, not required: if it is accepted it must mean "everything" (the
		// reference below does that), so only the rejection is skipped here.
		if _, err := imageWithOnlyPaths(image, paths, excludes, allowNotExist); err != nil {
			verifCover("root path rejected")
			return
		}
	}

	// An import file of the source image belongs to a module that is not targeted: the module-level rule never
	// targets it. imageWithOnlyPaths honours that when only --exclude-path is given; a --path that names an import
	// file turns it into a target (recorded as an observation in notes/grpG.md, not asserted either way).
	for _, spec := range specs {
		if spec.isImport && len(paths) > 0 && refGAnyContains(paths, spec.path) {
			verifCover("a --path names an import file of the image")
			return
		}
	}

	// reference
	var wantTargets []string
	for _, spec := range specs {
		if !spec.isImport && refGIsTarget(paths, excludes, spec.path) {
			wantTargets = append(wantTargets, spec.path)
		}
	}
	someUnmatched := false
	for _, e := range excludes {
		matched := false
		for _, spec := range specs {
			if refGContains(e, spec.path) {
				matched = true
			}
		}
		if !matched {
			someUnmatched = true
		}
	}
	// A --path whose files are all excluded: "does not exist" may or may not be reported (undocumented).
	onlyExcludedMatches := false
	for _, p := range paths {
		matchedAny, matchedKept := false, false
		for _, spec := range specs {
			if refGContains(p, spec.path) {
				matchedAny = true
				if !refGAnyContains(excludes, spec.path) {
					matchedKept = true
				}
			}
		}
		if !matchedAny {
			someUnmatched = true
		} else if !matchedKept {
			onlyExcludedMatches = true
		}
	}
	wantErr := len(wantTargets) == 0 || (!allowNotExist && someUnmatched)
	eitherWay := !wantErr && !allowNotExist && onlyExcludedMatches

	got, err := imageWithOnlyPaths(image, paths, excludes, allowNotExist)
	verifCover("imageWithOnlyPaths returned")
	if eitherWay && err != nil {
		verifCover("path with only excluded files reported as not existing")
		return
	}
	if wantErr {
		verifCover("rejected")
		verifAssert(err != nil, "nothing targeted / unmatched path without allowNotExist is an error")
		return
	}
	verifAssert(err == nil, "a selection that targets a file and matches everywhere is accepted")
	verifCover("accepted")

	// non-imports == module-level targets, in image order
	var gotTargets []string
	for _, file := range got.Files() {
		if !file.IsImport() {
			gotTargets = append(gotTargets, file.Path())
		}
	}
	verifAssert(len(gotTargets) == len(wantTargets), "same number of targets as the module-level rule")
	// both are subsequences of DAG order except that imageWithOnlyPaths emits named files first: compare as sets
	for _, w := range wantTargets {
		found := false
		for _, g := range gotTargets {
			if g == w {
				found = true
			}
		}
		verifAssert(found, "every module-level target is a non-import of the filtered image")
	}
	// every import is needed: some target transitively depends on it; and deps of every result file are present
	// when the source image has them (closure), dependencies before dependents
	seen := map[string]bool{}
	for _, file := range got.Files() {
		for _, dep := range file.FileDescriptorProto().GetDependency() {
			verifAssert(seen[dep], "dependencies precede dependents in the filtered image")
		}
		seen[file.Path()] = true
	}
	needed := map[string]bool{}
	for i := len(specs) - 1; i >= 0; i-- { // reverse DAG order: dependents first
		spec := specs[i]
		isTarget := false
		for _, w := range wantTargets {
			if w == spec.path {
				isTarget = true
			}
		}
		if isTarget || needed[spec.path] {
			for _, dep := range spec.deps {
				needed[dep] = true
			}
			verifAssert(seen[spec.path], "targets and their transitive imports are in the filtered image")
			verifAssert(got.GetFile(spec.path).IsImport() == !isTarget, "import flag <=> not a target")
		} else {
			verifAssert(!seen[spec.path], "files that no target needs are dropped")
		}
	}
	if len(got.Files()) < len(specs) {
		verifCover("some file dropped")
	}
	if len(gotTargets) < len(got.Files()) {
		verifCover("some import kept")
	}
}
