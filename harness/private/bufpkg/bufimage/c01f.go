//go:build verif

package bufimage

import (
	"context"
	"errors"

	"github.com/bufbuild/buf/private/bufpkg/bufmodule"
	"github.com/bufbuild/buf/private/bufpkg/bufparse"
	"github.com/bufbuild/buf/private/pkg/slogext"
	"github.com/bufbuild/buf/private/pkg/storage/storagemem"
	"github.com/bufbuild/protocompile"
	"github.com/bufbuild/protocompile/linker"
	"github.com/bufbuild/protocompile/parser"
	"github.com/google/uuid"
	"google.golang.org/protobuf/types/descriptorpb"
)

// ---- C01-F (grpF): buildImage end to end over a real workspace, with the compiler modelled in the engine ----
//
// The workspace is described by vfWorld. From it the harness generates (a) real .proto source texts in storagemem
// buckets of two real modules and (b) the reference for every assertion. Natively (replay / conformance) the real
// protocompile compiles the texts. In the engine, Compiler.Compile is dispatched to vfModelCompile below (see
// engine/intercepts_image.go), which replays the compiler's observable protocol from the same description.

type vfWorld struct {
	n         int
	edge      [vfMax][vfMax]int // edge[i][j], j<i: 0 none, 1 import used, 2 import unused
	hasSyntax [vfMax]bool
	wktUser   int      // file importing (and using) google/protobuf/any.proto, -1 none
	names     []string // file paths; nil: vfName(i)
}

func (w *vfWorld) vfNameOf(i int) string {
	if w.names != nil {
		return w.names[i]
	}
	return vfName(i)
}

// The world of the current path travels with the context handed to buildImage, which passes it on unchanged to
// Compiler.Compile (bufimage's package initialiser cannot run in the engine, so no package-level variable is used;
// context.WithValue needs reflection).
type vfWorldContext struct {
	context.Context
	world *vfWorld
}

func vfPkgName(i int) string {
	switch i {
	case 0:
		return "pa"
	case 1:
		return "pb"
	case 2:
		return "pc"
	}
	return "pd"
}

// vfImportsOf: import paths of file i in source order.
func (w *vfWorld) vfImportsOf(i int) []string {
	var imports []string
	for j := 0; j < i; j++ {
		if w.edge[i][j] != 0 {
			imports = append(imports, w.vfNameOf(j))
		}
	}
	if i == w.wktUser {
		imports = append(imports, vfWKTPath)
	}
	return imports
}

func (w *vfWorld) vfSource(i int) string {
	src := ""
	if w.hasSyntax[i] {
		src += "syntax = \"proto3\";\n"
	}
	src += "package " + vfPkgName(i) + ";\n"
	for _, imp := range w.vfImportsOf(i) {
		src += "import \"" + imp + "\";\n"
	}
	src += "message M {\n"
	for j := 0; j < i; j++ {
		if w.edge[i][j] == 1 {
			src += "  optional " + vfPkgName(j) + ".M f" + vfPkgName(j) + " = " + string(rune('1'+j)) + ";\n"
		}
	}
	if i == w.wktUser {
		src += "  optional google.protobuf.Any any = 9;\n"
	}
	src += "}\n"
	return src
}

func (w *vfWorld) vfIndexOf(path string) int {
	for i := 0; i < w.n; i++ {
		if w.vfNameOf(i) == path {
			return i
		}
	}
	return -1
}

// vfModelCompile models protocompile.Compiler.Compile for the current world (engine only; natively the real
// compiler runs): every file of the import closure of the requested files is opened exactly once through the
// compiler's resolver; a file without a syntax statement yields a parser.ErrNoSyntax warning positioned in that
// file - for requested files and for files that are only imported alike; an import whose symbols are not used yields
// a linker.ErrorUnusedImport warning positioned in the importing file, but only if that file was requested
// (protocompile checks unused imports of explicitly compiled files only; confirmed by the conformance run, which
// rejected the first version of this model). The results are returned in request order.
func vfModelCompile(c *protocompile.Compiler, ctx context.Context, files []string) (linker.Files, error) {
	var w *vfWorld
	if worldContext, ok := ctx.(vfWorldContext); ok {
		w = worldContext.world
	}
	if w == nil {
		return nil, errors.New("no world for the compiler model")
	}
	requested := map[string]bool{}
	for _, path := range files {
		requested[path] = true
	}
	built := map[string]*vfFile{}
	var build func(path string) (*vfFile, error)
	build = func(path string) (*vfFile, error) {
		if f, ok := built[path]; ok {
			return f, nil
		}
		result, err := c.Resolver.FindFileByPath(path)
		if err != nil {
			return nil, err
		}
		if result.Source != nil {
			if closer, ok := result.Source.(interface{ Close() error }); ok {
				if err := closer.Close(); err != nil {
					return nil, err
				}
			}
		}
		name := path
		f := &vfFile{idx: w.vfIndexOf(path), path: path, fdp: &descriptorpb.FileDescriptorProto{Name: &name}}
		built[path] = f
		if f.idx < 0 {
			// the well-known type: no imports, has a syntax statement
			return f, nil
		}
		if !w.hasSyntax[f.idx] {
			c.Reporter.Warning(vfWarning{filename: path, err: parser.ErrNoSyntax})
		}
		for _, imp := range w.vfImportsOf(f.idx) {
			dep, err := build(imp)
			if err != nil {
				return nil, err
			}
			f.deps = append(f.deps, dep)
			f.fdp.Dependency = append(f.fdp.Dependency, imp)
			if j := w.vfIndexOf(imp); j >= 0 && w.edge[f.idx][j] == 2 && requested[path] {
				c.Reporter.Warning(vfWarning{filename: path, err: vfUnusedImport{imp: imp}})
			}
		}
		return f, nil
	}
	var results linker.Files
	for _, path := range files {
		f, err := build(path)
		if err != nil {
			return nil, err
		}
		results = append(results, f)
	}
	return results, nil
}

// VerifLemma_C01F_BuildImage: the real buildImage over a real workspace (ModuleSetBuilder, two modules in storagemem
// buckets: module m0 - named, with a commit - owns the even files, m1 the odd ones; every non-empty subset of target
// modules). 2..N files; file i imports any file j<i (not at all / used / unused); every file with or without a
// syntax statement; one file (or none) uses google/protobuf/any.proto.
// The image contains exactly the target modules' files and their transitive imports (incl. the built-in well-known
// type), each once, every file after its imports, IsImport <=> the owning module is not a target;
// IsSyntaxUnspecified <=> the file has no syntax statement - for targets and for files that are in the image only as
// imports; UnusedDependencyIndexes = positions of the unused imports for target files (the compiler reports unused
// imports of explicitly compiled files only), none for import-only files; owner name/commit from the module.
func VerifLemma_C01F_BuildImage() {
	ctx := context.Background()
	w := &vfWorld{wktUser: -1}
	w.n = verifNondetChoice(verifParam("N")-1) + 2
	n := w.n
	for i := 0; i < n; i++ {
		for j := 0; j < i; j++ {
			w.edge[i][j] = verifNondetChoice(3)
		}
		w.hasSyntax[i] = verifNondetBool()
	}
	if verifParam("WKT") != 0 {
		w.wktUser = verifNondetChoice(n+1) - 1
	}
	ctx = vfWorldContext{Context: ctx, world: w}
	targetMods := verifNondetChoice(3) + 1 // bit 0: m0, bit 1: m1
	modTarget := [2]bool{targetMods&1 != 0, targetMods&2 != 0}
	fullName, err := bufparse.NewFullName("buf.build", "acme", "m0")
	verifAssert(err == nil, "full name")
	commitID := uuid.UUID{7}
	builder := bufmodule.NewModuleSetBuilder(ctx, slogext.NopLogger, bufmodule.NopModuleDataProvider, bufmodule.NopCommitProvider)
	for m := 0; m < 2; m++ {
		data := map[string][]byte{"LICENSE": []byte("license")}
		for i := m; i < n; i += 2 {
			data[vfName(i)] = []byte(w.vfSource(i))
		}
		bucket, err := storagemem.NewReadBucket(data)
		verifAssert(err == nil, "memory bucket")
		if m == 0 {
			builder.AddLocalModule(bucket, "m0", modTarget[m], bufmodule.LocalModuleWithFullNameAndCommitID(fullName, commitID))
		} else {
			builder.AddLocalModule(bucket, "m1", modTarget[m])
		}
	}
	moduleSet, err := builder.Build()
	verifAssert(err == nil && moduleSet != nil, "workspace builds")
	if err != nil {
		return
	}
	verifCover("workspace built")
	image, err := buildImage(ctx, slogext.NopLogger, bufmodule.ModuleSetToModuleReadBucketWithOnlyProtoFiles(moduleSet), false, true)
	verifAssert(err == nil && image != nil, "a well-formed workspace compiles")
	if err != nil {
		return
	}
	verifCover("image built")
	// Reference.
	isTarget := [vfMax]bool{}
	reach := [vfMax][vfMax]bool{}
	for i := 0; i < n; i++ {
		isTarget[i] = modTarget[i%2]
		for j := 0; j < n; j++ {
			reach[i][j] = i == j || (j < i && w.edge[i][j] != 0)
		}
	}
	for k := 0; k < n; k++ {
		for i := 0; i < n; i++ {
			for j := 0; j < n; j++ {
				if reach[i][k] && reach[k][j] {
					reach[i][j] = true
				}
			}
		}
	}
	pos := [vfMax]int{}
	for i := 0; i < n; i++ {
		pos[i] = -1
	}
	wktPos := -1
	for p, imageFile := range image.Files() {
		if imageFile.Path() == vfWKTPath {
			verifAssert(wktPos == -1, "well-known type once")
			wktPos = p
			verifAssert(imageFile.IsImport(), "the well-known type is an import")
			verifAssert(!imageFile.IsSyntaxUnspecified() && len(imageFile.UnusedDependencyIndexes()) == 0, "the built-in well-known type has no markers")
			verifAssert(imageFile.FullName() == nil && imageFile.CommitID() == uuid.Nil, "the built-in well-known type has no owner")
			continue
		}
		i := w.vfIndexOf(imageFile.Path())
		verifAssert(i >= 0, "image file is a workspace file")
		if i < 0 {
			return
		}
		verifAssert(pos[i] == -1, "no file twice")
		pos[i] = p
		verifAssert(imageFile.IsImport() == !isTarget[i], "IsImport iff the owning module is not a target")
		verifAssert(imageFile.IsSyntaxUnspecified() == !w.hasSyntax[i], "syntax-unspecified marker iff the file has no syntax statement")
		if !w.hasSyntax[i] && !isTarget[i] {
			verifCover("import-only file without syntax")
		}
		var wantUnused []int32
		k := 0
		for j := 0; j < i; j++ {
			if w.edge[i][j] != 0 {
				if w.edge[i][j] == 2 && isTarget[i] {
					wantUnused = append(wantUnused, int32(k))
				}
				k++
			}
		}
		gotUnused := imageFile.UnusedDependencyIndexes()
		if len(wantUnused) > 0 {
			verifCover("target file with an unused import")
		}
		verifAssert(refFSameUnusedIndexes(gotUnused, wantUnused), "unused dependency indexes are the positions of the unused imports")
		deps := imageFile.FileDescriptorProto().GetDependency()
		wantDeps := w.vfImportsOf(i)
		verifAssert(len(deps) == len(wantDeps), "descriptor lists the imports")
		if len(deps) == len(wantDeps) {
			for x := range deps {
				verifAssert(deps[x] == wantDeps[x], "descriptor lists the imports in source order")
			}
		}
		if i%2 == 0 {
			gotName := imageFile.FullName()
			verifAssert(gotName != nil && gotName.String() == "buf.build/acme/m0" && imageFile.CommitID() == commitID, "owner module name and commit")
		} else {
			verifAssert(imageFile.FullName() == nil && imageFile.CommitID() == uuid.Nil, "unnamed module: no owner name")
		}
	}
	wktReached := false
	for i := 0; i < n; i++ {
		want := false
		for t := 0; t < n; t++ {
			if isTarget[t] && reach[t][i] {
				want = true
			}
		}
		verifAssert((pos[i] >= 0) == want, "image is exactly the import closure of the target modules' files")
		if want && i == w.wktUser {
			wktReached = true
		}
		for j := 0; j < i; j++ {
			if w.edge[i][j] != 0 && pos[i] >= 0 {
				verifAssert(pos[j] >= 0 && pos[j] < pos[i], "every file after the files it imports")
			}
		}
		if i == w.wktUser && pos[i] >= 0 {
			verifAssert(wktPos >= 0 && wktPos < pos[i], "the well-known type precedes its importer")
		}
	}
	verifAssert((wktPos >= 0) == wktReached, "the well-known type is in the image iff a target reaches its importer")
}
