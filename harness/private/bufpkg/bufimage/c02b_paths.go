//go:build verif

package bufimage

import (
	"github.com/google/uuid"
	"google.golang.org/protobuf/types/descriptorpb"
)

// ---- grpH, C02-B: imageWithOnlyPaths (--path / --exclude-path on an image) under every map iteration order ----

func vhStr(s string) *string { return &s }

func vhBuildImage() Image {
	specs := []struct {
		path string
		deps []string
	}{
		{path: "b/x.proto"},
		{path: "a/x.proto", deps: []string{"b/x.proto"}},
		{path: "a/y.proto"},
	}
	var files []ImageFile
	for _, spec := range specs {
		file, err := NewImageFile(&descriptorpb.FileDescriptorProto{Name: vhStr(spec.path), Dependency: spec.deps},
			nil, uuid.Nil, "", "", false, false, nil)
		verifAssert(err == nil, "valid image file")
		files = append(files, file)
	}
	image, err := NewImage(files)
	verifAssert(err == nil, "valid image")
	return image
}

// VerifLemma_C02B_ImagePaths: imageWithOnlyPaths(image, paths, excludes, allowNotExist=false) for path lists drawn
// from directories that exist (a, b) and that do not (c, d): the outcome - the file list of the resulting image, or
// the error TEXT the user sees - is the same for every iteration order of the maps involved.
func VerifLemma_C02B_ImagePaths() {
	image := vhBuildImage()
	pathSets := [][]string{{"a"}, {"a", "b"}, {"c"}, {"a", "c"}, {"c", "d"}, {"a", "d", "c"}}
	missing := []int{0, 0, 1, 1, 2, 2}
	excludeSets := [][]string{nil, {"a/y.proto"}, {"e"}}
	pi := verifNondetChoice(verifParam("PATHSETS"))
	ei := verifNondetChoice(verifParam("EXCLUDESETS"))
	paths, excludes := pathSets[pi], excludeSets[ei]
	nMissing := missing[pi]
	if ei == 2 {
		nMissing++
	}
	repeats := 2
	if !verifInEngine() {
		repeats = 64
	}
	firstErr, firstFiles := "", ""
	same := true
	for r := 0; r < repeats; r++ {
		got, err := imageWithOnlyPaths(image, paths, excludes, false)
		e, f := "", ""
		if err != nil {
			e = err.Error()
		} else {
			for _, file := range got.Files() {
				f += file.Path()
				if file.IsImport() {
					f += "(import)"
				}
				f += ";"
			}
		}
		if r == 0 {
			firstErr, firstFiles = e, f
		} else if e != firstErr || f != firstFiles {
			same = false
		}
		verifAssert((err != nil) == (nMissing > 0), "error iff some requested path matches no file")
	}
	verifCover("filtered")
	// F24: with two or more unmatched paths the error names whichever the map yields first
	if verifKnown("F24-image-paths-error-map-order", nMissing > 1) {
		return
	}
	verifAssert(same, "same image / same error text for every map iteration order")
}
