//go:build verif

package bufimage

import (
	"github.com/google/uuid"
	"google.golang.org/protobuf/types/descriptorpb"
)

// VerifLemma_C11D_ProtoImageFile: probe.
func VerifLemma_C11D_ProtoImageFile() {
	isImport := verifNondetBool()
	file, err := NewImageFile(
		&descriptorpb.FileDescriptorProto{Name: vgStr("a.proto"), Dependency: []string{"b.proto"}},
		nil, uuid.Nil, "", "", isImport, false, []int32{0},
	)
	verifAssert(err == nil, "valid image file")
	protoFile, err := imageFileToProtoImageFile(file)
	verifAssert(err == nil, "conversion succeeds")
	verifCover("converted")
	verifAssert(protoFile.GetName() == "a.proto", "name carried")
	verifAssert(protoFile.GetBufExtension().GetIsImport() == isImport, "import flag carried")
}
