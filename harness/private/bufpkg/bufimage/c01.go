//go:build verif

package bufimage

import (
	"context"
	"errors"
	"sort"

	"github.com/bufbuild/buf/private/bufpkg/bufparse"
	"github.com/bufbuild/buf/private/pkg/protoencoding"
	"github.com/bufbuild/protocompile/ast"
	"github.com/bufbuild/protocompile/linker"
	"github.com/bufbuild/protocompile/parser"
	"github.com/bufbuild/protocompile/reporter"
	"github.com/google/uuid"
	"google.golang.org/protobuf/reflect/protoreflect"
	"google.golang.org/protobuf/types/descriptorpb"
)

// ---- C01 (grpF): identifiers are prefixed vf / refF ----

const vfMax = 6

// vfFile is a stub compiled file (linker.File). Only what buf's own code calls is implemented; the descriptor
// contents (messages, options, source info) are outside the C01-A claim.
type vfFile struct {
	linker.File
	idx  int
	path string
	deps []*vfFile
	fdp  *descriptorpb.FileDescriptorProto
}

func (f *vfFile) Path() string                      { return f.path }
func (f *vfFile) Imports() protoreflect.FileImports { return vfImports{f: f} }

// FileDescriptorProto is what protoutil.ProtoFromFileDescriptor asks a compiler result for.
func (f *vfFile) FileDescriptorProto() *descriptorpb.FileDescriptorProto { return f.fdp }
func (f *vfFile) FindImportByPath(path string) linker.File {
	for _, d := range f.deps {
		if d.path == path {
			return d
		}
	}
	return nil
}

type vfImports struct {
	protoreflect.FileImports
	f *vfFile
}

func (i vfImports) Len() int { return len(i.f.deps) }
func (i vfImports) Get(k int) protoreflect.FileImport {
	return protoreflect.FileImport{FileDescriptor: i.f.deps[k]}
}

type vfResolver struct{ protoencoding.Resolver }

// vfNondetNames returns n distinct symbolic proto paths: a prefix of 1..p lower-case letters ++ ".proto".
func vfNondetNames(n int, p int, distinct bool) []string {
	names := make([]string, n)
	for i := 0; i < n; i++ {
		prefix := verifNondetString(p)
		verifAssume(len(prefix) > 0)
		for k := 0; k < len(prefix); k++ {
			c := prefix[k]
			verifAssume(c >= 'a' && c <= 'z')
		}
		names[i] = prefix + ".proto"
		if distinct {
			for j := 0; j < i; j++ {
				verifAssume(names[j] != names[i])
			}
		}
	}
	return names
}

type vfGraph struct {
	n     int
	names []string
	adj   [vfMax][vfMax]bool // adj[i][j]: file i imports file j
	reach [vfMax][vfMax]bool // reflexive-transitive closure
	files []*vfFile
}

// vfNondetGraph: n files, file i may import any file j<i (acyclic by construction; import lists are in a nondet
// direction so that import order and index order are independent).
//
// sym: names are distinct symbolic strings (so name order is independent of import order), else fixed names.
// side: also vary the direction of the import lists.
func vfNondetGraph(maxN int, p int, sym bool, side bool) *vfGraph {
	g := &vfGraph{}
	g.n = verifNondetChoice(maxN) + 1
	n := g.n
	if sym {
		g.names = vfNondetNames(n, p, true)
	} else {
		for i := 0; i < n; i++ {
			g.names = append(g.names, vfName(i))
		}
	}
	for i := 0; i < n; i++ {
		for j := 0; j < i; j++ {
			if verifNondetBool() {
				g.adj[i][j] = true
			}
		}
	}
	reverseImports := side && verifNondetBool()
	for i := 0; i < n; i++ {
		f := &vfFile{idx: i, path: g.names[i]}
		for k := 0; k < i; k++ {
			j := k
			if reverseImports {
				j = i - 1 - k
			}
			if g.adj[i][j] {
				f.deps = append(f.deps, g.files[j])
			}
		}
		var depNames []string
		for _, d := range f.deps {
			depNames = append(depNames, d.path)
		}
		name := f.path
		f.fdp = &descriptorpb.FileDescriptorProto{Name: &name, Dependency: depNames}
		g.files = append(g.files, f)
	}
	for i := 0; i < n; i++ {
		for j := 0; j < n; j++ {
			g.reach[i][j] = g.adj[i][j] || i == j
		}
	}
	for k := 0; k < n; k++ {
		for i := 0; i < n; i++ {
			for j := 0; j < n; j++ {
				if g.reach[i][k] && g.reach[k][j] {
					g.reach[i][j] = true
				}
			}
		}
	}
	return g
}

// VerifLemma_C01A_GetImage: the real checkAndSortFiles + getImage over stub compiler results.
// The image contains exactly the reflexive-transitive import closure of the targets, each path once, every file
// after all files it imports, IsImport <=> not a target, owner module name/commit and external path as recorded by
// the parser accessor.
func VerifLemma_C01A_GetImage() {
	ctx := context.Background()
	side := verifParam("SIDE") != 0
	g := vfNondetGraph(verifParam("N"), verifParam("P"), verifParam("SYM") != 0, side)
	n := g.n
	isTarget := [vfMax]bool{}
	nTargets := 0
	for i := 0; i < n; i++ {
		if verifNondetBool() {
			isTarget[i] = true
			nTargets++
		}
	}
	// The compiler returns the target files in any order; paths are sorted as GetTargetFileInfos does.
	var compiled linker.Files
	var paths []string
	rot := 0
	if nTargets > 1 && side {
		rot = verifNondetChoice(nTargets)
	}
	var targetIdx []int
	for i := 0; i < n; i++ {
		if isTarget[i] {
			targetIdx = append(targetIdx, i)
		}
	}
	for k := 0; k < nTargets; k++ {
		i := targetIdx[(k+rot)%nTargets]
		compiled = append(compiled, g.files[i])
		paths = append(paths, g.names[i])
	}
	sort.Strings(paths)
	handler := newParserAccessorHandler(ctx, nil)
	fullName, err := bufparse.NewFullName("buf.build", "acme", "mod")
	verifAssert(err == nil, "full name is valid")
	commitID := uuid.UUID{1, 2, 3}
	hasModule := [vfMax]bool{}
	hasExternal := [vfMax]bool{}
	// One file (nondet which) is owned by a named module with a commit, the next one has an external path.
	mk := 0
	if side {
		mk = verifNondetChoice(n)
	}
	for i := 0; i < n; i++ {
		hasModule[i] = i == mk
		hasExternal[i] = i == (mk+1)%n
		var fn bufparse.FullName
		cid := uuid.Nil
		if hasModule[i] {
			fn = fullName
			cid = commitID
		}
		ext := ""
		if hasExternal[i] {
			ext = "ext/" + vfName(i)
		}
		verifAssert(handler.addPath(g.names[i], ext, "", fn, cid) == nil, "addPath")
	}
	verifCover("inputs built")

	sorted, err := checkAndSortFiles(compiled, paths)
	verifAssert(err == nil, "checkAndSortFiles accepts distinct named results")
	if err != nil {
		return
	}
	verifAssert(len(sorted) == nTargets, "checkAndSortFiles keeps every file")
	for k := 0; k < len(sorted); k++ {
		verifAssert(sorted[k].Path() == paths[k], "checkAndSortFiles puts results in path order")
	}
	image, err := getImage(ctx, false, sorted, nil, handler, map[string]struct{}{}, map[string]map[string]struct{}{})
	if nTargets == 0 {
		verifCover("no targets")
		verifAssert(err != nil, "no target files yields no image")
		return
	}
	verifAssert(err == nil && image != nil, "getImage succeeds")
	if err != nil {
		return
	}
	verifCover("image built")
	pos := [vfMax]int{}
	for i := 0; i < n; i++ {
		pos[i] = -1
	}
	for p, imageFile := range image.Files() {
		i := refFIndexOf(g, imageFile.FileDescriptorProto())
		verifAssert(i >= 0, "image file carries a compiled descriptor")
		if i < 0 {
			return
		}
		verifAssert(pos[i] == -1, "no file twice")
		pos[i] = p
		verifAssert(imageFile.Path() == g.names[i], "image file path is the compiled file's path")
		verifAssert(imageFile.IsImport() == !isTarget[i], "IsImport iff not a target")
		verifAssert((imageFile.FullName() != nil) == hasModule[i], "module name as recorded")
		if hasModule[i] {
			verifAssert(imageFile.CommitID() == commitID, "commit as recorded")
		} else {
			verifAssert(imageFile.CommitID() == uuid.Nil, "no commit without module")
		}
		if hasExternal[i] {
			verifAssert(imageFile.ExternalPath() == "ext/"+vfName(i), "external path as recorded")
		} else {
			verifAssert(imageFile.ExternalPath() == g.names[i], "external path defaults to path")
		}
		verifAssert(!imageFile.IsSyntaxUnspecified() && len(imageFile.UnusedDependencyIndexes()) == 0, "no warnings, no markers")
		byPath := image.GetFile(g.names[i])
		verifAssert(byPath != nil && byPath.Path() == g.names[i] && byPath.IsImport() == imageFile.IsImport(), "GetFile finds the file by path")
	}
	for i := 0; i < n; i++ {
		want := false
		for t := 0; t < n; t++ {
			if isTarget[t] && g.reach[t][i] {
				want = true
			}
		}
		verifAssert((pos[i] >= 0) == want, "image is exactly the import closure of the targets")
		for j := 0; j < n; j++ {
			if g.adj[i][j] && pos[i] >= 0 {
				verifAssert(pos[j] >= 0 && pos[j] < pos[i], "every file after the files it imports")
			}
		}
	}
}

// vfName: fixed file names (a function, not a package variable: bufimage's package initialiser is not run by the engine).
func vfName(i int) string {
	switch i {
	case 0:
		return "a.proto"
	case 1:
		return "b.proto"
	case 2:
		return "c.proto"
	case 3:
		return "d.proto"
	case 4:
		return "e.proto"
	}
	return "f.proto"
}

// refFIndexOf identifies the compiled file an image file stands for: by descriptor identity when the image carries
// the compiler's descriptor itself, otherwise (a copy would be just as good) by the descriptor's file name.
func refFIndexOf(g *vfGraph, fdp *descriptorpb.FileDescriptorProto) int {
	if i := refFIndexOfPointer(g, fdp); i >= 0 {
		return i
	}
	for i := 0; i < g.n; i++ {
		if fdp.GetName() == g.names[i] {
			return i
		}
	}
	return -1
}

// refFSameUnusedIndexes: got and want hold the same indexes, each once (the order of the list is not documented).
func refFSameUnusedIndexes(got []int32, want []int32) bool {
	if len(got) != len(want) {
		return false
	}
	for _, w := range want {
		count := 0
		for _, g := range got {
			if g == w {
				count++
			}
		}
		if count != 1 {
			return false
		}
	}
	return true
}

func refFIndexOfPointer(g *vfGraph, fdp *descriptorpb.FileDescriptorProto) int {
	for i := 0; i < g.n; i++ {
		if g.files[i].fdp == fdp {
			return i
		}
	}
	return -1
}

// VerifLemma_C01A_Warnings: compiler warnings -> markers. For a nondet graph with fixed names, every import edge
// is nondet "reported unused" or not, every file nondet "syntax unspecified", a file may also have an empty
// unused-import entry: UnusedDependencyIndexes are exactly the positions (in import order) of the reported imports,
// IsSyntaxUnspecified iff reported.
func VerifLemma_C01A_Warnings() {
	ctx := context.Background()
	n := verifNondetChoice(verifParam("N")) + 1
	files := make([]*vfFile, n)
	unused := [vfMax][vfMax]bool{}
	noSyntax := [vfMax]bool{}
	syntaxUnspecified := map[string]struct{}{}
	unusedMap := map[string]map[string]struct{}{}
	for i := 0; i < n; i++ {
		f := &vfFile{idx: i, path: vfName(i)}
		var depNames []string
		for j := 0; j < i; j++ {
			switch verifNondetChoice(3) {
			case 0:
			case 1:
				f.deps = append(f.deps, files[j])
				depNames = append(depNames, vfName(j))
			case 2:
				f.deps = append(f.deps, files[j])
				depNames = append(depNames, vfName(j))
				unused[i][j] = true
				if unusedMap[vfName(i)] == nil {
					unusedMap[vfName(i)] = map[string]struct{}{}
				}
				unusedMap[vfName(i)][vfName(j)] = struct{}{}
			}
		}
		if unusedMap[vfName(i)] == nil && verifNondetBool() {
			unusedMap[vfName(i)] = map[string]struct{}{}
		}
		if verifNondetBool() {
			noSyntax[i] = true
			syntaxUnspecified[vfName(i)] = struct{}{}
		}
		name := f.path
		f.fdp = &descriptorpb.FileDescriptorProto{Name: &name, Dependency: depNames}
		files[i] = f
	}
	// The last file is the only target: whatever it reaches is in the image.
	handler := newParserAccessorHandler(ctx, nil)
	image, err := getImage(ctx, false, linker.Files{files[n-1]}, nil, handler, syntaxUnspecified, unusedMap)
	verifAssert(err == nil && image != nil, "getImage succeeds")
	if err != nil {
		return
	}
	verifCover("image built")
	for _, imageFile := range image.Files() {
		i := -1
		for k := 0; k < n; k++ {
			if files[k].fdp == imageFile.FileDescriptorProto() || imageFile.Path() == vfName(k) {
				i = k
			}
		}
		verifAssert(i >= 0, "image file carries a compiled descriptor")
		if i < 0 {
			return
		}
		verifAssert(imageFile.IsSyntaxUnspecified() == noSyntax[i], "syntax-unspecified marker iff reported")
		var want []int32
		for k, d := range files[i].deps {
			if unused[i][d.idx] {
				want = append(want, int32(k))
			}
		}
		got := imageFile.UnusedDependencyIndexes()
		if len(want) > 0 {
			verifCover("unused import marked")
		}
		verifAssert(refFSameUnusedIndexes(got, want), "unused dependency indexes are the positions of the reported imports")
	}
}

// ---- C01-B newImage ----

type vfSpec struct {
	path   string
	module int // 0: none, 1..2: module pool
	commit int // 0..1
	deps   []int
}

// VerifLemma_C01B_NewImage: newImage over 0..N image files with symbolic (possibly equal) paths, module names from a
// pool of two (or none) and two commit ids: error iff (no files or a duplicate path or one module with two commits);
// an accepted image keeps the input order (with and without reorder, there are no dependencies) and finds files by path.
func VerifLemma_C01B_NewImage() {
	n := verifNondetChoice(verifParam("N") + 1)
	names := vfNondetNames(n, verifParam("P"), false)
	modA, err := bufparse.NewFullName("buf.build", "acme", "a")
	verifAssert(err == nil, "module name a")
	modB, err := bufparse.NewFullName("buf.build", "acme", "b")
	verifAssert(err == nil, "module name b")
	commits := []uuid.UUID{{1}, {2}}
	specs := make([]vfSpec, n)
	files := make([]ImageFile, n)
	for i := 0; i < n; i++ {
		specs[i].path = names[i]
		specs[i].module = verifNondetChoice(3)
		if specs[i].module != 0 {
			specs[i].commit = verifNondetChoice(2)
		}
		var fn bufparse.FullName
		cid := uuid.Nil
		switch specs[i].module {
		case 1:
			fn, cid = modA, commits[specs[i].commit]
		case 2:
			fn, cid = modB, commits[specs[i].commit]
		}
		name := names[i]
		file, err := NewImageFile(&descriptorpb.FileDescriptorProto{Name: &name}, fn, cid, "", "", false, false, nil)
		verifAssert(err == nil, "image file is valid")
		if err != nil {
			return
		}
		files[i] = file
	}
	reorder := verifNondetBool()
	dup := false
	conflict := false
	for i := 0; i < n; i++ {
		for j := 0; j < i; j++ {
			if names[i] == names[j] {
				dup = true
			}
			if specs[i].module != 0 && specs[i].module == specs[j].module && specs[i].commit != specs[j].commit {
				conflict = true
			}
		}
	}
	verifCover("inputs built")
	input := make([]ImageFile, n)
	copy(input, files)
	image, err := newImage(input, reorder, vfResolver{})
	wantErr := n == 0 || dup || conflict
	verifAssert((err != nil) == wantErr, "newImage fails iff empty, duplicate path or module with two commits")
	if err != nil || wantErr {
		if dup {
			verifCover("duplicate path")
		}
		if conflict {
			verifCover("commit conflict")
		}
		return
	}
	verifCover("image accepted")
	out := image.Files()
	verifAssert(len(out) == n, "image keeps every file")
	if len(out) != n {
		return
	}
	for i := 0; i < n; i++ {
		verifAssert(out[i].Path() == names[i], "input order is kept (files without dependencies are in DAG order)")
		byPath := image.GetFile(names[i])
		verifAssert(byPath != nil && byPath.Path() == names[i], "GetFile finds each file by its path")
	}
}

// VerifLemma_C01B_OrderImageFiles: newImage with reorder over 1..N files with distinct symbolic paths and every
// dependency relation between them (cycles included) plus optional dependencies on a path outside the image: the
// result is a permutation of the input; when the relation is acyclic every file follows the files it depends on;
// without reorder the input order is kept.
func VerifLemma_C01B_OrderImageFiles() {
	n := verifNondetChoice(verifParam("N")) + 1
	names := vfNondetNames(n, verifParam("P"), true)
	adj := [vfMax][vfMax]bool{}
	files := make([]ImageFile, n)
	absentDep := verifNondetBool()
	for i := 0; i < n; i++ {
		var depNames []string
		if absentDep {
			depNames = append(depNames, "zz/absent.proto")
		}
		for j := 0; j < n; j++ {
			if j != i && verifNondetBool() {
				adj[i][j] = true
				depNames = append(depNames, names[j])
			}
		}
		name := names[i]
		file, err := NewImageFile(&descriptorpb.FileDescriptorProto{Name: &name, Dependency: depNames}, nil, uuid.Nil, "", "", false, false, nil)
		verifAssert(err == nil, "image file is valid")
		if err != nil {
			return
		}
		files[i] = file
	}
	reorder := verifNondetBool()
	verifCover("inputs built")
	input := make([]ImageFile, n)
	copy(input, files)
	image, err := newImage(input, reorder, vfResolver{})
	verifAssert(err == nil && image != nil, "distinct paths without modules are accepted")
	if err != nil {
		return
	}
	out := image.Files()
	verifAssert(len(out) == n, "image keeps every file")
	if len(out) != n {
		return
	}
	pos := [vfMax]int{}
	for i := 0; i < n; i++ {
		pos[i] = -1
	}
	for p, f := range out {
		for i := 0; i < n; i++ {
			if f == files[i] || (f != nil && f.Path() == names[i]) {
				verifAssert(pos[i] == -1, "no file twice in the image")
				pos[i] = p
			}
		}
	}
	for i := 0; i < n; i++ {
		verifAssert(pos[i] >= 0, "every input file is in the image")
		byPath := image.GetFile(names[i])
		verifAssert(byPath != nil && byPath.Path() == names[i], "GetFile finds each file by its path")
	}
	reach := adj
	for k := 0; k < n; k++ {
		for i := 0; i < n; i++ {
			for j := 0; j < n; j++ {
				if reach[i][k] && reach[k][j] {
					reach[i][j] = true
				}
			}
		}
	}
	for i := 0; i < n; i++ {
		if reach[i][i] {
			return
		}
	}
	if !reorder {
		// NewImage documents "the input ImageFiles are expected to be in correct DAG order" (and leaves reordering
		// otherwise as a TODO): only an input that already is in dependency order must come back unchanged.
		inDAGOrder := true
		for i := 0; i < n; i++ {
			for j := 0; j < n; j++ {
				if adj[i][j] && j > i {
					inDAGOrder = false
				}
			}
		}
		if inDAGOrder {
			verifCover("unreordered image in DAG order")
			for i := 0; i < n; i++ {
				verifAssert(pos[i] == i, "without reorder an input in dependency order is kept as is")
			}
		}
		return
	}
	verifCover("reordered acyclic image")
	for i := 0; i < n; i++ {
		for j := 0; j < n; j++ {
			if adj[i][j] {
				verifAssert(pos[j] < pos[i], "reorder puts every file after its dependencies")
			}
		}
	}
}

// ---- C01-A warning maps ----

type vfUnusedImport struct {
	linker.ErrorUnusedImport
	imp string
}

func (e vfUnusedImport) UnusedImport() string { return e.imp }

type vfWarning struct {
	reporter.ErrorWithPos
	filename string
	err      error
}

func (w vfWarning) GetPosition() ast.SourcePos {
	return ast.SourcePos{Filename: w.filename, Line: 1, Col: 1}
}
func (w vfWarning) Unwrap() error { return w.err }

// VerifLemma_C01A_WarningMaps: a sequence of 0..W compiler warnings, each "no syntax" (parser.ErrNoSyntax),
// "unused import" (linker.ErrorUnusedImport) or something else, positioned in one of F files, unused imports
// naming one of F files: maybeAddSyntaxUnspecified/maybeAddUnusedImport build exactly the set of files with a
// no-syntax warning and, per file, exactly the set of imports reported unused (no entry for a file without one).
func VerifLemma_C01A_WarningMaps() {
	w := verifNondetChoice(verifParam("W") + 1)
	nFiles := verifParam("F")
	wantNoSyntax := [vfMax]bool{}
	wantUnused := [vfMax][vfMax]bool{}
	otherErr := errors.New("some other warning")
	syntaxUnspecifiedFilenames := make(map[string]struct{})
	filenameToUnusedDependencyFilenames := make(map[string]map[string]struct{})
	for k := 0; k < w; k++ {
		file := verifNondetChoice(nFiles)
		var warning vfWarning
		switch verifNondetChoice(3) {
		case 0:
			warning = vfWarning{filename: vfName(file), err: parser.ErrNoSyntax}
			wantNoSyntax[file] = true
		case 1:
			imp := verifNondetChoice(nFiles)
			warning = vfWarning{filename: vfName(file), err: vfUnusedImport{imp: vfName(imp)}}
			wantUnused[file][imp] = true
		case 2:
			warning = vfWarning{filename: vfName(file), err: otherErr}
		}
		maybeAddSyntaxUnspecified(syntaxUnspecifiedFilenames, warning)
		maybeAddUnusedImport(filenameToUnusedDependencyFilenames, warning)
	}
	verifCover("warnings processed")
	nNoSyntax := 0
	nUnusedFiles := 0
	for i := 0; i < nFiles; i++ {
		_, got := syntaxUnspecifiedFilenames[vfName(i)]
		verifAssert(got == wantNoSyntax[i], "syntax-unspecified set is exactly the files with a no-syntax warning")
		if wantNoSyntax[i] {
			nNoSyntax++
		}
		any := false
		count := 0
		for j := 0; j < nFiles; j++ {
			_, got := filenameToUnusedDependencyFilenames[vfName(i)][vfName(j)]
			verifAssert(got == wantUnused[i][j], "unused imports of a file are exactly those reported")
			if wantUnused[i][j] {
				any = true
				count++
			}
		}
		// An absent entry and an empty entry mean the same; only the content is asserted.
		verifAssert(len(filenameToUnusedDependencyFilenames[vfName(i)]) == count, "no other unused imports")
		if any {
			nUnusedFiles++
		}
	}
	verifAssert(len(syntaxUnspecifiedFilenames) == nNoSyntax, "no other syntax-unspecified files")
	nonEmptyEntries := 0
	for _, unusedOfFile := range filenameToUnusedDependencyFilenames {
		if len(unusedOfFile) > 0 {
			nonEmptyEntries++
		}
	}
	verifAssert(nonEmptyEntries == nUnusedFiles, "no unused imports for other files")
}

// VerifLemma_C01A_CheckAndSortFiles: checkAndSortFiles over 0..K compiler results with symbolic names (0..L arbitrary
// bytes, equal and empty names allowed) and 0..K requested paths (symbolic, 0..L bytes): error iff the counts differ, a name is empty, two results share a name, or a requested
// path has no result; otherwise the output is the results in requested-path order.
func VerifLemma_C01A_CheckAndSortFiles() {
	maxK := verifParam("K")
	maxL := verifParam("L")
	nFiles := verifNondetChoice(maxK + 1)
	nPaths := verifNondetChoice(maxK + 1)
	var files linker.Files
	names := make([]string, nFiles)
	for i := 0; i < nFiles; i++ {
		names[i] = verifNondetString(maxL)
		files = append(files, &vfFile{idx: i, path: names[i]})
	}
	paths := make([]string, nPaths)
	for k := 0; k < nPaths; k++ {
		paths[k] = verifNondetString(maxL)
	}
	verifCover("inputs built")
	sorted, err := checkAndSortFiles(files, paths)
	bad := nFiles != nPaths
	emptyName := false
	for i := 0; i < nFiles; i++ {
		if len(names[i]) == 0 {
			emptyName = true
		}
		for j := 0; j < i; j++ {
			if names[i] == names[j] {
				bad = true
			}
		}
	}
	for k := 0; k < nPaths; k++ {
		found := false
		for i := 0; i < nFiles; i++ {
			if names[i] == paths[k] {
				found = true
			}
		}
		if !found {
			bad = true
		}
	}
	if emptyName && !bad {
		// A compiler result without a name is rejected today; the property only needs the other three conditions
		// (a requested path is never empty), so either outcome is accepted here.
		verifCover("nameless result, otherwise consistent")
		return
	}
	verifAssert((err != nil) == bad, "checkAndSortFiles fails iff counts differ, duplicate name, or path without result")
	if err != nil || bad {
		verifCover("rejected")
		return
	}
	verifCover("accepted")
	verifAssert(len(sorted) == nPaths, "one result per requested path")
	for k := 0; k < len(sorted) && k < nPaths; k++ {
		verifAssert(sorted[k].Path() == paths[k], "results are in requested-path order")
	}
}
