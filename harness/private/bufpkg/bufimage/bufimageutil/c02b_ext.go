//go:build verif

package bufimageutil

import (
	"google.golang.org/protobuf/types/descriptorpb"
)

// ---- grpH, C02-B: known extensions of included messages (transitiveClosure.addExtensions) ----
// Uses grpG's descriptor helpers (c12c_util.go) read-only.

// vhExtChain: extension chain  A <-ab- B <-bc- C (<-cd- D):  extend A { optional B ab = 100; }  extend B { optional C bc = 100; } ...
// Including A pulls in ab and therefore B - while addExtensions is still ranging over t.elements.
func vhExtChain(n int) *vgFamily {
	names := []string{"A", "B", "C", "D"}[:n]
	file := &descriptorpb.FileDescriptorProto{Name: vgS("chain.proto"), Package: vgS("x"), Syntax: vgS("proto2")}
	var candidates []string
	for i, name := range names {
		file.MessageType = append(file.MessageType, &descriptorpb.DescriptorProto{
			Name:           vgS(name),
			ExtensionRange: []*descriptorpb.DescriptorProto_ExtensionRange{{Start: vgI(100), End: vgI(200)}},
		})
		candidates = append(candidates, "x."+name)
		if i > 0 {
			ext := "e" + names[i-1] + name
			file.Extension = append(file.Extension, vgExtends(vgMsgField(ext, 100, ".x."+name), ".x."+names[i-1]))
			candidates = append(candidates, "x."+ext)
		}
	}
	return vgFinishFamily([]*descriptorpb.FileDescriptorProto{file}, []bool{false}, candidates)
}

// VerifLemma_C02B_FilterExtensions: FilterImage(include type x.A) on an extension chain: the filtered image is the same
// for every iteration order of the closure's element map, including whether entries inserted while addExtensions
// ranges over that map are visited (Go leaves that open).
func VerifLemma_C02B_FilterExtensions() {
	n := verifParam("CHAIN")
	include := []string{"x.A", "x.B"}[verifNondetChoice(2)]
	repeats := 2
	if !verifInEngine() {
		repeats = 64
	}
	var first []string
	same := true
	for r := 0; r < repeats; r++ {
		fam := vhExtChain(n)
		image := vgNewImage(fam.spec)
		got, err := FilterImage(image, WithExcludeCustomOptions(), WithMutateInPlace(), WithIncludeTypes(include))
		verifAssert(err == nil, "including an existing message does not fail")
		if err != nil {
			return
		}
		fp := vgDeepFingerprint(got)
		if r == 0 {
			first = fp
		} else if !vgSameStrings(first, fp) {
			same = false
		}
	}
	verifCover("filtered")
	// F25: extensions of a message that only became part of the closure through another extension
	// (a second hop exists: the included message's extension brings in a message that is itself extended)
	secondHop := (include == "x.A" && n >= 3) || (include == "x.B" && n >= 4)
	if verifKnown("F25-filter-extensions-map-insert", secondHop) {
		return
	}
	verifAssert(same, "same filtered image for every map iteration order")
}
