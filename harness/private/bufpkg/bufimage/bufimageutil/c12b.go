//go:build verif

package bufimageutil

import (
	"errors"

	"google.golang.org/protobuf/reflect/protoreflect"
)

// ---- C12-B: remapSlice (the generic list rewriter behind every descriptor list) ----

type vgItem struct{ id int }

const (
	vgOutKeep = iota
	vgOutChange
	vgOutDrop
	vgOutError
)

var vgErrItem = errors.New("item failed")

// VerifLemma_C12B_RemapSlice: for every list of 0..N items and every per-item outcome (keep / change / drop,
// optionally error), in both mutate modes:
//   - result = the surviving items (kept ones as they were, changed ones replaced) in their original order
//   - for a non-empty list: changed flag <=> some item changed or was dropped; no survivors => empty result
//   - copying mode leaves the input list intact (how in-place mode uses the list's storage is not asserted)
//   - the trie maps old index i to the new index of item i (deleted for dropped items); with no survivors the
//     whole list path is deleted; unrelated paths are untouched
//   - an item error is returned
func VerifLemma_C12B_RemapSlice() {
	n := verifNondetChoice(verifParam("N") + 1)
	nOutcomes := 3
	if verifParam("ERR") != 0 {
		nOutcomes = 4
	}
	mutate := verifNondetBool()
	nilList := n == 0 && verifNondetBool()
	options := &imageFilterOptions{mutateInPlace: mutate}

	items := make([]*vgItem, n)
	repl := make([]*vgItem, n)
	outcome := make([]int, n)
	for i := 0; i < n; i++ {
		items[i] = &vgItem{id: i}
		repl[i] = &vgItem{id: 100 + i}
		outcome[i] = verifNondetChoice(nOutcomes)
	}
	list := make([]*vgItem, n)
	copy(list, items)
	if nilList {
		list = nil
	}

	// reference
	var want []*vgItem
	wantNew := make([]int32, n) // new index of item i, -1 = dropped
	dirty := false
	firstErr := -1
	for i := 0; i < n; i++ {
		switch outcome[i] {
		case vgOutKeep:
			wantNew[i] = int32(len(want))
			want = append(want, items[i])
		case vgOutChange:
			wantNew[i] = int32(len(want))
			want = append(want, repl[i])
			dirty = true
		case vgOutDrop:
			wantNew[i] = -1
			dirty = true
		case vgOutError:
			if firstErr < 0 {
				firstErr = i
			}
		}
	}
	// (remapSlice currently also reports an EMPTY list as changed and marks its path deleted; that is incidental and
	// deliberately not asserted: for n == 0 only "no survivors" is checked)
	if len(want) == 0 && n > 0 {
		dirty = true // follows from the outcomes: with n > 0 and no survivor some item was dropped
	}

	// base path with spare capacity, like remapFileDescriptor's make(SourcePath, 0, 8)
	base := append(make(protoreflect.SourcePath, 0, 8), 4, 7, 3)
	calls := 0
	remapItem := func(trie *sourcePathsRemapTrie, path protoreflect.SourcePath, item *vgItem) (*vgItem, bool, error) {
		verifAssert(len(path) == 4 && path[0] == 4 && path[1] == 7 && path[2] == 3 && int(path[3]) == item.id,
			"item callback receives list path + old index")
		verifAssert(item == items[item.id], "item callback receives the original item")
		calls++
		switch outcome[item.id] {
		case vgOutKeep:
			return item, false, nil
		case vgOutChange:
			return repl[item.id], true, nil
		case vgOutDrop:
			return nil, true, nil
		}
		return nil, false, vgErrItem
	}

	var trie sourcePathsRemapTrie
	got, changed, err := remapSlice(&trie, base, list, remapItem, options)
	verifCover("remapSlice returned")

	if firstErr >= 0 {
		verifCover("item error")
		verifAssert(errors.Is(err, vgErrItem), "an item error is returned")
		return
	}
	verifAssert(err == nil, "no error without an item error")
	verifAssert(calls >= n, "every item is visited")
	if n > 0 {
		verifAssert(changed == dirty, "changed flag <=> some item changed or was dropped")
	}
	verifAssert(len(got) == len(want), "result has exactly the survivors")
	for i := range want {
		verifAssert(got[i] != nil && got[i].id == want[i].id, "survivors in order: kept items as they were, changed items replaced")
	}
	if len(want) == 0 {
		verifCover("nothing survives")
	}
	if !dirty {
		verifCover("untouched")
	}
	if dirty && len(want) > 0 {
		verifCover("rewritten")
	}
	if !mutate {
		for i := 0; i < n; i++ {
			verifAssert(list[i] == items[i], "copying mode leaves the input list intact")
		}
	}

	// trie: index remapping as seen through newPath
	for i := 0; i < n; i++ {
		p, _ := trie.newPath([]int32{4, 7, 3, int32(i), 1})
		if wantNew[i] < 0 || len(want) == 0 {
			verifAssert(p == nil, "locations under a dropped item are deleted")
		} else {
			verifAssert(len(p) == 5 && p[0] == 4 && p[1] == 7 && p[2] == 3 && p[3] == wantNew[i] && p[4] == 1,
				"locations under a surviving item move to its new index")
		}
	}
	p, _ := trie.newPath([]int32{4, 7, 3})
	if len(want) == 0 {
		if n > 0 {
			verifAssert(p == nil, "list path deleted when nothing survives")
		}
	} else {
		verifAssert(len(p) == 3 && p[0] == 4 && p[1] == 7 && p[2] == 3, "list path kept")
	}
	p, _ = trie.newPath([]int32{4, 7, 2, 0})
	verifAssert(len(p) == 4 && p[0] == 4 && p[1] == 7 && p[2] == 2 && p[3] == 0, "sibling paths untouched")
	p, _ = trie.newPath([]int32{4, 7})
	verifAssert(len(p) == 2 && p[0] == 4 && p[1] == 7, "parent path untouched")
	if !changed {
		// filterImageFile relies on this: "unchanged" together with recorded source-path marks is a system error
		verifAssert(len(trie) == 0, "a list reported as unchanged records no source-path marks")
	}
}
