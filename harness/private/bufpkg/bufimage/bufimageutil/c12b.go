//go:build verif

package bufimageutil

import (
	"errors"

	"google.golang.org/protobuf/reflect/protoreflect"
)

// ---- C12-B: remapSlice (the generic list rewriter behind every descriptor list) ----

type vgItem struct{ id int }

const (
	vgOutKeep = iota
	vgOutChange
	vgOutDrop
	vgOutError
)

var vgErrItem = errors.New("item failed")

// VerifLemma_C12B_RemapSlice: for every list of 0..N items and every per-item outcome (keep / change / drop,
// optionally error), in both mutate modes:
//   - result = the surviving items (kept ones pointer-identical, changed ones replaced) in their original order
//   - changed flag <=> some item changed or dropped, or nothing survives; no survivors => nil list
//   - untouched lists are returned as-is; copying mode leaves the input list intact; in-place mode leaves the
//     survivors in list[:k] and nils the tail
//   - the trie maps old index i to the new index of item i (deleted for dropped items); with no survivors the
//     whole list path is deleted; unrelated paths are untouched
//   - an item error is returned and nothing else
func VerifLemma_C12B_RemapSlice() {
	n := verifNondetChoice(verifParam("N") + 1)
	nOutcomes := 3
	if verifParam("ERR") != 0 {
		nOutcomes = 4
	}
	mutate := verifNondetBool()
	nilList := n == 0 && verifNondetBool()
	options := &imageFilterOptions{mutateInPlace: mutate}

	items := make([]*vgItem, n)
	repl := make([]*vgItem, n)
	outcome := make([]int, n)
	for i := 0; i < n; i++ {
		items[i] = &vgItem{id: i}
		repl[i] = &vgItem{id: 100 + i}
		outcome[i] = verifNondetChoice(nOutcomes)
	}
	list := make([]*vgItem, n)
	copy(list, items)
	if nilList {
		list = nil
	}

	// reference
	var want []*vgItem
	wantNew := make([]int32, n) // new index of item i, -1 = dropped
	dirty := false
	firstErr := -1
	for i := 0; i < n; i++ {
		switch outcome[i] {
		case vgOutKeep:
			wantNew[i] = int32(len(want))
			want = append(want, items[i])
		case vgOutChange:
			wantNew[i] = int32(len(want))
			want = append(want, repl[i])
			dirty = true
		case vgOutDrop:
			wantNew[i] = -1
			dirty = true
		case vgOutError:
			if firstErr < 0 {
				firstErr = i
			}
		}
	}
	if len(want) == 0 {
		dirty = true
	}

	// base path with spare capacity, like remapFileDescriptor's make(SourcePath, 0, 8)
	base := append(make(protoreflect.SourcePath, 0, 8), 4, 7, 3)
	calls := 0
	remapItem := func(trie *sourcePathsRemapTrie, path protoreflect.SourcePath, item *vgItem) (*vgItem, bool, error) {
		verifAssert(len(path) == 4 && path[0] == 4 && path[1] == 7 && path[2] == 3 && int(path[3]) == item.id,
			"item callback receives list path + old index")
		verifAssert(item == items[item.id], "item callback receives the original item")
		calls++
		switch outcome[item.id] {
		case vgOutKeep:
			return item, false, nil
		case vgOutChange:
			return repl[item.id], true, nil
		case vgOutDrop:
			return nil, true, nil
		}
		return nil, false, vgErrItem
	}

	var trie sourcePathsRemapTrie
	got, changed, err := remapSlice(&trie, base, list, remapItem, options)
	verifCover("remapSlice returned")

	if firstErr >= 0 {
		verifCover("item error")
		verifAssert(err == vgErrItem, "item error is returned")
		verifAssert(got == nil && !changed, "no result next to an error")
		verifAssert(calls == firstErr+1, "stops at the first error")
		return
	}
	verifAssert(err == nil, "no error without an item error")
	verifAssert(calls == n, "every item visited once")
	verifAssert(changed == dirty, "changed flag <=> change, drop or nothing left")
	verifAssert(len(got) == len(want), "result has exactly the survivors")
	for i := range want {
		verifAssert(got[i] == want[i], "survivors in order, kept ones pointer-identical")
	}
	if len(want) == 0 {
		verifCover("nothing survives")
		verifAssert(got == nil, "empty result is nil")
	}
	if !dirty {
		verifCover("untouched")
		verifAssert(len(got) == len(list) && (len(list) == 0 || &got[0] == &list[0]), "untouched list returned as is")
	}
	if dirty && len(want) > 0 {
		verifCover("rewritten")
		if mutate {
			verifAssert(&got[0] == &list[0], "in-place mode reuses the list's storage")
			for i := len(want); i < n; i++ {
				verifAssert(list[i] == nil, "in-place mode nils the tail")
			}
		} else {
			verifAssert(&got[0] != &list[0], "copying mode allocates")
		}
	}
	if !mutate {
		for i := 0; i < n; i++ {
			verifAssert(list[i] == items[i], "copying mode leaves the input list intact")
		}
	}

	// trie: index remapping as seen through newPath
	for i := 0; i < n; i++ {
		p, _ := trie.newPath([]int32{4, 7, 3, int32(i), 1})
		if wantNew[i] < 0 || len(want) == 0 {
			verifAssert(p == nil, "locations under a dropped item are deleted")
		} else {
			verifAssert(len(p) == 5 && p[0] == 4 && p[1] == 7 && p[2] == 3 && p[3] == wantNew[i] && p[4] == 1,
				"locations under a surviving item move to its new index")
		}
	}
	p, _ := trie.newPath([]int32{4, 7, 3})
	if len(want) == 0 {
		verifAssert(p == nil, "list path deleted when nothing survives")
	} else {
		verifAssert(len(p) == 3 && p[0] == 4 && p[1] == 7 && p[2] == 3, "list path kept")
	}
	p, _ = trie.newPath([]int32{4, 7, 2, 0})
	verifAssert(len(p) == 4 && p[0] == 4 && p[1] == 7 && p[2] == 2 && p[3] == 0, "sibling paths untouched")
	p, _ = trie.newPath([]int32{4, 7})
	verifAssert(len(p) == 2 && p[0] == 4 && p[1] == 7, "parent path untouched")
	if !dirty {
		verifAssert(len(trie) == 0, "no trie marks for an untouched list")
	}
}
