//go:build verif

package bufimageutil

import (
	"github.com/bufbuild/buf/private/bufpkg/bufimage"
	"github.com/google/uuid"
	"google.golang.org/protobuf/types/descriptorpb"
)

// ---- C12-C support: descriptor literals, an independent symbol table / link checker, source-info oracle ----

func vgS(s string) *string { return &s }
func vgI(i int32) *int32   { return &i }
func vgB(b bool) *bool     { return &b }

var (
	vgOptional = descriptorpb.FieldDescriptorProto_LABEL_OPTIONAL.Enum()
	vgRepeated = descriptorpb.FieldDescriptorProto_LABEL_REPEATED.Enum()
)

func vgScalar(name string, number int32) *descriptorpb.FieldDescriptorProto {
	return &descriptorpb.FieldDescriptorProto{
		Name: vgS(name), Number: vgI(number), Label: vgOptional,
		Type: descriptorpb.FieldDescriptorProto_TYPE_INT32.Enum(),
	}
}

func vgMsgField(name string, number int32, typeName string) *descriptorpb.FieldDescriptorProto {
	return &descriptorpb.FieldDescriptorProto{
		Name: vgS(name), Number: vgI(number), Label: vgOptional,
		Type: descriptorpb.FieldDescriptorProto_TYPE_MESSAGE.Enum(), TypeName: vgS(typeName),
	}
}

func vgEnumField(name string, number int32, typeName string) *descriptorpb.FieldDescriptorProto {
	return &descriptorpb.FieldDescriptorProto{
		Name: vgS(name), Number: vgI(number), Label: vgOptional,
		Type: descriptorpb.FieldDescriptorProto_TYPE_ENUM.Enum(), TypeName: vgS(typeName),
	}
}

func vgInOneof(f *descriptorpb.FieldDescriptorProto, index int32) *descriptorpb.FieldDescriptorProto {
	f.OneofIndex = vgI(index)
	return f
}

func vgExtends(f *descriptorpb.FieldDescriptorProto, extendee string) *descriptorpb.FieldDescriptorProto {
	f.Extendee = vgS(extendee)
	return f
}

// vgMapEntry builds the synthetic map entry message for map<string, valueType>.
func vgMapEntry(name string, valueTypeName string) *descriptorpb.DescriptorProto {
	return &descriptorpb.DescriptorProto{
		Name: vgS(name),
		Field: []*descriptorpb.FieldDescriptorProto{
			{Name: vgS("key"), Number: vgI(1), Label: vgOptional, Type: descriptorpb.FieldDescriptorProto_TYPE_STRING.Enum()},
			vgMsgField("value", 2, valueTypeName),
		},
		Options: &descriptorpb.MessageOptions{MapEntry: vgB(true)},
	}
}

func vgEnum(name string, valueName string) *descriptorpb.EnumDescriptorProto {
	return &descriptorpb.EnumDescriptorProto{
		Name:  vgS(name),
		Value: []*descriptorpb.EnumValueDescriptorProto{{Name: vgS(valueName), Number: vgI(0)}},
	}
}

// ---- symbol table (independent of imageIndex / walk.DescriptorProtos) ----

const (
	vgKindMessage = iota
	vgKindEnum
	vgKindService
	vgKindMethod
	vgKindExtension
)

type vgSym struct {
	name   string
	kind   int
	file   string
	msg    *descriptorpb.DescriptorProto
	field  *descriptorpb.FieldDescriptorProto // extension
	svc    *descriptorpb.ServiceDescriptorProto
	method *descriptorpb.MethodDescriptorProto
	parent string // enclosing message / service full name, "" at file level
}

type vgTable struct {
	syms  map[string]*vgSym
	order []string
}

func (t *vgTable) add(s *vgSym) {
	verifAssert(t.syms[s.name] == nil, "full names are unique in the image")
	t.syms[s.name] = s
	t.order = append(t.order, s.name)
}

func vgPrefix(pkg string) string {
	if pkg == "" {
		return ""
	}
	return pkg + "."
}

func (t *vgTable) addMessage(file string, prefix string, parent string, m *descriptorpb.DescriptorProto) {
	name := prefix + m.GetName()
	t.add(&vgSym{name: name, kind: vgKindMessage, file: file, msg: m, parent: parent})
	for _, n := range m.GetNestedType() {
		t.addMessage(file, name+".", name, n)
	}
	for _, e := range m.GetEnumType() {
		t.add(&vgSym{name: name + "." + e.GetName(), kind: vgKindEnum, file: file, parent: name})
	}
	for _, x := range m.GetExtension() {
		t.add(&vgSym{name: name + "." + x.GetName(), kind: vgKindExtension, file: file, field: x, parent: name})
	}
}

func vgSymbols(files []*descriptorpb.FileDescriptorProto) *vgTable {
	t := &vgTable{syms: map[string]*vgSym{}}
	for _, fd := range files {
		file := fd.GetName()
		prefix := vgPrefix(fd.GetPackage())
		for _, m := range fd.GetMessageType() {
			t.addMessage(file, prefix, "", m)
		}
		for _, e := range fd.GetEnumType() {
			t.add(&vgSym{name: prefix + e.GetName(), kind: vgKindEnum, file: file})
		}
		for _, x := range fd.GetExtension() {
			t.add(&vgSym{name: prefix + x.GetName(), kind: vgKindExtension, file: file, field: x})
		}
		for _, s := range fd.GetService() {
			sname := prefix + s.GetName()
			t.add(&vgSym{name: sname, kind: vgKindService, file: file, svc: s})
			for _, m := range s.GetMethod() {
				t.add(&vgSym{name: sname + "." + m.GetName(), kind: vgKindMethod, file: file, method: m, parent: sname})
			}
		}
	}
	return t
}

func vgTrimDot(s string) string {
	if len(s) > 0 && s[0] == '.' {
		return s[1:]
	}
	return s
}

// vgUnder: name is x or lies inside x's namespace.
func vgUnder(name string, x string) bool {
	if len(name) < len(x) || name[:len(x)] != x {
		return false
	}
	return len(name) == len(x) || name[len(x)] == '.'
}

// ---- link check: what protodesc.NewFiles would insist on, restricted to the constructs used here ----

func vgFileByName(files []*descriptorpb.FileDescriptorProto, name string) *descriptorpb.FileDescriptorProto {
	for _, fd := range files {
		if fd.GetName() == name {
			return fd
		}
	}
	return nil
}

// vgVisible: files whose symbols are visible in fd: itself, its dependencies, and their public dependencies.
func vgVisible(files []*descriptorpb.FileDescriptorProto, fd *descriptorpb.FileDescriptorProto) map[string]bool {
	vis := map[string]bool{fd.GetName(): true}
	var addPublic func(dep string)
	addPublic = func(dep string) {
		if vis[dep] {
			return
		}
		vis[dep] = true
		d := vgFileByName(files, dep)
		if d == nil {
			return
		}
		for _, idx := range d.GetPublicDependency() {
			if int(idx) < len(d.GetDependency()) {
				addPublic(d.GetDependency()[idx])
			}
		}
	}
	for _, dep := range fd.GetDependency() {
		addPublic(dep)
	}
	return vis
}

type vgLinker struct {
	files []*descriptorpb.FileDescriptorProto
	table *vgTable
	vis   map[string]bool
	used  map[string]bool // files referenced by the file being checked
	file  string
}

func (l *vgLinker) ref(typeName string, wantKindA, wantKindB int) {
	sym := l.table.syms[vgTrimDot(typeName)]
	verifAssert(sym != nil, "every referenced type is defined in the filtered image")
	if sym == nil {
		return
	}
	verifAssert(sym.kind == wantKindA || sym.kind == wantKindB, "references resolve to the right kind of element")
	verifAssert(l.vis[sym.file], "the file defining a referenced type is imported")
	l.used[sym.file] = true
}

func (l *vgLinker) checkField(f *descriptorpb.FieldDescriptorProto) {
	switch f.GetType() {
	case descriptorpb.FieldDescriptorProto_TYPE_MESSAGE, descriptorpb.FieldDescriptorProto_TYPE_GROUP:
		l.ref(f.GetTypeName(), vgKindMessage, vgKindMessage)
	case descriptorpb.FieldDescriptorProto_TYPE_ENUM:
		l.ref(f.GetTypeName(), vgKindEnum, vgKindEnum)
	}
	if f.Extendee != nil {
		l.ref(f.GetExtendee(), vgKindMessage, vgKindMessage)
	}
}

func (l *vgLinker) checkMessage(m *descriptorpb.DescriptorProto) {
	members := make([]int, len(m.GetOneofDecl()))
	for _, f := range m.GetField() {
		l.checkField(f)
		if f.OneofIndex != nil {
			idx := int(f.GetOneofIndex())
			verifAssert(idx >= 0 && idx < len(members), "oneof indexes stay in range")
			if idx >= 0 && idx < len(members) {
				members[idx]++
			}
		}
	}
	for _, c := range members {
		verifAssert(c > 0, "every surviving oneof has a member")
	}
	if m.GetOptions().GetMapEntry() {
		fs := m.GetField()
		verifAssert(len(fs) == 2 && fs[0].GetNumber() == 1 && fs[1].GetNumber() == 2, "map entry messages keep key and value")
	}
	for _, x := range m.GetExtension() {
		l.checkField(x)
	}
	for _, n := range m.GetNestedType() {
		l.checkMessage(n)
	}
}

// vgCheckLinks asserts that the image is self-contained and that every dependency is needed.
func vgCheckLinks(files []*descriptorpb.FileDescriptorProto) {
	table := vgSymbols(files)
	seen := map[string]bool{}
	for _, fd := range files {
		l := &vgLinker{files: files, table: table, vis: vgVisible(files, fd), used: map[string]bool{}, file: fd.GetName()}
		for _, dep := range fd.GetDependency() {
			verifAssert(seen[dep], "every dependency is in the filtered image, before its dependent")
		}
		seen[fd.GetName()] = true
		for _, idx := range fd.GetPublicDependency() {
			verifAssert(int(idx) < len(fd.GetDependency()), "public dependency indexes stay in range")
		}
		for _, idx := range fd.GetWeakDependency() {
			verifAssert(int(idx) < len(fd.GetDependency()), "weak dependency indexes stay in range")
		}
		for _, m := range fd.GetMessageType() {
			l.checkMessage(m)
		}
		for _, x := range fd.GetExtension() {
			l.checkField(x)
		}
		for _, s := range fd.GetService() {
			for _, m := range s.GetMethod() {
				l.ref(m.GetInputType(), vgKindMessage, vgKindMessage)
				l.ref(m.GetOutputType(), vgKindMessage, vgKindMessage)
			}
		}
	}
}

// vgUsedFiles: the files that fd's own references resolve to (excluding itself).
func vgUsedFiles(files []*descriptorpb.FileDescriptorProto, table *vgTable, fd *descriptorpb.FileDescriptorProto) map[string]bool {
	used := map[string]bool{}
	note := func(typeName string) {
		if sym := table.syms[vgTrimDot(typeName)]; sym != nil && sym.file != fd.GetName() {
			used[sym.file] = true
		}
	}
	noteField := func(f *descriptorpb.FieldDescriptorProto) {
		if f.TypeName != nil {
			note(f.GetTypeName())
		}
		if f.Extendee != nil {
			note(f.GetExtendee())
		}
	}
	var noteMsg func(m *descriptorpb.DescriptorProto)
	noteMsg = func(m *descriptorpb.DescriptorProto) {
		for _, f := range m.GetField() {
			noteField(f)
		}
		for _, x := range m.GetExtension() {
			noteField(x)
		}
		for _, n := range m.GetNestedType() {
			noteMsg(n)
		}
	}
	for _, m := range fd.GetMessageType() {
		noteMsg(m)
	}
	for _, x := range fd.GetExtension() {
		noteField(x)
	}
	for _, s := range fd.GetService() {
		for _, m := range s.GetMethod() {
			note(m.GetInputType())
			note(m.GetOutputType())
		}
	}
	return used
}

// ---- source code info oracle: every location carries the identity of its element in Span[0] ----

type vgLocNames struct {
	names []string
}

func (n *vgLocNames) id(name string) int32 {
	n.names = append(n.names, name)
	return int32(len(n.names) - 1)
}

func vgLoc(names *vgLocNames, name string, path ...int32) *descriptorpb.SourceCodeInfo_Location {
	return &descriptorpb.SourceCodeInfo_Location{
		Path:                    append([]int32(nil), path...),
		Span:                    []int32{names.id(name), 0, 0},
		LeadingComments:         vgS(name),
		TrailingComments:        vgS("after " + name),
		LeadingDetachedComments: []string{"detached " + name},
	}
}

func vgAddMessageLocs(names *vgLocNames, locs []*descriptorpb.SourceCodeInfo_Location, prefix string, path []int32, m *descriptorpb.DescriptorProto) []*descriptorpb.SourceCodeInfo_Location {
	name := prefix + m.GetName()
	locs = append(locs, vgLoc(names, name, path...))
	for i, f := range m.GetField() {
		locs = append(locs, vgLoc(names, name+"."+f.GetName(), append(append([]int32(nil), path...), messageFieldsTag, int32(i))...))
	}
	for i, o := range m.GetOneofDecl() {
		locs = append(locs, vgLoc(names, name+"."+o.GetName(), append(append([]int32(nil), path...), messageOneofsTag, int32(i))...))
	}
	for i, n := range m.GetNestedType() {
		locs = vgAddMessageLocs(names, locs, name+".", append(append([]int32(nil), path...), messageNestedMessagesTag, int32(i)), n)
	}
	for i, e := range m.GetEnumType() {
		locs = append(locs, vgLoc(names, name+"."+e.GetName(), append(append([]int32(nil), path...), messageEnumsTag, int32(i))...))
	}
	for i, x := range m.GetExtension() {
		locs = append(locs, vgLoc(names, name+"."+x.GetName(), append(append([]int32(nil), path...), messageExtensionsTag, int32(i))...))
	}
	return locs
}

// vgAddSourceInfo attaches one location per dependency, message, field, oneof, enum, extension, service and method.
func vgAddSourceInfo(names *vgLocNames, fd *descriptorpb.FileDescriptorProto) {
	var locs []*descriptorpb.SourceCodeInfo_Location
	prefix := vgPrefix(fd.GetPackage())
	for i, dep := range fd.GetDependency() {
		locs = append(locs, vgLoc(names, "import "+dep, fileDependencyTag, int32(i)))
	}
	for i, m := range fd.GetMessageType() {
		locs = vgAddMessageLocs(names, locs, prefix, []int32{fileMessagesTag, int32(i)}, m)
	}
	for i, e := range fd.GetEnumType() {
		locs = append(locs, vgLoc(names, prefix+e.GetName(), fileEnumsTag, int32(i)))
	}
	for i, s := range fd.GetService() {
		locs = append(locs, vgLoc(names, prefix+s.GetName(), fileServicesTag, int32(i)))
		for j, m := range s.GetMethod() {
			locs = append(locs, vgLoc(names, prefix+s.GetName()+"."+m.GetName(), fileServicesTag, int32(i), serviceMethodsTag, int32(j)))
		}
	}
	for i, x := range fd.GetExtension() {
		locs = append(locs, vgLoc(names, prefix+x.GetName(), fileExtensionsTag, int32(i)))
	}
	fd.SourceCodeInfo = &descriptorpb.SourceCodeInfo{Location: locs}
}

func vgResolveInMessage(prefix string, m *descriptorpb.DescriptorProto, path []int32) string {
	name := prefix + m.GetName()
	if len(path) == 0 {
		return name
	}
	if len(path) < 2 {
		return ""
	}
	idx := int(path[1])
	if idx < 0 {
		return ""
	}
	switch path[0] {
	case messageFieldsTag:
		if idx < len(m.GetField()) && len(path) == 2 {
			return name + "." + m.GetField()[idx].GetName()
		}
	case messageOneofsTag:
		if idx < len(m.GetOneofDecl()) && len(path) == 2 {
			return name + "." + m.GetOneofDecl()[idx].GetName()
		}
	case messageNestedMessagesTag:
		if idx < len(m.GetNestedType()) {
			return vgResolveInMessage(name+".", m.GetNestedType()[idx], path[2:])
		}
	case messageEnumsTag:
		if idx < len(m.GetEnumType()) && len(path) == 2 {
			return name + "." + m.GetEnumType()[idx].GetName()
		}
	case messageExtensionsTag:
		if idx < len(m.GetExtension()) && len(path) == 2 {
			return name + "." + m.GetExtension()[idx].GetName()
		}
	}
	return ""
}

// vgResolve returns the identity of the element a source path points at in fd ("" if it points at nothing).
func vgResolve(fd *descriptorpb.FileDescriptorProto, path []int32) string {
	if len(path) < 2 {
		return ""
	}
	prefix := vgPrefix(fd.GetPackage())
	idx := int(path[1])
	if idx < 0 {
		return ""
	}
	switch path[0] {
	case fileDependencyTag:
		if idx < len(fd.GetDependency()) && len(path) == 2 {
			return "import " + fd.GetDependency()[idx]
		}
	case fileMessagesTag:
		if idx < len(fd.GetMessageType()) {
			return vgResolveInMessage(prefix, fd.GetMessageType()[idx], path[2:])
		}
	case fileEnumsTag:
		if idx < len(fd.GetEnumType()) && len(path) == 2 {
			return prefix + fd.GetEnumType()[idx].GetName()
		}
	case fileServicesTag:
		if idx < len(fd.GetService()) {
			s := fd.GetService()[idx]
			if len(path) == 2 {
				return prefix + s.GetName()
			}
			if len(path) == 4 && path[2] == serviceMethodsTag && int(path[3]) >= 0 && int(path[3]) < len(s.GetMethod()) {
				return prefix + s.GetName() + "." + s.GetMethod()[path[3]].GetName()
			}
		}
	case fileExtensionsTag:
		if idx < len(fd.GetExtension()) && len(path) == 2 {
			return prefix + fd.GetExtension()[idx].GetName()
		}
	}
	return ""
}

// vgCountElements: number of elements of fd that vgAddSourceInfo gives a location to.
func vgCountElements(fd *descriptorpb.FileDescriptorProto) int {
	var countMsg func(m *descriptorpb.DescriptorProto) int
	countMsg = func(m *descriptorpb.DescriptorProto) int {
		n := 1 + len(m.GetField()) + len(m.GetOneofDecl()) + len(m.GetEnumType()) + len(m.GetExtension())
		for _, nested := range m.GetNestedType() {
			n += countMsg(nested)
		}
		return n
	}
	n := len(fd.GetDependency()) + len(fd.GetEnumType()) + len(fd.GetExtension())
	for _, m := range fd.GetMessageType() {
		n += countMsg(m)
	}
	for _, s := range fd.GetService() {
		n += 1 + len(s.GetMethod())
	}
	return n
}

// vgCheckSourceInfo: every surviving location points at the element it was written for (comments stay attached to
// the right element; they may only be dropped, never moved), and no surviving element loses its location.
func vgCheckSourceInfo(names *vgLocNames, fd *descriptorpb.FileDescriptorProto, orig *descriptorpb.FileDescriptorProto) {
	locs := fd.GetSourceCodeInfo().GetLocation()
	for _, loc := range locs {
		want := names.names[loc.GetSpan()[0]]
		got := vgResolve(fd, loc.GetPath())
		verifAssert(got == want, "a surviving source location still points at its own element")
		if loc.LeadingComments != nil {
			verifAssert(loc.GetLeadingComments() == want, "comments are not altered")
		}
		if loc.TrailingComments != nil {
			verifAssert(loc.GetTrailingComments() == "after "+want, "trailing comments are not altered")
		}
		for _, d := range loc.GetLeadingDetachedComments() {
			verifAssert(d == "detached "+want, "detached comments are not altered")
		}
	}
	// imports that were reachable only through a public import are new in this file and have no location
	newDeps := 0
	for _, dep := range fd.GetDependency() {
		had := false
		for _, od := range orig.GetDependency() {
			if od == dep {
				had = true
			}
		}
		if !had {
			newDeps++
		}
	}
	verifAssert(len(locs) == vgCountElements(fd)-newDeps, "every surviving element keeps exactly one location")
}

// ---- image plumbing ----

type vgImageSpec struct {
	files    []*descriptorpb.FileDescriptorProto
	isImport []bool
	names    *vgLocNames
}

func vgNewImage(spec *vgImageSpec) bufimage.Image {
	imageFiles := make([]bufimage.ImageFile, 0, len(spec.files))
	for i, fd := range spec.files {
		imageFile, err := bufimage.NewImageFile(fd, nil, uuid.Nil, "", "", spec.isImport[i], false, nil)
		verifAssert(err == nil, "family file is a valid image file")
		imageFiles = append(imageFiles, imageFile)
	}
	image, err := bufimage.NewImage(imageFiles)
	verifAssert(err == nil, "family is a valid image")
	return image
}

func vgImageProtos(image bufimage.Image) []*descriptorpb.FileDescriptorProto {
	var out []*descriptorpb.FileDescriptorProto
	for _, f := range image.Files() {
		out = append(out, f.FileDescriptorProto())
	}
	return out
}

// vgFingerprint: a structural rendering of an image (files, imports, elements, fields) for equality checks.
func vgFingerprint(image bufimage.Image) []string {
	var out []string
	var msg func(prefix string, m *descriptorpb.DescriptorProto)
	field := func(owner string, f *descriptorpb.FieldDescriptorProto) {
		s := "field " + owner + "." + f.GetName() + " type=" + f.GetTypeName() + " extendee=" + f.GetExtendee()
		if f.OneofIndex != nil {
			s += " oneof=" + string(rune('0'+f.GetOneofIndex()))
		}
		out = append(out, s)
	}
	msg = func(prefix string, m *descriptorpb.DescriptorProto) {
		name := prefix + m.GetName()
		out = append(out, "message "+name)
		for _, f := range m.GetField() {
			field(name, f)
		}
		for _, o := range m.GetOneofDecl() {
			out = append(out, "oneof "+name+"."+o.GetName())
		}
		for _, n := range m.GetNestedType() {
			msg(name+".", n)
		}
		for _, e := range m.GetEnumType() {
			out = append(out, "enum "+name+"."+e.GetName())
		}
		for _, x := range m.GetExtension() {
			field(name, x)
		}
	}
	for _, f := range image.Files() {
		fd := f.FileDescriptorProto()
		imp := ""
		if f.IsImport() {
			imp = " (import)"
		}
		out = append(out, "file "+fd.GetName()+imp)
		for _, dep := range fd.GetDependency() {
			out = append(out, "dep "+dep)
		}
		prefix := vgPrefix(fd.GetPackage())
		for _, m := range fd.GetMessageType() {
			msg(prefix, m)
		}
		for _, e := range fd.GetEnumType() {
			out = append(out, "enum "+prefix+e.GetName())
		}
		for _, x := range fd.GetExtension() {
			field(vgTrimTrailingDot(prefix), x)
		}
		for _, s := range fd.GetService() {
			out = append(out, "service "+prefix+s.GetName())
			for _, m := range s.GetMethod() {
				out = append(out, "method "+prefix+s.GetName()+"."+m.GetName()+" "+m.GetInputType()+" "+m.GetOutputType())
			}
		}
	}
	return out
}

func vgItoa(v int32) string {
	if v < 0 {
		return "-" + vgItoa(-v)
	}
	if v < 10 {
		return string(rune('0' + v))
	}
	return vgItoa(v/10) + string(rune('0'+v%10))
}

// vgDeepFingerprint: vgFingerprint plus list lengths and every source location (path, span, comments) - everything
// FilterImage could touch in a descriptor built by these harnesses.
func vgDeepFingerprint(image bufimage.Image) []string {
	out := vgFingerprint(image)
	for _, f := range image.Files() {
		fd := f.FileDescriptorProto()
		line := "lists " + fd.GetName() + " " + vgItoa(int32(len(fd.MessageType))) + " " + vgItoa(int32(len(fd.EnumType))) + " " +
			vgItoa(int32(len(fd.Service))) + " " + vgItoa(int32(len(fd.Extension))) + " " + vgItoa(int32(len(fd.Dependency)))
		for _, idx := range fd.GetPublicDependency() {
			line += " pub" + vgItoa(idx)
		}
		for _, idx := range fd.GetWeakDependency() {
			line += " weak" + vgItoa(idx)
		}
		out = append(out, line)
		for _, loc := range fd.GetSourceCodeInfo().GetLocation() {
			l := "loc"
			for _, p := range loc.GetPath() {
				l += " " + vgItoa(p)
			}
			l += " span"
			for _, p := range loc.GetSpan() {
				l += " " + vgItoa(p)
			}
			if loc.LeadingComments != nil {
				l += " leading=" + loc.GetLeadingComments()
			}
			if loc.TrailingComments != nil {
				l += " trailing=" + loc.GetTrailingComments()
			}
			l += " detached=" + vgItoa(int32(len(loc.GetLeadingDetachedComments())))
			out = append(out, l)
		}
	}
	return out
}

func vgTrimTrailingDot(s string) string {
	if len(s) > 0 && s[len(s)-1] == '.' {
		return s[:len(s)-1]
	}
	return s
}

func vgSameStrings(a, b []string) bool {
	if len(a) != len(b) {
		return false
	}
	for i := range a {
		if a[i] != b[i] {
			return false
		}
	}
	return true
}
