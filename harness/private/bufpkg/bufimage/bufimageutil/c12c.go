//go:build verif

package bufimageutil

import (
	"errors"

	"github.com/bufbuild/buf/private/bufpkg/bufimage"
	"google.golang.org/protobuf/types/descriptorpb"
)

// ---- C12-C: FilterImage(WithExcludeCustomOptions, WithMutateInPlace) on hand-built image families ----

type vgFamily struct {
	spec       *vgImageSpec
	candidates []string        // names a filter may mention (types and packages that exist in the image)
	packages   map[string]bool // package names among the candidates
}

func vgFinishFamily(files []*descriptorpb.FileDescriptorProto, isImport []bool, candidates []string, packages ...string) *vgFamily {
	names := &vgLocNames{}
	for _, fd := range files {
		vgAddSourceInfo(names, fd)
	}
	fam := &vgFamily{
		spec:       &vgImageSpec{files: files, isImport: isImport, names: names},
		candidates: candidates,
		packages:   map[string]bool{},
	}
	for _, p := range packages {
		fam.packages[p] = true
	}
	return fam
}

// family 0: nested message and enum, map field, two oneofs (the first one's only member has a removable type).
func vgFamilyNested() *vgFamily {
	outer := &descriptorpb.DescriptorProto{
		Name: vgS("Outer"),
		Field: []*descriptorpb.FieldDescriptorProto{
			vgMsgField("inner", 1, ".p.Outer.Inner"),
			{Name: vgS("m"), Number: vgI(2), Label: vgRepeated, Type: descriptorpb.FieldDescriptorProto_TYPE_MESSAGE.Enum(), TypeName: vgS(".p.Outer.MEntry")},
			vgInOneof(vgMsgField("only", 3, ".p.Leaf"), 0),
			vgInOneof(vgMsgField("leaf", 4, ".p.Leaf"), 1),
			vgInOneof(vgScalar("n", 5), 1),
		},
		OneofDecl: []*descriptorpb.OneofDescriptorProto{{Name: vgS("q")}, {Name: vgS("o")}},
		NestedType: []*descriptorpb.DescriptorProto{
			{Name: vgS("Inner")},
			vgMapEntry("MEntry", ".p.Val"),
		},
		EnumType: []*descriptorpb.EnumDescriptorProto{vgEnum("E", "E0")},
	}
	file := &descriptorpb.FileDescriptorProto{
		Name: vgS("a.proto"), Package: vgS("p"), Syntax: vgS("proto3"),
		MessageType: []*descriptorpb.DescriptorProto{
			outer,
			{Name: vgS("Val")},
			{Name: vgS("Leaf"), Field: []*descriptorpb.FieldDescriptorProto{vgEnumField("e", 1, ".p.Outer.E")}},
			{Name: vgS("Other"), Field: []*descriptorpb.FieldDescriptorProto{vgMsgField("v", 1, ".p.Val")}},
		},
	}
	return vgFinishFamily(
		[]*descriptorpb.FileDescriptorProto{file}, []bool{false},
		[]string{"p.Outer", "p.Val", "p.Leaf", "p.Outer.Inner", "p.Outer.E", "p.Other", "p"},
		"p",
	)
}

// family 1: service whose request/response types live in other files, reached through a public import.
func vgFamilyService() *vgFamily {
	base := &descriptorpb.FileDescriptorProto{
		Name: vgS("base.proto"), Package: vgS("d"), Syntax: vgS("proto3"),
		MessageType: []*descriptorpb.DescriptorProto{{Name: vgS("Req")}, {Name: vgS("Resp")}},
	}
	mid := &descriptorpb.FileDescriptorProto{
		Name: vgS("mid.proto"), Package: vgS("d"), Syntax: vgS("proto3"),
		Dependency: []string{"base.proto"}, PublicDependency: []int32{0},
		MessageType: []*descriptorpb.DescriptorProto{{Name: vgS("Mid")}},
	}
	svc := &descriptorpb.FileDescriptorProto{
		Name: vgS("svc.proto"), Package: vgS("s"), Syntax: vgS("proto3"),
		Dependency: []string{"mid.proto"},
		Service: []*descriptorpb.ServiceDescriptorProto{{
			Name: vgS("Svc"),
			Method: []*descriptorpb.MethodDescriptorProto{
				{Name: vgS("Get"), InputType: vgS(".d.Req"), OutputType: vgS(".d.Resp")},
				{Name: vgS("Put"), InputType: vgS(".d.Mid"), OutputType: vgS(".d.Resp")},
			},
		}},
	}
	return vgFinishFamily(
		[]*descriptorpb.FileDescriptorProto{base, mid, svc}, []bool{false, false, false},
		[]string{"d.Req", "s.Svc", "d.Resp", "d.Mid", "s.Svc.Get", "s.Svc.Put", "s", "d"},
		"s", "d",
	)
}

// family 2: extensions (file level and nested in a message), extendee with an extension range, a proto2 group.
func vgFamilyExtensions() *vgFamily {
	file := &descriptorpb.FileDescriptorProto{
		Name: vgS("ext.proto"), Package: vgS("e"), Syntax: vgS("proto2"),
		MessageType: []*descriptorpb.DescriptorProto{
			{Name: vgS("Base"), ExtensionRange: []*descriptorpb.DescriptorProto_ExtensionRange{{Start: vgI(100), End: vgI(200)}}},
			{Name: vgS("Payload")},
			{Name: vgS("Holder"), Extension: []*descriptorpb.FieldDescriptorProto{vgExtends(vgScalar("hext", 101), ".e.Base")}},
			{
				// message User { optional Base b = 1; optional group G = 2 { optional GVal v = 1; } }
				Name: vgS("User"),
				Field: []*descriptorpb.FieldDescriptorProto{
					vgMsgField("b", 1, ".e.Base"),
					{Name: vgS("g"), Number: vgI(2), Label: vgOptional, Type: descriptorpb.FieldDescriptorProto_TYPE_GROUP.Enum(), TypeName: vgS(".e.User.G")},
				},
				NestedType: []*descriptorpb.DescriptorProto{
					{Name: vgS("G"), Field: []*descriptorpb.FieldDescriptorProto{vgMsgField("v", 1, ".e.GVal")}},
				},
			},
			{Name: vgS("GVal")},
		},
		Extension: []*descriptorpb.FieldDescriptorProto{vgExtends(vgMsgField("pext", 100, ".e.Payload"), ".e.Base")},
	}
	return vgFinishFamily(
		[]*descriptorpb.FileDescriptorProto{file}, []bool{false},
		[]string{"e.Base", "e.Payload", "e.pext", "e.Holder.hext", "e.Holder", "e.User", "e.GVal", "e.User.G"},
	)
}

// family 3: a file that defines no types next to an ordinary one, plus an imported dependency.
func vgFamilyTypeless() *vgFamily {
	dep := &descriptorpb.FileDescriptorProto{
		Name: vgS("dep.proto"), Package: vgS("x"), Syntax: vgS("proto3"),
		MessageType: []*descriptorpb.DescriptorProto{{Name: vgS("D")}},
	}
	empty := &descriptorpb.FileDescriptorProto{
		Name: vgS("empty.proto"), Package: vgS("u"), Syntax: vgS("proto3"),
	}
	file := &descriptorpb.FileDescriptorProto{
		Name: vgS("t.proto"), Package: vgS("t"), Syntax: vgS("proto3"),
		Dependency: []string{"dep.proto"},
		MessageType: []*descriptorpb.DescriptorProto{
			{Name: vgS("A"), Field: []*descriptorpb.FieldDescriptorProto{vgMsgField("b", 1, ".t.B"), vgMsgField("d", 2, ".x.D")}},
			{Name: vgS("B")},
		},
	}
	return vgFinishFamily(
		[]*descriptorpb.FileDescriptorProto{dep, empty, file}, []bool{true, false, false},
		[]string{"t.A", "t.B", "x.D", "t"},
		"t",
	)
}

// family 4: extensions declared in another file than their extendee (known extensions pull that file in), next to
// unrelated content; the extending file also has a weak import.
func vgFamilyCrossFileExtensions() *vgFamily {
	base := &descriptorpb.FileDescriptorProto{
		Name: vgS("base.proto"), Package: vgS("e"), Syntax: vgS("proto2"),
		MessageType: []*descriptorpb.DescriptorProto{
			{Name: vgS("Base"), ExtensionRange: []*descriptorpb.DescriptorProto_ExtensionRange{{Start: vgI(100), End: vgI(200)}}},
			{Name: vgS("Plain")},
		},
	}
	weak := &descriptorpb.FileDescriptorProto{
		Name: vgS("weak.proto"), Package: vgS("w"), Syntax: vgS("proto2"),
		MessageType: []*descriptorpb.DescriptorProto{{Name: vgS("W")}},
	}
	ext := &descriptorpb.FileDescriptorProto{
		Name: vgS("x.proto"), Package: vgS("x"), Syntax: vgS("proto2"),
		Dependency: []string{"base.proto", "weak.proto"}, WeakDependency: []int32{1},
		MessageType: []*descriptorpb.DescriptorProto{
			{Name: vgS("Payload")},
			{Name: vgS("Unrelated"), Field: []*descriptorpb.FieldDescriptorProto{vgMsgField("p", 1, ".e.Plain"), vgMsgField("w", 2, ".w.W")}},
		},
		Extension: []*descriptorpb.FieldDescriptorProto{vgExtends(vgMsgField("px", 100, ".x.Payload"), ".e.Base")},
	}
	return vgFinishFamily(
		[]*descriptorpb.FileDescriptorProto{base, weak, ext}, []bool{false, false, false},
		[]string{"e.Base", "x.Payload", "x.px", "x.Unrelated", "e.Plain", "w.W", "x"},
		"x",
	)
}

func vgBuildFamily(k int) *vgFamily {
	switch k {
	case 0:
		return vgFamilyNested()
	case 1:
		return vgFamilyService()
	case 2:
		return vgFamilyExtensions()
	case 4:
		return vgFamilyCrossFileExtensions()
	default:
		return vgFamilyTypeless()
	}
}

// vgPickNames: 0..max distinct candidates, in either order (the order is the option maps' insertion order).
func vgPickNames(candidates []string, max int) []string {
	n := verifNondetChoice(max + 1)
	var out []string
	for len(out) < n {
		c := candidates[verifNondetChoice(len(candidates))]
		for _, o := range out {
			verifAssume(o != c)
		}
		out = append(out, c)
	}
	return out
}

type vgFilter struct {
	fam           *vgFamily
	table         *vgTable // pristine symbols
	includes      []string
	excludes      []string
	noKnownExt    bool // WithExcludeKnownExtensions
	copying       bool // without WithMutateInPlace
	allowImported bool // WithAllowIncludeOfImportedType
}

func (f *vgFilter) packageOfFile(file string) string {
	return vgFileByName(f.fam.spec.files, file).GetPackage()
}

// isExcluded: name (a symbol of the pristine image) is covered by an exclude: the exclude names it, an element
// enclosing it, or the package of its file.
func (f *vgFilter) isExcluded(name string) bool {
	sym := f.table.syms[name]
	for _, x := range f.excludes {
		if f.fam.packages[x] {
			if sym != nil && f.packageOfFile(sym.file) == x {
				return true
			}
			continue
		}
		if vgUnder(name, x) {
			return true
		}
	}
	return false
}

func (f *vgFilter) isImportFile(file string) bool {
	for i, fd := range f.fam.spec.files {
		if fd.GetName() == file {
			return f.fam.spec.isImport[i]
		}
	}
	return false
}

// conflict: the documented reasons for which a filter made of existing names is rejected.
func (f *vgFilter) conflict() bool {
	for _, inc := range f.includes {
		if f.fam.packages[inc] {
			onlyImports := true
			for i, fd := range f.fam.spec.files {
				if fd.GetPackage() == inc && !f.fam.spec.isImport[i] {
					onlyImports = false
				}
			}
			if onlyImports && !f.allowImported {
				return true
			}
			for _, x := range f.excludes {
				if x == inc {
					return true
				}
			}
			continue
		}
		sym := f.table.syms[inc]
		if (f.isImportFile(sym.file) && !f.allowImported) || f.isExcluded(inc) {
			return true
		}
		switch sym.kind {
		case vgKindMethod:
			if f.isExcluded(vgTrimDot(sym.method.GetInputType())) || f.isExcluded(vgTrimDot(sym.method.GetOutputType())) {
				return true
			}
		case vgKindExtension:
			if f.isExcluded(vgTrimDot(sym.field.GetExtendee())) {
				return true
			}
		}
	}
	return false
}

func (f *vgFilter) options() []ImageFilterOption {
	options := []ImageFilterOption{WithExcludeCustomOptions()}
	if !f.copying {
		options = append(options, WithMutateInPlace())
	}
	if len(f.includes) > 0 {
		options = append(options, WithIncludeTypes(f.includes...))
	}
	if len(f.excludes) > 0 {
		options = append(options, WithExcludeTypes(f.excludes...))
	}
	if f.noKnownExt {
		options = append(options, WithExcludeKnownExtensions())
	}
	if f.allowImported {
		options = append(options, WithAllowIncludeOfImportedType())
	}
	return options
}

func (f *vgFilter) namedByInclude(name string) bool {
	sym := f.table.syms[name]
	for _, inc := range f.includes {
		if f.fam.packages[inc] {
			if sym != nil && f.packageOfFile(sym.file) == inc {
				return true
			}
		} else if inc == name {
			return true
		}
	}
	return false
}

// fieldTypeExcluded: the field cannot survive because its type (for a map field: the entry's value type) is excluded.
func (f *vgFilter) fieldTypeExcluded(field *descriptorpb.FieldDescriptorProto) bool {
	if field.TypeName == nil {
		return false
	}
	typeName := vgTrimDot(field.GetTypeName())
	if f.isExcluded(typeName) {
		return true
	}
	if sym := f.table.syms[typeName]; sym != nil && sym.kind == vgKindMessage && sym.msg.GetOptions().GetMapEntry() {
		for _, ef := range sym.msg.GetField() {
			if ef.TypeName != nil && f.isExcluded(vgTrimDot(ef.GetTypeName())) {
				return true
			}
		}
	}
	return false
}

func vgFindField(fields []*descriptorpb.FieldDescriptorProto, name string) *descriptorpb.FieldDescriptorProto {
	for _, f := range fields {
		if f.GetName() == name {
			return f
		}
	}
	return nil
}

func vgSameField(a, b *descriptorpb.FieldDescriptorProto) bool {
	return a.GetName() == b.GetName() && a.GetNumber() == b.GetNumber() && a.GetLabel() == b.GetLabel() &&
		a.GetType() == b.GetType() && a.GetTypeName() == b.GetTypeName() && a.GetExtendee() == b.GetExtendee() &&
		(a.OneofIndex == nil) == (b.OneofIndex == nil)
}

// checkUnchanged: every surviving element is an element of the original with the same content; a message is either
// kept with all the fields whose types survive, or reduced to a namespace (only when nothing needs its fields).
func (f *vgFilter) checkUnchanged(result []*descriptorpb.FileDescriptorProto) {
	resTable := vgSymbols(result)
	// messages that something in the result refers to
	referenced := map[string]bool{}
	for _, name := range resTable.order {
		sym := resTable.syms[name]
		switch sym.kind {
		case vgKindMessage:
			for _, fld := range sym.msg.GetField() {
				referenced[vgTrimDot(fld.GetTypeName())] = true
			}
		case vgKindExtension:
			referenced[vgTrimDot(sym.field.GetTypeName())] = true
			referenced[vgTrimDot(sym.field.GetExtendee())] = true
		case vgKindMethod:
			referenced[vgTrimDot(sym.method.GetInputType())] = true
			referenced[vgTrimDot(sym.method.GetOutputType())] = true
		}
	}
	for _, name := range resTable.order {
		sym := resTable.syms[name]
		orig := f.table.syms[name]
		verifAssert(orig != nil && orig.kind == sym.kind && orig.file == sym.file, "every surviving element exists in the original image, in the same file")
		if orig == nil {
			continue
		}
		switch sym.kind {
		case vgKindExtension:
			verifAssert(vgSameField(sym.field, orig.field), "surviving extensions are unchanged")
		case vgKindMethod:
			verifAssert(sym.method.GetInputType() == orig.method.GetInputType() && sym.method.GetOutputType() == orig.method.GetOutputType(),
				"surviving methods are unchanged")
			if len(f.includes) > 0 {
				verifAssert(f.namedByInclude(name) || f.namedByInclude(sym.parent), "a method survives an include filter only if it or its service was asked for")
			}
		case vgKindMessage:
			// fields: an order-preserving subset of the original's, each unchanged
			last := -1
			for _, fld := range sym.msg.GetField() {
				pos := -1
				for i, of := range orig.msg.GetField() {
					if of.GetName() == fld.GetName() {
						pos = i
					}
				}
				verifAssert(pos > last, "surviving fields are original fields in their original order")
				if pos < 0 {
					continue
				}
				last = pos
				of := orig.msg.GetField()[pos]
				verifAssert(vgSameField(fld, of), "surviving fields are unchanged")
				if fld.OneofIndex != nil && of.OneofIndex != nil &&
					int(fld.GetOneofIndex()) < len(sym.msg.GetOneofDecl()) && int(of.GetOneofIndex()) < len(orig.msg.GetOneofDecl()) {
					verifAssert(sym.msg.GetOneofDecl()[fld.GetOneofIndex()].GetName() == orig.msg.GetOneofDecl()[of.GetOneofIndex()].GetName(),
						"a surviving field stays in its own oneof")
				}
			}
			namespaceOnly := len(sym.msg.GetField()) == 0 && len(orig.msg.GetField()) > 0
			needsFields := len(f.includes) == 0 || f.namedByInclude(name) || referenced[name]
			if namespaceOnly && !needsFields {
				verifCover("message reduced to a namespace")
				continue
			}
			for _, of := range orig.msg.GetField() {
				if vgFindField(sym.msg.GetField(), of.GetName()) == nil {
					verifAssert(f.fieldTypeExcluded(of), "a field of a needed message is dropped only because its type is excluded")
				}
			}
		}
	}
	// nothing excluded is defined; everything included is
	for _, name := range resTable.order {
		verifAssert(!f.isExcluded(name), "no excluded element is defined in the filtered image")
	}
	for _, fd := range result {
		for _, x := range f.excludes {
			verifAssert(!f.fam.packages[x] || fd.GetPackage() != x, "no file of an excluded package remains")
		}
	}
	for _, inc := range f.includes {
		if f.fam.packages[inc] {
			continue
		}
		verifAssert(resTable.syms[inc] != nil, "every included element is present")
	}
	if len(f.includes) > 0 {
		// minimality: whatever is present was asked for, is referenced, encloses something present, or is a known
		// extension of a present message
		for _, name := range resTable.order {
			sym := resTable.syms[name]
			if f.namedByInclude(name) || referenced[name] {
				continue
			}
			switch sym.kind {
			case vgKindMessage, vgKindService:
				encloses := false
				for _, other := range resTable.order {
					if other != name && vgUnder(other, name) {
						encloses = true
					}
				}
				if verifKnown("F6g-extendee-of-dropped-extension", !encloses && f.extendeeOfDroppedExtension(name, "")) {
					return
				}
				verifAssert(encloses, "an unrequested, unreferenced message or service survives only as a namespace for something needed")
			case vgKindExtension:
				verifAssert(!f.noKnownExt, "an unrequested extension does not survive when known extensions are excluded")
				verifAssert(resTable.syms[vgTrimDot(sym.field.GetExtendee())] != nil, "an unrequested extension survives only with its extendee")
			case vgKindEnum:
				verifAssert(false, "an unrequested, unreferenced enum does not survive")
			}
		}
	}
	// dependencies are exactly the files referenced
	for _, fd := range result {
		used := vgUsedFiles(result, resTable, fd)
		for _, dep := range fd.GetDependency() {
			if verifKnown("F6g-extendee-of-dropped-extension", !used[dep] && f.importOfDroppedExtension(fd.GetName(), dep)) {
				return
			}
			verifAssert(used[dep], "every remaining import is used")
		}
	}
}

func vgRunFilterLemma(familyIndex int) { vgRunFilterLemmaMode(familyIndex, false) }

// vgRunFilterLemmaMode: copying=false filters in place (WithMutateInPlace); copying=true is the default mode of
// FilterImage, which must leave the input image untouched (shallowClone is modelled by the engine, see stubs).
func vgRunFilterLemmaMode(familyIndex int, copying bool) {
	fam := vgBuildFamily(familyIndex)
	pristine := vgBuildFamily(familyIndex) // an untouched twin to compare against
	filter := &vgFilter{fam: pristine, table: vgSymbols(pristine.spec.files), copying: copying}
	filter.includes = vgPickNames(fam.candidates, verifParam("NI"))
	filter.excludes = vgPickNames(fam.candidates, verifParam("NE"))
	verifAssume(len(filter.includes)+len(filter.excludes) > 0)
	if verifParam("FLAGS") != 0 {
		filter.noKnownExt = verifNondetBool()
		filter.allowImported = verifNondetBool()
	}
	image := vgNewImage(fam.spec)
	vgCheckLinks(pristine.spec.files) // the family itself links
	verifCover("filter chosen")

	got, err := FilterImage(image, filter.options()...)
	if filter.conflict() {
		verifCover("conflicting filter")
		verifAssert(err != nil, "an include that contradicts an exclude (or names an imported type) is rejected")
		return
	}
	if filter.softConflict() {
		// including an extension whose value type is excluded: currently the extension is silently dropped
		// (a method with an excluded request type is rejected instead); either answer is accepted here.
		verifCover("extension included, its type excluded")
		return
	}
	if verifKnown("F6a-typeless-file", filter.classTypelessFile()) {
		return
	}
	if verifKnown("F6b-rpc-type-excluded", filter.classRPCTypeExcluded()) {
		return
	}
	if verifKnown("F6d-everything-excluded", filter.classEverythingExcluded()) {
		return
	}
	if filter.classEverythingExcluded() {
		// nothing is left: an image cannot be empty, so this is an error - never the unfiltered image (F6d)
		verifCover("everything excluded")
		verifAssert(err != nil, "a filter that removes every file is an error, never the unfiltered image")
		return
	}
	if verifKnown("F6f-request-type-marked-excluded", filter.classRequestTypeMarkedExcluded()) {
		return
	}
	verifAssert(err == nil, "a filter made only of existing names does not fail")
	if err != nil {
		return
	}
	verifCover("filtered")
	if copying {
		// the input image is not modified: same files, and every descriptor, list and source location (path, span,
		// comments) reads exactly as in the untouched twin
		verifAssert(vgSameStrings(vgDeepFingerprint(image), vgDeepFingerprint(vgNewImage(pristine.spec))), "copying mode leaves the input image unchanged")
		// and filtering the same input again gives the same result
		second, err2 := FilterImage(image, filter.options()...)
		verifAssert(err2 == nil, "filtering the same input twice succeeds twice")
		if err2 == nil {
			verifAssert(vgSameStrings(vgDeepFingerprint(second), vgDeepFingerprint(got)), "filtering the same input twice gives the same result")
			verifAssert(vgSameStrings(vgDeepFingerprint(image), vgDeepFingerprint(vgNewImage(pristine.spec))), "the second run leaves the input image unchanged as well")
		}
		verifCover("copying mode")
	}
	if verifKnown("F6c-map-value-excluded", filter.classMapValueExcluded()) {
		return
	}
	if verifKnown("F6e-oneof-index", filter.classOneofRemoved()) {
		return
	}
	result := vgImageProtos(got)
	vgCheckLinks(result)
	filter.checkUnchanged(result)
	for _, imageFile := range got.Files() {
		orig := vgFileByName(pristine.spec.files, imageFile.Path())
		verifAssert(orig != nil, "every surviving file is a file of the original image")
		if orig == nil {
			continue
		}
		verifAssert(imageFile.IsImport() == filter.isImportFile(imageFile.Path()), "import flags are preserved")
		vgCheckSourceInfo(fam.spec.names, imageFile.FileDescriptorProto(), orig)
		vgCheckWeak(imageFile.FileDescriptorProto(), orig)
	}
	if len(got.Files()) < len(fam.spec.files) {
		verifCover("a file was dropped")
	}

	// applying the same filter again changes nothing (an exclude may legitimately no longer be found)
	before := vgFingerprint(got)
	again, err := FilterImage(got, filter.options()...)
	if err != nil {
		verifAssert(len(filter.excludes) > 0 && errors.Is(err, ErrImageFilterTypeNotFound), "re-applying the filter fails only because an excluded name is gone")
		verifCover("second application: excluded name no longer found")
		return
	}
	verifAssert(vgSameStrings(vgFingerprint(again), before), "filtering twice equals filtering once")
	verifCover("idempotent")
}

// vgCheckWeak: a surviving import is weak iff it was weak in the original file.
func vgCheckWeak(fd *descriptorpb.FileDescriptorProto, orig *descriptorpb.FileDescriptorProto) {
	wasWeak := map[string]bool{}
	for _, idx := range orig.GetWeakDependency() {
		wasWeak[orig.GetDependency()[idx]] = true
	}
	isWeak := map[string]bool{}
	for _, idx := range fd.GetWeakDependency() {
		if int(idx) < len(fd.GetDependency()) {
			isWeak[fd.GetDependency()[idx]] = true
		}
	}
	for _, dep := range fd.GetDependency() {
		verifAssert(isWeak[dep] == wasWeak[dep], "a surviving import is weak iff it was weak before")
	}
}

// ---- input classes of the recorded findings (see notes/findings-grpG.md) ----

func (f *vgFilter) targetsWholeFile(fileIndex int) bool {
	if f.fam.spec.isImport[fileIndex] {
		return false
	}
	if len(f.includes) == 0 {
		return true
	}
	for _, inc := range f.includes {
		if f.fam.packages[inc] && inc == f.fam.spec.files[fileIndex].GetPackage() {
			return true
		}
	}
	return false
}

func (f *vgFilter) packageExcluded(pkg string) bool {
	for _, x := range f.excludes {
		if f.fam.packages[x] && x == pkg {
			return true
		}
	}
	return false
}

// F6a: a file without any type is added to the closure as a whole.
func (f *vgFilter) classTypelessFile() bool {
	for i, fd := range f.fam.spec.files {
		if len(fd.GetMessageType())+len(fd.GetEnumType())+len(fd.GetService())+len(fd.GetExtension()) == 0 &&
			f.targetsWholeFile(i) && !f.packageExcluded(fd.GetPackage()) {
			return true
		}
	}
	return false
}

// F6b: a file is added as a whole and one of its (non-excluded) methods has an excluded request or response type.
func (f *vgFilter) classRPCTypeExcluded() bool {
	for i, fd := range f.fam.spec.files {
		if !f.targetsWholeFile(i) {
			continue
		}
		prefix := vgPrefix(fd.GetPackage())
		for _, s := range fd.GetService() {
			for _, m := range s.GetMethod() {
				if !f.isExcluded(prefix+s.GetName()+"."+m.GetName()) &&
					(f.isExcluded(vgTrimDot(m.GetInputType())) || f.isExcluded(vgTrimDot(m.GetOutputType()))) {
					return true
				}
			}
		}
	}
	return false
}

// F6c: the value type of a map field is excluded while the map entry itself is not.
func (f *vgFilter) classMapValueExcluded() bool {
	for _, name := range f.table.order {
		sym := f.table.syms[name]
		if sym.kind != vgKindMessage || !sym.msg.GetOptions().GetMapEntry() || f.isExcluded(name) {
			continue
		}
		for _, ef := range sym.msg.GetField() {
			if ef.TypeName != nil && f.isExcluded(vgTrimDot(ef.GetTypeName())) {
				return true
			}
		}
	}
	return false
}

// F6d: an exclude-only filter that excludes the package of every target file.
func (f *vgFilter) classEverythingExcluded() bool {
	if len(f.includes) > 0 {
		return false
	}
	for i, fd := range f.fam.spec.files {
		if !f.fam.spec.isImport[i] && !f.packageExcluded(fd.GetPackage()) {
			return false
		}
	}
	return true
}

// F6e: a oneof loses all its members (their types are excluded) while a later oneof of the same message survives.
func (f *vgFilter) classOneofRemoved() bool {
	for _, name := range f.table.order {
		sym := f.table.syms[name]
		if sym.kind != vgKindMessage || f.isExcluded(name) {
			continue
		}
		n := len(sym.msg.GetOneofDecl())
		alive := make([]bool, n)
		for _, fld := range sym.msg.GetField() {
			if fld.OneofIndex != nil && !f.fieldTypeExcluded(fld) {
				alive[fld.GetOneofIndex()] = true
			}
		}
		for i := 0; i < n; i++ {
			for j := i + 1; j < n; j++ {
				if !alive[i] && alive[j] {
					return true
				}
			}
		}
	}
	return false
}

// F6f: a service is included by name, one of its methods has an excluded response type, and the method's request
// type is not excluded itself (the closure then marks the request type, not the method, as excluded).
func (f *vgFilter) classRequestTypeMarkedExcluded() bool {
	for _, inc := range f.includes {
		sym := f.table.syms[inc]
		if sym == nil || sym.kind != vgKindService {
			continue
		}
		for _, m := range sym.svc.GetMethod() {
			if f.isExcluded(vgTrimDot(m.GetOutputType())) && !f.isExcluded(vgTrimDot(m.GetInputType())) {
				return true
			}
		}
	}
	return false
}

// F6g: an extension that is walked by the closure (not excluded itself) is dropped because its value type is excluded,
// but its extendee (and the import of the extendee's file) had already been added to the closure.
func (f *vgFilter) extendeeOfDroppedExtension(extendee string, inFile string) bool {
	for _, name := range f.table.order {
		sym := f.table.syms[name]
		if sym.kind == vgKindExtension && !f.isExcluded(name) && f.fieldTypeExcluded(sym.field) &&
			vgTrimDot(sym.field.GetExtendee()) == extendee && (inFile == "" || sym.file == inFile) {
			return true
		}
	}
	return false
}

func (f *vgFilter) importOfDroppedExtension(file string, dep string) bool {
	for _, name := range f.table.order {
		if sym := f.table.syms[name]; sym.kind == vgKindMessage && sym.file == dep && f.extendeeOfDroppedExtension(name, file) {
			return true
		}
	}
	return false
}

// softConflict: an included extension whose value type is excluded.
func (f *vgFilter) softConflict() bool {
	for _, inc := range f.includes {
		if sym := f.table.syms[inc]; sym != nil && sym.kind == vgKindExtension && f.fieldTypeExcluded(sym.field) {
			return true
		}
	}
	return false
}

var _ bufimage.Image // keep the import used by helpers in this file set

func VerifLemma_C12C_FilterNested()     { vgRunFilterLemma(0) }
func VerifLemma_C12C_FilterService()    { vgRunFilterLemma(1) }
func VerifLemma_C12C_FilterExtensions() { vgRunFilterLemma(2) }
func VerifLemma_C12C_FilterTypeless()   { vgRunFilterLemma(3) }
func VerifLemma_C12C_FilterCrossFile()  { vgRunFilterLemma(4) }

func VerifLemma_C12C_CopyNested()     { vgRunFilterLemmaMode(0, true) }
func VerifLemma_C12C_CopyService()    { vgRunFilterLemmaMode(1, true) }
func VerifLemma_C12C_CopyExtensions() { vgRunFilterLemmaMode(2, true) }
func VerifLemma_C12C_CopyTypeless()   { vgRunFilterLemmaMode(3, true) }
func VerifLemma_C12C_CopyCrossFile()  { vgRunFilterLemmaMode(4, true) }
