//go:build verif

package bufimageutil

// ---- C12-A: source-path remap trie vs. a flat list-of-marks reference ----

const (
	vgMarkMoved = iota
	vgMarkDeleted
	vgMarkNoComment
)

type vgMark struct {
	kind     int
	path     []int32
	newIndex int32
}

// vgHasPrefix reports whether p[:k] == q[:k] (len(p) >= k and len(q) >= k required by the callers).
func vgHasPrefix(p, q []int32, k int) bool {
	if len(p) < k || len(q) < k {
		return false
	}
	var d int32
	for i := 0; i < k; i++ {
		d |= p[i] ^ q[i]
	}
	return d == 0
}

// refGNewPath: rewriting of q under the marks, applied in order.
//   - walk the prefixes q[:1], q[:2], ...; a prefix that no mark passes through ends the rewriting (rest copied)
//   - the last moved/deleted mark placed exactly on a prefix decides its new index; deleted => whole path deleted (nil)
//   - noComment is reported only if the walk reaches the full path and a noComment mark sits exactly on it
func refGNewPath(marks []vgMark, q []int32) (out []int32, noComment bool) {
	if len(q) == 0 {
		return []int32{}, false
	}
	out = make([]int32, len(q))
	copy(out, q)
	for k := 1; k <= len(q); k++ {
		exists := false
		idx := q[k-1]
		for _, m := range marks {
			if !vgHasPrefix(m.path, q, k) {
				continue
			}
			exists = true
			if len(m.path) == k && m.kind != vgMarkNoComment {
				idx = m.newIndex
			}
		}
		if !exists {
			return out, false
		}
		if idx == -1 {
			return nil, false
		}
		out[k-1] = idx
	}
	for _, m := range marks {
		if m.kind == vgMarkNoComment && len(m.path) == len(q) && vgHasPrefix(m.path, q, len(q)) {
			noComment = true
		}
	}
	return out, noComment
}

func vgNondetPath(maxLen int) []int32 {
	n := verifNondetChoice(maxLen) + 1
	p := make([]int32, n)
	for i := range p {
		p[i] = verifNondetInt32(0, 0x7fffffff)
	}
	return p
}

func vgInt32sEqual(a, b []int32) bool {
	if len(a) != len(b) {
		return false
	}
	var d int32
	for i := range a {
		d |= a[i] ^ b[i]
	}
	return d == 0
}

// VerifLemma_C12A_SourcePathTrie: after up to INS markMoved/markDeleted/markNoComment insertions of arbitrary
// non-negative int32 paths (length 1..PL), newPath(q) for an arbitrary query path q (length 0..QL) equals the
// reference rewriting; the query path itself is never modified.
func VerifLemma_C12A_SourcePathTrie() {
	var trie sourcePathsRemapTrie
	nIns := verifNondetChoice(verifParam("INS") + 1)
	pl := verifParam("PL")
	marks := make([]vgMark, 0, nIns)
	for i := 0; i < nIns; i++ {
		m := vgMark{kind: verifNondetChoice(3), path: vgNondetPath(pl)}
		// the code under test gets its own copy of the path
		arg := append([]int32(nil), m.path...)
		switch m.kind {
		case vgMarkMoved:
			m.newIndex = verifNondetInt32(0, 0x7fffffff)
			trie.markMoved(arg, m.newIndex)
		case vgMarkDeleted:
			m.newIndex = -1
			trie.markDeleted(arg)
		case vgMarkNoComment:
			trie.markNoComment(arg)
		}
		marks = append(marks, m)
	}
	ql := verifNondetChoice(verifParam("QL") + 1)
	q := make([]int32, ql)
	for i := range q {
		q[i] = verifNondetInt32(0, 0x7fffffff)
	}
	qCopy := append([]int32(nil), q...)
	got, gotNoComment := trie.newPath(q)
	want, wantNoComment := refGNewPath(marks, qCopy)
	verifCover("newPath returned")
	verifAssert(vgInt32sEqual(q, qCopy), "query path is not modified")
	if want == nil {
		verifCover("deleted")
		verifAssert(got == nil, "a path under a deleted prefix is deleted")
		return
	}
	verifAssert(got != nil, "a path not under a deleted prefix is kept")
	verifAssert(vgInt32sEqual(got, want), "kept path is renumbered exactly at the marked prefixes")
	verifAssert(gotNoComment == wantNoComment, "noComment only on an exact hit")
	if !vgInt32sEqual(got, qCopy) {
		verifCover("renumbered")
	}
	if wantNoComment {
		verifCover("noComment")
	}
}
