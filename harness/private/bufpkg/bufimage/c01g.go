//go:build verif

package bufimage

import (
	"context"

	"github.com/bufbuild/buf/private/bufpkg/bufmodule"
	"github.com/bufbuild/buf/private/bufpkg/bufparse"
	"github.com/bufbuild/buf/private/pkg/slogext"
	"github.com/bufbuild/buf/private/pkg/storage/storagemem"
	"github.com/google/uuid"
)

// ---- C01-G (grpF): re-targeting a ModuleSet preserves everything but the target flags ----

func vfContainsPath(dir string, path string) bool {
	if dir == "." {
		return true
	}
	if len(dir) > len(path) {
		return false
	}
	for i := 0; i < len(dir); i++ {
		if dir[i] != path[i] {
			return false
		}
	}
	return len(dir) == len(path) || path[len(dir)] == '/'
}

// vfPathRule: the --path/--exclude-path rule of C01-C.
func vfPathRule(paths []string, excludes []string, file string) bool {
	in := len(paths) == 0
	for _, p := range paths {
		if vfContainsPath(p, file) {
			in = true
		}
	}
	for _, e := range excludes {
		if vfContainsPath(e, file) {
			in = false
		}
	}
	return in
}

// VerifLemma_C01G_Retarget: a real workspace of two named modules with commits (m0: a/x.proto, b/x.proto, LICENSE;
// m1: c/x.proto; nondet imports b->a, c->a, c->b), m0 optionally built with --path values and/or --exclude-path
// values (exclude-only included), nondet original targets. ModuleSet.WithTargetOpaqueIDs(S) for every non-empty S:
//   - every module keeps OpaqueID, FullName, CommitID, BucketID, Description, IsLocal and its file list; IsTarget <=> in S
//   - a file is a target file <=> its module is in S and the ORIGINAL --path/--exclude-path rule of that module holds
//   - the original ModuleSet is unchanged
//   - the image built from the re-targeted set (real buildImage, compiler modelled as in C01-F): non-import files =
//     those target files, closed under imports, every file carries its owner's name and commit; no target file => error.
func VerifLemma_C01G_Retarget() {
	ctx := context.Background()
	w := &vfWorld{n: 3, wktUser: -1, names: []string{"a/x.proto", "b/x.proto", "c/x.proto"}}
	for i := 0; i < 3; i++ {
		w.hasSyntax[i] = true
	}
	if verifNondetBool() {
		w.edge[1][0] = 1
	}
	if verifNondetBool() {
		w.edge[2][0] = 1
	}
	if verifNondetBool() {
		w.edge[2][1] = 1
	}
	var paths, excludes []string
	switch verifNondetChoice(4) {
	case 1:
		paths = []string{"a"}
	case 2:
		paths = []string{"a/x.proto"}
	case 3:
		paths = []string{"b", "a"}
	}
	switch verifNondetChoice(3) {
	case 1:
		excludes = []string{"b"}
	case 2:
		excludes = []string{"a"}
	}
	pathTargeted := len(paths) > 0 || len(excludes) > 0
	origTarget := [2]bool{true, verifNondetBool()}
	if !pathTargeted {
		origTarget[0] = verifNondetBool()
	}
	verifAssume(origTarget[0] || origTarget[1])
	names := [2]string{"buf.build/acme/m0", "buf.build/acme/m1"}
	commits := [2]uuid.UUID{{7}, {8}}
	owner := [3]int{0, 0, 1}
	builder := bufmodule.NewModuleSetBuilder(ctx, slogext.NopLogger, bufmodule.NopModuleDataProvider, bufmodule.NopCommitProvider)
	for m := 0; m < 2; m++ {
		fullName, err := bufparse.ParseFullName(names[m])
		verifAssert(err == nil, "full name")
		data := map[string][]byte{}
		if m == 0 {
			data["LICENSE"] = []byte("license")
		}
		for i := 0; i < 3; i++ {
			if owner[i] == m {
				data[w.vfNameOf(i)] = []byte(w.vfSource(i))
			}
		}
		bucket, err := storagemem.NewReadBucket(data)
		verifAssert(err == nil, "memory bucket")
		options := []bufmodule.LocalModuleOption{bufmodule.LocalModuleWithFullNameAndCommitID(fullName, commits[m])}
		if m == 0 && pathTargeted {
			options = append(options, bufmodule.LocalModuleWithTargetPaths(paths, excludes))
		}
		builder.AddLocalModule(bucket, vfModName(m), origTarget[m], options...)
	}
	original, err := builder.Build()
	verifAssert(err == nil && original != nil, "workspace builds")
	if err != nil {
		return
	}
	newTargets := verifNondetChoice(3) + 1
	inS := [2]bool{newTargets&1 != 0, newTargets&2 != 0}
	var ids []string
	for m := 0; m < 2; m++ {
		if inS[m] {
			ids = append(ids, names[m])
		}
	}
	verifCover("workspace built")
	retargeted, err := original.WithTargetOpaqueIDs(ids...)
	verifAssert(err == nil && retargeted != nil, "re-targeting succeeds")
	if err != nil {
		return
	}
	verifAssert(len(retargeted.Modules()) == 2, "same number of modules")
	nTargetFiles := 0
	isTargetFile := [3]bool{}
	for m := 0; m < 2; m++ {
		before := original.GetModuleForOpaqueID(names[m])
		after := retargeted.GetModuleForOpaqueID(names[m])
		verifAssert(before != nil && after != nil, "module found by OpaqueID in both sets")
		if before == nil || after == nil {
			return
		}
		verifAssert(before.IsTarget() == origTarget[m], "the original set keeps its target flags")
		verifAssert(after.IsTarget() == inS[m], "IsTarget iff in the new target set")
		verifAssert(after.FullName() != nil && after.FullName().String() == names[m], "module name preserved")
		verifAssert(after.CommitID() == commits[m], "commit preserved")
		verifAssert(after.BucketID() == before.BucketID() && after.Description() == before.Description() && after.OpaqueID() == before.OpaqueID(), "ids and description preserved")
		verifAssert(after.IsLocal(), "locality preserved")
		afterSet, beforeSet := after.ModuleSet(), before.ModuleSet()
		verifAssert(afterSet != nil && beforeSet != nil, "each module has a module set")
		if afterSet != nil && beforeSet != nil {
			viaAfter, viaBefore := afterSet.GetModuleForOpaqueID(names[m]), beforeSet.GetModuleForOpaqueID(names[m])
			verifAssert(viaAfter != nil && viaAfter.IsTarget() == inS[m] && viaBefore != nil && viaBefore.IsTarget() == origTarget[m], "each module's ModuleSet is the set with its own target flags")
		}
		beforeInfos, err := bufmodule.GetFileInfos(ctx, before)
		verifAssert(err == nil, "files of the original module are listed")
		afterInfos, err2 := bufmodule.GetFileInfos(ctx, after)
		verifAssert(err2 == nil, "files of the re-targeted module are listed")
		if err != nil || err2 != nil {
			return
		}
		verifAssert(len(beforeInfos) == len(afterInfos), "same number of files")
		for k := 0; k < len(beforeInfos) && k < len(afterInfos); k++ {
			verifAssert(beforeInfos[k].Path() == afterInfos[k].Path(), "same files")
		}
		for i := 0; i < 3; i++ {
			if owner[i] != m {
				continue
			}
			var modPaths, modExcludes []string
			if m == 0 {
				modPaths, modExcludes = paths, excludes
			}
			rule := vfPathRule(modPaths, modExcludes, w.vfNameOf(i))
			beforeInfo, err := before.StatFileInfo(ctx, w.vfNameOf(i))
			verifAssert(err == nil && beforeInfo != nil, "file found in the original module")
			afterInfo, err2 := after.StatFileInfo(ctx, w.vfNameOf(i))
			verifAssert(err2 == nil && afterInfo != nil, "file found in the re-targeted module")
			if err != nil || err2 != nil {
				return
			}
			verifAssert(beforeInfo.IsTargetFile() == (origTarget[m] && rule), "original target decision")
			verifAssert(afterInfo.IsTargetFile() == (inS[m] && rule), "re-targeted: target file iff module in the new set and the original path rule holds")
			isTargetFile[i] = inS[m] && rule
			if isTargetFile[i] {
				nTargetFiles++
			}
			if inS[m] && !rule {
				verifCover("file still excluded after re-targeting")
			}
		}
	}
	// The image built from the re-targeted set.
	image, err := buildImage(vfWorldContext{Context: ctx, world: w}, slogext.NopLogger, bufmodule.ModuleSetToModuleReadBucketWithOnlyProtoFiles(retargeted), false, true)
	if nTargetFiles == 0 {
		verifCover("nothing targeted")
		verifAssert(err != nil, "no target file yields no image")
		return
	}
	verifAssert(err == nil && image != nil, "the re-targeted workspace compiles")
	if err != nil {
		return
	}
	verifCover("image built")
	inImage := [3]bool{}
	for _, imageFile := range image.Files() {
		i := w.vfIndexOf(imageFile.Path())
		verifAssert(i >= 0 && !inImage[i], "image file is a workspace file, once")
		if i < 0 {
			return
		}
		inImage[i] = true
		verifAssert(imageFile.IsImport() == !isTargetFile[i], "non-import files are exactly the target files")
		gotName := imageFile.FullName()
		verifAssert(gotName != nil && gotName.String() == names[owner[i]], "image file carries its module's name")
		verifAssert(imageFile.CommitID() == commits[owner[i]], "image file carries its module's commit")
	}
	for i := 0; i < 3; i++ {
		want := false
		for t := 0; t < 3; t++ {
			if isTargetFile[t] && (t == i || w.edge[t][i] != 0 || (t == 2 && i == 0 && w.edge[2][1] != 0 && w.edge[1][0] != 0)) {
				want = true
			}
		}
		verifAssert(inImage[i] == want, "image = target files plus their transitive imports")
	}
}
