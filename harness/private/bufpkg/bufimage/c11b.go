//go:build verif

package bufimage

import (
	"github.com/bufbuild/buf/private/bufpkg/bufparse"
	"github.com/google/uuid"
	"google.golang.org/protobuf/types/descriptorpb"
)

// ---- C11-B: import closure after path filtering; C11-D: per-file metadata carried through re-flagging ----

type vgIFullName = bufparse.FullName

// vgFullName is a stub module name (bufparse.NewFullName validates host names, which is not the subject here).
type vgFullName struct {
	vgIFullName
	registry, owner, name string
}

func (n *vgFullName) Registry() string { return n.registry }
func (n *vgFullName) Owner() string    { return n.owner }
func (n *vgFullName) Name() string     { return n.name }
func (n *vgFullName) String() string   { return n.registry + "/" + n.owner + "/" + n.name }

// (a function, not a package variable: the package initialiser of bufimage does not run to completion in the engine)
func vgGraphPathList() []string {
	return []string{"f0.proto", "f1.proto", "f2.proto", "f3.proto", "f4.proto"}
}

// VerifLemma_C11B_ImportClosure: for every dependency DAG over N files (file i may import any subset of the files
// before it, plus possibly a file that is not in the image), two alternating assignments of import flags in the source image and
// every non-empty choice of non-import files (in image order or reversed):
// getImageWithImports returns exactly the chosen files plus their transitive imports, each once, imports before
// importers, flagged import iff not chosen; descriptor pointers and all other per-file metadata are carried over.
func VerifLemma_C11B_ImportClosure() {
	n := verifParam("N")
	vgGraphPaths := vgGraphPathList()
	moduleName := &vgFullName{registry: "buf.build", owner: "acme", name: "mod"}
	commitID := uuid.UUID{1, 2, 3, 4, 5, 6, 7, 8, 9, 10, 11, 12, 13, 14, 15, 16}

	flipImports := verifNondetBool()
	deps := make([][]int, n)
	dangling := make([]bool, n)
	files := make([]ImageFile, n)
	wasImport := make([]bool, n)
	syntaxUnspecified := make([]bool, n)
	for i := 0; i < n; i++ {
		var depPaths []string
		for j := 0; j < i; j++ {
			if verifNondetBool() {
				deps[i] = append(deps[i], j)
				depPaths = append(depPaths, vgGraphPaths[j])
			}
		}
		if i == n-1 && verifNondetBool() {
			dangling[i] = true
			depPaths = append(depPaths, "missing.proto")
		}
		wasImport[i] = (i%2 == 0) != flipImports
		syntaxUnspecified[i] = i%2 == 1
		var unused []int32
		if len(depPaths) > 0 {
			unused = []int32{0}
		}
		var fullName bufparse.FullName
		var commit uuid.UUID
		if i > 0 { // file 0 has no module information
			fullName, commit = moduleName, commitID
		}
		file, err := NewImageFile(
			&descriptorpb.FileDescriptorProto{Name: vgStr(vgGraphPaths[i]), Dependency: depPaths},
			fullName, commit, "ext/"+vgGraphPaths[i], "local/"+vgGraphPaths[i], wasImport[i], syntaxUnspecified[i], unused,
		)
		verifAssert(err == nil, "graph file is a valid image file")
		files[i] = file
	}
	image, err := NewImage(files)
	verifAssert(err == nil, "graph is a valid image")

	chosen := make([]bool, n)
	nonImportPaths := map[string]struct{}{}
	var nonImportImageFiles []ImageFile
	reversed := verifNondetBool()
	for k := 0; k < n; k++ {
		i := k
		if reversed {
			i = n - 1 - k
		}
		if verifNondetBool() {
			chosen[i] = true
			nonImportPaths[vgGraphPaths[i]] = struct{}{}
			nonImportImageFiles = append(nonImportImageFiles, files[i])
		}
	}
	verifCover("graph and selection chosen")

	// reference: reachability (files are in topological order: a single backwards sweep suffices)
	needed := make([]bool, n)
	anyChosen := false
	for i := n - 1; i >= 0; i-- {
		if chosen[i] {
			needed[i] = true
			anyChosen = true
		}
		if needed[i] {
			for _, j := range deps[i] {
				needed[j] = true
			}
		}
	}

	got, err := getImageWithImports(image, nonImportPaths, nonImportImageFiles)
	if !anyChosen {
		verifCover("empty selection")
		verifAssert(err != nil, "an empty selection is rejected (an image has at least one file)")
		return
	}
	verifAssert(err == nil, "a non-empty selection yields an image")
	if err != nil {
		return
	}
	position := make([]int, n)
	for i := range position {
		position[i] = -1
	}
	for pos, file := range got.Files() {
		idx := -1
		for i := 0; i < n; i++ {
			if vgGraphPaths[i] == file.Path() {
				idx = i
			}
		}
		verifAssert(idx >= 0, "result files are files of the source image")
		if idx < 0 {
			continue
		}
		verifAssert(position[idx] == -1, "no file appears twice")
		position[idx] = pos
		// flags
		verifAssert(file.IsImport() == !chosen[idx], "import flag <=> not among the chosen files")
		if file.IsImport() != wasImport[idx] {
			verifCover("import flag rewritten")
		}
		// C11-D: everything else is carried over
		orig := files[idx]
		fd, ofd := file.FileDescriptorProto(), orig.FileDescriptorProto()
		sameDeps := len(fd.GetDependency()) == len(ofd.GetDependency())
		for k := 0; sameDeps && k < len(fd.GetDependency()); k++ {
			sameDeps = fd.GetDependency()[k] == ofd.GetDependency()[k]
		}
		verifAssert(fd.GetName() == ofd.GetName() && sameDeps, "descriptor content is carried over")
		verifAssert(file.ExternalPath() == "ext/"+vgGraphPaths[idx] && file.LocalPath() == "local/"+vgGraphPaths[idx], "external and local path are carried over")
		verifAssert(file.IsSyntaxUnspecified() == syntaxUnspecified[idx], "syntax-unspecified flag is carried over")
		unused := file.UnusedDependencyIndexes()
		if len(orig.FileDescriptorProto().GetDependency()) > 0 {
			verifAssert(len(unused) == 1 && unused[0] == 0, "unused dependency indexes are carried over")
		} else {
			verifAssert(len(unused) == 0, "no unused dependency indexes appear")
		}
		if idx > 0 {
			verifAssert(file.FullName() != nil && file.FullName().String() == "buf.build/acme/mod" && file.CommitID() == commitID, "module name and commit are carried over")
		} else {
			verifAssert(file.FullName() == nil && file.CommitID() == uuid.Nil, "absent module information stays absent")
		}
		found := got.GetFile(file.Path())
		verifAssert(found != nil && found.Path() == file.Path() && found.IsImport() == file.IsImport(), "GetFile finds every result file")
	}
	for i := 0; i < n; i++ {
		verifAssert((position[i] >= 0) == needed[i], "result = chosen files + their transitive imports, nothing else")
		if position[i] >= 0 {
			for _, j := range deps[i] {
				verifAssert(position[j] >= 0 && position[j] < position[i], "imports precede their importers")
			}
		}
	}
	verifAssert(got.GetFile("missing.proto") == nil, "a dependency that is not in the source image is not invented")
	if len(got.Files()) < n {
		verifCover("some file dropped")
	}
}

// VerifLemma_C11B_Reorder: newImage(files, reorder=true) (the constructor behind NewImageForProto /
// NewImageForCodeGeneratorRequest) on every dependency DAG over N files presented in every order: the image's files
// are a permutation of the input in which every import (present in the image) precedes its importers; an input that
// already is in DAG order is left as it is; duplicates are rejected.
func VerifLemma_C11B_Reorder() {
	n := verifParam("N")
	paths := vgGraphPathList()
	deps := make([][]int, n)
	byIndex := make([]ImageFile, n)
	for i := 0; i < n; i++ {
		var depPaths []string
		for j := 0; j < i; j++ {
			if verifNondetBool() {
				deps[i] = append(deps[i], j)
				depPaths = append(depPaths, paths[j])
			}
		}
		if i == n-1 && verifNondetBool() {
			depPaths = append(depPaths, "missing.proto")
		}
		file, err := NewImageFile(
			&descriptorpb.FileDescriptorProto{Name: vgStr(paths[i]), Dependency: depPaths},
			nil, uuid.Nil, "", "", false, false, nil,
		)
		verifAssert(err == nil, "graph file is a valid image file")
		byIndex[i] = file
	}
	// a permutation of 0..n-1, chosen structurally
	remaining := make([]int, n)
	for i := range remaining {
		remaining[i] = i
	}
	order := make([]int, 0, n)
	for len(remaining) > 0 {
		k := verifNondetChoice(len(remaining))
		order = append(order, remaining[k])
		remaining = append(remaining[:k], remaining[k+1:]...)
	}
	input := make([]ImageFile, n)
	sorted := true
	for pos, idx := range order {
		input[pos] = byIndex[idx]
		if idx != pos {
			sorted = false
		}
	}
	if verifNondetBool() {
		// duplicate path
		_, err := newImage(append(input, byIndex[0]), true, nil)
		verifAssert(err != nil, "a duplicate file is rejected")
		verifCover("duplicate rejected")
		return
	}
	image, err := newImage(input, true, nil)
	verifAssert(err == nil, "files with distinct paths form an image")
	if err != nil {
		return
	}
	verifCover("reordered")
	got := image.Files()
	verifAssert(len(got) == n, "reordering neither drops nor adds files")
	position := make([]int, n)
	for i := range position {
		position[i] = -1
	}
	for pos, file := range got {
		for i := 0; i < n; i++ {
			if file.Path() == paths[i] {
				verifAssert(position[i] == -1, "no file appears twice after reordering")
				position[i] = pos
			}
		}
	}
	for i := 0; i < n; i++ {
		verifAssert(position[i] >= 0, "every input file is in the reordered image")
		for _, j := range deps[i] {
			verifAssert(position[j] >= 0 && position[j] < position[i], "after reordering imports precede their importers")
		}
		found := image.GetFile(paths[i])
		verifAssert(found != nil && found.Path() == paths[i], "GetFile finds every file")
	}
	if sorted {
		for i := 0; i < n; i++ {
			verifAssert(position[i] == i, "an input already in DAG order keeps its order")
		}
		verifCover("already ordered")
	}
}
