//go:build verif

package bufimage

// ---- C11-C: stripBufExtensionField vs. an independent reference wire-format scanner ----

// refGVarint decodes a base-128 varint at b[i:]. ok=false on truncation or overflow (more than 64 bits).
func refGVarint(b []byte, i int) (v uint64, next int, ok bool) {
	for k := 0; k < 10; k++ {
		if i+k >= len(b) {
			return 0, 0, false
		}
		c := b[i+k]
		if k == 9 && c > 1 {
			return 0, 0, false
		}
		v |= uint64(c&0x7f) << (7 * uint(k))
		if c < 0x80 {
			return v, i + k + 1, true
		}
	}
	return 0, 0, false
}

// refGTag decodes a tag; valid field numbers are 1..2^31-1.
func refGTag(b []byte, i int) (num uint64, wt uint64, next int, ok bool) {
	v, next, ok := refGVarint(b, i)
	if !ok {
		return 0, 0, 0, false
	}
	num = v >> 3
	if num < 1 || num > 0x7fffffff {
		return 0, 0, 0, false
	}
	return num, v & 7, next, true
}

// refGValue returns the offset one past the value of a field (num, wt) starting at b[i:].
func refGValue(b []byte, num uint64, wt uint64, i int) (next int, ok bool) {
	switch wt {
	case 0:
		_, next, ok = refGVarint(b, i)
		return next, ok
	case 1:
		if len(b)-i < 8 {
			return 0, false
		}
		return i + 8, true
	case 5:
		if len(b)-i < 4 {
			return 0, false
		}
		return i + 4, true
	case 2:
		m, j, ok := refGVarint(b, i)
		if !ok {
			return 0, false
		}
		if m > uint64(len(b)-j) {
			return 0, false
		}
		// m is bounded by the (concrete) remaining length: pick the concrete value.
		rest := len(b) - j
		for l := 0; l <= rest; l++ {
			if m == uint64(l) {
				return j + l, true
			}
		}
		return 0, false
	case 3:
		for {
			num2, wt2, j, ok := refGTag(b, i)
			if !ok {
				return 0, false
			}
			if wt2 == 4 {
				if num2 != num {
					return 0, false
				}
				return j, true
			}
			j, ok = refGValue(b, num2, wt2, j)
			if !ok {
				return 0, false
			}
			i = j
		}
	}
	return 0, false // end-group without start, reserved wire types 6, 7
}

// refGStrip: if b is a well-formed sequence of top-level fields, the concatenation of those whose number is
// not 8042 (wellFormed=true); otherwise b itself.
func refGStrip(b []byte) (out []byte, wellFormed bool, stripped int) {
	out = make([]byte, 0, len(b))
	i := 0
	for i < len(b) {
		num, wt, j, ok := refGTag(b, i)
		if !ok {
			return b, false, 0
		}
		end, ok := refGValue(b, num, wt, j)
		if !ok {
			return b, false, 0
		}
		if num != 8042 {
			out = append(out, b[i:end]...)
		} else {
			stripped++
		}
		i = end
	}
	return out, true, stripped
}

func vgBytesEqual(a, b []byte) bool {
	if len(a) != len(b) {
		return false
	}
	var d byte
	for i := range a {
		d |= a[i] ^ b[i]
	}
	return d == 0
}

// VerifLemma_C11C_StripBufExtension: for every byte string b of length 0..N,
// stripBufExtensionField(b) == refGStrip(b) byte for byte, the input is not modified, and stripping is idempotent.
func VerifLemma_C11C_StripBufExtension() {
	b := verifNondetBytes(verifParam("N"))
	orig := make([]byte, len(b))
	copy(orig, b)
	want, wellFormed, stripped := refGStrip(orig)
	got := stripBufExtensionField(b)
	verifCover("returned")
	verifAssert(vgBytesEqual(b, orig), "input bytes are not modified")
	if !wellFormed {
		verifCover("malformed input")
		verifAssert(vgBytesEqual(got, orig), "malformed unknown fields are returned unchanged")
		return
	}
	if stripped > 0 {
		verifCover("a top-level field 8042 was stripped")
		verifAssert(len(got) < len(orig), "stripping removes bytes")
	} else {
		verifCover("well-formed, nothing to strip")
	}
	verifAssert(vgBytesEqual(got, want), "output is exactly the fields whose number is not 8042, in order")
	again := stripBufExtensionField(got)
	verifAssert(vgBytesEqual(again, got), "stripping is idempotent")
}

// VerifLemma_C11C_StripAroundExtension: the directed companion of the lemma above for inputs longer than its
// byte bound: pre ++ field(8042, wire type, payload) ++ post, where pre and post are arbitrary byte strings.
// If pre and post are themselves well-formed field sequences, the result is pre ++ post.
func VerifLemma_C11C_StripAroundExtension() {
	pre := verifNondetBytes(verifParam("PRE"))
	post := verifNondetBytes(verifParam("POST"))
	// tag of field 8042 = varint(8042<<3 | wt) = {0xD0|wt, 0xF6, 0x03}
	var ext []byte
	switch verifNondetChoice(4) {
	case 0: // varint
		ext = []byte{0xD0, 0xF6, 0x03, verifNondetByte() & 0x7f}
	case 1: // bytes, length 0..2
		p := verifNondetBytes(2)
		ext = append([]byte{0xD2, 0xF6, 0x03, byte(len(p))}, p...)
	case 2: // fixed32
		ext = append([]byte{0xD5, 0xF6, 0x03}, verifNondetBytesN(4)...)
	case 3: // empty group
		ext = []byte{0xD3, 0xF6, 0x03, 0xD4, 0xF6, 0x03}
	}
	wantPre, preOK, _ := refGStrip(pre)
	verifAssume(preOK)
	wantPost, postOK, _ := refGStrip(post)
	verifAssume(postOK)
	in := append(append(append([]byte{}, pre...), ext...), post...)
	want := append(append([]byte{}, wantPre...), wantPost...)
	got := stripBufExtensionField(in)
	verifCover("stripped")
	verifAssert(vgBytesEqual(got, want), "extension removed, neighbours kept byte-identical")
}
