//go:build verif

package bufimage

import "google.golang.org/protobuf/reflect/protoreflect"

// ---- C11-E: findExtension (backs FindExtensionByNumber of the resolver used to re-parse custom options) ----

type vgIMessageDescriptor = protoreflect.MessageDescriptor
type vgIMessageDescriptors = protoreflect.MessageDescriptors
type vgIExtensionDescriptor = protoreflect.ExtensionDescriptor
type vgIExtensionDescriptors = protoreflect.ExtensionDescriptors

// vgMsgDesc is a stub message descriptor (also used as the file-level container): only the methods findExtension
// calls are implemented.
type vgMsgDesc struct {
	vgIMessageDescriptor
	fullName protoreflect.FullName
	messages []*vgMsgDesc
	exts     []*vgExtDesc
}

func (m *vgMsgDesc) FullName() protoreflect.FullName { return m.fullName }
func (m *vgMsgDesc) Messages() protoreflect.MessageDescriptors {
	return &vgMsgDescs{list: m.messages}
}
func (m *vgMsgDesc) Extensions() protoreflect.ExtensionDescriptors {
	return &vgExtDescs{list: m.exts}
}

type vgMsgDescs struct {
	vgIMessageDescriptors
	list []*vgMsgDesc
}

func (l *vgMsgDescs) Len() int                                 { return len(l.list) }
func (l *vgMsgDescs) Get(i int) protoreflect.MessageDescriptor { return l.list[i] }

type vgExtDesc struct {
	vgIExtensionDescriptor
	number   protoreflect.FieldNumber
	extendee *vgMsgDesc
	owner    int
}

func (e *vgExtDesc) Number() protoreflect.FieldNumber                  { return e.number }
func (e *vgExtDesc) ContainingMessage() protoreflect.MessageDescriptor { return e.extendee }

type vgExtDescs struct {
	vgIExtensionDescriptors
	list []*vgExtDesc
}

func (l *vgExtDescs) Len() int                                   { return len(l.list) }
func (l *vgExtDescs) Get(i int) protoreflect.ExtensionDescriptor { return l.list[i] }

// VerifLemma_C11E_FindExtension: a container tree of depth 3 (file -> M0{M00{M000}, M01}, M1) in which every node
// declares 0..EXT extensions, each with a nondet extendee (one of two messages) and a symbolic field number:
// findExtension(file, message, number) returns an extension of exactly that extendee and number iff one is declared
// anywhere in the tree - however deep, and whether or not the messages on the way declare extensions themselves.
func VerifLemma_C11E_FindExtension() {
	extendees := []*vgMsgDesc{{fullName: "p.A"}, {fullName: "p.B"}}
	m000 := &vgMsgDesc{fullName: "p.M0.M00.M000"}
	m00 := &vgMsgDesc{fullName: "p.M0.M00", messages: []*vgMsgDesc{m000}}
	m01 := &vgMsgDesc{fullName: "p.M0.M01"}
	m0 := &vgMsgDesc{fullName: "p.M0", messages: []*vgMsgDesc{m00, m01}}
	m1 := &vgMsgDesc{fullName: "p.M1"}
	file := &vgMsgDesc{messages: []*vgMsgDesc{m0, m1}}
	nodes := []*vgMsgDesc{file, m0, m00, m000, m01, m1}

	maxNumber := int32(verifParam("NUM"))
	var all []*vgExtDesc
	for i, node := range nodes {
		n := verifNondetChoice(verifParam("EXT") + 1)
		for k := 0; k < n; k++ {
			ext := &vgExtDesc{
				number:   protoreflect.FieldNumber(verifNondetInt32(1, maxNumber)),
				extendee: extendees[verifNondetChoice(2)],
				owner:    i,
			}
			node.exts = append(node.exts, ext)
			all = append(all, ext)
		}
	}
	wantMessage := extendees[verifNondetChoice(2)]
	wantNumber := protoreflect.FieldNumber(verifNondetInt32(1, maxNumber))
	verifCover("tree built")

	exists := false
	for _, ext := range all {
		if ext.extendee == wantMessage && ext.number == wantNumber {
			exists = true
			if ext.owner >= 2 {
				verifCover("declared two or more levels deep")
			}
		}
	}
	got := findExtension(file, wantMessage.fullName, wantNumber)
	if !exists {
		verifCover("not declared")
		verifAssert(got == nil, "no extension is invented")
		return
	}
	verifAssert(got != nil, "a declared extension is found wherever it is declared")
	if got == nil {
		return
	}
	verifAssert(got.Number() == wantNumber && got.ContainingMessage().FullName() == wantMessage.fullName,
		"the extension found has the requested extendee and number")
}
