//go:build verif

package bufconnect

import (
	"context"
	"errors"

	"connectrpc.com/connect"
	"github.com/bufbuild/buf/private/pkg/app"
	"github.com/bufbuild/buf/private/pkg/netrc"
)

// vProvider is a stub TokenProvider: a fixed (symbolic) token for every address; it records what it was asked.
type vProvider struct {
	token     string
	fromEnv   bool
	asked     int
	wrongAddr bool   // asked about an address other than the expected one
	expect    string // the address of the request under test
	envAsked  int
}

func (p *vProvider) RemoteToken(address string) string {
	p.asked++
	if address != p.expect {
		p.wrongAddr = true
	}
	return p.token
}

func (p *vProvider) IsFromEnvVar() bool {
	p.envAsked++
	return p.fromEnv
}

var vErrNext = errors.New("next failed")

type vEmptyMsg struct{}

// VerifLemma_C19B_FirstSourceWins: the authorization interceptor built for an address asks the providers in the
// configured order with exactly that address, stops at the first non-empty token, sends exactly
// "Bearer "+that token, sends no Authorization header when every provider is empty, and reports in AuthError
// whether a token was sent and whether it came from the environment variable.
func VerifLemma_C19B_FirstSourceWins() {
	n := verifNondetChoice(verifParam("PROVIDERS") + 1)
	addr := verifNondetString(verifParam("ADDR"))
	ps := make([]*vProvider, n)
	tps := make([]TokenProvider, n)
	for i := 0; i < n; i++ {
		ps[i] = &vProvider{token: verifNondetString(verifParam("TOKEN")), fromEnv: verifNondetBool(), expect: addr}
		tps[i] = ps[i]
	}
	nextFails := verifNondetBool()
	req := connect.NewRequest(&vEmptyMsg{})
	resp := connect.NewResponse(&vEmptyMsg{})
	nextCalls := 0
	var seenAtNext []string
	seenCount := -1
	next := connect.UnaryFunc(func(ctx context.Context, r connect.AnyRequest) (connect.AnyResponse, error) {
		nextCalls++
		seenAtNext = r.Header().Values(AuthenticationHeader)
		seenCount = len(r.Header())
		if nextFails {
			return nil, vErrNext
		}
		return resp, nil
	})
	got, err := NewAuthorizationInterceptorProvider(tps...)(addr)(next)(context.Background(), req)
	verifCover("intercepted")
	verifAssert(nextCalls >= 1, "the request is forwarded")
	// reference: first non-empty token
	first := -1
	for i := 0; i < n; i++ {
		if first < 0 && ps[i].token != "" {
			first = i
		}
	}
	// How often a provider is consulted, and whether later providers are consulted at all, is not part of the claim;
	// whenever one is consulted it is about this request's address and nothing else.
	for i := 0; i < n; i++ {
		verifAssert(!ps[i].wrongAddr, "a provider is only ever asked about the request's own address")
	}
	_ = seenCount
	if first < 0 {
		verifCover("no token")
		verifAssert(len(seenAtNext) == 0, "no token configured: no Authorization header")
	} else {
		verifCover("token sent")
		verifAssert(len(seenAtNext) == 1, "exactly one Authorization value")
		verifAssert(seenAtNext[0] == AuthenticationTokenPrefix+ps[first].token, "header is Bearer + first non-empty token")
	}
	if !nextFails {
		verifAssert(err == nil && got != nil, "success stays a success")
		return
	}
	authErr, ok := AsAuthError(err)
	verifAssert(ok, "a failure is wrapped in AuthError")
	verifAssert(errors.Is(err, vErrNext), "cause kept")
	verifAssert(authErr.Remote() == addr, "AuthError names the address")
	verifAssert(authErr.HasToken() == (first >= 0), "AuthError.HasToken iff a token was sent")
	wantKey := ""
	if first >= 0 && ps[first].fromEnv {
		wantKey = TokenEnvKey
	}
	verifAssert(authErr.TokenEnvKey() == wantKey, "AuthError.TokenEnvKey is BUF_TOKEN iff the winning provider is from the env var")
}

// VerifLemma_C19B_StaticProviders: the same interceptor over real providers parsed from two token strings
// (as bufcli builds them: BUF_TOKEN provider first): the header for address h is Bearer + the first provider's
// token for exactly h (or its single host-less token), else the second provider's, else absent.
func VerifLemma_C19B_StaticProviders() {
	s1 := verifNondetString(verifParam("N"))
	s2 := verifNondetString(verifParam("N"))
	addr := verifNondetString(verifParam("ADDR"))
	p1, err1 := newTokenProviderFromString(s1, true)
	p2, err2 := newTokenProviderFromString(s2, false)
	verifAssume(err1 == nil && err2 == nil)
	req := connect.NewRequest(&vEmptyMsg{})
	var seen []string
	next := connect.UnaryFunc(func(ctx context.Context, r connect.AnyRequest) (connect.AnyResponse, error) {
		seen = r.Header().Values(AuthenticationHeader)
		return nil, vErrNext
	})
	_, err := NewAuthorizationInterceptorProvider(p1, p2)(addr)(next)(context.Background(), req)
	verifCover("intercepted")
	want, fromEnv := vRefConfigured(s1, addr), true
	if want == "" {
		want, fromEnv = vRefConfigured(s2, addr), false
	}
	authErr, ok := AsAuthError(err)
	verifAssert(ok, "AuthError")
	if want == "" {
		verifCover("nothing for this host")
		verifAssert(len(seen) == 0, "no token configured for this host: nothing sent")
		verifAssert(!authErr.HasToken() && authErr.TokenEnvKey() == "", "AuthError: no token")
		return
	}
	verifCover("token for this host")
	verifAssert(len(seen) == 1 && seen[0] == "Bearer "+want, "only the token configured for this host is sent")
	verifAssert(authErr.HasToken(), "AuthError: token")
	verifAssert((authErr.TokenEnvKey() == TokenEnvKey) == fromEnv, "AuthError: env key iff BUF_TOKEN provider won")
}

// vRefConfigured: token that the (already accepted) string s configures for host: s itself if it has no '@'/',',
// else the tok of the entry "tok@host".
func vRefConfigured(s string, host string) string {
	if s == "" {
		return ""
	}
	if refCountByte(s, ',')+refCountByte(s, '@') == 0 {
		return s
	}
	return refLookup(s, host)
}

// ---- C19-C ----

type vMachine struct{ name, login, password string }

func (m *vMachine) Name() string     { return m.name }
func (m *vMachine) Login() string    { return m.login }
func (m *vMachine) Password() string { return m.password }

type vEnvContainer struct{ app.EnvContainer }

// VerifLemma_C19C_NetrcProvider: netrcTokenProvider.RemoteToken looks the machine up with exactly the given
// address and the provider's container, returns that machine's password, and "" when the lookup fails or finds
// nothing; it never claims to be from the environment variable.
func VerifLemma_C19C_NetrcProvider() {
	addr := verifNondetString(verifParam("ADDR"))
	password := verifNondetString(verifParam("TOKEN"))
	outcome := verifNondetChoice(4) // 0 machine, 1 nil machine, 2 error, 3 error together with a machine
	container := &vEnvContainer{}
	calls := 0
	otherName, otherContainer := false, false
	lookup := func(c app.EnvContainer, name string) (netrc.Machine, error) {
		calls++
		if name != addr {
			otherName = true
		}
		if c != app.EnvContainer(container) {
			otherContainer = true
		}
		switch outcome {
		case 0:
			return &vMachine{name: name, login: "l", password: password}, nil
		case 1:
			return nil, nil
		case 2:
			return nil, vErrNext
		}
		return &vMachine{name: name, login: "l", password: password}, vErrNext
	}
	p := NewNetrcTokenProvider(container, lookup)
	got := p.RemoteToken(addr)
	verifCover("looked up")
	_ = calls // the number of lookups is not part of the claim
	verifAssert(!otherName, "the .netrc is only ever asked about the request's own host, unchanged")
	verifAssert(!otherContainer, "the provider's own container (hence its .netrc) is used")
	if outcome == 0 {
		verifAssert(got == password, "the machine's password is the token")
	} else {
		verifAssert(got == "", "no machine or a lookup error gives no token")
	}
	verifAssert(!p.IsFromEnvVar(), "netrc provider is not from the env var")
}

// vHostProvider is a stub TokenProvider configured per host: tokenA for hostA, tokenB for hostB, nothing otherwise.
type vHostProvider struct {
	hostA, tokenA string
	hostB, tokenB string
	fromEnv       bool
	asked         []string
}

func (p *vHostProvider) RemoteToken(address string) string {
	p.asked = append(p.asked, address)
	if address == p.hostA {
		return p.tokenA
	}
	if address == p.hostB {
		return p.tokenB
	}
	return ""
}

func (p *vHostProvider) IsFromEnvVar() bool { return p.fromEnv }

// VerifLemma_C19B_TwoHosts: ONE provider value (as connectclient.Config holds it) hands out interceptors for two
// different addresses; requests are driven through them in every order (1,2 / 2,1 / 1,2,1, and both interceptors
// created up front or lazily). Every request must carry exactly the token configured for its own address - nothing
// resolved for one host may be remembered for another - and the providers are consulted afresh for each request.
func VerifLemma_C19B_TwoHosts() {
	n := verifParam("N")
	a1 := verifNondetStringN(verifNondetChoice(n) + 1)
	a2 := verifNondetStringN(verifNondetChoice(n) + 1)
	verifAssume(a1 != a2)
	t1 := verifNondetString(verifParam("TOKEN"))
	t2 := verifNondetString(verifParam("TOKEN"))
	// first source: host-keyed; second source: a real static provider for a single host-less token (or none)
	p1 := &vHostProvider{hostA: a1, tokenA: t1, hostB: a2, tokenB: t2, fromEnv: verifNondetBool()}
	fallback := verifNondetString(1)
	verifAssume(refCountByte(fallback, '@')+refCountByte(fallback, ',') == 0)
	p2, err := newTokenProviderFromString(fallback, false)
	verifAssume(err == nil)
	provider := NewAuthorizationInterceptorProvider(p1, p2)

	want := func(addr string) string {
		tok := ""
		if addr == a1 {
			tok = t1
		} else {
			tok = t2
		}
		if tok == "" {
			tok = fallback
		}
		return tok
	}
	var seen []string
	seenN := 0
	next := connect.UnaryFunc(func(ctx context.Context, r connect.AnyRequest) (connect.AnyResponse, error) {
		seen = r.Header().Values(AuthenticationHeader)
		seenN++
		return nil, vErrNext
	})
	eager := verifNondetBool()
	var i1, i2 connect.UnaryInterceptorFunc
	if eager {
		i1, i2 = provider(a1), provider(a2)
	}
	send := func(first bool) {
		addr, ic := a1, i1
		if !first {
			addr, ic = a2, i2
		}
		if !eager {
			ic = provider(addr)
		}
		seen = nil
		before := len(p1.asked)
		_, err := ic(next)(context.Background(), connect.NewRequest(&vEmptyMsg{}))
		w := want(addr)
		if w == "" {
			verifAssert(len(seen) == 0, "two hosts: no token for this host, nothing sent")
		} else {
			verifAssert(len(seen) == 1 && seen[0] == AuthenticationTokenPrefix+w, "two hosts: each request carries the token of its own address")
		}
		// whether and how often the provider is consulted per request is free; any consultation made while this
		// request is served is about this request's address
		for _, asked := range p1.asked[before:] {
			verifAssert(asked == addr, "two hosts: while a request is served the provider is only asked about that request's address")
		}
		authErr, ok := AsAuthError(err)
		verifAssert(ok && authErr.Remote() == addr && authErr.HasToken() == (w != ""), "two hosts: AuthError describes this request")
	}
	switch verifNondetChoice(3) {
	case 0:
		send(true)
		send(false)
	case 1:
		send(false)
		send(true)
	case 2:
		send(true)
		send(false)
		send(true)
	}
	verifCover("two hosts served")
	verifAssert(seenN >= 2, "all requests were forwarded")
}
