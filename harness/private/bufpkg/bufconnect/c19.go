//go:build verif

package bufconnect

// ---- reference parser of the documented grammar:  tok | tok@host(,tok@host)*  ----

func refCountByte(s string, c byte) int {
	n := 0
	for i := 0; i < len(s); i++ {
		if s[i] == c {
			n++
		}
	}
	return n
}

// refEntryOK: exactly one '@', both sides non-empty, token without ':' (',' cannot occur inside an entry).
func refEntryOK(e string) bool {
	if refCountByte(e, '@') != 1 {
		return false
	}
	at := 0
	for e[at] != '@' {
		at++
	}
	if at == 0 || at == len(e)-1 {
		return false
	}
	for i := 0; i < at; i++ {
		if e[i] == ':' {
			return false
		}
	}
	return true
}

func refHost(e string) string {
	at := 0
	for e[at] != '@' {
		at++
	}
	return e[at+1:]
}

func refToken(e string) string {
	at := 0
	for e[at] != '@' {
		at++
	}
	return e[:at]
}

// refValidMulti: every ','-separated entry is well-formed and no host repeats.
func refValidMulti(s string) bool {
	start := 0
	for i := 0; i <= len(s); i++ {
		if i == len(s) || s[i] == ',' {
			e := s[start:i]
			if !refEntryOK(e) {
				return false
			}
			// host must differ from all earlier hosts
			st2 := 0
			for j := 0; j < start; j++ {
				if s[j] == ',' {
					if refHost(s[st2:j]) == refHost(e) {
						return false
					}
					st2 = j + 1
				}
			}
			start = i + 1
		}
	}
	return true
}

// refLookup returns the token configured for host in a valid multi-token string, "" if none.
func refLookup(s string, host string) string {
	start := 0
	for i := 0; i <= len(s); i++ {
		if i == len(s) || s[i] == ',' {
			e := s[start:i]
			if refHost(e) == host {
				return refToken(e)
			}
			start = i + 1
		}
	}
	return ""
}

// VerifLemma_C19A_TokenString: newTokenProviderFromString agrees with the reference grammar on every
// string up to N bytes: malformed strings are rejected as a whole, and a token is only ever returned for
// the host it was configured for (or for every host when the string is a single host-less token).
func VerifLemma_C19A_TokenString() {
	s := verifNondetString(verifParam("N"))
	h := verifNondetString(verifParam("H"))
	fromEnv := verifNondetBool()
	p, err := newTokenProviderFromString(s, fromEnv)
	special := refCountByte(s, ',')+refCountByte(s, '@') > 0
	if s == "" {
		verifAssert(err == nil, "empty string is accepted")
		verifAssert(p.RemoteToken(h) == "", "empty string configures no token")
		verifAssert(!p.IsFromEnvVar(), "nop provider is never from env")
		return
	}
	if !special {
		verifCover("single")
		verifAssert(err == nil, "single token accepted")
		verifAssert(p.RemoteToken(h) == s, "single token returned verbatim")
		verifAssert(p.IsFromEnvVar() == fromEnv, "env flag carried (single)")
		return
	}
	valid := refValidMulti(s)
	verifAssert((err == nil) == valid, "accepted iff every entry is tok@host with distinct hosts")
	if err != nil {
		return
	}
	verifCover("multi")
	verifAssert(p.RemoteToken(h) == refLookup(s, h), "token returned only for its own host")
	verifAssert(p.IsFromEnvVar() == fromEnv, "env flag carried (multi)")
}
