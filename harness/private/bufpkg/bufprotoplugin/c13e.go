//go:build verif

package bufprotoplugin

import (
	"context"

	"github.com/bufbuild/buf/private/pkg/storage"
	"github.com/bufbuild/buf/private/pkg/storage/storagemem"
	"google.golang.org/protobuf/types/pluginpb"
)

// VerifLemma_C13E_PluginFileName: a plugin-chosen file name, however spelled, written by the real
// responseWriter.WriteResponse into the plugin's output directory (a Map view "out" of a real memory bucket that
// also holds a sentinel outside "out"): the write fails, or the file lands under "out/" and nothing else changes.
func VerifLemma_C13E_PluginFileName() {
	ctx := context.Background()
	root := storagemem.NewReadWriteBucket()
	verifAssume(storage.PutPath(ctx, root, "sentinel", []byte("S")) == nil)
	verifAssume(storage.PutPath(ctx, root, "other/sentinel", []byte("S")) == nil)
	out := storage.MapWriteBucket(root, storage.MapOnPrefix("out"))
	name := verifNondetString(verifParam("N"))
	content := "N"
	resp := &pluginpb.CodeGeneratorResponse{File: []*pluginpb.CodeGeneratorResponse_File{{Name: &name, Content: &content}}}
	err := newResponseWriter(nil).WriteResponse(ctx, out, resp)
	verifCover("written")
	paths, perr := storage.AllPaths(ctx, root, "")
	verifAssume(perr == nil)
	data, derr := storage.ReadPath(ctx, root, "sentinel")
	verifAssert(derr == nil && string(data) == "S", "the sentinel next to the output directory is intact")
	data2, derr2 := storage.ReadPath(ctx, root, "other/sentinel")
	verifAssert(derr2 == nil && string(data2) == "S", "the sentinel in a sibling directory is intact")
	plain := len(name) > 0
	for i := 0; i < len(name); i++ {
		if !(name[i] >= 'a' && name[i] <= 'z') {
			plain = false
		}
	}
	if plain {
		verifAssert(err == nil, "a plain generated file name is written")
	}
	if err == nil {
		verifCover("accepted")
		verifAssert(len(paths) == 3, "an accepted file name creates exactly one object")
	}
	// accepted or rejected: whatever exists besides the sentinels lies under the output directory
	for _, p := range paths {
		if p == "sentinel" || p == "other/sentinel" {
			continue
		}
		verifAssert(len(p) > 4 && p[:4] == "out/", "the generated file lands under the output directory")
		start := 0
		for i := 0; i <= len(p); i++ {
			if i == len(p) || p[i] == '/' {
				verifAssert(!(i-start == 2 && p[start] == '.' && p[start+1] == '.'), "the stored path has no .. component")
				start = i + 1
			}
		}
	}
}
