//go:build verif

package bufprotoplugin

import (
	"context"
	"io"
	"path/filepath"

	"github.com/bufbuild/buf/private/pkg/normalpath"
	"github.com/bufbuild/buf/private/pkg/storage"
	"github.com/bufbuild/buf/private/pkg/storage/storagemem"
	"google.golang.org/protobuf/types/pluginpb"
)

// ---- C17-C (grpI): plugin responses ----

const viMarkerName = "p"

func viMarker() string { return "@@protoc_insertion_point(" + viMarkerName + ")" }

func viRespFile(name string, insertionPoint string, content string) *pluginpb.CodeGeneratorResponse_File {
	f := &pluginpb.CodeGeneratorResponse_File{Name: &name, Content: &content}
	if insertionPoint != "" {
		f.InsertionPoint = &insertionPoint
	}
	return f
}

// VerifLemma_C17C_ValidatePluginResponses: ValidatePluginResponses returns an error iff two files that are not
// insertion points (of the same or of different plugins) join with their plugin's out directory to the same path.
func VerifLemma_C17C_ValidatePluginResponses() {
	outs := []string{"o", "o/a"}
	nPlugins := verifNondetChoice(verifParam("PLUGINS")) + 1
	var responses []*PluginResponse
	var joined []string
	var insertion []bool
	var owner []int
	allValid := true
	for p := 0; p < nPlugins; p++ {
		out := outs[verifNondetChoice(len(outs))]
		nFiles := verifNondetChoice(verifParam("FILES") + 1)
		response := &pluginpb.CodeGeneratorResponse{}
		for f := 0; f < nFiles; f++ {
			name := verifNondetString(verifParam("N"))
			ip := ""
			if verifNondetBool() {
				ip = viMarkerName
			}
			response.File = append(response.File, viRespFile(name, ip, ""))
			joined = append(joined, filepath.Join(out, name))
			insertion = append(insertion, ip != "")
			owner = append(owner, p)
			if norm, err := normalpath.NormalizeAndValidate(name); err != nil || norm == "." {
				allValid = false // a name no bucket accepts: rejecting it here already would be legitimate
			}
		}
		pluginName := "plugin-a"
		if p == 1 {
			pluginName = "plugin-b"
		}
		responses = append(responses, NewPluginResponse(response, pluginName, out))
	}
	crossPlugin, samePlugin := false, false
	for i := range joined {
		for j := i + 1; j < len(joined); j++ {
			if !insertion[i] && !insertion[j] && joined[i] == joined[j] {
				if owner[i] != owner[j] {
					crossPlugin = true
				} else {
					samePlugin = true
				}
			}
		}
	}
	err := ValidatePluginResponses(responses)
	verifCover("ValidatePluginResponses returned")
	// required (property: "the same output path produced by two plugins is an error"; doc: "each file is only defined
	// by a single *PluginResponse")
	if crossPlugin {
		verifAssert(err != nil, "ValidatePluginResponses: two plugins producing the same output path is an error")
	}
	// required the other way: valid names without any collision must pass. A collision inside one response and names
	// that no bucket accepts may or may not be rejected here (they are rejected today / later respectively).
	if !crossPlugin && !samePlugin && allValid {
		verifAssert(err == nil, "ValidatePluginResponses: distinct output paths pass")
	}
}

// ---- writeInsertionPoint ----

type viReader struct {
	data string
	pos  int
}

func (r *viReader) Read(p []byte) (int, error) {
	if r.pos >= len(r.data) {
		return 0, io.EOF
	}
	n := copy(p, r.data[r.pos:])
	r.pos += n
	return n, nil
}

// refILines splits like bufio.ScanLines: lines end at '\n', one trailing '\r' is dropped from each line, a final
// line without '\n' counts if it is non-empty.
func refILines(s string) []string {
	var lines []string
	start := 0
	for i := 0; i < len(s); i++ {
		if s[i] == '\n' {
			end := i
			if end > start && s[end-1] == '\r' {
				end--
			}
			lines = append(lines, s[start:end])
			start = i + 1
		}
	}
	if start < len(s) {
		end := len(s)
		if s[end-1] == '\r' {
			end--
		}
		lines = append(lines, s[start:end])
	}
	return lines
}

func refIContains(s, sub string) bool {
	for i := 0; i+len(sub) <= len(s); i++ {
		k := 0
		for k < len(sub) && s[i+k] == sub[k] {
			k++
		}
		if k == len(sub) {
			return true
		}
	}
	return false
}

// refILeadingSpace: the leading ASCII white space of a line (the harness keeps lines ASCII).
func refILeadingSpace(s string) string {
	i := 0
	for i < len(s) {
		c := s[i]
		if c == ' ' || c == '\t' || c == '\n' || c == '\v' || c == '\f' || c == '\r' {
			i++
		} else {
			break
		}
	}
	return s[:i]
}

// refIInsert: the documented effect: every target line that contains the marker gets the content lines, each
// indented like the marker line, inserted directly above it; all other lines are kept; lines are joined by '\n'.
func refIInsert(target, marker, content string) (string, bool) {
	out := ""
	found := false
	for i, line := range refILines(target) {
		if i > 0 {
			out += "\n"
		}
		if refIContains(line, marker) {
			found = true
			ws := refILeadingSpace(line)
			for _, cl := range refILines(content) {
				out += ws + cl + "\n"
			}
		}
		out += line
	}
	return out, found
}

// refISameLines: a and b are the same sequence of lines (bufio.ScanLines view: the line terminator style and a final
// newline are not compared - the property is about which lines the file has, and where the content is inserted).
func refISameLines(a, b string) bool {
	la, lb := refILines(a), refILines(b)
	if len(la) != len(lb) {
		return false
	}
	for i := range la {
		if la[i] != lb[i] {
			return false
		}
	}
	return true
}

func viASCII(s string) {
	for i := 0; i < len(s); i++ {
		c := s[i]
		verifAssume(c < 0x80)
	}
}

// viNondetTarget: PRE arbitrary ASCII bytes, then (optionally) the concrete marker, then POST arbitrary ASCII bytes.
func viNondetTarget() string {
	pre := verifNondetString(verifParam("PRE"))
	viASCII(pre)
	post := verifNondetString(verifParam("POST"))
	viASCII(post)
	if verifNondetBool() {
		return pre + viMarker() + post
	}
	return pre + post
}

// VerifLemma_C17C_WriteInsertionPoint: writeInsertionPoint against the reference: content inserted exactly above
// each marker line with that line's indentation, every other line kept, error iff no line has the marker.
func VerifLemma_C17C_WriteInsertionPoint() {
	target := viNondetTarget()
	content := verifNondetString(verifParam("CONTENT"))
	viASCII(content)
	// the requested insertion point: the marker's name or another one-letter name
	ipName := viMarkerName
	if verifNondetBool() {
		ipName = verifNondetStringN(1)
		viASCII(ipName)
	}
	file := viRespFile("x.go", ipName, content)
	got, err := writeInsertionPoint(context.Background(), file, &viReader{data: target})
	verifCover("writeInsertionPoint returned")
	want, found := refIInsert(target, "@@protoc_insertion_point("+ipName+")", content)
	verifAssert((err == nil) == found, "writeInsertionPoint fails iff no line of the target has the insertion point")
	if err == nil {
		verifAssert(refISameLines(string(got), want), "writeInsertionPoint inserts the content above each marker line and keeps every other line")
	}
}

// ---- WriteResponse over the in-memory bucket of one output directory ----

// viBucketPaths lists the bucket's paths.
func viBucketPaths(bucket storage.ReadBucket) []string {
	var paths []string
	_ = bucket.Walk(context.Background(), "", func(info storage.ObjectInfo) error {
		paths = append(paths, info.Path())
		return nil
	})
	return paths
}

// VerifLemma_C17C_WriteResponse: WriteResponse into the (initially empty) in-memory bucket of one run, the way
// bufprotopluginos drives it (the same bucket is the insertion-point read bucket): a generated file lands exactly at
// its validated, normalized name (or the write fails and nothing is stored); an insertion point succeeds only if
// its target was produced earlier in this run and carries the marker, and then only rewrites that file; otherwise
// WriteResponse fails and the stored files are unchanged. Without a read bucket an insertion point is an error.
func VerifLemma_C17C_WriteResponse() {
	ctx := context.Background()
	bucket := storagemem.NewReadWriteBucket()
	nameA := verifNondetString(verifParam("N"))
	contentA := viNondetTarget()
	normA, errA := normalpath.NormalizeAndValidate(nameA)
	validA := errA == nil && normA != "."

	// step 1: a generated file
	rw := newResponseWriter(nil)
	err := rw.WriteResponse(ctx, bucket, &pluginpb.CodeGeneratorResponse{File: []*pluginpb.CodeGeneratorResponse_File{viRespFile(nameA, "", contentA)}},
		WriteResponseWithInsertionPointReadBucket(bucket))
	paths := viBucketPaths(bucket)
	verifCover("generated file written")
	if !validA {
		verifAssert(err != nil, "a name that is not a valid relative path is rejected")
		verifAssert(len(paths) == 0, "a rejected name stores nothing")
		return
	}
	verifAssert(err == nil, "a valid relative name is written")
	verifAssert(len(paths) == 1 && paths[0] == normA, "the file is stored exactly at its normalized name")
	dataA, err := storage.ReadPath(ctx, bucket, normA)
	verifAssert(err == nil && string(dataA) == contentA, "the stored content is the generated content")

	// step 2: an insertion point from a later plugin into nameB
	nameB := verifNondetString(verifParam("N"))
	contentB := verifNondetString(verifParam("CONTENT"))
	viASCII(contentB)
	withReadBucket := verifNondetBool()
	var opts []WriteResponseOption
	if withReadBucket {
		opts = append(opts, WriteResponseWithInsertionPointReadBucket(bucket))
	}
	err = rw.WriteResponse(ctx, bucket, &pluginpb.CodeGeneratorResponse{File: []*pluginpb.CodeGeneratorResponse_File{viRespFile(nameB, viMarkerName, contentB)}}, opts...)
	verifCover("insertion point applied")
	normB, errB := normalpath.NormalizeAndValidate(nameB)
	want, found := refIInsert(contentA, viMarker(), contentB)
	shouldSucceed := withReadBucket && errB == nil && normB == normA && found
	verifAssert((err == nil) == shouldSucceed, "an insertion point succeeds iff its target was produced in this run and has the marker")
	paths = viBucketPaths(bucket)
	verifAssert(len(paths) == 1 && paths[0] == normA, "an insertion point creates no new file")
	if shouldSucceed {
		dataA, rerr := storage.ReadPath(ctx, bucket, normA)
		verifAssert(rerr == nil && refISameLines(string(dataA), want), "the target is rewritten with the content inserted above the marker line")
	}
	// what the staging bucket holds after a failed WriteResponse is not specified (generation aborts before anything is
	// flushed); only that no other path appears (asserted above)
}
