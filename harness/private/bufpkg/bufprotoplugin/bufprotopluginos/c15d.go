//go:build verif

package bufprotopluginos

import (
	"bytes"
	"context"
	"errors"
	"log/slog"

	"github.com/bufbuild/buf/private/pkg/storage"
	"github.com/bufbuild/buf/private/pkg/storage/storageos"
	"github.com/bufbuild/buf/private/pkg/thread"
	"google.golang.org/protobuf/types/pluginpb"
)

// ---- fault-injecting write bucket (copy of the C15-D stub; harness files cannot be shared across packages) ----
//
// Put, each Write and each Close are numbered in execution order; operation failAt (and failAt2) returns an error.
// Non-atomic Put publishes at Put/Write time; atomic Put publishes at a successful Close and is skipped after any
// failed Write (contract of storage.PutWithAtomic). A failing Write may be short (all but one byte transferred).

var vdErrInjected = errors.New("vd: injected write fault")

type vdFObj struct {
	path string
	data []byte
}

type vdFaultBucket struct {
	storage.ReadWriteBucket
	objs    []*vdFObj
	ops     int
	failAt  int
	failAt2 int
	short   bool
	faulted bool
	puts    int
	open    int // writers not yet closed
}

func (b *vdFaultBucket) find(path string) *vdFObj {
	for _, o := range b.objs {
		if o.path == path {
			return o
		}
	}
	return nil
}

func (b *vdFaultBucket) set(path string, data []byte) {
	if o := b.find(path); o != nil {
		o.data = data
		return
	}
	b.objs = append(b.objs, &vdFObj{path: path, data: data})
}

func (b *vdFaultBucket) step() error {
	b.ops++
	if b.ops == b.failAt || b.ops == b.failAt2 {
		b.faulted = true
		return vdErrInjected
	}
	return nil
}

type vdFWriter struct {
	b      *vdFaultBucket
	path   string
	atomic bool
	buf    []byte
	failed bool
	closed int
}

func (b *vdFaultBucket) Put(ctx context.Context, path string, opts ...storage.PutOption) (storage.WriteObjectCloser, error) {
	b.puts++
	if err := b.step(); err != nil {
		return nil, err
	}
	w := &vdFWriter{b: b, path: path, atomic: storage.NewPutOptions(opts).Atomic()}
	b.open++
	if !w.atomic {
		b.set(path, nil)
	}
	return w, nil
}

func (w *vdFWriter) Write(p []byte) (int, error) {
	if err := w.b.step(); err != nil {
		w.failed = true
		n := 0
		if w.b.short && len(p) > 0 {
			n = len(p) - 1
			w.buf = append(w.buf, p[:n]...)
			if !w.atomic {
				w.b.set(w.path, append([]byte(nil), w.buf...))
			}
		}
		return n, err
	}
	w.buf = append(w.buf, p...)
	if !w.atomic {
		w.b.set(w.path, append([]byte(nil), w.buf...))
	}
	return len(p), nil
}

func (w *vdFWriter) Close() error {
	w.closed++
	if w.closed == 1 {
		w.b.open--
	}
	if err := w.b.step(); err != nil {
		return err
	}
	if w.atomic {
		if w.failed {
			return vdErrInjected
		}
		w.b.set(w.path, append([]byte(nil), w.buf...))
	}
	return nil
}
func (w *vdFWriter) SetExternalPath(string) error { return nil }
func (w *vdFWriter) SetLocalPath(string) error    { return nil }

func (b *vdFaultBucket) SetExternalAndLocalPathsSupported() bool { return false }

// stub storageos.Provider: one fault bucket per output directory; records the order in which directories are opened
type vdProvider struct {
	storageos.Provider
	buckets   map[string]*vdFaultBucket
	failOpen  map[string]bool
	opened    []string
	anyFailed bool
}

func (p *vdProvider) NewReadWriteBucket(rootPath string, _ ...storageos.ReadWriteBucketOption) (storage.ReadWriteBucket, error) {
	p.opened = append(p.opened, rootPath)
	if p.failOpen[rootPath] {
		p.anyFailed = true
		return nil, vdErrInjected
	}
	b := p.buckets[rootPath]
	if b == nil {
		return nil, errors.New("vd: unknown output directory")
	}
	return b, nil
}

// VerifLemma_C15D_ResponseWriterFlush: 1..OUTS distinct output directories. The first directory receives 1..FILES
// generated files (symbolic contents) in one or two AddResponse calls, every further directory one file. AddResponse
// stages in memory and never touches the provider. Close flushes directory by directory (in the order the directories
// were first used) through storage.Copy into that directory's bucket; per directory the provider may fail or the k-th
// Put/Write/Close may fail (nondet subset of failing directories, any position).
//  (1) Close returns an error iff the flush of some directory it attempted failed - in particular a later successful
//      flush never hides an earlier failure;  (2) documented stop-at-first-error contract: directories before the first
//      failing one are completely written, directories after it are not attempted;  (3) Close()==nil implies every file
//      of every directory is in its bucket with its exact content;  (4) every writer is closed.
func VerifLemma_C15D_ResponseWriterFlush() {
	thread.SetParallelism(verifNondetChoice(2) + 1)
	outs := verifNondetChoice(verifParam("OUTS")) + 1
	dirs := []string{"/out/gen", "/out/other", "/third"}[:outs]
	names := []string{"a.pb.go", "sub/b.pb.go", "c.txt"}
	n0 := verifNondetChoice(verifParam("FILES")) + 1 // files of the first directory
	provider := &vdProvider{buckets: map[string]*vdFaultBucket{}, failOpen: map[string]bool{}}
	w := newResponseWriter(slog.Default(), provider)
	ctx := context.Background()
	type vdGen struct{ dir, name, content string }
	var gens []vdGen
	add := func(dir string, fileNames []string) {
		var files []*pluginpb.CodeGeneratorResponse_File
		for _, fileName := range fileNames {
			name, content := fileName, verifNondetString(verifParam("DATA"))
			gens = append(gens, vdGen{dir, name, content})
			files = append(files, &pluginpb.CodeGeneratorResponse_File{Name: &name, Content: &content})
		}
		err := w.AddResponse(ctx, &pluginpb.CodeGeneratorResponse{File: files}, dir)
		verifAssert(err == nil, "AddResponse of plain files succeeds")
	}
	// fault plan per directory: provider failure, or the k-th bucket operation (0 = none)
	filesIn := func(d int) int {
		if d == 0 {
			return n0
		}
		return 1
	}
	for d, dir := range dirs {
		b := &vdFaultBucket{failAt: verifNondetInt(0, 3*filesIn(d)), short: verifNondetBool()}
		if verifParam("DOUBLE") == 1 {
			b.failAt2 = verifNondetInt(0, 3*filesIn(d))
			verifAssume(b.failAt2 == 0 || b.failAt2 > b.failAt)
		}
		provider.buckets[dir] = b
		provider.failOpen[dir] = verifNondetBool()
	}
	split := n0
	if n0 > 1 && verifNondetBool() {
		split = 1 // two plugins writing into the same out directory
	}
	add(dirs[0], names[:split])
	for d := 1; d < outs; d++ {
		add(dirs[d], names[d:d+1])
	}
	if split < n0 {
		add(dirs[0], names[split:n0])
	}
	for _, dir := range dirs {
		// (opening a bucket early would be harmless; writing before every plugin succeeded is not)
		verifAssert(provider.buckets[dir].ops == 0 && len(provider.buckets[dir].objs) == 0, "AddResponse stages in memory: nothing is written to an output bucket before Close")
	}
	err := w.Close()
	verifCover("closed")
	// What C15 requires (and nothing more): a failing flush that Close attempted is reported, whatever its position;
	// a directory flushed without failure holds exactly its files; without failures everything is flushed. The ORDER in
	// which out directories are flushed and whether Close goes on after a failure are not specified (flushing every
	// location and joining the errors is as legitimate as stopping at the first failure); neither are how often a
	// directory is opened, whether writers are closed after a failure, or which error is returned.
	attempted := map[string]int{}
	for _, dir := range provider.opened {
		attempted[dir]++
	}
	anyAttemptedFailed := false
	for _, dir := range dirs {
		if attempted[dir] >= 1 && (provider.failOpen[dir] || provider.buckets[dir].faulted) {
			anyAttemptedFailed = true
		}
	}
	verifAssert((err != nil) == anyAttemptedFailed, "Close returns an error iff a flush it attempted failed (a later success never hides an earlier failure)")
	if anyAttemptedFailed {
		verifCover("some flush failed")
	} else {
		for _, dir := range dirs {
			verifAssert(attempted[dir] >= 1, "without a failure every directory is flushed")
		}
	}
	for _, dir := range dirs {
		if attempted[dir] == 0 || provider.failOpen[dir] || provider.buckets[dir].faulted {
			continue
		}
		// completely flushed directory
		for _, g := range gens {
			if g.dir == dir {
				o := provider.buckets[dir].find(g.name)
				verifAssert(o != nil && bytes.Equal(o.data, []byte(g.content)), "a directory flushed without failure holds every generated file with its exact content")
			}
		}
		verifAssert(provider.buckets[dir].open == 0, "every writer of a directory flushed without failure was closed")
	}
	if err == nil {
		verifCover("flushed")
	}
}
