//go:build verif

package bufprotopluginos

import (
	"bytes"
	"context"
	"errors"
	"log/slog"

	"github.com/bufbuild/buf/private/pkg/storage"
	"github.com/bufbuild/buf/private/pkg/storage/storageos"
	"github.com/bufbuild/buf/private/pkg/thread"
	"google.golang.org/protobuf/types/pluginpb"
)

// ---- fault-injecting write bucket (copy of the C15-D stub; harness files cannot be shared across packages) ----
//
// Put, each Write and each Close are numbered in execution order; operation failAt (and failAt2) returns an error.
// Non-atomic Put publishes at Put/Write time; atomic Put publishes at a successful Close and is skipped after any
// failed Write (contract of storage.PutWithAtomic). A failing Write may be short (all but one byte transferred).

var vdErrInjected = errors.New("vd: injected write fault")

type vdFObj struct {
	path string
	data []byte
}

type vdFaultBucket struct {
	storage.ReadWriteBucket
	objs    []*vdFObj
	ops     int
	failAt  int
	failAt2 int
	short   bool
	faulted bool
	puts    int
	open    int // writers not yet closed
}

func (b *vdFaultBucket) find(path string) *vdFObj {
	for _, o := range b.objs {
		if o.path == path {
			return o
		}
	}
	return nil
}

func (b *vdFaultBucket) set(path string, data []byte) {
	if o := b.find(path); o != nil {
		o.data = data
		return
	}
	b.objs = append(b.objs, &vdFObj{path: path, data: data})
}

func (b *vdFaultBucket) step() error {
	b.ops++
	if b.ops == b.failAt || b.ops == b.failAt2 {
		b.faulted = true
		return vdErrInjected
	}
	return nil
}

type vdFWriter struct {
	b      *vdFaultBucket
	path   string
	atomic bool
	buf    []byte
	failed bool
	closed int
}

func (b *vdFaultBucket) Put(ctx context.Context, path string, opts ...storage.PutOption) (storage.WriteObjectCloser, error) {
	b.puts++
	if err := b.step(); err != nil {
		return nil, err
	}
	w := &vdFWriter{b: b, path: path, atomic: storage.NewPutOptions(opts).Atomic()}
	b.open++
	if !w.atomic {
		b.set(path, nil)
	}
	return w, nil
}

func (w *vdFWriter) Write(p []byte) (int, error) {
	if err := w.b.step(); err != nil {
		w.failed = true
		n := 0
		if w.b.short && len(p) > 0 {
			n = len(p) - 1
			w.buf = append(w.buf, p[:n]...)
			if !w.atomic {
				w.b.set(w.path, append([]byte(nil), w.buf...))
			}
		}
		return n, err
	}
	w.buf = append(w.buf, p...)
	if !w.atomic {
		w.b.set(w.path, append([]byte(nil), w.buf...))
	}
	return len(p), nil
}

func (w *vdFWriter) Close() error {
	w.closed++
	if w.closed == 1 {
		w.b.open--
	}
	if err := w.b.step(); err != nil {
		return err
	}
	if w.atomic {
		if w.failed {
			return vdErrInjected
		}
		w.b.set(w.path, append([]byte(nil), w.buf...))
	}
	return nil
}
func (w *vdFWriter) SetExternalPath(string) error { return nil }
func (w *vdFWriter) SetLocalPath(string) error    { return nil }

func (b *vdFaultBucket) SetExternalAndLocalPathsSupported() bool { return false }

// stub storageos.Provider: hands out the fault bucket for the output directory and records when it is asked
type vdProvider struct {
	storageos.Provider
	bucket   *vdFaultBucket
	calls    int
	rootPath string
	fail     bool
}

func (p *vdProvider) NewReadWriteBucket(rootPath string, _ ...storageos.ReadWriteBucketOption) (storage.ReadWriteBucket, error) {
	p.calls++
	p.rootPath = rootPath
	if p.fail {
		p.bucket.faulted = true
		return nil, vdErrInjected
	}
	return p.bucket, nil
}

// VerifLemma_C15D_ResponseWriterFlush: plugin responses (1..FILES generated files with symbolic contents, delivered in
// one or two AddResponse calls for the same output directory) are staged in memory: AddResponse never touches the disk
// bucket provider. Close flushes through storage.Copy into the provider's bucket, whose k-th (l-th) Put/Write/Close fails
// (or the provider itself fails): (1) a failure seen by the code makes Close return an error; (2) Close()==nil
// implies every generated file is in the output bucket with its exact content; (3) every writer is closed.
func VerifLemma_C15D_ResponseWriterFlush() {
	thread.SetParallelism(verifNondetChoice(2) + 1)
	names := []string{"a.pb.go", "sub/b.pb.go", "c.txt"}
	n := verifNondetChoice(verifParam("FILES")) + 1
	contents := make([]string, n)
	var files []*pluginpb.CodeGeneratorResponse_File
	for i := 0; i < n; i++ {
		name, content := names[i], verifNondetString(verifParam("DATA"))
		contents[i] = content
		files = append(files, &pluginpb.CodeGeneratorResponse_File{Name: &name, Content: &content})
	}
	split := n
	if n > 1 && verifNondetBool() {
		split = 1 // two plugins writing into the same out directory
	}
	dst := &vdFaultBucket{failAt: verifNondetInt(0, 3*n), short: verifNondetBool()}
	if verifParam("DOUBLE") == 1 {
		dst.failAt2 = verifNondetInt(0, 3*n)
		verifAssume(dst.failAt2 == 0 || dst.failAt2 > dst.failAt)
	}
	provider := &vdProvider{bucket: dst, fail: verifNondetBool()}
	w := newResponseWriter(slog.Default(), provider)
	ctx := context.Background()
	err := w.AddResponse(ctx, &pluginpb.CodeGeneratorResponse{File: files[:split]}, "/out/gen")
	verifAssert(err == nil, "AddResponse of plain files succeeds")
	if split < n {
		err = w.AddResponse(ctx, &pluginpb.CodeGeneratorResponse{File: files[split:]}, "/out/gen")
		verifAssert(err == nil, "second AddResponse into the same directory succeeds")
	}
	verifAssert(provider.calls == 0 && dst.ops == 0, "AddResponse stages in memory and touches no disk bucket")
	err = w.Close()
	verifCover("closed")
	verifAssert(provider.calls == 1 && provider.rootPath == "/out/gen", "Close opens the output directory bucket once")
	verifAssert(!dst.faulted || err != nil, "Close: an injected flush failure seen by the code is reported")
	verifAssert(dst.open == 0, "Close: every opened writer is closed")
	if err == nil {
		verifCover("flushed")
		verifAssert(len(dst.objs) == n, "Close()==nil implies every generated file was written")
		for i := 0; i < n; i++ {
			o := dst.find(names[i])
			verifAssert(o != nil && bytes.Equal(o.data, []byte(contents[i])), "Close()==nil implies each file has its exact content")
		}
	}
}
