//go:build verif

package bufprotopluginos

import (
	"archive/zip"
	"context"
	"io"
	"io/fs"
	"log/slog"
	"os"
	"time"

	"github.com/bufbuild/buf/private/pkg/storage"
	"github.com/bufbuild/buf/private/pkg/storage/storagemem"
	"github.com/bufbuild/buf/private/pkg/storage/storageos"
	"github.com/bufbuild/buf/private/pkg/thread"
	"google.golang.org/protobuf/types/pluginpb"
)

// ===================================================================================================
// C17-C.out-isolation (grpI; identifiers prefixed vi): plugin output stays in ITS output location.
//
// Under the engine the os.* calls of response_writer.go (Stat, MkdirAll, Create, (*os.File).Close) are delegated to
// the verifOS* functions below (engine/intercepts_osfs.go): a minimal abstract file system that knows which
// directories exist and records which archive files are created. storagearchive.Zip is delegated to verifArchiveZip
// (engine/intercepts_plugin.go), which records the content of the bucket handed to the zip writer together with the
// file it is written to - the cut is in front of archive/zip. The directory flush runs the real storage.Copy into an
// in-memory bucket handed out by a stub storageos.Provider that records the root path.
// Natively (replay) everything runs on a real temporary directory: archives are really zipped and read back with
// archive/zip; directory outs still go to the stub provider's in-memory buckets.
// ===================================================================================================

type viZipRecord struct {
	file  string
	paths []string
	datas []string
}

type viFS struct {
	dirs    map[string]bool
	files   map[*os.File]string
	created []string
	mkdirs  []string
	zips    []viZipRecord
}

var viFSState *viFS

type viFileInfo struct {
	name string
	dir  bool
}

func (i viFileInfo) Name() string { return i.name }
func (i viFileInfo) Size() int64  { return 0 }
func (i viFileInfo) Mode() fs.FileMode {
	if i.dir {
		return fs.ModeDir | 0755
	}
	return 0644
}
func (i viFileInfo) ModTime() time.Time { return time.Time{} }
func (i viFileInfo) IsDir() bool        { return i.dir }
func (i viFileInfo) Sys() any           { return nil }

func viDirOf(p string) string {
	for i := len(p) - 1; i > 0; i-- {
		if p[i] == '/' {
			return p[:i]
		}
	}
	return "/"
}

func verifOSLstat(name string) (os.FileInfo, error) {
	if viFSState.dirs[name] {
		return viFileInfo{name: name, dir: true}, nil
	}
	return nil, &fs.PathError{Op: "stat", Path: name, Err: fs.ErrNotExist}
}

func verifOSMkdirAll(path string, perm os.FileMode) error {
	viFSState.mkdirs = append(viFSState.mkdirs, path)
	for p := path; p != "/" && p != "" && p != "."; p = viDirOf(p) {
		viFSState.dirs[p] = true
	}
	return nil
}

func verifOSCreate(name string) (*os.File, error) {
	if !viFSState.dirs[viDirOf(name)] {
		return nil, &fs.PathError{Op: "open", Path: name, Err: fs.ErrNotExist}
	}
	file := new(os.File)
	viFSState.files[file] = name
	viFSState.created = append(viFSState.created, name)
	return file, nil
}

func verifOSFileClose(file *os.File) error { return nil }

// verifArchiveZip stands for storagearchive.Zip: it records what is handed to the zip writer.
func verifArchiveZip(ctx context.Context, readBucket storage.ReadBucket, writer io.Writer, compressed bool) error {
	file, _ := writer.(*os.File)
	paths, datas := viBucketContents(readBucket)
	viFSState.zips = append(viFSState.zips, viZipRecord{file: viFSState.files[file], paths: paths, datas: datas})
	return nil
}

func viBucketContents(bucket storage.ReadBucket) ([]string, []string) {
	ctx := context.Background()
	var paths, datas []string
	_ = bucket.Walk(ctx, "", func(info storage.ObjectInfo) error {
		paths = append(paths, info.Path())
		return nil
	})
	for _, p := range paths {
		data, err := storage.ReadPath(ctx, bucket, p)
		if err != nil {
			verifAssert(false, "a walked object is readable")
		}
		datas = append(datas, string(data))
	}
	return paths, datas
}

// stub storageos.Provider: an in-memory bucket per root path, roots recorded in the order they are opened
type viProvider struct {
	storageos.Provider
	opened  []string
	buckets []storage.ReadWriteBucket
}

func (p *viProvider) NewReadWriteBucket(rootPath string, _ ...storageos.ReadWriteBucketOption) (storage.ReadWriteBucket, error) {
	b := storagemem.NewReadWriteBucket()
	p.opened = append(p.opened, rootPath)
	p.buckets = append(p.buckets, b)
	return b, nil
}

type viExpFile struct{ name, content string }

type viExpOut struct {
	out     string
	archive bool
	files   []viExpFile
}

// viCheckContents: the (path, content) lists hold exactly the expected files.
func viCheckContents(paths, datas []string, exp *viExpOut, label string) {
	verifAssert(len(paths) == len(exp.files), label+": holds exactly as many files as its own plugins produced")
	for _, e := range exp.files {
		found := false
		for i, p := range paths {
			if p == e.name {
				found = true
				verifAssert(datas[i] == e.content, label+": a file has the content its own plugin produced")
			}
		}
		verifAssert(found, label+": holds every file of its own plugins")
	}
}

func viIsArchive(out string) bool {
	n := len(out)
	return n > 4 && (out[n-4:] == ".jar" || out[n-4:] == ".zip")
}

// VerifLemma_C17C_OutIsolation: 1..PLUGINS plugins, each with an out from the pool {gen, gen/a.jar, gen/b.jar, gen/sub,
// gen/c.zip} (equal or different) and one generated file with a symbolic name and content. After AddResponse for
// every plugin and Close, every out location (archive file / directory root) holds exactly the files of the plugins
// whose out it is (plus the manifest for .jar), nothing is opened before Close, and nothing else is created.
func VerifLemma_C17C_OutIsolation() {
	ctx := context.Background()
	thread.SetParallelism(1)
	inEngine := verifInEngine()
	genExists := verifNondetBool()
	create := verifNondetBool()
	base := "/out"
	if inEngine {
		viFSState = &viFS{dirs: map[string]bool{"/": true, "/out": true}, files: map[*os.File]string{}}
		if genExists {
			viFSState.dirs["/out/gen"] = true
		}
	} else {
		tmp, err := os.MkdirTemp("", "verif-c17-")
		if err != nil {
			verifAssume(false)
		}
		defer os.RemoveAll(tmp)
		base = tmp
		if genExists {
			if err := os.Mkdir(base+"/gen", 0755); err != nil {
				verifAssume(false)
			}
		}
	}
	pool := []string{base + "/gen", base + "/gen/a.jar", base + "/gen/b.jar", base + "/gen/sub", base + "/gen/c.zip"}
	pool = pool[:verifParam("POOL")]
	provider := &viProvider{}
	var options []ResponseWriterOption
	if create {
		options = append(options, ResponseWriterWithCreateOutDirIfNotExists())
	}
	w := newResponseWriter(slog.Default(), provider, options...)

	n := verifNondetChoice(verifParam("PLUGINS")) + 1
	var exps []*viExpOut
	for p := 0; p < n; p++ {
		out := pool[verifNondetChoice(len(pool))]
		name := verifNondetString(verifParam("N"))
		verifAssume(len(name) > 0)
		for i := 0; i < len(name); i++ {
			c := name[i]
			verifAssume(c >= 'a' && c <= 'z')
		}
		content := string(rune('0'+p)) + ":" + verifNondetString(verifParam("DATA"))
		archive := viIsArchive(out)
		err := w.AddResponse(ctx, &pluginpb.CodeGeneratorResponse{File: []*pluginpb.CodeGeneratorResponse_File{{Name: &name, Content: &content}}}, out)
		var exp *viExpOut
		for _, e := range exps {
			if e.out == out {
				exp = e
			}
		}
		if archive && exp == nil && !genExists && !create {
			// an error - whether AddResponse or the flush reports it is not specified
			if err == nil {
				err = w.Close()
			}
			verifAssert(err != nil, "an archive out in a missing directory is an error unless directories are to be created")
			verifCover("archive out in a missing directory rejected")
			return
		}
		if verifKnown("F17-archive-out-dir-created-but-error", archive && exp == nil && !genExists && create) {
			return
		}
		verifAssert(err == nil, "AddResponse of a plain file succeeds (a missing directory of an archive out is created when requested)")
		if archive && exp == nil {
			genExists = true // it exists now (it did, or it was created)
		}
		if exp == nil {
			exp = &viExpOut{out: out, archive: archive}
			if len(out) > 4 && out[len(out)-4:] == ".jar" {
				exp.files = append(exp.files, viExpFile{name: manifestPath, content: string(manifestContent)})
			}
			exps = append(exps, exp)
		}
		replaced := false
		for i := range exp.files {
			if exp.files[i].name == name {
				exp.files[i].content = content // a later plugin with the same out overwrites
				replaced = true
			}
		}
		if !replaced {
			exp.files = append(exp.files, viExpFile{name: name, content: content})
		}
	}
	verifCover("responses staged")

	// "cached in-memory ... flushed by closing" (bufgen.Generate): nothing is opened before Close. How the staged
	// responses are kept (w.readWriteBuckets, w.closers) is an implementation detail and not asserted.
	verifAssert(len(provider.opened) == 0, "staging opens no output directory")

	// ---- flush: every out location receives exactly the files of its own plugins; nothing else is created ----
	// (no order of the flushes and no number of flush attempts is asserted; no failure is injected here)
	err := w.Close()
	verifAssert(err == nil, "Close succeeds")
	verifCover("flushed")
	for _, exp := range exps {
		if exp.archive {
			if inEngine {
				hits := 0
				for _, z := range viFSState.zips {
					if z.file == exp.out {
						hits++
						viCheckContents(z.paths, z.datas, exp, "archive")
					}
				}
				verifAssert(hits >= 1, "every archive out is written, to its own file")
			} else {
				paths, datas, ok := viReadArchiveNative(exp.out)
				verifAssert(ok, "every archive out is written, to its own file")
				viCheckContents(paths, datas, exp, "archive")
			}
		} else {
			hits := 0
			for i, root := range provider.opened {
				if root == exp.out {
					hits++
					paths, datas := viBucketContents(provider.buckets[i])
					viCheckContents(paths, datas, exp, "directory")
				}
			}
			verifAssert(hits >= 1, "every directory out is flushed, to its own root")
		}
	}
	isOut := func(location string, archive bool) bool {
		for _, exp := range exps {
			if exp.out == location && exp.archive == archive {
				return true
			}
		}
		return false
	}
	for _, root := range provider.opened {
		verifAssert(isOut(root, false), "no directory other than the configured outs is opened")
	}
	if inEngine {
		for _, name := range viFSState.created {
			verifAssert(isOut(name, true), "no file other than the configured archive outs is created")
		}
		for _, z := range viFSState.zips {
			verifAssert(isOut(z.file, true), "no file other than the configured archive outs is created")
		}
	} else {
		entries, err := os.ReadDir(base + "/gen")
		if err == nil {
			for _, entry := range entries {
				if !entry.IsDir() {
					verifAssert(isOut(base+"/gen/"+entry.Name(), true), "no file other than the configured archive outs is created")
				}
			}
		}
	}
}

// viReadArchiveNative reads a zip archive back from the real file system (native replay only; never interpreted).
func viReadArchiveNative(path string) ([]string, []string, bool) {
	reader, err := zip.OpenReader(path)
	if err != nil {
		return nil, nil, false
	}
	defer reader.Close()
	var paths, datas []string
	for _, file := range reader.File {
		rc, err := file.Open()
		if err != nil {
			return nil, nil, false
		}
		data, err := io.ReadAll(rc)
		rc.Close()
		if err != nil {
			return nil, nil, false
		}
		paths = append(paths, file.Name)
		datas = append(datas, string(data))
	}
	return paths, datas, true
}
