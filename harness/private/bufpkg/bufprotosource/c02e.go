//go:build verif

package bufprotosource

import (
	"context"

	"github.com/bufbuild/buf/private/pkg/thread"
	"google.golang.org/protobuf/proto"
	"google.golang.org/protobuf/types/descriptorpb"
)

// ---- C02-E: NewFiles keeps the input order on the chunked, concurrent path ----

type veIFileInfo = FileInfo

type veInputFile struct {
	veIFileInfo
	fd *descriptorpb.FileDescriptorProto
}

func (f *veInputFile) Path() string                                            { return f.fd.GetName() }
func (f *veInputFile) ExternalPath() string                                    { return f.fd.GetName() }
func (f *veInputFile) IsImport() bool                                          { return false }
func (f *veInputFile) FileDescriptorProto() *descriptorpb.FileDescriptorProto { return f.fd }
func (f *veInputFile) IsSyntaxUnspecified() bool                               { return false }
func (f *veInputFile) UnusedDependencyIndexes() []int32                        { return nil }

// VerifLemma_C02E_NewFilesOrder: NewFiles on 8*P..8*P+EXTRA input files with parallelism P (so the chunked path with
// P or P+1 concurrent jobs is taken), under every completion order of the jobs: the i-th returned File is the i-th
// input file. The File list is what every lint / breaking handler iterates, so its order is the order of annotations
// before sorting and of every "first one wins" decision.
func VerifLemma_C02E_NewFilesOrder() {
	p := verifNondetChoice(verifParam("PAR")-1) + 2 // 2..PAR
	n := 8*p + verifNondetChoice(verifParam("EXTRA")+1)
	thread.SetParallelism(p)
	names := []string{"a", "b", "c", "d", "e", "f", "g", "h", "i", "j", "k", "l", "m", "n", "o", "p", "q", "r", "s", "t", "u", "v", "w", "x", "y", "z", "A", "B", "C", "D", "E", "F", "G", "H", "I", "J"}
	inputs := make([]*veInputFile, n)
	for i := range inputs {
		inputs[i] = &veInputFile{fd: &descriptorpb.FileDescriptorProto{
			Name:   proto.String(names[i%len(names)] + names[(i/len(names))%len(names)] + ".proto"),
			Syntax: proto.String("proto3"),
		}}
	}
	files, err := newFiles(context.Background(), inputs, nil)
	verifCover("converted")
	verifAssert(err == nil, "plain files convert")
	if err != nil {
		return
	}
	verifAssert(len(files) == n, "one File per input file")
	for i := 0; i < len(files) && i < n; i++ {
		verifAssert(files[i].Path() == inputs[i].Path(), "NewFiles returns the files in input order whatever the completion order of the chunks")
	}
}
