//go:build verif

package bufprotosource

import (
	"google.golang.org/protobuf/proto"
	"google.golang.org/protobuf/types/descriptorpb"
)

// ---- C05-E (location keys): an annotation is located at the element it names ----

func veNondetPath(maxLen int) []int32 {
	n := verifNondetChoice(maxLen + 1)
	p := make([]int32, n)
	for i := range p {
		// descriptor source paths hold field numbers and element indexes: any non-negative int32
		p[i] = verifNondetInt32(0, 2147483647)
	}
	return p
}

func veSamePath(a, b []int32) bool {
	if len(a) != len(b) {
		return false
	}
	for i := range a {
		if a[i] != b[i] {
			return false
		}
	}
	return true
}

// VerifLemma_C05E_PathKeyInjective: the location store's key is injective on source paths - for all paths p, q of
// 0..N elements over the full non-negative int32 range, getPathKey(p) == getPathKey(q) iff p == q; and a store built
// from two locations with distinct paths returns, for each path, the span of that very location (never the span of a
// sibling with a colliding key - the line/column every lint and breaking annotation is printed with).
func VerifLemma_C05E_PathKeyInjective() {
	n := verifParam("N")
	p, q := veNondetPath(n), veNondetPath(n)
	same := veSamePath(p, q)
	verifCover("paths chosen")
	verifAssert((getPathKey(p) == getPathKey(q)) == same, "location keys of two source paths are equal iff the paths are equal")
	if same {
		return
	}
	fd := &descriptorpb.FileDescriptorProto{
		Name: proto.String("a.proto"),
		SourceCodeInfo: &descriptorpb.SourceCodeInfo{Location: []*descriptorpb.SourceCodeInfo_Location{
			{Path: p, Span: []int32{10, 1, 5}},
			{Path: q, Span: []int32{20, 2, 6}},
		}},
	}
	store := newLocationStore(fd)
	lp, lq := store.getLocation(p), store.getLocation(q)
	verifAssert(lp != nil && lq != nil, "both locations are found")
	if lp != nil && lq != nil {
		verifAssert(lp.StartLine() == 11 && lq.StartLine() == 21, "each path resolves to its own location's line")
	}
}
