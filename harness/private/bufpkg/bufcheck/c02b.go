//go:build verif

package bufcheck

import (
	"buf.build/go/bufplugin/check"
)

// ---- stub check.Rule / check.Category (grpH, C02-B); wrapped by the real newRule / newCategory ----

type vhCategory struct {
	check.Category
	id string
}

func (c *vhCategory) ID() string               { return c.id }
func (c *vhCategory) Deprecated() bool         { return false }
func (c *vhCategory) ReplacementIDs() []string { return nil }

type vhRule struct {
	check.Rule
	id           string
	cats         []check.Category
	isDefault    bool
	deprecated   bool
	replacements []string
}

func (r *vhRule) ID() string                   { return r.id }
func (r *vhRule) Categories() []check.Category { return r.cats }
func (r *vhRule) Default() bool                { return r.isDefault }
func (r *vhRule) Type() check.RuleType         { return check.RuleTypeLint }
func (r *vhRule) Deprecated() bool             { return r.deprecated }
func (r *vhRule) ReplacementIDs() []string     { return r.replacements }

func vhContains(xs []string, s string) bool {
	for _, x := range xs {
		if x == s {
			return true
		}
	}
	return false
}

// vhInsertSorted keeps xs sorted and duplicate-free.
func vhInsertSorted(xs []string, s string) []string {
	if vhContains(xs, s) {
		return xs
	}
	out := make([]string, 0, len(xs)+1)
	placed := false
	for _, x := range xs {
		if !placed && s < x {
			out = append(out, s)
			placed = true
		}
		out = append(out, x)
	}
	if !placed {
		out = append(out, s)
	}
	return out
}

// VerifLemma_C02B_RulesConfig: newRulesConfig under every iteration order of every map it ranges over (<= 4
// entries): RuleIDs is exactly the sorted, duplicate-free reference selection
//   undeprecate(expand(use or defaults)) \ undeprecate(expand(except)),
// the unused-plugin lists are sorted, and the error outcome does not depend on the order.
func VerifLemma_C02B_RulesConfig() {
	// A small fixed world (the explored dimension is the iteration order of every map, not the configuration):
	// R0 {CA} default builtin; R1 {CA,CB} default plugin "plug"; R2 {CB} non-default plugin "plug" (RULES=3 only).
	nRules := verifParam("RULES")
	catIDs := []string{"CA", "CB"}
	cats := []check.Category{&vhCategory{id: "CA"}, &vhCategory{id: "CB"}}
	ruleIDs := []string{"R0", "R1", "R2"}[:nRules]
	stubs := []*vhRule{
		{id: "R0", isDefault: true, cats: []check.Category{cats[0]}},
		{id: "R1", isDefault: true, cats: []check.Category{cats[0], cats[1]}},
		{id: "R2", isDefault: false, cats: []check.Category{cats[1]}},
	}[:nRules]
	plugins := []string{"", "plug", "plug"}[:nRules]
	var allRules []Rule
	for i := 0; i < nRules; i++ {
		allRules = append(allRules, newRule(stubs[i], plugins[i]))
	}
	// the last rule may be deprecated in favour of the first one
	if verifNondetBool() {
		stubs[nRules-1].deprecated = true
		stubs[nRules-1].replacements = []string{"R0"}
	}
	allCategories := []Category{newCategory(cats[0], ""), newCategory(cats[1], "")}
	pool := append(append([]string{}, ruleIDs...), catIDs...)
	uses := [][]string{nil, {"CA"}, {"R1", "CB"}, {"CB", "R0", "CA"}}
	excepts := [][]string{nil, {"R0"}, {"CB"}}
	use := uses[verifNondetChoice(verifParam("USE"))]
	except := excepts[verifNondetChoice(verifParam("EXCEPT"))]
	ignore := map[string][]string{}
	switch verifNondetChoice(verifParam("IGNORE")) {
	case 1:
		ignore["CA"] = []string{"a"}
	case 2:
		ignore["CB"] = []string{"a"}
		ignore["R0"] = []string{"b"}
	}

	cfg, err := newRulesConfig(use, except, []string{"z", "y"}, ignore, allRules, allCategories, check.RuleTypeLint, nil)
	verifCover("configured")

	// ---- reference (no maps) ----
	ruleCats := func(i int) []string {
		var out []string
		for _, c := range stubs[i].cats {
			out = append(out, c.ID())
		}
		return out
	}
	expand := func(ids []string) []string {
		var out []string
		for _, id := range ids {
			if vhContains(ruleIDs, id) {
				out = vhInsertSorted(out, id)
				continue
			}
			for i := 0; i < nRules; i++ {
				if vhContains(ruleCats(i), id) {
					out = vhInsertSorted(out, ruleIDs[i])
				}
			}
		}
		return out
	}
	undeprecate := func(ids []string) []string {
		var out []string
		for _, id := range ids {
			last := stubs[nRules-1]
			if id == last.id && last.deprecated {
				for _, rep := range last.replacements {
					out = vhInsertSorted(out, rep)
				}
				continue
			}
			out = vhInsertSorted(out, id)
		}
		return out
	}
	known := func(ids []string) bool { // a category without rules is not a known ID
		for _, id := range ids {
			if vhContains(ruleIDs, id) {
				continue
			}
			has := false
			for i := 0; i < nRules; i++ {
				if vhContains(ruleCats(i), id) {
					has = true
				}
			}
			if !has {
				return false
			}
		}
		return true
	}
	var ignoreKeys []string
	for _, id := range pool {
		if _, ok := ignore[id]; ok {
			ignoreKeys = append(ignoreKeys, id)
		}
	}
	useIDs := use
	if len(useIDs) == 0 {
		for i := 0; i < nRules; i++ {
			if stubs[i].isDefault {
				useIDs = append(useIDs, ruleIDs[i])
			}
		}
	}
	if !known(useIDs) || !known(except) || !known(ignoreKeys) {
		verifCover("unknown id")
		verifAssert(err != nil, "a category without rules is rejected under every map order")
		return
	}
	var want []string
	exc := undeprecate(expand(except))
	for _, id := range undeprecate(expand(useIDs)) {
		if !vhContains(exc, id) {
			want = append(want, id)
		}
	}
	if len(want) == 0 {
		verifCover("nothing selected")
		verifAssert(err != nil, "an empty selection is an error under every map order")
		return
	}
	verifCover("selected")
	verifAssert(err == nil, "a non-empty selection is accepted under every map order")
	verifAssert(len(cfg.RuleIDs) == len(want), "RuleIDs: the reference selection, nothing twice")
	if len(cfg.RuleIDs) == len(want) {
		for i := range want {
			verifAssert(cfg.RuleIDs[i] == want[i], "RuleIDs in sorted order under every map order")
		}
	}
	for _, ids := range cfg.UnusedPluginNameToRuleIDs {
		for i := 1; i < len(ids); i++ {
			verifAssert(ids[i-1] < ids[i], "unused-plugin rule IDs are sorted")
		}
		for _, id := range ids {
			verifAssert(!vhContains(want, id), "a plugin with a selected rule is not reported unused")
		}
	}
	// ignore paths per rule: same key set as the reference, each with both paths
	var wantIgnore []string
	for _, k := range ignoreKeys {
		for _, id := range undeprecate(expand([]string{k})) {
			wantIgnore = vhInsertSorted(wantIgnore, id)
		}
	}
	verifAssert(len(cfg.IgnoreRuleIDToRootPaths) == len(wantIgnore), "ignore map: one entry per affected rule")
	for _, id := range wantIgnore {
		var wantPaths []string
		for _, k := range ignoreKeys {
			if vhContains(undeprecate(expand([]string{k})), id) {
				for _, p := range ignore[k] {
					wantPaths = vhInsertSorted(wantPaths, p)
				}
			}
		}
		paths, ok := cfg.IgnoreRuleIDToRootPaths[id]
		verifAssert(ok && len(paths) == len(wantPaths), "ignore map: the union of the paths of every key that covers the rule")
		for _, p := range wantPaths {
			_, has := paths[p]
			verifAssert(has, "ignore map: path present under every map order")
		}
	}
}
