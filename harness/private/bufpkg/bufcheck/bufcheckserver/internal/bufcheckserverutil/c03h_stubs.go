//go:build verif

package bufcheckserverutil

import (
	"context"

	"github.com/bufbuild/buf/private/bufpkg/bufprotosource"
)

// Stub descriptors for the pair-matching lemmas (grpA, C03-H): only the keys the pair handlers read.

type (
	vbuIFile      = bufprotosource.File
	vbuIMsg       = bufprotosource.Message
	vbuIEnum      = bufprotosource.Enum
	vbuIEnumValue = bufprotosource.EnumValue
	vbuIField     = bufprotosource.Field
	vbuIService   = bufprotosource.Service
	vbuIMethod    = bufprotosource.Method
)

type vbuFile struct {
	vbuIFile
	path  string
	msgs  []bufprotosource.Message
	enums []bufprotosource.Enum
	exts  []bufprotosource.Field
	svcs  []bufprotosource.Service
}

func (f *vbuFile) Path() string                       { return f.path }
func (f *vbuFile) Messages() []bufprotosource.Message { return f.msgs }
func (f *vbuFile) Enums() []bufprotosource.Enum       { return f.enums }
func (f *vbuFile) Extensions() []bufprotosource.Field { return f.exts }
func (f *vbuFile) Services() []bufprotosource.Service { return f.svcs }

type vbuMsg struct {
	vbuIMsg
	full   string
	fields []bufprotosource.Field
	msgs   []bufprotosource.Message
	enums  []bufprotosource.Enum
	exts   []bufprotosource.Field
}

func (m *vbuMsg) FullName() string                   { return m.full }
func (m *vbuMsg) Fields() []bufprotosource.Field     { return m.fields }
func (m *vbuMsg) Messages() []bufprotosource.Message { return m.msgs }
func (m *vbuMsg) Enums() []bufprotosource.Enum       { return m.enums }
func (m *vbuMsg) Extensions() []bufprotosource.Field { return m.exts }

type vbuEnum struct {
	vbuIEnum
	full   string
	values []bufprotosource.EnumValue
}

func (e *vbuEnum) FullName() string                   { return e.full }
func (e *vbuEnum) NestedName() string                 { return e.full }
func (e *vbuEnum) Values() []bufprotosource.EnumValue { return e.values }

type vbuEnumValue struct {
	vbuIEnumValue
	name   string
	number int
}

func (v *vbuEnumValue) Name() string { return v.name }
func (v *vbuEnumValue) Number() int  { return v.number }

type vbuField struct {
	vbuIField
	number   int
	extendee string
	file     *vbuFile
}

func (f *vbuField) Number() int               { return f.number }
func (f *vbuField) Extendee() string          { return f.extendee }
func (f *vbuField) FullName() string          { return "ext" }
func (f *vbuField) File() bufprotosource.File { return f.file }

type vbuService struct {
	vbuIService
	full    string
	methods []bufprotosource.Method
}

func (s *vbuService) FullName() string                 { return s.full }
func (s *vbuService) Methods() []bufprotosource.Method { return s.methods }

type vbuMethod struct {
	vbuIMethod
	name string
}

func (m *vbuMethod) Name() string { return m.name }

// vbuCtxT is the context a rule handler sees after Before(): it answers the package's two context keys with the
// current / previous protosource files (a plain context.Context implementation; context.WithValue itself needs
// reflectlite, which the engine does not run).
type vbuCtxT struct {
	context.Context
	cur, prev []bufprotosource.File
}

func (c vbuCtxT) Value(key any) any {
	switch key.(type) {
	case protosourceFilesContextKey:
		if len(c.cur) > 0 {
			return c.cur
		}
	case againstProtosourceFilesContextKey:
		if len(c.prev) > 0 {
			return c.prev
		}
	}
	return nil
}

func vbuCtx(cur, prev []bufprotosource.File) context.Context {
	return vbuCtxT{Context: context.Background(), cur: cur, prev: prev}
}

type vbuCall struct{ cur, prev any }

func vbuLetter() string {
	s := verifNondetStringN(1)
	verifAssume(s[0] >= 'a' && s[0] <= 'z')
	return s
}

// vbuCheckCalls: every (cur, prev) pair of want is passed to the function at least once, and no other pair ever is.
// (Calling the function twice for a pair only duplicates annotations, which the annotation set de-duplicates; the
// property needs "matched pairs are checked, unmatched ones are not".)
func vbuCheckCalls(calls, want []vbuCall) bool {
	for i := 0; i < len(want); i++ {
		found := false
		for j := 0; j < len(calls); j++ {
			if calls[j].cur == want[i].cur && calls[j].prev == want[i].prev {
				found = true
			}
		}
		if !found {
			return false
		}
	}
	for j := 0; j < len(calls); j++ {
		found := false
		for i := 0; i < len(want); i++ {
			if calls[j].cur == want[i].cur && calls[j].prev == want[i].prev {
				found = true
			}
		}
		if !found {
			return false
		}
	}
	return true
}
