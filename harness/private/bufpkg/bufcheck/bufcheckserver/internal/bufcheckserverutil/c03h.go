//go:build verif

package bufcheckserverutil

import (
	"github.com/bufbuild/buf/private/bufpkg/bufprotosource"
)

// C03-H: pair matching. Every NewBreaking*PairRuleHandler calls its function for every
// (previous, current) pair that agrees on the documented key at least once and never for a pair that does not.

// VerifLemma_C03H_NamedPairs: file (key: path), enum / message / service (key: full name) pair handlers over
// 1..2 previous and 0..2 current elements with symbolic one-letter keys, spread over two files per side.
func VerifLemma_C03H_NamedPairs() {
	kind := verifNondetChoice(4) // 0 file, 1 enum, 2 message, 3 service
	np := verifNondetChoice(2) + 1
	nc := verifNondetChoice(3)
	mkSide := func(n int, side string) ([]bufprotosource.File, []string, []any) {
		var files []bufprotosource.File
		keys := make([]string, n)
		els := make([]any, n)
		for i := 0; i < n; i++ {
			keys[i] = vbuLetter()
			if kind == 0 {
				f := &vbuFile{path: keys[i]}
				files = append(files, f)
				els[i] = f
				continue
			}
			// element i lives in its own file; enums / messages may be nested one level down (the enclosing
			// messages have side-specific names, so they never pair up themselves)
			f := &vbuFile{path: string(rune('0' + i))}
			files = append(files, f)
			switch kind {
			case 1:
				e := &vbuEnum{full: keys[i]}
				els[i] = e
				if verifNondetChoice(2) == 1 {
					f.msgs = append(f.msgs, &vbuMsg{full: side + "outer" + string(rune('0'+i)), enums: []bufprotosource.Enum{e}})
				} else {
					f.enums = append(f.enums, e)
				}
			case 2:
				m := &vbuMsg{full: keys[i]}
				els[i] = m
				if verifNondetChoice(2) == 1 {
					f.msgs = append(f.msgs, &vbuMsg{full: side + "outer" + string(rune('0'+i)), msgs: []bufprotosource.Message{m}})
				} else {
					f.msgs = append(f.msgs, m)
				}
			default:
				s := &vbuService{full: keys[i]}
				els[i] = s
				f.svcs = append(f.svcs, s)
			}
		}
		return files, keys, els
	}
	prevFiles, prevKeys, prevEls := mkSide(np, "P")
	curFiles, curKeys, curEls := mkSide(nc, "C")
	var calls []vbuCall
	var err error
	ctx := vbuCtx(curFiles, prevFiles)
	switch kind {
	case 0:
		err = NewBreakingFilePairRuleHandler(func(_ ResponseWriter, _ Request, c, p bufprotosource.File) error {
			calls = append(calls, vbuCall{c, p})
			return nil
		}).Handle(ctx, nil, nil)
	case 1:
		err = NewBreakingEnumPairRuleHandler(func(_ ResponseWriter, _ Request, c, p bufprotosource.Enum) error {
			calls = append(calls, vbuCall{c, p})
			return nil
		}).Handle(ctx, nil, nil)
	case 2:
		err = NewBreakingMessagePairRuleHandler(func(_ ResponseWriter, _ Request, c, p bufprotosource.Message) error {
			calls = append(calls, vbuCall{c, p})
			return nil
		}).Handle(ctx, nil, nil)
	default:
		err = NewBreakingServicePairRuleHandler(func(_ ResponseWriter, _ Request, c, p bufprotosource.Service) error {
			calls = append(calls, vbuCall{c, p})
			return nil
		}).Handle(ctx, nil, nil)
	}
	verifCover("pair handler returned")
	if (np == 2 && prevKeys[0] == prevKeys[1]) || (nc == 2 && curKeys[0] == curKeys[1]) {
		// duplicate keys on a side: malformed input (the compiler guarantees uniqueness); whether the pair handler
		// fails or tolerates it is not part of the property
		verifCover("duplicate key on one side")
		return
	}
	verifAssert(err == nil, "unique keys: no error")
	var want []vbuCall
	for i := 0; i < np; i++ {
		for j := 0; j < nc; j++ {
			if prevKeys[i] == curKeys[j] {
				want = append(want, vbuCall{curEls[j], prevEls[i]})
			}
		}
	}
	if len(want) > 0 {
		verifCover("some pair matches")
	}
	verifAssert(vbuCheckCalls(calls, want), "called for every pair with equal key, never for another pair")
}

// VerifLemma_C03H_FieldPairs: field pair handler: message fields are paired by (message full name, number),
// extensions by (extendee, number) wherever they are declared (file level or nested in a message).
func VerifLemma_C03H_FieldPairs() {
	isExt := verifNondetChoice(2) == 1
	np := verifNondetChoice(2) + 1
	nc := verifNondetChoice(3)
	type key struct {
		owner string
		num   int
	}
	mkSide := func(n int) ([]bufprotosource.File, []key, []any) {
		f := &vbuFile{path: "a.proto"}
		keys := make([]key, n)
		els := make([]any, n)
		msgs := map[string]*vbuMsg{}
		for i := 0; i < n; i++ {
			keys[i] = key{vbuLetter(), verifNondetInt(1, 536870911)}
			if isExt {
				e := &vbuField{number: keys[i].num, extendee: keys[i].owner, file: f}
				els[i] = e
				if verifNondetChoice(2) == 1 {
					f.msgs = append(f.msgs, &vbuMsg{full: "scope" + string(rune('0'+i)), exts: []bufprotosource.Field{e}})
				} else {
					f.exts = append(f.exts, e)
				}
				continue
			}
			fld := &vbuField{number: keys[i].num, file: f}
			els[i] = fld
			// fields with the same owner letter share one message (decided by forking on equality with the earlier owner)
			var m *vbuMsg
			if i == 1 && keys[0].owner == keys[1].owner {
				m = msgs["first"]
			}
			if m == nil {
				m = &vbuMsg{full: keys[i].owner}
				f.msgs = append(f.msgs, m)
				if i == 0 {
					msgs["first"] = m
				}
			}
			m.fields = append(m.fields, fld)
		}
		return []bufprotosource.File{f}, keys, els
	}
	prevFiles, prevKeys, prevEls := mkSide(np)
	curFiles, curKeys, curEls := mkSide(nc)
	var calls []vbuCall
	err := NewBreakingFieldPairRuleHandler(func(_ ResponseWriter, _ Request, c, p bufprotosource.Field) error {
		calls = append(calls, vbuCall{c, p})
		return nil
	}).Handle(vbuCtx(curFiles, prevFiles), nil, nil)
	verifCover("field pair handler returned")
	if (np == 2 && prevKeys[0] == prevKeys[1]) || (nc == 2 && curKeys[0] == curKeys[1]) {
		verifCover("duplicate field key on one side") // malformed input, see VerifLemma_C03H_NamedPairs
		return
	}
	verifAssert(err == nil, "unique field keys: no error")
	var want []vbuCall
	for i := 0; i < np; i++ {
		for j := 0; j < nc; j++ {
			if prevKeys[i] == curKeys[j] {
				want = append(want, vbuCall{curEls[j], prevEls[i]})
			}
		}
	}
	if len(want) > 0 {
		verifCover("some field pair matches")
	}
	verifAssert(vbuCheckCalls(calls, want), "field function called for every pair with equal (owner, number), never for another pair")
}

// VerifLemma_C03H_EnumValueMethodPairs: enum values are paired by number inside a matched enum pair (the function
// gets the name->value maps of that number), methods by name inside a matched service pair.
func VerifLemma_C03H_EnumValueMethodPairs() {
	isMethod := verifNondetChoice(2) == 1
	np := verifNondetChoice(2) + 1
	nc := verifNondetChoice(3)
	if isMethod {
		ps, cs := &vbuService{full: "p.S"}, &vbuService{full: "p.S"}
		prevNames, curNames := make([]string, np), make([]string, nc)
		prevEls, curEls := make([]any, np), make([]any, nc)
		for i := 0; i < np; i++ {
			prevNames[i] = vbuLetter()
			m := &vbuMethod{name: prevNames[i]}
			prevEls[i] = m
			ps.methods = append(ps.methods, m)
		}
		for i := 0; i < nc; i++ {
			curNames[i] = vbuLetter()
			m := &vbuMethod{name: curNames[i]}
			curEls[i] = m
			cs.methods = append(cs.methods, m)
		}
		var calls []vbuCall
		err := NewBreakingMethodPairRuleHandler(func(_ ResponseWriter, _ Request, c, p bufprotosource.Method) error {
			calls = append(calls, vbuCall{c, p})
			return nil
		}).Handle(vbuCtx([]bufprotosource.File{&vbuFile{path: "a", svcs: []bufprotosource.Service{cs}}},
			[]bufprotosource.File{&vbuFile{path: "a", svcs: []bufprotosource.Service{ps}}}), nil, nil)
		verifCover("method pair handler returned")
		if (np == 2 && prevNames[0] == prevNames[1]) || (nc == 2 && curNames[0] == curNames[1]) {
			return // malformed input
		}
		verifAssert(err == nil, "unique method names: no error")
		var want []vbuCall
		for i := 0; i < np; i++ {
			for j := 0; j < nc; j++ {
				if prevNames[i] == curNames[j] {
					want = append(want, vbuCall{curEls[j], prevEls[i]})
				}
			}
		}
		verifAssert(vbuCheckCalls(calls, want), "method function called for every equally named pair, never for another pair")
		return
	}
	pe, ce := &vbuEnum{full: "p.E"}, &vbuEnum{full: "p.E"}
	prevNums, curNums := make([]int, np), make([]int, nc)
	for i := 0; i < np; i++ {
		prevNums[i] = verifNondetInt(-2147483648, 2147483647)
		pe.values = append(pe.values, &vbuEnumValue{name: "P" + string(rune('0'+i)), number: prevNums[i]})
	}
	for i := 0; i < nc; i++ {
		curNums[i] = verifNondetInt(-2147483648, 2147483647)
		ce.values = append(ce.values, &vbuEnumValue{name: "C" + string(rune('0'+i)), number: curNums[i]})
	}
	type mapCall struct {
		cur, prev map[string]bufprotosource.EnumValue
	}
	var calls []mapCall
	err := NewBreakingEnumValuePairRuleHandler(func(_ ResponseWriter, _ Request, c, p map[string]bufprotosource.EnumValue) error {
		calls = append(calls, mapCall{c, p})
		return nil
	}).Handle(vbuCtx([]bufprotosource.File{&vbuFile{path: "a", enums: []bufprotosource.Enum{ce}}},
		[]bufprotosource.File{&vbuFile{path: "a", enums: []bufprotosource.Enum{pe}}}), nil, nil)
	verifAssert(err == nil, "enum value pair handler returns no error")
	verifCover("enum value pair handler returned")
	// expected: one call per distinct previous number that also occurs among the current numbers; the maps hold
	// exactly the values of that number on each side
	want := 0
	for i := 0; i < np; i++ {
		if i == 1 && prevNums[0] == prevNums[1] {
			continue
		}
		inCur := 0
		for j := 0; j < nc; j++ {
			if curNums[j] == prevNums[i] {
				inCur++
			}
		}
		if inCur == 0 {
			continue
		}
		want++
		inPrev := 0
		for j := 0; j < np; j++ {
			if prevNums[j] == prevNums[i] {
				inPrev++
			}
		}
		found := false
		for k := 0; k < len(calls); k++ {
			ok := len(calls[k].prev) == inPrev && len(calls[k].cur) == inCur
			for _, v := range calls[k].prev {
				if v.Number() != prevNums[i] {
					ok = false
				}
			}
			for _, v := range calls[k].cur {
				if v.Number() != prevNums[i] {
					ok = false
				}
			}
			if ok {
				found = true
			}
		}
		verifAssert(found, "enum value function gets the complete name maps of a number present on both sides")
	}
	if want > 0 {
		verifCover("some enum value number matches")
	}
	for k := 0; k < len(calls); k++ {
		// no spurious call: both maps are non-empty and all their values carry one and the same number
		ok := len(calls[k].prev) > 0 && len(calls[k].cur) > 0
		var num int
		first := true
		for _, v := range calls[k].prev {
			if first {
				num, first = v.Number(), false
			}
			if v.Number() != num {
				ok = false
			}
		}
		for _, v := range calls[k].cur {
			if v.Number() != num {
				ok = false
			}
		}
		verifAssert(ok, "enum value function is only called with the values of one number present on both sides")
	}
	verifAssert((want == 0) == (len(calls) == 0), "enum value function called iff some number is present on both sides")
}
