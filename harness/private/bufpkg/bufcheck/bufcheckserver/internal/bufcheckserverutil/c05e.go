//go:build verif

package bufcheckserverutil

import (
	"context"

	"github.com/bufbuild/buf/private/bufpkg/bufprotosource"
)

// Stub schema tree for the lint iteration helpers (grpB, C05-E). Elements are identified by a tag.

type (
	lvIFile    = bufprotosource.File
	lvIMsg     = bufprotosource.Message
	lvIEnum    = bufprotosource.Enum
	lvIValue   = bufprotosource.EnumValue
	lvIField   = bufprotosource.Field
	lvIOneof   = bufprotosource.Oneof
	lvIService = bufprotosource.Service
	lvIMethod  = bufprotosource.Method
	lvIImport  = bufprotosource.FileImport
)

type lvFile struct {
	lvIFile
	path     string
	pkg      string
	isImport bool
	msgs     []bufprotosource.Message
	enums    []bufprotosource.Enum
	exts     []bufprotosource.Field
	svcs     []bufprotosource.Service
	imports  []bufprotosource.FileImport
}

func (f *lvFile) Path() string                             { return f.path }
func (f *lvFile) Package() string                          { return f.pkg }
func (f *lvFile) IsImport() bool                           { return f.isImport }
func (f *lvFile) Messages() []bufprotosource.Message       { return f.msgs }
func (f *lvFile) Enums() []bufprotosource.Enum             { return f.enums }
func (f *lvFile) Extensions() []bufprotosource.Field       { return f.exts }
func (f *lvFile) Services() []bufprotosource.Service       { return f.svcs }
func (f *lvFile) FileImports() []bufprotosource.FileImport { return f.imports }

type lvMsg struct {
	lvIMsg
	tag    string
	fields []bufprotosource.Field
	exts   []bufprotosource.Field
	oneofs []bufprotosource.Oneof
	msgs   []bufprotosource.Message
	enums  []bufprotosource.Enum
}

func (m *lvMsg) Fields() []bufprotosource.Field      { return m.fields }
func (m *lvMsg) Extensions() []bufprotosource.Field  { return m.exts }
func (m *lvMsg) Oneofs() []bufprotosource.Oneof      { return m.oneofs }
func (m *lvMsg) Messages() []bufprotosource.Message  { return m.msgs }
func (m *lvMsg) Enums() []bufprotosource.Enum        { return m.enums }

type lvEnum struct {
	lvIEnum
	tag    string
	values []bufprotosource.EnumValue
}

func (e *lvEnum) Values() []bufprotosource.EnumValue { return e.values }

type lvValue struct {
	lvIValue
	tag string
}
type lvField struct {
	lvIField
	tag string
}
type lvOneof struct {
	lvIOneof
	tag string
}
type lvMethod struct {
	lvIMethod
	tag string
}
type lvService struct {
	lvIService
	tag     string
	methods []bufprotosource.Method
}

func (s *lvService) Methods() []bufprotosource.Method { return s.methods }

type lvImport struct {
	lvIImport
	tag string
}

// lvCtx carries the protosource files under the package's context key, as Before() does with context.WithValue
// (context.WithValue itself needs reflectlite, which the engine does not run).
type lvCtx struct {
	context.Context
	files []bufprotosource.File
}

func (c lvCtx) Value(key any) any {
	if _, ok := key.(protosourceFilesContextKey); ok {
		return c.files
	}
	return nil
}

// lvWant accumulates, per element kind, the tags a lint rule must visit (elements of non-import files only).
type lvWant struct {
	files, msgs, enums, values, fields, oneofs, svcs, methods, imports []string
}

// lvBuildMsg builds a message with one field, one extension, one oneof, one enum (one value) and, while depth
// remains, a nondet number (0..1) of nested messages of the same shape.
func lvBuildMsg(tag string, depth int, count bool, w *lvWant) *lvMsg {
	m := &lvMsg{tag: tag}
	m.fields = []bufprotosource.Field{&lvField{tag: tag + ".f"}}
	m.exts = []bufprotosource.Field{&lvField{tag: tag + ".x"}}
	m.oneofs = []bufprotosource.Oneof{&lvOneof{tag: tag + ".o"}}
	m.enums = []bufprotosource.Enum{&lvEnum{tag: tag + ".E", values: []bufprotosource.EnumValue{&lvValue{tag: tag + ".E.V"}}}}
	if count {
		w.msgs = append(w.msgs, tag)
		w.fields = append(w.fields, tag+".f", tag+".x")
		w.oneofs = append(w.oneofs, tag+".o")
		w.enums = append(w.enums, tag+".E")
		w.values = append(w.values, tag+".E.V")
	}
	if depth > 0 && verifNondetBool() {
		m.msgs = []bufprotosource.Message{lvBuildMsg(tag+".N", depth-1, count, w)}
	}
	return m
}

func lvBuildFile(i int, depth int, w *lvWant) *lvFile {
	p := "f" + string(rune('0'+i))
	f := &lvFile{path: "d" + string(rune('0'+i%2)) + "/" + p + ".proto", pkg: "p" + string(rune('0'+i/2)), isImport: verifNondetBool()}
	count := !f.isImport
	if count {
		w.files = append(w.files, f.path)
	}
	if verifNondetBool() {
		f.msgs = []bufprotosource.Message{lvBuildMsg(p+".M", depth, count, w)}
	}
	if verifNondetBool() {
		f.enums = []bufprotosource.Enum{&lvEnum{tag: p + ".E", values: []bufprotosource.EnumValue{&lvValue{tag: p + ".E.V0"}, &lvValue{tag: p + ".E.V1"}}}}
		f.exts = []bufprotosource.Field{&lvField{tag: p + ".x"}}
		f.svcs = []bufprotosource.Service{&lvService{tag: p + ".S", methods: []bufprotosource.Method{&lvMethod{tag: p + ".S.A"}, &lvMethod{tag: p + ".S.B"}}}}
		f.imports = []bufprotosource.FileImport{&lvImport{tag: p + ".i"}}
		if count {
			w.enums = append(w.enums, p+".E")
			w.values = append(w.values, p+".E.V0", p+".E.V1")
			w.fields = append(w.fields, p+".x")
			w.svcs = append(w.svcs, p+".S")
			w.methods = append(w.methods, p+".S.A", p+".S.B")
			w.imports = append(w.imports, p+".i")
		}
	}
	return f
}

// lvSameSet: got and want contain the same tags (order and repetitions are not observable: annotations are a set).
func lvSameSet(got, want []string) bool {
	for _, x := range want {
		found := false
		for _, y := range got {
			if x == y {
				found = true
			}
		}
		if !found {
			return false
		}
	}
	for _, y := range got {
		found := false
		for _, x := range want {
			if x == y {
				found = true
			}
		}
		if !found {
			return false
		}
	}
	return true
}

// VerifLemma_C05E_Iterators: every NewLint*RuleHandler calls its function for every element of its
// kind in the *non-import* files - nested messages and the enums, fields, extensions and oneofs inside them
// included - and never for an element of an import. Structural: 1..FILES files, import flag, presence of the
// top-level declarations and nesting (depth <= DEPTH) nondet.
func VerifLemma_C05E_Iterators() {
	n := verifNondetChoice(verifParam("FILES")) + 1
	w := &lvWant{}
	var files []bufprotosource.File
	var stubs []*lvFile
	for i := 0; i < n; i++ {
		f := lvBuildFile(i, verifParam("DEPTH"), w)
		files = append(files, f)
		stubs = append(stubs, f)
	}
	ctx := lvCtx{Context: context.Background(), files: files}
	var got []string
	var err error
	kind := verifNondetChoice(12)
	var want []string
	switch kind {
	case 0:
		want = w.files
		err = NewLintFilesRuleHandler(func(_ ResponseWriter, _ Request, fs []bufprotosource.File) error {
			for _, f := range fs {
				got = append(got, f.Path())
			}
			return nil
		}).Handle(ctx, nil, nil)
	case 1:
		want = w.files
		err = NewLintFileRuleHandler(func(_ ResponseWriter, _ Request, f bufprotosource.File) error {
			got = append(got, f.Path())
			return nil
		}).Handle(ctx, nil, nil)
	case 2:
		want = w.imports
		err = NewLintFileImportRuleHandler(func(_ ResponseWriter, _ Request, i bufprotosource.FileImport) error {
			got = append(got, i.(*lvImport).tag)
			return nil
		}).Handle(ctx, nil, nil)
	case 3:
		want = w.enums
		err = NewLintEnumRuleHandler(func(_ ResponseWriter, _ Request, e bufprotosource.Enum) error {
			got = append(got, e.(*lvEnum).tag)
			return nil
		}).Handle(ctx, nil, nil)
	case 4:
		want = w.values
		err = NewLintEnumValueRuleHandler(func(_ ResponseWriter, _ Request, v bufprotosource.EnumValue) error {
			got = append(got, v.(*lvValue).tag)
			return nil
		}).Handle(ctx, nil, nil)
	case 5:
		want = w.msgs
		err = NewLintMessageRuleHandler(func(_ ResponseWriter, _ Request, m bufprotosource.Message) error {
			got = append(got, m.(*lvMsg).tag)
			return nil
		}).Handle(ctx, nil, nil)
	case 6:
		want = w.fields
		err = NewLintFieldRuleHandler(func(_ ResponseWriter, _ Request, f bufprotosource.Field) error {
			got = append(got, f.(*lvField).tag)
			return nil
		}).Handle(ctx, nil, nil)
	case 7:
		want = w.oneofs
		err = NewLintOneofRuleHandler(func(_ ResponseWriter, _ Request, o bufprotosource.Oneof) error {
			got = append(got, o.(*lvOneof).tag)
			return nil
		}).Handle(ctx, nil, nil)
	case 8:
		want = w.svcs
		err = NewLintServiceRuleHandler(func(_ ResponseWriter, _ Request, s bufprotosource.Service) error {
			got = append(got, s.(*lvService).tag)
			return nil
		}).Handle(ctx, nil, nil)
	case 9:
		want = w.methods
		err = NewLintMethodRuleHandler(func(_ ResponseWriter, _ Request, m bufprotosource.Method) error {
			got = append(got, m.(*lvMethod).tag)
			return nil
		}).Handle(ctx, nil, nil)
	case 10: // files grouped by package: every non-import file, in the group of its own package
		want = w.files
		okGroups := true
		err = NewLintPackageToFilesRuleHandler(func(_ ResponseWriter, _ Request, pkg string, fs []bufprotosource.File) error {
			for _, f := range fs {
				got = append(got, f.Path())
				if f.Package() != pkg {
					okGroups = false
				}
			}
			return nil
		}).Handle(ctx, nil, nil)
		verifAssert(okGroups, "a file is only passed in the group of its own package")
	case 11: // files grouped by directory
		want = w.files
		okGroups := true
		err = NewLintDirPathToFilesRuleHandler(func(_ ResponseWriter, _ Request, dir string, fs []bufprotosource.File) error {
			for _, f := range fs {
				got = append(got, f.Path())
				p := f.Path()
				if !(len(p) > len(dir)+1 && p[:len(dir)] == dir && p[len(dir)] == '/') {
					okGroups = false
				}
			}
			return nil
		}).Handle(ctx, nil, nil)
		verifAssert(okGroups, "a file is only passed in the group of its own directory")
	}
	verifCover("iterated")
	verifAssert(err == nil, "no error")
	if len(want) > 0 {
		verifCover("some element visited")
	}
	if n > len(w.files) {
		verifCover("an import file is present")
	}
	verifAssert(lvSameSet(got, want), "exactly the elements of the non-import files are visited")
}
