//go:build verif

package bufcheckserverhandle

import (
	"github.com/bufbuild/buf/private/bufpkg/bufprotosource"
)

// VerifLemma_C04B_RangesAdditive (C04): kept, reordered, widened or added reserved / extension ranges are never reported.
func VerifLemma_C04B_RangesAdditive() {
	np := verifNondetChoice(verifParam("NP")) + 1
	extra := verifNondetChoice(verifParam("NX") + 1)
	which := verifNondetChoice(3)
	lo, hi := 1, bufprotosource.MessageRangeInclusiveMax
	if which == 2 {
		lo, hi = vbTagLo, vbTagHi
	}
	prevR, _ := vbNondetMsgRanges(np, lo, hi)
	addR, _ := vbNondetMsgRanges(extra, lo, hi)
	// current = a rotation of the previous ranges (order must not matter) + arbitrary extra ranges; optionally one
	// previous range is widened.
	rot := verifNondetChoice(np)
	var curR []*vbRange
	for i := 0; i < np; i++ {
		p := prevR[(i+rot)%np]
		curR = append(curR, &vbRange{s: p.s, e: p.e, max: p.max})
	}
	if verifNondetBool() {
		w := verifNondetInt(lo, hi)
		verifAssume(w >= curR[0].e)
		curR[0].e = w
	}
	curR = append(curR, addR...)
	rw := &vRW{}
	var err error
	switch which {
	case 0:
		prev, cur := &vMsg{name: "M"}, &vMsg{name: "M"}
		for _, r := range prevR {
			prev.resRngs = append(prev.resRngs, r)
		}
		for _, r := range curR {
			cur.resRngs = append(cur.resRngs, r)
		}
		err = handleBreakingReservedMessageNoDelete(rw, vReq{}, cur, prev)
	case 1:
		prev, cur := &vMsg{name: "M"}, &vMsg{name: "M"}
		for _, r := range prevR {
			prev.extRngs = append(prev.extRngs, r)
		}
		for _, r := range curR {
			cur.extRngs = append(cur.extRngs, r)
		}
		err = handleBreakingExtensionMessageNoDelete(rw, vReq{}, cur, prev)
	default:
		prev, cur := &vbEnum{name: "E"}, &vbEnum{name: "E"}
		for _, r := range prevR {
			prev.resRngs = append(prev.resRngs, &vbEnumRange{s: r.s, e: r.e, max: r.max})
		}
		for _, r := range curR {
			cur.resRngs = append(cur.resRngs, &vbEnumRange{s: r.s, e: r.e, max: r.max})
		}
		err = handleBreakingReservedEnumNoDelete(rw, vReq{}, cur, prev)
	}
	verifCover("additive ranges handled")
	verifAssert(err == nil, "no error")
	verifAssert(rw.n == 0, "kept/widened/added ranges are not reported")
}
