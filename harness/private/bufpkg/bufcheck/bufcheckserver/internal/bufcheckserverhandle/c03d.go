//go:build verif

package bufcheckserverhandle

import (
	"github.com/bufbuild/buf/private/bufpkg/bufprotosource"
)

// C03-D: deletions of fields / enum values, with the reservation exemptions of the WIRE / WIRE_JSON variants.

func vbNondetName(maxLen int) string {
	s := verifNondetString(maxLen)
	for i := 0; i < len(s); i++ {
		c := s[i]
		verifAssume(c >= 'a' && c <= 'z')
	}
	return s
}

func refBrkNameIn(name string, names []string) bool {
	for i := 0; i < len(names); i++ {
		if names[i] == name {
			return true
		}
	}
	return false
}

// refBrkReported: the property promises an annotation for every violating edit, located at the (enclosing) element,
// and silence when there is none. It does not promise exactly one annotation per edit: want violating elements need
// at least want annotations, at least one of them at the element; zero need zero.
func refBrkReported(rw *vRW, want int, at any) bool {
	if want == 0 {
		return rw.n == 0
	}
	return rw.n >= want && rw.vbAt(at)
}

// VerifLemma_C03D_FieldDelete: FIELD_NO_DELETE, FIELD_NO_DELETE_UNLESS_NUMBER_RESERVED and
// FIELD_NO_DELETE_UNLESS_NAME_RESERVED over a previous message with 1..NF fields (symbolic distinct numbers,
// symbolic names) and a current message that keeps a nondet subset, may add one field with an arbitrary number,
// and has 0..NR reserved ranges and 0..NN reserved names: each rule reports exactly one annotation (at the current
// message) per previous field number that is absent now and not exempted the way the rule documents.
func VerifLemma_C03D_FieldDelete() {
	nf := verifNondetChoice(verifParam("NF")) + 1
	nr := verifNondetChoice(verifParam("NR") + 1)
	nn := verifNondetChoice(verifParam("NN") + 1)
	nl := verifParam("NL")
	maxTag := bufprotosource.MessageRangeInclusiveMax
	prev, cur := &vMsg{name: "M"}, &vMsg{name: "M"}
	nums := make([]int, nf)
	names := make([]string, nf)
	kept := make([]bool, nf)
	for i := 0; i < nf; i++ {
		nums[i] = verifNondetInt(1, maxTag)
		for j := 0; j < i; j++ {
			verifAssume(nums[j] != nums[i])
		}
		names[i] = vbNondetName(nl)
		prev.fields = append(prev.fields, &vField{name: names[i], number: nums[i], parent: prev})
		if verifNondetChoice(2) == 1 {
			kept[i] = true
			cur.fields = append(cur.fields, &vField{name: names[i], number: nums[i], parent: cur})
		}
	}
	extra, extraNum := verifNondetChoice(2) == 1, 0
	if extra {
		extraNum = verifNondetInt(1, maxTag)
		for i := 0; i < nf; i++ {
			if kept[i] {
				verifAssume(extraNum != nums[i])
			}
		}
		cur.fields = append(cur.fields, &vField{name: "added", number: extraNum, parent: cur})
	}
	ranges := make([]simpleTagRange, nr)
	for i := 0; i < nr; i++ {
		s := verifNondetInt(1, maxTag)
		e := verifNondetInt(1, maxTag)
		verifAssume(s <= e)
		ranges[i] = simpleTagRange{s, e}
		cur.resRngs = append(cur.resRngs, &vbRange{s: s, e: e})
	}
	resNames := make([]string, nn)
	for i := 0; i < nn; i++ {
		resNames[i] = vbNondetName(nl)
		cur.resNms = append(cur.resNms, &vbResName{v: resNames[i]})
	}

	plain, numRes, nameRes := &vRW{}, &vRW{}, &vRW{}
	e1 := handleBreakingFieldNoDelete(plain, vReq{}, cur, prev)
	e2 := handleBreakingFieldNoDeleteUnlessNumberReserved(numRes, vReq{}, cur, prev)
	e3 := handleBreakingFieldNoDeleteUnlessNameReserved(nameRes, vReq{}, cur, prev)
	verifAssert(e1 == nil && e2 == nil && e3 == nil, "field delete handlers return no error")
	verifCover("field delete handlers returned")

	wantPlain, wantNum, wantName := 0, 0, 0
	for i := 0; i < nf; i++ {
		deleted := !kept[i]
		if deleted && extra && extraNum == nums[i] {
			deleted = false // the number is still in use
		}
		if !deleted {
			continue
		}
		wantPlain++
		if !refBrkInRanges(nums[i], ranges) {
			wantNum++
		}
		if !refBrkNameIn(names[i], resNames) {
			wantName++
		}
	}
	if wantPlain > 0 {
		verifCover("a field was deleted")
	}
	if wantPlain > wantNum {
		verifCover("a deleted field number is reserved")
	}
	if wantPlain > wantName {
		verifCover("a deleted field name is reserved")
	}
	verifAssert(refBrkReported(plain, wantPlain, cur), "FIELD_NO_DELETE: every deleted field is reported at the current message, nothing else")
	verifAssert(refBrkReported(numRes, wantNum, cur), "FIELD_NO_DELETE_UNLESS_NUMBER_RESERVED: every deleted field whose number is not reserved is reported at the message, nothing else")
	verifAssert(refBrkReported(nameRes, wantName, cur), "FIELD_NO_DELETE_UNLESS_NAME_RESERVED: every deleted field whose name is not reserved is reported at the message, nothing else")
	// category order (C04): the reservation variants never fire without FIELD_NO_DELETE firing
	verifAssert((numRes.n == 0 && nameRes.n == 0) || plain.n > 0, "UNLESS_*_RESERVED fires => FIELD_NO_DELETE fires")
}

// VerifLemma_C03D_EnumValueDelete: the three ENUM_VALUE_NO_DELETE* rules over a previous enum with 1..NV values
// (symbolic numbers - aliases allowed -, symbolic pairwise distinct names), a current enum keeping a nondet subset,
// optionally adding one value, with 0..NR reserved ranges and 0..NN reserved names: one annotation (at the current
// enum) per previous *number* that is absent now and not exempted (NAME variant: all names of the number reserved).
func VerifLemma_C03D_EnumValueDelete() {
	nv := verifNondetChoice(verifParam("NV")) + 1
	nr := verifNondetChoice(verifParam("NR") + 1)
	nn := verifNondetChoice(verifParam("NN") + 1)
	nl := verifParam("NL")
	prev, cur := &vbEnum{name: "E"}, &vbEnum{name: "E"}
	nums := make([]int, nv)
	names := make([]string, nv)
	kept := make([]bool, nv)
	for i := 0; i < nv; i++ {
		nums[i] = verifNondetInt(vbTagLo, vbTagHi)
		names[i] = vbNondetName(nl)
		for j := 0; j < i; j++ {
			verifAssume(names[j] != names[i])
		}
		prev.values = append(prev.values, &vbEnumValue{name: names[i], number: nums[i], enum: prev})
		if verifNondetChoice(2) == 1 {
			kept[i] = true
			cur.values = append(cur.values, &vbEnumValue{name: names[i], number: nums[i], enum: cur})
		}
	}
	extra, extraNum := verifNondetChoice(2) == 1, 0
	if extra {
		extraNum = verifNondetInt(vbTagLo, vbTagHi)
		cur.values = append(cur.values, &vbEnumValue{name: "ADDED", number: extraNum, enum: cur})
	}
	ranges := make([]simpleTagRange, nr)
	for i := 0; i < nr; i++ {
		s := verifNondetInt(vbTagLo, vbTagHi)
		e := verifNondetInt(vbTagLo, vbTagHi)
		verifAssume(s <= e)
		ranges[i] = simpleTagRange{s, e}
		cur.resRngs = append(cur.resRngs, &vbEnumRange{s: s, e: e})
	}
	resNames := make([]string, nn)
	for i := 0; i < nn; i++ {
		resNames[i] = vbNondetName(nl)
		cur.resNms = append(cur.resNms, &vbResName{v: resNames[i]})
	}

	plain, numRes, nameRes := &vRW{}, &vRW{}, &vRW{}
	e1 := handleBreakingEnumValueNoDelete(plain, vReq{}, cur, prev)
	e2 := handleBreakingEnumValueNoDeleteUnlessNumberReserved(numRes, vReq{}, cur, prev)
	e3 := handleBreakingEnumValueNoDeleteUnlessNameReserved(nameRes, vReq{}, cur, prev)
	verifAssert(e1 == nil && e2 == nil && e3 == nil, "enum value delete handlers return no error")
	verifCover("enum value delete handlers returned")

	wantPlain, wantNum, wantName := 0, 0, 0
	for i := 0; i < nv; i++ {
		first := true
		for j := 0; j < i; j++ {
			if nums[j] == nums[i] {
				first = false
			}
		}
		if !first {
			continue // one annotation per number
		}
		present := extra && extraNum == nums[i]
		allNamesReserved := true
		for j := 0; j < nv; j++ {
			if nums[j] == nums[i] {
				if kept[j] {
					present = true
				}
				if !refBrkNameIn(names[j], resNames) {
					allNamesReserved = false
				}
			}
		}
		if present {
			continue
		}
		wantPlain++
		if !refBrkInRanges(nums[i], ranges) {
			wantNum++
		}
		if !allNamesReserved {
			wantName++
		}
	}
	if wantPlain > 0 {
		verifCover("an enum value number was deleted")
	}
	if wantPlain > wantNum {
		verifCover("a deleted enum value number is reserved")
	}
	if wantPlain > wantName {
		verifCover("all names of a deleted enum value number are reserved")
	}
	verifAssert(refBrkReported(plain, wantPlain, cur), "ENUM_VALUE_NO_DELETE: every deleted number is reported at the current enum, nothing else")
	verifAssert(refBrkReported(numRes, wantNum, cur), "ENUM_VALUE_NO_DELETE_UNLESS_NUMBER_RESERVED: every deleted number that is not reserved is reported at the enum, nothing else")
	verifAssert(refBrkReported(nameRes, wantName, cur), "ENUM_VALUE_NO_DELETE_UNLESS_NAME_RESERVED: every deleted number with an unreserved name is reported at the enum, nothing else")
	verifAssert((numRes.n == 0 && nameRes.n == 0) || plain.n > 0, "UNLESS_*_RESERVED fires => ENUM_VALUE_NO_DELETE fires")
}
