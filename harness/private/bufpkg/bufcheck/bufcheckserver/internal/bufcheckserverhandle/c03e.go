//go:build verif

package bufcheckserverhandle

import (
	"context"

	"github.com/bufbuild/buf/private/bufpkg/bufprotosource"
)

// C03-E: element deletions (enum / extension / message / service / oneof / rpc / file / package rules).

// vbNondetNested: a nested name with 1..maxDepth levels, "x", "x.y", "x.y.z": every level is one symbolic letter
// a-z, the dots are at concrete positions.
func vbNondetNested(maxDepth int) string {
	depth := verifNondetChoice(maxDepth) + 1
	s := ""
	for i := 0; i < depth; i++ {
		if i > 0 {
			s += "."
		}
		seg := verifNondetStringN(1)
		verifAssume(seg[0] >= 'a' && seg[0] <= 'z')
		s += seg
	}
	return s
}

func vbDistinctFrom(s string, others []string) {
	for i := 0; i < len(others); i++ {
		verifAssume(others[i] != s)
	}
}

// refBrkParentMsg: the current message whose nested name is the longest proper dotted prefix of name (nil: none).
func refBrkParentMsg(name string, msgs []*vMsg) *vMsg {
	for i := len(name) - 1; i >= 0; i-- {
		if name[i] == '.' {
			for j := 0; j < len(msgs); j++ {
				if msgs[j].nested == name[:i] {
					return msgs[j]
				}
			}
		}
	}
	return nil
}

// VerifLemma_C03E_FileElements: ENUM_NO_DELETE, EXTENSION_NO_DELETE, MESSAGE_NO_DELETE and SERVICE_NO_DELETE on a
// pair of files: 1..NP previous elements and 0..NC current elements of the chosen kind with symbolic (dotted)
// nested names, 0..NM other current messages that can serve as the enclosing location. Every previous element whose
// nested name is gone is reported, attributable to the current file; nothing is reported otherwise.
func VerifLemma_C03E_FileElements() {
	nl := verifParam("ND")
	kind := verifNondetChoice(4) // 0 enum, 1 extension, 2 message, 3 service
	np := verifNondetChoice(verifParam("NP")) + 1
	nc := verifNondetChoice(verifParam("NC") + 1)
	nm := 0
	if kind < 2 {
		nm = verifNondetChoice(verifParam("NM") + 1)
	}
	prev, cur := &vFile{path: "a.proto"}, &vFile{path: "a.proto"}
	prevNames := make([]string, np)
	for i := 0; i < np; i++ {
		n := vbNondetNested(nl)
		vbDistinctFrom(n, prevNames[:i])
		prevNames[i] = n
		switch kind {
		case 0:
			e := &vbEnum{name: "x", nested: n, file: prev}
			prev.enums = append(prev.enums, e)
		case 1:
			e := &vField{name: "x", nested: n, file: prev, extendee: "p.M", number: 1}
			prev.exts = append(prev.exts, e)
		case 2:
			e := &vMsg{name: "x", nested: n, file: prev}
			prev.msgs = append(prev.msgs, e)
		default:
			e := &vbService{name: n, file: prev}
			prev.svcs = append(prev.svcs, e)
		}
	}
	curNames := make([]string, nc)
	var curMsgs []*vMsg
	for i := 0; i < nc; i++ {
		n := vbNondetNested(nl)
		vbDistinctFrom(n, curNames[:i])
		curNames[i] = n
		switch kind {
		case 0:
			cur.enums = append(cur.enums, &vbEnum{name: "x", nested: n, file: cur})
		case 1:
			cur.exts = append(cur.exts, &vField{name: "x", nested: n, file: cur, extendee: "p.M", number: 1})
		case 2:
			m := &vMsg{name: "x", nested: n, file: cur}
			cur.msgs = append(cur.msgs, m)
			curMsgs = append(curMsgs, m)
		default:
			cur.svcs = append(cur.svcs, &vbService{name: n, file: cur})
		}
	}
	msgNames := make([]string, nm)
	for i := 0; i < nm; i++ {
		n := vbNondetNested(nl)
		vbDistinctFrom(n, msgNames[:i])
		msgNames[i] = n
		m := &vMsg{name: "x", nested: n, file: cur}
		cur.msgs = append(cur.msgs, m)
		curMsgs = append(curMsgs, m)
	}
	rw := &vRW{}
	var err error
	switch kind {
	case 0:
		err = handleBreakingEnumNoDelete(rw, vReq{}, cur, prev)
	case 1:
		err = handleBreakingExtensionNoDelete(rw, vReq{}, cur, prev)
	case 2:
		err = handleBreakingMessageNoDelete(rw, vReq{}, cur, prev)
	default:
		err = handleBreakingServiceNoDelete(rw, vReq{}, cur, prev)
	}
	verifAssert(err == nil, "element delete handler returns no error")
	verifCover("element delete handler returned")
	want := 0
	for i := 0; i < np; i++ {
		if refBrkNameIn(prevNames[i], curNames) {
			continue
		}
		want++
		verifCover("an element was deleted")
		if kind != 3 && refBrkParentMsg(prevNames[i], curMsgs) != nil {
			verifCover("deleted element has a surviving enclosing message")
		}
	}
	// required: an annotation per deleted element, attributable to the current file (at an enclosing element of that
	// file or, without location, carrying its path); silence when nothing was deleted. Which enclosing element is
	// chosen, the against-location and the exact number of annotations are not part of the property.
	if want == 0 {
		verifAssert(rw.n == 0, "no element deleted: nothing reported")
	} else {
		verifAssert(rw.n >= want && rw.vbInFile("a.proto"), "every deleted element is reported in the current file")
	}
}

// VerifLemma_C03E_OneofRPC: ONEOF_NO_DELETE (real oneofs only) and RPC_NO_DELETE: one annotation at the current
// message / service per previous name that is gone.
func VerifLemma_C03E_OneofRPC() {
	nl := verifParam("NL")
	np := verifNondetChoice(verifParam("NP")) + 1
	nc := verifNondetChoice(verifParam("NC") + 1)
	isRPC := verifNondetChoice(2) == 1
	prevNames := make([]string, np)
	synthetic := make([]bool, np)
	curNames := make([]string, nc)
	pm, cm := &vMsg{name: "M"}, &vMsg{name: "M"}
	ps, cs := &vbService{name: "S"}, &vbService{name: "S"}
	for i := 0; i < np; i++ {
		n := vbNondetName(nl)
		vbDistinctFrom(n, prevNames[:i])
		prevNames[i] = n
		if isRPC {
			ps.methods = append(ps.methods, &vbMethod{name: n, svc: ps})
		} else {
			synthetic[i] = verifNondetBool()
			pm.oneofs = append(pm.oneofs, &vbOneof{name: n, synthetic: synthetic[i], fields: []bufprotosource.Field{&vField{number: i + 1, name: "m", proto3Optional: synthetic[i]}}})
		}
	}
	for i := 0; i < nc; i++ {
		n := vbNondetName(nl)
		vbDistinctFrom(n, curNames[:i])
		curNames[i] = n
		if isRPC {
			cs.methods = append(cs.methods, &vbMethod{name: n, svc: cs})
		} else {
			cm.oneofs = append(cm.oneofs, &vbOneof{name: n, synthetic: verifNondetBool(), fields: []bufprotosource.Field{&vField{number: i + 1, name: "m"}}})
		}
	}
	rw := &vRW{}
	var err error
	if isRPC {
		err = handleBreakingRPCNoDelete(rw, vReq{}, cs, ps)
	} else {
		err = handleBreakingOneofNoDelete(rw, vReq{}, cm, pm)
	}
	verifAssert(err == nil, "oneof/rpc delete handler returns no error")
	verifCover("oneof/rpc delete handler returned")
	want := 0
	for i := 0; i < np; i++ {
		if !refBrkNameIn(prevNames[i], curNames) && !synthetic[i] {
			want++
		}
	}
	if want > 0 {
		verifCover("a oneof / rpc was deleted")
	}
	if isRPC {
		verifAssert(refBrkReported(rw, want, cs), "every deleted rpc is reported at the current service, nothing else")
	} else {
		verifAssert(refBrkReported(rw, want, cm), "every deleted real oneof is reported at the current message, nothing else")
	}
}

// VerifLemma_C03E_FileNoDelete: FILE_NO_DELETE over 1..2 previous and 0..2 current files with symbolic paths:
// one annotation per previous path that is gone. Every file carries an arbitrary IsImport flag: the breaking handlers
// treat every file of the request alike (imports are excluded, if configured, before the handlers run - client.go),
// so the flag must not change the result.
func VerifLemma_C03E_FileNoDelete() {
	nl := verifParam("NL")
	np := verifNondetChoice(2) + 1
	nc := verifNondetChoice(3)
	req := &vbReq{}
	prevPaths := make([]string, np)
	curPaths := make([]string, nc)
	for i := 0; i < np; i++ {
		p := vbNondetName(nl)
		vbDistinctFrom(p, prevPaths[:i])
		prevPaths[i] = p
		req.prev = append(req.prev, &vFile{path: p, isImport: verifNondetBool()})
	}
	for i := 0; i < nc; i++ {
		p := vbNondetName(nl)
		vbDistinctFrom(p, curPaths[:i])
		curPaths[i] = p
		req.cur = append(req.cur, &vFile{path: p, isImport: verifNondetBool()})
	}
	rw := &vRW{}
	err := handleBreakingFileNoDelete(context.Background(), rw, req)
	verifAssert(err == nil, "file delete handler returns no error")
	verifCover("file delete handler returned")
	want := 0
	for i := 0; i < np; i++ {
		if !refBrkNameIn(prevPaths[i], curPaths) {
			want++
		}
	}
	if want > 0 {
		verifCover("a file was deleted")
	}
	verifAssert((want == 0 && rw.n == 0) || (want > 0 && rw.n >= want), "FILE_NO_DELETE: every deleted file is reported, nothing else")
}
