//go:build verif

package bufcheckserverhandle

import (
	"github.com/bufbuild/buf/private/bufpkg/bufprotosource"
)

// lvReportedOnlyAt: the handler reported the violation - at least one annotation - and every annotation it added is
// at the given location tag and file. (How often the same annotation is added is not observable: the check SDK and
// bufanalysis.NewFileAnnotationSet de-duplicate identical annotations.)
func lvReportedOnlyAt(w *lvRW, loc, file string) bool {
	if len(w.anns) == 0 {
		return false
	}
	for _, a := range w.anns {
		if a.loc != loc || a.file != file {
			return false
		}
	}
	return true
}

// VerifLemma_C05B_NameHandlers: the nine *_CASE name rules. For every element name over [A-Za-z0-9_] (1..N bytes):
// the handler adds exactly one annotation, at the element's *name* location and with the element's file path, iff
// the name is outside the rule's grammar, and nothing otherwise. Documented exemptions: map-entry messages and their
// fields are skipped; the synthetic oneof of a proto3-optional field is not reported.
func VerifLemma_C05B_NameHandlers() {
	file := &lvFile{path: "dir/a.proto", pkg: "p.v1"}
	which := verifNondetChoice(7)
	name := lvNondetIdent(verifParam("N"))
	named := lvNamed{file: file, id: "el", name: name}
	w := &lvRW{}
	req := lvNewReq(nil)
	var err error
	bad := false
	switch which {
	case 0:
		err = handleLintEnumPascalCase(w, req, &lvEnum{lvNamed: named})
		bad = !refLintIsPascal(name)
	case 1:
		mapEntry := verifNondetBool()
		err = handleLintMessagePascalCase(w, req, &lvMsg{lvNamed: named, isMapEntry: mapEntry})
		bad = !refLintIsPascal(name) && !mapEntry
	case 2:
		err = handleLintServicePascalCase(w, req, &lvService{lvNamed: named})
		bad = !refLintIsPascal(name)
	case 3:
		err = handleLintRPCPascalCase(w, req, &lvMethod{lvNamed: named})
		bad = !refLintIsPascal(name)
	case 4:
		var parent *lvMsg
		mapEntry := false
		if verifNondetBool() {
			mapEntry = verifNondetBool()
			parent = &lvMsg{lvNamed: lvNamed{file: file, id: "parent", name: "M"}, isMapEntry: mapEntry}
		}
		err = handleLintFieldLowerSnakeCase(w, req, &lvField{lvNamed: named, parent: parent})
		bad = !refLintIsSnake(name, 'a', 'z') && !mapEntry
	case 5:
		nFields := verifNondetChoice(3)
		optional := false
		var fields []bufprotosource.Field
		for i := 0; i < nFields; i++ {
			o := verifNondetBool()
			if i == 0 {
				optional = o
			}
			fields = append(fields, &lvField{lvNamed: lvNamed{file: file, id: "f", name: "f"}, proto3Optional: o})
		}
		err = handleLintOneofLowerSnakeCase(w, req, &lvOneof{lvNamed: named, fields: fields})
		bad = !refLintIsSnake(name, 'a', 'z') && !(nFields == 1 && optional)
	case 6:
		err = handleLintEnumValueUpperSnakeCase(w, req, &lvEnumValue{lvNamed: named})
		bad = !refLintIsSnake(name, 'A', 'Z')
	}
	verifCover("handled")
	verifAssert(err == nil, "name handlers do not fail")
	if bad {
		verifCover("violation")
		verifAssert(lvReportedOnlyAt(w, "el/name", "dir/a.proto"), "a name outside the grammar is reported once, at the name location of the element")
	} else {
		verifCover("conforming")
		verifAssert(len(w.anns) == 0, "a conforming (or exempt) name is not reported")
	}
}

// VerifLemma_C05B_PackageLowerSnakeCase: package names over [A-Za-z0-9_.] (0..N bytes): reported once at the
// package location iff the package is non-empty and some dot-separated component is non-empty and not lower_snake_case.
func VerifLemma_C05B_PackageLowerSnakeCase() {
	pkg := verifNondetString(verifParam("N"))
	for i := 0; i < len(pkg); i++ {
		verifAssume(refLintIsIdentByte(pkg[i]) || pkg[i] == '.')
	}
	file := &lvFile{path: "dir/a.proto", pkg: pkg}
	w := &lvRW{}
	err := handleLintPackageLowerSnakeCase(w, lvNewReq(nil), file)
	verifCover("handled")
	verifAssert(err == nil, "no error")
	bad := false
	start := 0
	for i := 0; i <= len(pkg); i++ {
		if i == len(pkg) || pkg[i] == '.' {
			if i > start && !refLintIsSnake(pkg[start:i], 'a', 'z') {
				bad = true
			}
			start = i + 1
		}
	}
	if bad {
		verifCover("violation")
		verifAssert(lvReportedOnlyAt(w, "dir/a.proto/package", "dir/a.proto"), "reported once at the package location")
	} else {
		verifAssert(len(w.anns) == 0, "conforming or absent package is not reported")
	}
}

// VerifLemma_C05B_FileLowerSnakeCase: file paths over [A-Za-z0-9_./-] (1..N bytes, not ending in '/'): reported
// once (file-level annotation: nil location, the file's path) iff the base name without its extension is non-empty
// and not lower_snake_case.
func VerifLemma_C05B_FileLowerSnakeCase() {
	path := verifNondetString(verifParam("N"))
	verifAssume(len(path) > 0)
	lastSlash := -1
	for i := 0; i < len(path); i++ {
		c := path[i]
		verifAssume(refLintIsIdentByte(c) || c == '.' || c == '/' || c == '-')
		if c == '/' {
			lastSlash = i
		}
	}
	verifAssume(path[len(path)-1] != '/')
	file := &lvFile{path: path}
	w := &lvRW{}
	err := handleLintFileLowerSnakeCase(w, lvNewReq(nil), file)
	verifCover("handled")
	verifAssert(err == nil, "no error")
	base := path[lastSlash+1:]
	stem := base
	for i := len(base) - 1; i >= 0; i-- {
		if base[i] == '.' {
			stem = base[:i]
			break
		}
	}
	bad := len(stem) > 0 && !refLintIsSnake(stem, 'a', 'z')
	if bad {
		verifCover("violation")
		verifAssert(lvReportedOnlyAt(w, "", path), "reported for the file (file-level annotation)")
	} else {
		verifCover("conforming")
		verifAssert(len(w.anns) == 0, "conforming file name is not reported")
	}
}
