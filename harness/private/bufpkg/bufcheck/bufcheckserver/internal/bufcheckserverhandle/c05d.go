//go:build verif

package bufcheckserverhandle

import (
	"github.com/bufbuild/buf/private/bufpkg/bufprotosource"
)

// lvAllFilesOnce: every file of the group is reported at its own location with the given suffix, and nothing else is
// reported (order and repetitions are not observable).
func lvAllFilesOnce(w *lvRW, files []*lvFile, what string) bool {
	for _, f := range files {
		if !w.lvHas(f.path+"/"+what, f.path) {
			return false
		}
	}
	for _, a := range w.anns {
		own := false
		for _, f := range files {
			if a.loc == f.path+"/"+what && a.file == f.path {
				own = true
			}
		}
		if !own {
			return false
		}
	}
	return true
}

// lvNondetLower: every string of 0..n bytes over [a-z].
func lvNondetLower(n int) string {
	s := verifNondetString(n)
	for i := 0; i < len(s); i++ {
		verifAssume(s[i] >= 'a' && s[i] <= 'z')
	}
	return s
}

// VerifLemma_C05D_Grouping: the grouping rules over a group of 1..K files with symbolic attributes:
// PACKAGE_SAME_DIRECTORY (files of one package in >1 directory), DIRECTORY_SAME_PACKAGE (files of one directory
// with >1 package, "" counts as a package) and the seven PACKAGE_SAME_<OPTION> rules ("" / unset counts as a value):
// if the group disagrees every file of the group is reported at its package (option) location with
// its own path; if it agrees nothing is reported.
func VerifLemma_C05D_Grouping() {
	k := verifNondetChoice(verifParam("K")) + 1
	which := verifNondetChoice(9)
	files := make([]*lvFile, k)
	ifiles := make([]bufprotosource.File, k)
	vals := make([]string, k)
	for i := 0; i < k; i++ {
		vals[i] = lvNondetLower(verifParam("VN"))
		files[i] = &lvFile{path: "f" + string(rune('0'+i)) + ".proto", pkg: "p"}
		ifiles[i] = files[i]
	}
	distinct := false
	for i := 1; i < k; i++ {
		if vals[i] != vals[0] {
			distinct = true
		}
	}
	w := &lvRW{}
	req := lvNewReq(nil)
	var err error
	what := "package"
	switch which {
	case 0: // PACKAGE_SAME_DIRECTORY: value = directory ("" = root)
		for i := 0; i < k; i++ {
			if vals[i] != "" {
				files[i].path = vals[i] + "/" + files[i].path
			}
		}
		err = handleLintPackageSameDirectory(w, req, "p", ifiles)
	case 1: // DIRECTORY_SAME_PACKAGE: value = package
		for i := 0; i < k; i++ {
			files[i].pkg = vals[i]
		}
		err = handleLintDirectorySamePackage(w, req, ".", ifiles)
	case 2:
		for i := 0; i < k; i++ {
			files[i].opt[0] = vals[i]
		}
		what = "opt0"
		err = handleLintPackageSameCsharpNamespace(w, req, "p", ifiles)
	case 3:
		for i := 0; i < k; i++ {
			files[i].opt[1] = vals[i]
		}
		what = "opt1"
		err = handleLintPackageSameGoPackage(w, req, "p", ifiles)
	case 4:
		for i := 0; i < k; i++ {
			files[i].opt[2] = vals[i]
		}
		what = "opt2"
		err = handleLintPackageSameJavaPackage(w, req, "p", ifiles)
	case 5:
		for i := 0; i < k; i++ {
			files[i].opt[3] = vals[i]
		}
		what = "opt3"
		err = handleLintPackageSamePhpNamespace(w, req, "p", ifiles)
	case 6:
		for i := 0; i < k; i++ {
			files[i].opt[4] = vals[i]
		}
		what = "opt4"
		err = handleLintPackageSameRubyPackage(w, req, "p", ifiles)
	case 7:
		for i := 0; i < k; i++ {
			files[i].opt[5] = vals[i]
		}
		what = "opt5"
		err = handleLintPackageSameSwiftPrefix(w, req, "p", ifiles)
	case 8: // java_multiple_files: unset / false / true, derived from the symbolic value's length
		distinct = false
		state := make([]int, k)
		for i := 0; i < k; i++ {
			switch len(vals[i]) {
			case 0:
			case 1:
				b := false
				files[i].jmf = &b
				state[i] = 1
			default:
				b := true
				files[i].jmf = &b
				state[i] = 2
			}
			if state[i] != state[0] {
				distinct = true
			}
		}
		what = "jmf"
		err = handleLintPackageSameJavaMultipleFiles(w, req, "p", ifiles)
	}
	verifCover("handled")
	verifAssert(err == nil, "no error")
	if distinct {
		verifCover("group disagrees")
		verifAssert(lvAllFilesOnce(w, files, what), "every file of a disagreeing group is reported at its own location, and nothing else is")
	} else {
		verifCover("group agrees")
		verifAssert(len(w.anns) == 0, "an agreeing group is not reported")
	}
}

// VerifLemma_C05D_Comments: validLeadingComment and the COMMENT_* handlers. A comment documents an element iff some
// line, trimmed, is non-empty and does not start with an excluded prefix ("buf:lint:ignore" in every lint run).
// Comment: every string of 0..CN bytes over {letters, ' ', '\n', ':', 'b'...} around an optional directive line.
// Handlers: exactly one annotation at the element's declaration location iff the comment does not document it;
// elements without source location, map-entry messages/fields, group fields and synthetic oneofs are exempt.
func VerifLemma_C05D_Comments() {
	file := &lvFile{path: "dir/a.proto"}
	head := verifNondetString(verifParam("CN"))
	for i := 0; i < len(head); i++ {
		c := head[i]
		verifAssume(c == ' ' || c == '\n' || c == '\t' || (c >= 'a' && c <= 'z') || c == ':')
	}
	comment := head + []string{"", "buf:lint:ignore X", "\n buf:lint:ignore X\n", "buf:lint:ignor", "\nbuf:lint"}[verifNondetChoice(5)]
	nExcl := verifParam("EXMIN") + verifNondetChoice(verifParam("EXMAX")-verifParam("EXMIN")+1)
	excludes := []string{"buf:lint:ignore", "x"}[:nExcl]

	// reference: some trimmed line is non-empty and starts with none of the excludes
	documented := false
	start := 0
	for i := 0; i <= len(comment); i++ {
		if i == len(comment) || comment[i] == '\n' {
			a, b := start, i
			for a < b && (comment[a] == ' ' || comment[a] == '\t') {
				a++
			}
			for b > a && (comment[b-1] == ' ' || comment[b-1] == '\t') {
				b--
			}
			if b > a {
				excluded := false
				for _, e := range excludes {
					if refLintHasPrefix(comment[a:b], e) {
						excluded = true
					}
				}
				if !excluded {
					documented = true
				}
			}
			start = i + 1
		}
	}
	got := validLeadingComment(excludes, comment)
	verifCover("decided")
	// Known class: the function only looks at a line while iterating over the excludes, so with no excludes nothing
	// is ever valid, and with two excludes a line is valid as soon as it misses one of them. buf always passes one.
	if verifKnown("F22-comment-excludes-not-one", nExcl != 1) {
		return
	}
	verifAssert(got == documented, "a comment is valid iff some non-empty line starts with none of the excludes")
	if nExcl != 1 || verifParam("HANDLERS") == 0 {
		return
	}

	// the handlers, with the request option comment_excludes = ["buf:lint:ignore"]
	req := lvNewReq(map[string]any{"comment_excludes": []string{"buf:lint:ignore"}})
	w := &lvRW{}
	named := lvNamed{file: file, id: "el", name: "N", comment: comment, noLoc: verifNondetBool()}
	exempt := named.noLoc
	var err error
	switch verifNondetChoice(7) {
	case 0:
		err = handleLintCommentEnum(w, req, &lvEnum{lvNamed: named})
	case 1:
		err = handleLintCommentEnumValue(w, req, &lvEnumValue{lvNamed: named})
	case 2:
		mapEntry := verifNondetBool()
		err = handleLintCommentMessage(w, req, &lvMsg{lvNamed: named, isMapEntry: mapEntry})
		exempt = exempt || mapEntry
	case 3:
		var parent *lvMsg
		mapEntry, group := false, verifNondetBool()
		if verifNondetBool() {
			mapEntry = verifNondetBool()
			parent = &lvMsg{lvNamed: lvNamed{file: file, id: "parent", name: "M"}, isMapEntry: mapEntry}
		}
		f := &lvField{lvNamed: named, parent: parent, typ: 9}
		if group {
			f.typ = 10 // TYPE_GROUP
		}
		err = handleLintCommentField(w, req, f)
		exempt = exempt || mapEntry || group
	case 4:
		synthetic := verifNondetBool()
		err = handleLintCommentOneof(w, req, &lvOneof{lvNamed: named, synthetic: synthetic})
		exempt = exempt || synthetic
	case 5:
		err = handleLintCommentService(w, req, &lvService{lvNamed: named})
	case 6:
		err = handleLintCommentRPC(w, req, &lvMethod{lvNamed: named})
	}
	verifAssert(err == nil, "no error")
	if !documented && !exempt {
		verifCover("undocumented element")
		verifAssert(lvReportedOnlyAt(w, "el/decl", "dir/a.proto"), "an undocumented element is reported once at its declaration")
	} else {
		verifCover("documented or exempt element")
		verifAssert(len(w.anns) == 0, "a documented or exempt element is not reported")
	}
}
