//go:build verif

package bufcheckserverhandle

import (
	"context"

	"github.com/bufbuild/buf/private/bufpkg/bufprotosource"
	"google.golang.org/protobuf/reflect/protoreflect"
)

// VerifLemma_C05F_FlagRules: the rules that report one attribute of one element: IMPORT_NO_PUBLIC, IMPORT_USED,
// RPC_NO_CLIENT_STREAMING, RPC_NO_SERVER_STREAMING, ENUM_NO_ALLOW_ALIAS, FIELD_NOT_REQUIRED, SYNTAX_SPECIFIED and
// FIELD_NO_DESCRIPTOR. Each reports, at the documented location and nowhere else, iff the attribute is set.
func VerifLemma_C05F_FlagRules() {
	file := &lvFile{path: "dir/a.proto"}
	named := lvNamed{file: file, id: "el", name: "n"}
	flag := verifNondetBool()
	w := &lvRW{}
	req := lvNewReq(nil)
	var err error
	loc := ""
	switch verifNondetChoice(8) {
	case 0:
		err = handleLintImportNoPublic(w, req, &lvImport{file: file, id: "el", path: "b.proto", isPublic: flag, isWeak: verifNondetBool(), isUnused: verifNondetBool()})
		loc = "el/decl"
	case 1:
		err = handleLintImportUsed(w, req, &lvImport{file: file, id: "el", path: "b.proto", isUnused: flag, isPublic: verifNondetBool()})
		loc = "el/decl"
	case 2:
		err = handleLintRPCNoClientStreaming(w, req, &lvMethod{lvNamed: named, clientStreaming: flag, serverStreaming: verifNondetBool()})
		loc = "el/decl"
	case 3:
		err = handleLintRPCNoServerStreaming(w, req, &lvMethod{lvNamed: named, serverStreaming: flag, clientStreaming: verifNondetBool()})
		loc = "el/decl"
	case 4:
		err = handleLintEnumNoAllowAlias(w, req, &lvEnum{lvNamed: named, allowAlias: flag})
		loc = "el/allow_alias"
	case 5:
		card := protoreflect.Cardinality(verifNondetInt(1, 3)) // optional, required, repeated
		flag = card == protoreflect.Required
		err = handleLintFieldNotRequired(w, req, &lvField{lvNamed: named, card: card})
		loc = "el/name"
	case 6:
		syntax := bufprotosource.Syntax(verifNondetInt(1, 4)) // unspecified, proto2, proto3, editions
		flag = syntax == bufprotosource.SyntaxUnspecified
		file.syntax = syntax
		err = handleLintSyntaxSpecified(w, req, file)
		loc = "<AddAnnotation>"
	case 7:
		// FIELD_NO_DESCRIPTOR: any capitalisation of "descriptor" with leading/trailing underscores.
		// name = pre + core + post, pre/post every string of 0..1 bytes over [a-z_], core = "descriptor" with the
		// case of its first three letters symbolic, or a near-miss.
		pre, post := verifNondetString(1), verifNondetString(1)
		for _, s := range []string{pre, post} {
			for i := 0; i < len(s); i++ {
				verifAssume(s[i] == '_' || (s[i] >= 'a' && s[i] <= 'z'))
			}
		}
		core := []byte("descriptor")
		isCore := true
		switch verifNondetChoice(3) {
		case 0:
			for i := 0; i < 3; i++ {
				if verifNondetBool() {
					core[i] -= 'a' - 'A'
				}
			}
		case 1:
			core, isCore = []byte("descriptr"), false
		case 2:
			core, isCore = []byte("descriptor_x"), false
		}
		name := pre + string(core) + post
		allUnderscore := func(s string) bool { return len(s) == 0 || s[0] == '_' }
		flag = isCore && allUnderscore(pre) && allUnderscore(post)
		named.name = name
		err = handleLintFieldNoDescriptor(w, req, &lvField{lvNamed: named})
		loc = "el/name"
	}
	verifCover("handled")
	verifAssert(err == nil, "no error")
	if flag {
		verifCover("violation")
		if loc == "<AddAnnotation>" {
			verifAssert(lvReportedOnlyAt(w, loc, ""), "reported (file-level)")
		} else {
			verifAssert(lvReportedOnlyAt(w, loc, "dir/a.proto"), "reported once at the documented location")
		}
	} else {
		verifCover("clean")
		verifAssert(len(w.anns) == 0, "not reported")
	}
}

// VerifLemma_C05F_RPCRequestResponseUnique: RPC_REQUEST_RESPONSE_UNIQUE over 1..M methods whose request / response
// types are symbolic (one of three message names or google.protobuf.Empty) and the three allow_* options nondet:
//  - a method whose two types are used by no other method and differ from each other is never reported;
//  - request == response (not an allowed Empty) without allow_same_request_response => that method is reported;
//  - a non-Empty type used by two different methods => both are reported;
//  - with both allow-Empty options Empty never causes a report; with none it is an ordinary type;
//  - every annotation is at a method's declaration location with the file's path.
func VerifLemma_C05F_RPCRequestResponseUnique() {
	file := &lvFile{path: "dir/a.proto"}
	n := verifNondetChoice(verifParam("M")) + 1
	types := []string{"p.A", "p.B", "p.C", "google.protobuf.Empty"}
	svc := &lvService{lvNamed: lvNamed{file: file, id: "svc", name: "S"}}
	in, out := make([]int, n), make([]int, n)
	ids := []string{"m0", "m1", "m2"}
	for i := 0; i < n; i++ {
		in[i], out[i] = verifNondetChoice(4), verifNondetChoice(4)
		svc.methods = append(svc.methods, &lvMethod{lvNamed: lvNamed{file: file, id: ids[i], name: ids[i]}, service: svc,
			fullName: "p.S." + ids[i], in: types[in[i]], out: types[out[i]]})
	}
	file.svcs = []bufprotosource.Service{svc}
	allowSame, allowReq, allowResp := verifNondetBool(), verifNondetBool(), verifNondetBool()
	opts := map[string]any{}
	if allowSame {
		opts["rpc_allow_same_request_response"] = true
	}
	if allowReq {
		opts["rpc_allow_google_protobuf_empty_requests"] = true
	}
	if allowResp {
		opts["rpc_allow_google_protobuf_empty_responses"] = true
	}
	w := &lvRW{}
	err := handleLintRPCRequestResponseUnique(w, lvNewReq(opts), []bufprotosource.File{file})
	verifCover("handled")
	verifAssert(err == nil, "no error")
	const empty = 3
	count := func(i int) int {
		c := 0
		for _, a := range w.anns {
			if a.loc == ids[i]+"/decl" {
				c++
			}
		}
		return c
	}
	total := 0
	for i := 0; i < n; i++ {
		total += count(i)
	}
	verifAssert(total == len(w.anns), "every annotation is at the declaration of one of the methods")
	for _, a := range w.anns {
		verifAssert(a.file == "dir/a.proto", "annotation carries the file path")
	}
	usedByOther := func(i, t int) bool {
		for j := 0; j < n; j++ {
			if j != i && (in[j] == t || out[j] == t) {
				return true
			}
		}
		return false
	}
	for i := 0; i < n; i++ {
		reported := count(i) > 0
		if in[i] != out[i] && !usedByOther(i, in[i]) && !usedByOther(i, out[i]) {
			verifCover("method with private types")
			verifAssert(!reported, "a method whose types are used by no other method and differ is not reported")
		}
		if in[i] == out[i] && !allowSame && !(in[i] == empty && allowReq && allowResp) {
			verifAssert(reported, "same request and response type is reported")
		}
		if in[i] != empty && usedByOther(i, in[i]) {
			verifCover("shared request type")
			verifAssert(reported, "a request type used by another method is reported")
		}
		if out[i] != empty && usedByOther(i, out[i]) {
			verifAssert(reported, "a response type used by another method is reported")
		}
		if allowReq && allowResp && in[i] != out[i] {
			// only non-Empty sharing can be the reason
			nonEmptyShared := (in[i] != empty && usedByOther(i, in[i])) || (out[i] != empty && usedByOther(i, out[i]))
			verifAssert(reported == nonEmptyShared, "with both allow-Empty options Empty never causes a report")
		}
		if !allowReq && !allowResp && (in[i] == empty || out[i] == empty) && usedByOther(i, empty) {
			verifAssert(reported, "without allow-Empty options Empty is an ordinary type")
		}
	}
}

var (
	lvStablePkgs   = []string{"x.v1", "x.v2"}
	lvUnstablePkgs = []string{"y.v1beta1", "y.v1alpha", "y.v1test", "y.v2p1alpha1"}
	lvPlainPkgs    = []string{"", "z", "z.w"}
)

func lvNondetClassedPkg() (string, int) {
	switch verifNondetChoice(3) {
	case 0:
		return lvStablePkgs[verifNondetChoice(len(lvStablePkgs))], 0
	case 1:
		return lvUnstablePkgs[verifNondetChoice(len(lvUnstablePkgs))], 1
	}
	return lvPlainPkgs[verifNondetChoice(len(lvPlainPkgs))], 2
}

// VerifLemma_C05F_StablePackageNoImportUnstable: file A (package PA) optionally imports file B (package PB) and an
// unknown file: reported once at the import iff PA is a stable versioned package and PB an unstable versioned one.
func VerifLemma_C05F_StablePackageNoImportUnstable() {
	pa, ca := lvNondetClassedPkg()
	pb, cb := lvNondetClassedPkg()
	a := &lvFile{path: "a/a.proto", pkg: pa}
	b := &lvFile{path: "b/b.proto", pkg: pb}
	importsB := verifNondetBool()
	if importsB {
		a.imports = append(a.imports, &lvImport{file: a, id: "a->b", path: "b/b.proto"})
	}
	if verifNondetBool() {
		a.imports = append(a.imports, &lvImport{file: a, id: "a->?", path: "google/protobuf/any.proto"})
	}
	w := &lvRW{}
	err := handleLintStablePackageNoImportUnstable(w, lvNewReq(nil), []bufprotosource.File{a, b})
	verifCover("handled")
	verifAssert(err == nil, "no error")
	if importsB && ca == 0 && cb == 1 {
		verifCover("stable imports unstable")
		verifAssert(lvReportedOnlyAt(w, "a->b/decl", "a/a.proto"), "reported once at the import")
	} else {
		verifAssert(len(w.anns) == 0, "not reported")
	}
}

// VerifLemma_C05F_PackageNoImportCycle: three files in packages a, b, c (import flag nondet) with an arbitrary set
// of imports between them: the import i -> j is reported (once, at the import, with the importing file's path) iff
// it lies on a package cycle (j reaches i) and the importing file is not itself an import; nothing else is reported.
func VerifLemma_C05F_PackageNoImportCycle() {
	names := []string{"a", "b", "c"}
	files := make([]*lvFile, 3)
	ifiles := make([]bufprotosource.File, 3)
	for i := range files {
		files[i] = &lvFile{path: names[i] + "/f.proto", pkg: names[i], isImport: verifNondetBool()}
		ifiles[i] = files[i]
	}
	var edge [3][3]bool
	for i := 0; i < 3; i++ {
		for j := 0; j < 3; j++ {
			if i != j && verifNondetBool() {
				edge[i][j] = true
				files[i].imports = append(files[i].imports, &lvImport{file: files[i], id: names[i] + "->" + names[j], path: files[j].path})
			}
		}
	}
	req := lvNewReq(nil)
	req.files = ifiles
	w := &lvRW{}
	err := handleLintPackageNoImportCycle(context.Background(), w, req)
	verifCover("handled")
	verifAssert(err == nil, "no error")
	reach := edge
	for k := 0; k < 3; k++ {
		for i := 0; i < 3; i++ {
			for j := 0; j < 3; j++ {
				if reach[i][k] && reach[k][j] {
					reach[i][j] = true
				}
			}
		}
	}
	for i := 0; i < 3; i++ {
		for j := 0; j < 3; j++ {
			if edge[i][j] && reach[j][i] && !files[i].isImport {
				verifCover("import on a cycle")
				verifAssert(w.lvHas(names[i]+"->"+names[j]+"/decl", files[i].path), "an import on a package cycle is reported at the import")
			}
		}
	}
	for _, a := range w.anns {
		expected := false
		for i := 0; i < 3; i++ {
			for j := 0; j < 3; j++ {
				if edge[i][j] && reach[j][i] && !files[i].isImport && a.loc == names[i]+"->"+names[j]+"/decl" && a.file == files[i].path {
					expected = true
				}
			}
		}
		verifAssert(expected, "nothing else is reported")
	}
}

// VerifLemma_C05F_RPCUniqueAcrossServices: RPC_REQUEST_RESPONSE_UNIQUE over FILES files (import flag nondet) x SVCS
// services x 1..METHODS methods. Method *names* are symbolic one-letter names (so the same simple name occurs in
// different services; within a service names are distinct), request / response types come from the pool
// {p.A, p.B, google.protobuf.Empty}, the three allow_* options are symbolic. The handler gets the non-import files
// (what NewLintFilesRuleHandler passes, C05-E) while request.ProtosourceFiles() holds all files.
// Exact expectation, per method m of a non-import file:
//   1 annotation if request == response (unless allow_same, or both are Empty and both allow-Empty options are set)
//   + 1 annotation per distinct type T of m that another RPC *of a non-import file* also uses as request or response
//     (for T = Empty with one allow-Empty option: only in the role that is not allowed and used more than once);
// every annotation sits at m's declaration with m's file path; methods of import files are never annotated and do not
// make a type "shared".
func VerifLemma_C05F_RPCUniqueAcrossServices() {
	nFiles, nSvcs, maxMethods := verifParam("FILES"), verifParam("SVCS"), verifParam("METHODS")
	pool := []string{"p.A", "p.B", "google.protobuf.Empty"}
	const empty = 2
	type mrec struct {
		m       *lvMethod
		in, out int
		live    bool // declared in a non-import file
	}
	var all []*mrec
	var allFiles, liveFiles []bufprotosource.File
	for fi := 0; fi < nFiles; fi++ {
		f := &lvFile{path: "d/f" + string(rune('0'+fi)) + ".proto", pkg: "p", isImport: nFiles > 1 && verifNondetBool()}
		for si := 0; si < nSvcs; si++ {
			svcName := "S" + string(rune('0'+fi)) + string(rune('0'+si))
			svc := &lvService{lvNamed: lvNamed{file: f, id: svcName, name: svcName}}
			nm := verifNondetChoice(maxMethods) + 1
			var first string
			for mi := 0; mi < nm; mi++ {
				name := verifNondetStringN(1)
				verifAssume(name[0] >= 'a' && name[0] <= 'z')
				if mi == 0 {
					first = name
				} else {
					verifAssume(name != first) // RPC names are unique within a service
				}
				id := svcName + "." + string(rune('0'+mi))
				r := &mrec{in: verifNondetChoice(len(pool)), out: verifNondetChoice(len(pool)), live: !f.isImport}
				r.m = &lvMethod{lvNamed: lvNamed{file: f, id: id, name: name}, service: svc,
					fullName: "p." + svcName + "." + name, in: pool[r.in], out: pool[r.out]}
				svc.methods = append(svc.methods, r.m)
				all = append(all, r)
			}
			f.svcs = append(f.svcs, svc)
		}
		allFiles = append(allFiles, f)
		if !f.isImport {
			liveFiles = append(liveFiles, f)
		}
	}
	allowSame, allowReq, allowResp := verifNondetBool(), verifNondetBool(), verifNondetBool()
	req := lvNewReq(map[string]any{
		"rpc_allow_same_request_response":           allowSame,
		"rpc_allow_google_protobuf_empty_requests":  allowReq,
		"rpc_allow_google_protobuf_empty_responses": allowResp,
	})
	req.files = allFiles
	w := &lvRW{}
	err := handleLintRPCRequestResponseUnique(w, req, liveFiles)
	verifCover("handled")
	verifAssert(err == nil, "no error")

	users := func(t int, role int) int { // role 0: any, 1: as request, 2: as response
		n := 0
		for _, r := range all {
			if !r.live {
				continue
			}
			if (role != 2 && r.in == t) || (role != 1 && r.out == t) {
				n++
			}
		}
		return n
	}
	total := 0
	for _, r := range all {
		got := 0
		for _, a := range w.anns {
			if a.loc == r.m.id+"/decl" {
				got++
				verifAssert(a.file == r.m.file.path, "annotation carries the path of the method's file")
			}
		}
		total += got
		if !r.live {
			verifCover("method of an import file")
			verifAssert(got == 0, "a method of an import-only file is never reported")
			continue
		}
		want := 0
		if r.in == r.out && !allowSame && !(r.in == empty && allowReq && allowResp) {
			want++
		}
		for k, t := range []int{r.in, r.out} {
			if k == 1 && r.out == r.in {
				continue // one entry per (method, type)
			}
			if users(t, 0) < 2 {
				continue
			}
			if t == empty && (allowReq || allowResp) {
				if allowReq && allowResp {
					continue
				}
				if !allowReq && r.in == empty && users(empty, 1) > 1 {
					want++
				}
				if !allowResp && r.out == empty && users(empty, 2) > 1 {
					want++
				}
				continue
			}
			want++
		}
		if want > 0 {
			verifCover("offending method")
		}
		// the number of (identical) annotations per method is not observable after de-duplication; whether it is reported is
		verifAssert((got > 0) == (want > 0), "a method is reported iff request == response (modulo allow options) or it shares a type with another non-import RPC")
	}
	verifAssert(total == len(w.anns), "every annotation is at the declaration of one of the methods")
}
