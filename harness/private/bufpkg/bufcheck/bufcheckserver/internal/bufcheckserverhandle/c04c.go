//go:build verif

package bufcheckserverhandle

import (
	"context"

	"github.com/bufbuild/buf/private/bufpkg/bufprotosource"
)

// C04-C: category order, rule by rule. The implier of every laxer-category rule (table in
// harness/.../bufcheckserver/c04d.go) fires whenever the rule fires.

// The chains between rules of the same element are asserted inside the exact C03 lemmas; they are registered
// under C04 through these entry points (same bounds):
//
//	WIRE_COMPATIBLE_TYPE => WIRE_JSON_COMPATIBLE_TYPE => SAME_TYPE
//	WIRE_COMPATIBLE_CARDINALITY => WIRE_JSON_COMPATIBLE_CARDINALITY => SAME_CARDINALITY
//	{FIELD,ENUM_VALUE}_NO_DELETE_UNLESS_{NUMBER,NAME}_RESERVED => {FIELD,ENUM_VALUE}_NO_DELETE
func VerifLemma_C04C_FieldTypeOrder()       { VerifLemma_C03A_FieldTypeHierarchy() }
func VerifLemma_C04C_EnumTypeOrder()        { VerifLemma_C03A_EnumTypeChange() }
func VerifLemma_C04C_CardinalityOrder()     { VerifLemma_C03B_Cardinality() }
func VerifLemma_C04C_FieldDeleteOrder()     { VerifLemma_C03D_FieldDelete() }
func VerifLemma_C04C_EnumValueDeleteOrder() { VerifLemma_C03D_EnumValueDelete() }

// VerifLemma_C04C_PackageImpliesFile: whenever a PACKAGE_<kind>_NO_DELETE rule (param KIND; 4 = PACKAGE_NO_DELETE)
// reports something, the FILE category reports something too: <kind>_NO_DELETE on the file pair with the same path,
// FILE_NO_DELETE, or FILE_SAME_PACKAGE. Same schema space as C03-E.package-*-no-delete.
func VerifLemma_C04C_PackageImpliesFile() {
	nd := verifParam("ND")
	kind := verifParam("KIND")
	np := verifNondetChoice(2) + 1
	nc := verifNondetChoice(3)
	req := &vbReq{}
	var prevEls, curEls []vbPkgEl
	elKind := kind
	if kind == 4 {
		elKind = 2
	}
	var prevFiles, curFiles []*vFile
	for i := 0; i < np; i++ {
		f := &vFile{path: vbPathPool[i], pkg: vbNondetLetter(), isImport: verifNondetBool()}
		req.prev = append(req.prev, f)
		prevFiles = append(prevFiles, f)
		if i == 0 || verifNondetChoice(2) == 1 {
			n := vbNondetNested(nd)
			vbAssumeFreshPkgEl(f.pkg, n, prevEls)
			prevEls = append(prevEls, vbAddPkgEl(elKind, f, n))
		}
	}
	for i := 0; i < nc; i++ {
		k := i
		if i == 0 && verifNondetChoice(2) == 1 {
			k = 2
		}
		f := &vFile{path: vbPathPool[k], pkg: vbNondetLetter(), isImport: verifNondetBool()}
		req.cur = append(req.cur, f)
		curFiles = append(curFiles, f)
		if verifNondetChoice(2) == 1 {
			n := vbNondetNested(nd)
			vbAssumeFreshPkgEl(f.pkg, n, curEls)
			curEls = append(curEls, vbAddPkgEl(elKind, f, n))
		}
	}
	pkgRW, fileRW := &vRW{}, &vRW{}
	ctx := context.Background()
	var err error
	switch kind {
	case 0:
		err = handleBreakingPackageEnumNoDelete(ctx, pkgRW, req)
	case 1:
		err = handleBreakingPackageExtensionNoDelete(ctx, pkgRW, req)
	case 2:
		err = handleBreakingPackageMessageNoDelete(ctx, pkgRW, req)
	case 3:
		err = handleBreakingPackageServiceNoDelete(ctx, pkgRW, req)
	default:
		err = handleBreakingPackageNoDelete(ctx, pkgRW, req)
	}
	verifAssert(err == nil, "package rule returns no error")
	// the FILE category's counterparts (files paired by path, as NewBreakingFilePairRuleHandler does: C03-H)
	verifAssert(handleBreakingFileNoDelete(ctx, fileRW, req) == nil, "FILE_NO_DELETE returns no error")
	for i := 0; i < len(prevFiles); i++ {
		for j := 0; j < len(curFiles); j++ {
			if prevFiles[i].path != curFiles[j].path {
				continue
			}
			var p, c bufprotosource.File = prevFiles[i], curFiles[j]
			verifAssert(handleBreakingFileSamePackage(fileRW, req, c, p) == nil, "FILE_SAME_PACKAGE returns no error")
			switch kind {
			case 0:
				err = handleBreakingEnumNoDelete(fileRW, req, c, p)
			case 1:
				err = handleBreakingExtensionNoDelete(fileRW, req, c, p)
			case 2:
				err = handleBreakingMessageNoDelete(fileRW, req, c, p)
			case 3:
				err = handleBreakingServiceNoDelete(fileRW, req, c, p)
			default:
				err = nil
			}
			verifAssert(err == nil, "file-level delete rule returns no error")
		}
	}
	verifCover("package and file rules ran")
	if pkgRW.n > 0 {
		verifCover("a package rule fired")
		verifAssert(fileRW.n > 0, "PACKAGE_*_NO_DELETE fires => <kind>_NO_DELETE or FILE_NO_DELETE or FILE_SAME_PACKAGE fires")
	}
}
