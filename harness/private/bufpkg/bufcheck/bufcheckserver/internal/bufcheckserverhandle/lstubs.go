//go:build verif

package bufcheckserverhandle

import (
	"buf.build/go/bufplugin/check"
	"buf.build/go/bufplugin/option"
	"github.com/bufbuild/buf/private/bufpkg/bufcheck/bufcheckserver/internal/bufcheckserverutil"
	"github.com/bufbuild/buf/private/bufpkg/bufprotosource"
	"github.com/bufbuild/buf/private/pkg/protodescriptor"
	"google.golang.org/protobuf/reflect/protoreflect"
	"google.golang.org/protobuf/types/descriptorpb"
)

// Lint stubs (grpB, C05/C06). Every identifier is prefixed lv/Lv/refLint; the breaking-change stubs of this package
// (stubs.go, grpA) are not used. Each stub embeds the repo interface through an alias and overrides what the lint
// handlers read; calling anything else aborts the path ("nil interface invoke").

type (
	lvILoc       = bufprotosource.Location
	lvIFile      = bufprotosource.File
	lvIMsg       = bufprotosource.Message
	lvIEnum      = bufprotosource.Enum
	lvIEnumValue = bufprotosource.EnumValue
	lvIField     = bufprotosource.Field
	lvIOneof     = bufprotosource.Oneof
	lvIService   = bufprotosource.Service
	lvIMethod    = bufprotosource.Method
	lvIImport    = bufprotosource.FileImport
	lvIRW        = bufcheckserverutil.ResponseWriter
	lvIReq       = bufcheckserverutil.Request
	lvIOptions   = option.Options
	lvIOneofDesc = protoreflect.OneofDescriptor
	lvIFieldDesc = protoreflect.FieldDescriptor
)

// lvLoc identifies a location by a tag ("<element>/<what>") and carries the leading comment.
type lvLoc struct {
	lvILoc
	tag     string
	comment string
}

func (l *lvLoc) LeadingComments() string { return l.comment }

type lvFile struct {
	lvIFile
	path     string
	pkg      string
	isImport bool
	syntax   bufprotosource.Syntax
	opt      [8]string // csharp, go, java_package, php, ruby, swift, (unused), (unused)
	jmf      *bool     // java_multiple_files: nil = not set
	msgs     []bufprotosource.Message
	enums    []bufprotosource.Enum
	exts     []bufprotosource.Field
	svcs     []bufprotosource.Service
	imports  []bufprotosource.FileImport
}

func (f *lvFile) Path() string                        { return f.path }
func (f *lvFile) Package() string                     { return f.pkg }
func (f *lvFile) IsImport() bool                      { return f.isImport }
func (f *lvFile) Syntax() bufprotosource.Syntax       { return f.syntax }
func (f *lvFile) Messages() []bufprotosource.Message  { return f.msgs }
func (f *lvFile) Enums() []bufprotosource.Enum        { return f.enums }
func (f *lvFile) Extensions() []bufprotosource.Field  { return f.exts }
func (f *lvFile) Services() []bufprotosource.Service  { return f.svcs }
func (f *lvFile) FileImports() []bufprotosource.FileImport { return f.imports }
func (f *lvFile) loc(what string) bufprotosource.Location {
	return &lvLoc{tag: f.path + "/" + what}
}
func (f *lvFile) PackageLocation() bufprotosource.Location { return f.loc("package") }
func (f *lvFile) CsharpNamespace() string                  { return f.opt[0] }
func (f *lvFile) GoPackage() string                        { return f.opt[1] }
func (f *lvFile) JavaPackage() string                      { return f.opt[2] }
func (f *lvFile) PhpNamespace() string                     { return f.opt[3] }
func (f *lvFile) RubyPackage() string                      { return f.opt[4] }
func (f *lvFile) SwiftPrefix() string                      { return f.opt[5] }
func (f *lvFile) JavaMultipleFiles() bool                  { return f.jmf != nil && *f.jmf }
func (f *lvFile) CsharpNamespaceLocation() bufprotosource.Location   { return f.loc("opt0") }
func (f *lvFile) GoPackageLocation() bufprotosource.Location         { return f.loc("opt1") }
func (f *lvFile) JavaPackageLocation() bufprotosource.Location       { return f.loc("opt2") }
func (f *lvFile) PhpNamespaceLocation() bufprotosource.Location      { return f.loc("opt3") }
func (f *lvFile) RubyPackageLocation() bufprotosource.Location       { return f.loc("opt4") }
func (f *lvFile) SwiftPrefixLocation() bufprotosource.Location       { return f.loc("opt5") }
func (f *lvFile) JavaMultipleFilesLocation() bufprotosource.Location { return f.loc("jmf") }
func (f *lvFile) FileDescriptor() protodescriptor.FileDescriptor {
	fd := &descriptorpb.FileDescriptorProto{}
	if f.jmf != nil {
		fd.Options = &descriptorpb.FileOptions{JavaMultipleFiles: f.jmf}
	}
	return fd
}

// lvNamed: what every named element stub shares.
type lvNamed struct {
	file    *lvFile
	id      string // unique tag prefix of the element
	name    string
	comment string
	noLoc   bool // Location() == nil (elements without source info)
}

func (n *lvNamed) File() bufprotosource.File { return n.file }
func (n *lvNamed) Name() string              { return n.name }
func (n *lvNamed) NameLocation() bufprotosource.Location {
	return &lvLoc{tag: n.id + "/name"}
}
func (n *lvNamed) Location() bufprotosource.Location {
	if n.noLoc {
		return nil
	}
	return &lvLoc{tag: n.id + "/decl", comment: n.comment}
}

type lvMsg struct {
	lvIMsg
	lvNamed
	isMapEntry bool
	fields     []bufprotosource.Field
	exts       []bufprotosource.Field
	oneofs     []bufprotosource.Oneof
	msgs       []bufprotosource.Message
	enums      []bufprotosource.Enum
}

func (m *lvMsg) File() bufprotosource.File             { return m.lvNamed.File() }
func (m *lvMsg) Name() string                          { return m.lvNamed.Name() }
func (m *lvMsg) NameLocation() bufprotosource.Location { return m.lvNamed.NameLocation() }
func (m *lvMsg) Location() bufprotosource.Location     { return m.lvNamed.Location() }
func (m *lvMsg) IsMapEntry() bool                      { return m.isMapEntry }
func (m *lvMsg) Fields() []bufprotosource.Field        { return m.fields }
func (m *lvMsg) Extensions() []bufprotosource.Field    { return m.exts }
func (m *lvMsg) Oneofs() []bufprotosource.Oneof        { return m.oneofs }
func (m *lvMsg) Messages() []bufprotosource.Message    { return m.msgs }
func (m *lvMsg) Enums() []bufprotosource.Enum          { return m.enums }

type lvEnum struct {
	lvIEnum
	lvNamed
	values     []bufprotosource.EnumValue
	allowAlias bool
}

func (e *lvEnum) File() bufprotosource.File             { return e.lvNamed.File() }
func (e *lvEnum) Name() string                          { return e.lvNamed.Name() }
func (e *lvEnum) NameLocation() bufprotosource.Location { return e.lvNamed.NameLocation() }
func (e *lvEnum) Location() bufprotosource.Location     { return e.lvNamed.Location() }
func (e *lvEnum) Values() []bufprotosource.EnumValue    { return e.values }
func (e *lvEnum) AllowAlias() bool                      { return e.allowAlias }
func (e *lvEnum) AllowAliasLocation() bufprotosource.Location {
	return &lvLoc{tag: e.id + "/allow_alias"}
}

type lvEnumValue struct {
	lvIEnumValue
	lvNamed
	enum   *lvEnum
	number int
}

func (v *lvEnumValue) File() bufprotosource.File             { return v.lvNamed.File() }
func (v *lvEnumValue) Name() string                          { return v.lvNamed.Name() }
func (v *lvEnumValue) NameLocation() bufprotosource.Location { return v.lvNamed.NameLocation() }
func (v *lvEnumValue) Location() bufprotosource.Location     { return v.lvNamed.Location() }
func (v *lvEnumValue) Enum() bufprotosource.Enum             { return v.enum }
func (v *lvEnumValue) Number() int                           { return v.number }
func (v *lvEnumValue) NumberLocation() bufprotosource.Location {
	return &lvLoc{tag: v.id + "/number"}
}

type lvFieldDesc struct {
	lvIFieldDesc
	card protoreflect.Cardinality
}

func (d *lvFieldDesc) Cardinality() protoreflect.Cardinality { return d.card }

type lvField struct {
	lvIField
	lvNamed
	parent         *lvMsg // nil for file-level extensions
	typ            descriptorpb.FieldDescriptorProto_Type
	proto3Optional bool
	card           protoreflect.Cardinality
}

func (f *lvField) File() bufprotosource.File             { return f.lvNamed.File() }
func (f *lvField) Name() string                          { return f.lvNamed.Name() }
func (f *lvField) NameLocation() bufprotosource.Location { return f.lvNamed.NameLocation() }
func (f *lvField) Location() bufprotosource.Location     { return f.lvNamed.Location() }
func (f *lvField) ParentMessage() bufprotosource.Message {
	if f.parent == nil {
		return nil
	}
	return f.parent
}
func (f *lvField) Type() descriptorpb.FieldDescriptorProto_Type { return f.typ }
func (f *lvField) Proto3Optional() bool                         { return f.proto3Optional }
func (f *lvField) AsDescriptor() (protoreflect.FieldDescriptor, error) {
	return &lvFieldDesc{card: f.card}, nil
}

type lvOneofDesc struct {
	lvIOneofDesc
	synthetic bool
}

func (d *lvOneofDesc) IsSynthetic() bool { return d.synthetic }

type lvOneof struct {
	lvIOneof
	lvNamed
	fields    []bufprotosource.Field
	synthetic bool
}

func (o *lvOneof) File() bufprotosource.File             { return o.lvNamed.File() }
func (o *lvOneof) Name() string                          { return o.lvNamed.Name() }
func (o *lvOneof) NameLocation() bufprotosource.Location { return o.lvNamed.NameLocation() }
func (o *lvOneof) Location() bufprotosource.Location     { return o.lvNamed.Location() }
func (o *lvOneof) Fields() []bufprotosource.Field        { return o.fields }
func (o *lvOneof) AsDescriptor() (protoreflect.OneofDescriptor, error) {
	return &lvOneofDesc{synthetic: o.synthetic}, nil
}

type lvService struct {
	lvIService
	lvNamed
	methods []bufprotosource.Method
}

func (s *lvService) File() bufprotosource.File             { return s.lvNamed.File() }
func (s *lvService) Name() string                          { return s.lvNamed.Name() }
func (s *lvService) NameLocation() bufprotosource.Location { return s.lvNamed.NameLocation() }
func (s *lvService) Location() bufprotosource.Location     { return s.lvNamed.Location() }
func (s *lvService) Methods() []bufprotosource.Method      { return s.methods }

type lvMethod struct {
	lvIMethod
	lvNamed
	service         *lvService
	fullName        string
	in, out         string
	clientStreaming bool
	serverStreaming bool
}

func (m *lvMethod) File() bufprotosource.File             { return m.lvNamed.File() }
func (m *lvMethod) Name() string                          { return m.lvNamed.Name() }
func (m *lvMethod) NameLocation() bufprotosource.Location { return m.lvNamed.NameLocation() }
func (m *lvMethod) Location() bufprotosource.Location     { return m.lvNamed.Location() }
func (m *lvMethod) FullName() string                      { return m.fullName }
func (m *lvMethod) Service() bufprotosource.Service {
	if m.service == nil {
		return nil
	}
	return m.service
}
func (m *lvMethod) InputTypeName() string  { return m.in }
func (m *lvMethod) OutputTypeName() string { return m.out }
func (m *lvMethod) ClientStreaming() bool  { return m.clientStreaming }
func (m *lvMethod) ServerStreaming() bool  { return m.serverStreaming }
func (m *lvMethod) InputTypeLocation() bufprotosource.Location {
	return &lvLoc{tag: m.id + "/input"}
}
func (m *lvMethod) OutputTypeLocation() bufprotosource.Location {
	return &lvLoc{tag: m.id + "/output"}
}

type lvImport struct {
	lvIImport
	file     *lvFile
	id       string
	path     string
	isPublic bool
	isWeak   bool
	isUnused bool
}

func (i *lvImport) File() bufprotosource.File { return i.file }
func (i *lvImport) Import() string            { return i.path }
func (i *lvImport) IsPublic() bool            { return i.isPublic }
func (i *lvImport) IsWeak() bool              { return i.isWeak }
func (i *lvImport) IsUnused() bool            { return i.isUnused }
func (i *lvImport) Location() bufprotosource.Location {
	return &lvLoc{tag: i.id + "/decl"}
}

// lvAnn is one recorded annotation.
type lvAnn struct {
	loc  string // tag of the location, "" when nil / not an lvLoc, "<AddAnnotation>" for check.ResponseWriter.AddAnnotation
	file string
}

// lvRW records the annotations a handler adds.
type lvRW struct {
	lvIRW
	anns []lvAnn
}

func (w *lvRW) AddProtosourceAnnotation(location bufprotosource.Location, against bufprotosource.Location, fileName string, format string, args ...any) {
	tag := ""
	if l, ok := location.(*lvLoc); ok && l != nil {
		tag = l.tag
	}
	w.anns = append(w.anns, lvAnn{loc: tag, file: fileName})
}

func (w *lvRW) AddAnnotation(options ...check.AddAnnotationOption) {
	w.anns = append(w.anns, lvAnn{loc: "<AddAnnotation>"})
}

// lvHas reports whether an annotation with that location tag and file was recorded.
func (w *lvRW) lvHas(loc, file string) bool {
	for _, a := range w.anns {
		if a.loc == loc && a.file == file {
			return true
		}
	}
	return false
}

type lvOptions struct {
	lvIOptions
	m map[string]any
}

func (o *lvOptions) Get(key string) (any, bool) {
	v, ok := o.m[key]
	return v, ok
}

type lvReq struct {
	lvIReq
	opts  *lvOptions
	files []bufprotosource.File
}

func (r *lvReq) Options() option.Options                  { return r.opts }
func (r *lvReq) ProtosourceFiles() []bufprotosource.File  { return r.files }

func lvNewReq(kv map[string]any) *lvReq {
	if kv == nil {
		kv = map[string]any{}
	}
	return &lvReq{opts: &lvOptions{m: kv}}
}

// ---- reference grammars (see harness/private/pkg/stringutil/c05a.go, lemmas C05-A.*) ----

func refLintIsIdentByte(c byte) bool {
	return (c >= 'a' && c <= 'z') || (c >= 'A' && c <= 'Z') || (c >= '0' && c <= '9') || c == '_'
}

func refLintIsPascal(s string) bool {
	if len(s) == 0 {
		return false
	}
	if s[0] >= 'a' && s[0] <= 'z' {
		return false
	}
	for i := 0; i < len(s); i++ {
		if s[i] == '_' {
			return false
		}
	}
	return true
}

// refLintIsSnake: [lo-hi0-9]+(_[lo-hi0-9]+)*
func refLintIsSnake(s string, lo, hi byte) bool {
	if len(s) == 0 {
		return false
	}
	prevUnderscore := true
	for i := 0; i < len(s); i++ {
		c := s[i]
		if c == '_' {
			if prevUnderscore {
				return false
			}
			prevUnderscore = true
			continue
		}
		if !((c >= lo && c <= hi) || (c >= '0' && c <= '9')) {
			return false
		}
		prevUnderscore = false
	}
	return !prevUnderscore
}

// lvNondetIdent: a non-empty string of at most n bytes over [A-Za-z0-9_].
func lvNondetIdent(n int) string {
	s := verifNondetString(n)
	verifAssume(len(s) > 0)
	for i := 0; i < len(s); i++ {
		verifAssume(refLintIsIdentByte(s[i]))
	}
	return s
}

func refLintHasSuffix(s, suffix string) bool {
	if len(suffix) > len(s) {
		return false
	}
	off := len(s) - len(suffix)
	for i := 0; i < len(suffix); i++ {
		if s[off+i] != suffix[i] {
			return false
		}
	}
	return true
}

func refLintHasPrefix(s, prefix string) bool {
	if len(prefix) > len(s) {
		return false
	}
	for i := 0; i < len(prefix); i++ {
		if s[i] != prefix[i] {
			return false
		}
	}
	return true
}
