//go:build verif

package bufcheckserverhandle

import (
	"github.com/bufbuild/buf/private/bufpkg/bufprotosource"
	"google.golang.org/protobuf/reflect/protoreflect"
)

// lvUpperWord upper-cases a single PascalCase word ([A-Z][a-z0-9]*).
func lvUpperWord(s string) string {
	b := []byte(s)
	for i := range b {
		if b[i] >= 'a' && b[i] <= 'z' {
			b[i] -= 'a' - 'A'
		}
	}
	return string(b)
}

// lvPlants names the planted violations of VerifLemma_C05G_SinglePlantedViolation (index 0 = none) and, for each,
// the one rule that must report it.
var lvPlants = []string{
	"", "MESSAGE_PASCAL_CASE", "FIELD_LOWER_SNAKE_CASE", "ENUM_NO_ALLOW_ALIAS", "ENUM_FIRST_VALUE_ZERO", "ENUM_VALUE_PREFIX",
	"ENUM_ZERO_VALUE_SUFFIX", "ENUM_VALUE_UPPER_SNAKE_CASE", "SERVICE_SUFFIX", "RPC_REQUEST_STANDARD_NAME",
	"RPC_RESPONSE_STANDARD_NAME", "RPC_NO_CLIENT_STREAMING", "PACKAGE_VERSION_SUFFIX", "PACKAGE_DIRECTORY_MATCH",
	"FILE_LOWER_SNAKE_CASE", "IMPORT_NO_PUBLIC", "IMPORT_USED", "SYNTAX_SPECIFIED", "FIELD_NOT_REQUIRED", "PACKAGE_DEFINED",
	"PACKAGE_LOWER_SNAKE_CASE", "ENUM_PASCAL_CASE", "ONEOF_LOWER_SNAKE_CASE", "RPC_PASCAL_CASE", "SERVICE_PASCAL_CASE",
	"RPC_NO_SERVER_STREAMING", "RPC_REQUEST_RESPONSE_UNIQUE", "PACKAGE_SAME_GO_PACKAGE", "PACKAGE_SAME_DIRECTORY",
	"DIRECTORY_SAME_PACKAGE",
}

// VerifLemma_C05G_SinglePlantedViolation: the property's statement on one schema. A file that follows every rule by
// construction (names symbolic, drawn from the rule grammars) gets no annotation from any of 29 element-level and
// grouping lint handlers; planting exactly one violation (29 planting operators, structural choice) makes exactly the
// planted rule report - at the offending element and nowhere else - and every other rule stays silent.
func VerifLemma_C05G_SinglePlantedViolation() {
	plant := verifNondetChoice(len(lvPlants))
	// ---- clean-by-construction schema ----
	msgName := lvNondetIdent(verifParam("N"))
	verifAssume(refLintIsPascal(msgName))
	fieldName := lvNondetIdent(verifParam("N"))
	verifAssume(refLintIsSnake(fieldName, 'a', 'z'))
	enumName := lvNondetIdent(verifParam("N"))
	verifAssume(enumName[0] >= 'A' && enumName[0] <= 'Z')
	for i := 1; i < len(enumName); i++ {
		verifAssume((enumName[i] >= 'a' && enumName[i] <= 'z') || (enumName[i] >= '0' && enumName[i] <= '9'))
	}
	prefix := lvUpperWord(enumName) + "_"
	svcBase := verifNondetStringN(1)
	verifAssume(svcBase[0] >= 'A' && svcBase[0] <= 'Z')
	rpcName := verifNondetStringN(1)
	verifAssume(rpcName[0] >= 'A' && rpcName[0] <= 'Z')

	syntax := bufprotosource.SyntaxProto3
	file := &lvFile{path: "a/v1/x_y.proto", pkg: "a.v1", syntax: syntax}
	file.opt[1] = "example.com/a/v1"
	sibling := &lvFile{path: "a/v1/z.proto", pkg: "a.v1", syntax: syntax} // same package, same directory, same options
	sibling.opt[1] = "example.com/a/v1"
	msg := &lvMsg{lvNamed: lvNamed{file: file, id: "msg", name: msgName}}
	field := &lvField{lvNamed: lvNamed{file: file, id: "field", name: fieldName}, parent: msg, typ: 9, card: protoreflect.Optional}
	oneof := &lvOneof{lvNamed: lvNamed{file: file, id: "oneof", name: "choice"}, fields: []bufprotosource.Field{field, field}}
	enum := &lvEnum{lvNamed: lvNamed{file: file, id: "enum", name: enumName}}
	v0 := &lvEnumValue{lvNamed: lvNamed{file: file, id: "v0", name: prefix + "UNSPECIFIED"}, enum: enum, number: 0}
	v1 := &lvEnumValue{lvNamed: lvNamed{file: file, id: "v1", name: prefix + "A"}, enum: enum, number: 1}
	enum.values = []bufprotosource.EnumValue{v0, v1}
	svc := &lvService{lvNamed: lvNamed{file: file, id: "svc", name: svcBase + "Service"}}
	rpc := &lvMethod{lvNamed: lvNamed{file: file, id: "rpc", name: rpcName}, service: svc, fullName: "a.v1.S.R",
		in: "a.v1." + rpcName + "Request", out: "a.v1." + rpcName + "Response"}
	rpc2 := &lvMethod{lvNamed: lvNamed{file: file, id: "rpc2", name: "Zz"}, service: svc, fullName: "a.v1.S.Zz",
		in: "a.v1.ZzRequest", out: "a.v1.ZzResponse"}
	svc.methods = []bufprotosource.Method{rpc, rpc2}
	file.svcs = []bufprotosource.Service{svc}
	imp := &lvImport{file: file, id: "imp", path: "a/v1/z.proto"}

	// ---- plant one violation ----
	where := "" // location tag of the expected annotation
	whereFile := file.path
	switch lvPlants[plant] {
	case "MESSAGE_PASCAL_CASE":
		msg.name, where = "x"+msgName, "msg/name"
	case "FIELD_LOWER_SNAKE_CASE":
		field.name, where = fieldName+"X", "field/name"
	case "ENUM_NO_ALLOW_ALIAS":
		enum.allowAlias, where = true, "enum/allow_alias"
	case "ENUM_FIRST_VALUE_ZERO":
		v0.number, where = 5, "v0/number"
	case "ENUM_VALUE_PREFIX":
		v1.name, where = "A", "v1/name"
	case "ENUM_ZERO_VALUE_SUFFIX":
		v0.name, where = prefix+"ZERO", "v0/name"
	case "ENUM_VALUE_UPPER_SNAKE_CASE":
		v1.name, where = prefix+"a", "v1/name"
	case "SERVICE_SUFFIX":
		svc.name, where = svcBase, "svc/name"
	case "RPC_REQUEST_STANDARD_NAME":
		rpc.in, where = "a.v1.Foo", "rpc/input"
	case "RPC_RESPONSE_STANDARD_NAME":
		rpc.out, where = "a.v1.Bar", "rpc/output"
	case "RPC_NO_CLIENT_STREAMING":
		rpc.clientStreaming, where = true, "rpc/decl"
	case "RPC_NO_SERVER_STREAMING":
		rpc.serverStreaming, where = true, "rpc/decl"
	case "PACKAGE_VERSION_SUFFIX":
		file.pkg, file.path = "a", "a/x_y.proto"
		sibling.pkg, sibling.path = "a", "a/z.proto"
		where, whereFile = "a/x_y.proto/package", "a/x_y.proto"
	case "PACKAGE_DIRECTORY_MATCH":
		file.path, sibling.path = "b/v1/x_y.proto", "b/v1/z.proto"
		where, whereFile = "b/v1/x_y.proto/package", "b/v1/x_y.proto"
	case "FILE_LOWER_SNAKE_CASE":
		file.path = "a/v1/xY.proto"
		where, whereFile = "", "a/v1/xY.proto"
	case "IMPORT_NO_PUBLIC":
		imp.isPublic, where = true, "imp/decl"
	case "IMPORT_USED":
		imp.isUnused, where = true, "imp/decl"
	case "SYNTAX_SPECIFIED":
		file.syntax, where = bufprotosource.SyntaxUnspecified, "<AddAnnotation>"
	case "FIELD_NOT_REQUIRED":
		field.card, where = protoreflect.Required, "field/name"
	case "PACKAGE_DEFINED":
		file.pkg, sibling.pkg, where = "", "", "<AddAnnotation>"
	case "PACKAGE_LOWER_SNAKE_CASE":
		file.pkg, file.path = "aB.v1", "aB/v1/x_y.proto"
		sibling.pkg, sibling.path = "aB.v1", "aB/v1/z.proto"
		where, whereFile = "aB/v1/x_y.proto/package", "aB/v1/x_y.proto"
	case "ENUM_PASCAL_CASE":
		enum.name, where = enumName+"_", "enum/name" // same UPPER_SNAKE prefix, so the value rules stay satisfied
	case "ONEOF_LOWER_SNAKE_CASE":
		oneof.name, where = "Choice", "oneof/name"
	case "RPC_PASCAL_CASE":
		rpc.name = "x" + rpcName
		rpc.in, rpc.out = "a.v1.X"+rpcName+"Request", "a.v1.X"+rpcName+"Response"
		where = "rpc/name"
	case "SERVICE_PASCAL_CASE":
		svc.name, where = "x"+svcBase+"Service", "svc/name"
	case "RPC_REQUEST_RESPONSE_UNIQUE":
		// same type for request and response; Empty so that the two standard-name rules (run with both
		// allow-Empty options below) have nothing to say about the names
		rpc2.in, rpc2.out = "google.protobuf.Empty", "google.protobuf.Empty"
		where = "rpc2/decl"
	case "PACKAGE_SAME_GO_PACKAGE":
		sibling.opt[1] = "example.com/other"
		where = file.path + "/opt1"
	case "PACKAGE_SAME_DIRECTORY":
		sibling.path = "c/z.proto"
		where = file.path + "/package"
	case "DIRECTORY_SAME_PACKAGE":
		sibling.pkg = "b.v1"
		where = file.path + "/package"
	}

	// ---- run every handler ----
	counts := map[string]int{}
	hits := map[string]bool{}
	stray := false // an annotation of the planted rule somewhere else than at the offending element(s)
	grouping := lvPlants[plant] == "PACKAGE_SAME_GO_PACKAGE" || lvPlants[plant] == "PACKAGE_SAME_DIRECTORY" || lvPlants[plant] == "DIRECTORY_SAME_PACKAGE"
	req := lvNewReq(nil)
	// the standard-name rules run with both allow-Empty options (so that Empty request/response names are fine),
	// RPC_REQUEST_RESPONSE_UNIQUE runs with the defaults
	nameReq := lvNewReq(map[string]any{"rpc_allow_google_protobuf_empty_requests": true, "rpc_allow_google_protobuf_empty_responses": true})
	run := func(rule string, err error, w *lvRW) {
		verifAssert(err == nil, "handlers do not fail")
		counts[rule] += len(w.anns)
		if rule == lvPlants[plant] {
			if w.lvHasFor(where, whereFile) {
				hits[rule] = true
			}
			for _, a := range w.anns {
				atFile := a.loc == where && (a.file == whereFile || where == "<AddAnnotation>")
				atSibling := grouping && a.file == sibling.path && len(a.loc) > len(sibling.path) && a.loc[:len(sibling.path)] == sibling.path
				if !atFile && !atSibling {
					stray = true
				}
			}
		}
	}
	ifiles := []bufprotosource.File{file, sibling}
	for _, f := range []*lvFile{file} {
		w := &lvRW{}
		run("FILE_LOWER_SNAKE_CASE", handleLintFileLowerSnakeCase(w, req, f), w)
		w = &lvRW{}
		run("PACKAGE_DEFINED", handleLintPackageDefined(w, req, f), w)
		w = &lvRW{}
		run("PACKAGE_DIRECTORY_MATCH", handleLintPackageDirectoryMatch(w, req, f), w)
		w = &lvRW{}
		run("PACKAGE_LOWER_SNAKE_CASE", handleLintPackageLowerSnakeCase(w, req, f), w)
		w = &lvRW{}
		run("PACKAGE_VERSION_SUFFIX", handleLintPackageVersionSuffix(w, req, f), w)
		w = &lvRW{}
		run("SYNTAX_SPECIFIED", handleLintSyntaxSpecified(w, req, f), w)
	}
	w := &lvRW{}
	run("MESSAGE_PASCAL_CASE", handleLintMessagePascalCase(w, req, msg), w)
	w = &lvRW{}
	run("FIELD_LOWER_SNAKE_CASE", handleLintFieldLowerSnakeCase(w, req, field), w)
	w = &lvRW{}
	run("FIELD_NOT_REQUIRED", handleLintFieldNotRequired(w, req, field), w)
	w = &lvRW{}
	run("ONEOF_LOWER_SNAKE_CASE", handleLintOneofLowerSnakeCase(w, req, oneof), w)
	w = &lvRW{}
	run("ENUM_PASCAL_CASE", handleLintEnumPascalCase(w, req, enum), w)
	w = &lvRW{}
	run("ENUM_NO_ALLOW_ALIAS", handleLintEnumNoAllowAlias(w, req, enum), w)
	w = &lvRW{}
	run("ENUM_FIRST_VALUE_ZERO", handleLintEnumFirstValueZero(w, req, enum), w)
	for _, v := range []*lvEnumValue{v0, v1} {
		w = &lvRW{}
		run("ENUM_VALUE_PREFIX", handleLintEnumValuePrefix(w, req, v), w)
		w = &lvRW{}
		run("ENUM_VALUE_UPPER_SNAKE_CASE", handleLintEnumValueUpperSnakeCase(w, req, v), w)
		w = &lvRW{}
		run("ENUM_ZERO_VALUE_SUFFIX", handleLintEnumZeroValueSuffix(w, req, v), w)
	}
	w = &lvRW{}
	run("SERVICE_PASCAL_CASE", handleLintServicePascalCase(w, req, svc), w)
	w = &lvRW{}
	run("SERVICE_SUFFIX", handleLintServiceSuffix(w, req, svc), w)
	for _, m := range []*lvMethod{rpc, rpc2} {
		w = &lvRW{}
		run("RPC_PASCAL_CASE", handleLintRPCPascalCase(w, req, m), w)
		w = &lvRW{}
		run("RPC_REQUEST_STANDARD_NAME", handleLintRPCRequestStandardName(w, nameReq, m), w)
		w = &lvRW{}
		run("RPC_RESPONSE_STANDARD_NAME", handleLintRPCResponseStandardName(w, nameReq, m), w)
		w = &lvRW{}
		run("RPC_NO_CLIENT_STREAMING", handleLintRPCNoClientStreaming(w, req, m), w)
		w = &lvRW{}
		run("RPC_NO_SERVER_STREAMING", handleLintRPCNoServerStreaming(w, req, m), w)
	}
	w = &lvRW{}
	run("RPC_REQUEST_RESPONSE_UNIQUE", handleLintRPCRequestResponseUnique(w, req, ifiles), w)
	w = &lvRW{}
	run("IMPORT_NO_PUBLIC", handleLintImportNoPublic(w, req, imp), w)
	w = &lvRW{}
	run("IMPORT_USED", handleLintImportUsed(w, req, imp), w)
	// grouping rules, grouped as the real helpers do it (one package / one directory unless the plant splits them)
	if file.pkg == sibling.pkg {
		w = &lvRW{}
		run("PACKAGE_SAME_GO_PACKAGE", handleLintPackageSameGoPackage(w, req, file.pkg, ifiles), w)
		w = &lvRW{}
		run("PACKAGE_SAME_DIRECTORY", handleLintPackageSameDirectory(w, req, file.pkg, ifiles), w)
	}
	if lvDirOf(file.path) == lvDirOf(sibling.path) {
		w = &lvRW{}
		run("DIRECTORY_SAME_PACKAGE", handleLintDirectorySamePackage(w, req, lvDirOf(file.path), ifiles), w)
	}
	verifCover("all handlers ran")

	// ---- exactly the planted rule reports ----
	planted := lvPlants[plant]
	for _, rule := range lvPlants[1:] {
		if rule == planted {
			continue
		}
		verifAssert(counts[rule] == 0, "a rule whose element is conforming stays silent")
	}
	if planted != "" {
		verifCover("violation planted")
		verifAssert(hits[planted], "the planted rule reports at the offending element")
		verifAssert(!stray, "the planted rule reports nowhere else than at the offending element(s)")
	}
}

func lvDirOf(path string) string {
	for i := len(path) - 1; i >= 0; i-- {
		if path[i] == '/' {
			return path[:i]
		}
	}
	return "."
}

// lvHasFor is lvHas, except that file-level annotations made through check.ResponseWriter.AddAnnotation carry no
// recorded file name.
func (w *lvRW) lvHasFor(loc, file string) bool {
	if loc == "<AddAnnotation>" {
		file = ""
	}
	return w.lvHas(loc, file)
}
