//go:build verif

package bufcheckserverhandle

import (
	"github.com/bufbuild/buf/private/bufpkg/bufprotosource"
)

// VerifLemma_C05C_EnumValuePrefix: ENUM_VALUE_PREFIX. The expected prefix is UPPER_SNAKE(enum name) + "_".
// Oracle without re-implementing the converter (C05-A.* decide it): for an enum name E that already is
// UPPER_SNAKE_CASE the prefix is E itself; for a single-word PascalCase name Xyz (one capital followed by lower-case
// letters/digits) it is the upper-cased word. Then: value name has the prefix => nothing; otherwise exactly one
// annotation at the value's name location.
func VerifLemma_C05C_EnumValuePrefix() {
	file := &lvFile{path: "dir/a.proto"}
	enumName := lvNondetIdent(verifParam("EN"))
	valueName := lvNondetIdent(verifParam("VN"))
	var want string
	if verifNondetBool() {
		verifAssume(refLintIsSnake(enumName, 'A', 'Z'))
		want = enumName + "_"
	} else {
		// single PascalCase word
		verifAssume(enumName[0] >= 'A' && enumName[0] <= 'Z')
		up := make([]byte, len(enumName))
		up[0] = enumName[0]
		for i := 1; i < len(enumName); i++ {
			c := enumName[i]
			verifAssume((c >= 'a' && c <= 'z') || (c >= '0' && c <= '9'))
			if c >= 'a' && c <= 'z' {
				c -= 'a' - 'A'
			}
			up[i] = c
		}
		want = string(up) + "_"
	}
	enum := &lvEnum{lvNamed: lvNamed{file: file, id: "enum", name: enumName}}
	value := &lvEnumValue{lvNamed: lvNamed{file: file, id: "value", name: valueName}, enum: enum}
	w := &lvRW{}
	err := handleLintEnumValuePrefix(w, lvNewReq(nil), value)
	verifCover("handled")
	verifAssert(err == nil, "no error")
	if refLintHasPrefix(valueName, want) {
		verifCover("prefixed")
		verifAssert(len(w.anns) == 0, "a value name with the enum's prefix is not reported")
	} else {
		verifCover("violation")
		verifAssert(lvReportedOnlyAt(w, "value/name", "dir/a.proto"), "a value name without the prefix is reported once at its name location")
	}
}

// VerifLemma_C05C_EnumZeroValueSuffix: ENUM_ZERO_VALUE_SUFFIX with the configured suffix (symbolic option, empty =>
// "_UNSPECIFIED") and ENUM_FIRST_VALUE_ZERO: reported iff (number == 0 and the name lacks the suffix) resp.
// (the enum has values and the first one is non-zero, at that value's number location).
func VerifLemma_C05C_EnumZeroValue() {
	file := &lvFile{path: "dir/a.proto"}
	suffix := verifNondetString(verifParam("SN"))
	// symbolic head + one of the default suffix and its near-misses, so that the default is decided in both directions
	name := lvNondetIdent(verifParam("VN")) + []string{"", "_UNSPECIFIED", "_UNSPECIFIE", "UNSPECIFIED", "_unspecified"}[verifNondetChoice(5)]
	number := verifNondetInt(-2147483648, 2147483647)
	opts := map[string]any{}
	eff := "_UNSPECIFIED"
	if len(suffix) > 0 {
		opts["enum_zero_value_suffix"] = suffix
		eff = suffix
	}
	enum := &lvEnum{lvNamed: lvNamed{file: file, id: "enum", name: "E"}}
	value := &lvEnumValue{lvNamed: lvNamed{file: file, id: "value", name: name}, enum: enum, number: number}
	w := &lvRW{}
	err := handleLintEnumZeroValueSuffix(w, lvNewReq(opts), value)
	verifCover("handled")
	verifAssert(err == nil, "no error")
	if number == 0 && !refLintHasSuffix(name, eff) {
		verifCover("suffix violation")
		verifAssert(lvReportedOnlyAt(w, "value/name", "dir/a.proto"), "zero value without the suffix is reported once at its name")
	} else {
		verifAssert(len(w.anns) == 0, "non-zero values and suffixed zero values are not reported")
	}

	// ENUM_FIRST_VALUE_ZERO over 0..2 values; the first value is the symbolic one.
	nValues := verifNondetChoice(3)
	var values []bufprotosource.EnumValue
	if nValues > 0 {
		values = append(values, value)
	}
	if nValues > 1 {
		values = append(values, &lvEnumValue{lvNamed: lvNamed{file: file, id: "second", name: "B"}, enum: enum, number: verifNondetInt(-5, 5)})
	}
	enum.values = values
	w2 := &lvRW{}
	err = handleLintEnumFirstValueZero(w2, lvNewReq(nil), enum)
	verifAssert(err == nil, "no error (first value zero)")
	if nValues > 0 && number != 0 {
		verifCover("first value non-zero")
		verifAssert(lvReportedOnlyAt(w2, "value/number", "dir/a.proto"), "non-zero first value is reported once at its number")
	} else {
		verifAssert(len(w2.anns) == 0, "empty enum or zero first value is not reported")
	}
}

// VerifLemma_C05C_ServiceSuffix: SERVICE_SUFFIX with the configured suffix (symbolic option, empty => "Service").
func VerifLemma_C05C_ServiceSuffix() {
	file := &lvFile{path: "dir/a.proto"}
	suffix := verifNondetString(verifParam("SN"))
	name := lvNondetIdent(verifParam("VN")) + []string{"", "Service", "Servic", "service", "ServiceX"}[verifNondetChoice(5)]
	opts := map[string]any{}
	eff := "Service"
	if len(suffix) > 0 {
		opts["service_suffix"] = suffix
		eff = suffix
	}
	svc := &lvService{lvNamed: lvNamed{file: file, id: "svc", name: name}}
	w := &lvRW{}
	err := handleLintServiceSuffix(w, lvNewReq(opts), svc)
	verifCover("handled")
	verifAssert(err == nil, "no error")
	if refLintHasSuffix(name, eff) {
		verifCover("suffixed")
		verifAssert(len(w.anns) == 0, "suffixed service is not reported")
	} else {
		verifAssert(lvReportedOnlyAt(w, "svc/name", "dir/a.proto"), "service without the suffix is reported once at its name")
	}
}

// VerifLemma_C05C_RPCStandardName: RPC_REQUEST_STANDARD_NAME / RPC_RESPONSE_STANDARD_NAME. Method name M and
// service name S are PascalCase by assumption (so ToPascalCase leaves them alone, C05-A.pascal); the request
// (response) type is pkg-prefix + L with L = X or X+"Request" ("Response"), X fully symbolic. Not reported iff L is M+"Request" or S+M+"Request"
// (resp. "Response"), or the type is google.protobuf.Empty and the allow flag is set; otherwise reported once at
// the input (output) type location.
func VerifLemma_C05C_RPCStandardName() {
	file := &lvFile{path: "dir/a.proto"}
	m := lvNondetIdent(verifParam("MN"))
	s := verifNondetStringN(1) // service name: one capital letter (keeps S+M within reach of X)
	verifAssume(s[0] >= 'A' && s[0] <= 'Z')
	verifAssume(refLintIsPascal(m))
	response := verifNondetBool()
	word, key, locTag := "Request", "rpc_allow_google_protobuf_empty_requests", "rpc/input"
	if response {
		word, key, locTag = "Response", "rpc_allow_google_protobuf_empty_responses", "rpc/output"
	}
	allowEmpty := verifNondetBool()
	opts := map[string]any{}
	if allowEmpty {
		opts[key] = true
	}
	// last component of the type name: X + "Request"/"Response" or a bare X, X every identifier string of 0..LN bytes
	// (X == M and X == S+M are the two standard names), or Empty
	var typeName, last string
	isEmpty := false
	form := verifNondetChoice(4)
	if form == 0 {
		typeName, last, isEmpty = "google.protobuf.Empty", "Empty", true
	} else if form == 3 {
		// a message that is merely *named* Empty (user-defined, nested, or in a look-alike package) is not the
		// well-known type: the allow option does not apply to it
		last = "Empty"
		typeName = []string{"Empty", "pkg.v1.Empty", "Outer.Empty", "google.protobuf.v2.Empty", "x.google.protobuf.Empty", "google.protobuf.Empty.Empty"}[verifNondetChoice(6)]
	} else {
		x := verifNondetString(verifParam("LN"))
		for i := 0; i < len(x); i++ {
			verifAssume(refLintIsIdentByte(x[i]))
		}
		last = x
		if form == 1 {
			last = x + word
		}
		switch verifNondetChoice(3) {
		case 0:
			typeName = last
		case 1:
			typeName = "pkg.v1." + last
		case 2:
			typeName = "Outer." + last
		}
	}
	svc := &lvService{lvNamed: lvNamed{file: file, id: "svc", name: s}}
	rpc := &lvMethod{lvNamed: lvNamed{file: file, id: "rpc", name: m}, service: svc, in: "x.In", out: "x.Out"}
	if response {
		rpc.out = typeName
	} else {
		rpc.in = typeName
	}
	w := &lvRW{}
	var err error
	if response {
		err = handleLintRPCResponseStandardName(w, lvNewReq(opts), rpc)
	} else {
		err = handleLintRPCRequestStandardName(w, lvNewReq(opts), rpc)
	}
	verifCover("handled")
	verifAssert(err == nil, "no error")
	ok := last == m+word || last == s+m+word || (isEmpty && allowEmpty)
	if ok {
		verifCover("standard name")
		verifAssert(len(w.anns) == 0, "standard request/response name (or allowed Empty) is not reported")
	} else {
		verifCover("violation")
		verifAssert(lvReportedOnlyAt(w, locTag, "dir/a.proto"), "non-standard name is reported once at the type location")
	}
}

// VerifLemma_C05C_PackageRules: PACKAGE_DEFINED, PACKAGE_VERSION_SUFFIX (wiring to protoversion, decided by
// C05-C.version-*) and PACKAGE_DIRECTORY_MATCH: a file in directory D (normalized, symbolic) with package P
// (symbolic over [a-z.]) is reported at its package location iff P != "" and P with '.' -> '/' differs from D
// ("." for a file in the root).
func VerifLemma_C05C_PackageRules() {
	pkg := verifNondetString(verifParam("PN"))
	for i := 0; i < len(pkg); i++ {
		verifAssume((pkg[i] >= 'a' && pkg[i] <= 'z') || pkg[i] == '.')
	}
	dir := verifNondetString(verifParam("DN"))
	for i := 0; i < len(dir); i++ {
		c := dir[i]
		verifAssume((c >= 'a' && c <= 'z') || c == '/')
		if c == '/' {
			verifAssume(i > 0 && i < len(dir)-1 && dir[i-1] != '/')
		}
	}
	path := "x.proto"
	effDir := "."
	if len(dir) > 0 {
		path = dir + "/x.proto"
		effDir = dir
	}
	file := &lvFile{path: path, pkg: pkg}
	w := &lvRW{}
	err := handleLintPackageDirectoryMatch(w, lvNewReq(nil), file)
	verifCover("handled")
	verifAssert(err == nil, "no error")
	match := len(pkg) == len(effDir)
	if match {
		for i := 0; i < len(pkg); i++ {
			c := pkg[i]
			if c == '.' {
				c = '/'
			}
			if c != effDir[i] {
				match = false
			}
		}
	}
	if len(pkg) > 0 && !match {
		verifCover("directory mismatch")
		verifAssert(lvReportedOnlyAt(w, path+"/package", path), "package/directory mismatch is reported once at the package")
	} else {
		if len(pkg) > 0 {
			verifCover("directory match")
		}
		verifAssert(len(w.anns) == 0, "matching directory or no package is not reported")
	}

	w2 := &lvRW{}
	err = handleLintPackageDefined(w2, lvNewReq(nil), file)
	verifAssert(err == nil, "no error (package defined)")
	verifAssert(len(w2.anns) == lvB2i(len(pkg) == 0), "PACKAGE_DEFINED reports exactly the files without a package")

	// PACKAGE_VERSION_SUFFIX on concrete packages
	versioned := []string{"a.v1", "a.b.v1beta1", "a.v2alpha", "a.v1p1alpha1", "a.v1test"}
	unversioned := []string{"a", "v1", "a.b", "a.v0", "a.v1.b", "a.V1", "a.v1gamma"}
	k := verifNondetChoice(len(versioned) + len(unversioned) + 1)
	w3 := &lvRW{}
	f3 := &lvFile{path: "dir/a.proto"}
	wantReport := false
	if k < len(versioned) {
		f3.pkg = versioned[k]
	} else if k < len(versioned)+len(unversioned) {
		f3.pkg = unversioned[k-len(versioned)]
		wantReport = true
	}
	err = handleLintPackageVersionSuffix(w3, lvNewReq(nil), f3)
	verifAssert(err == nil, "no error (version suffix)")
	if wantReport {
		verifAssert(lvReportedOnlyAt(w3, "dir/a.proto/package", "dir/a.proto"), "unversioned package is reported once at the package")
	} else {
		verifAssert(len(w3.anns) == 0, "versioned or absent package is not reported")
	}
}

func lvB2i(b bool) int {
	if b {
		return 1
	}
	return 0
}
