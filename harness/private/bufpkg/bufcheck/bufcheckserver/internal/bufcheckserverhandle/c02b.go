//go:build verif

package bufcheckserverhandle

import (
	"context"
	"fmt"

	"buf.build/go/bufplugin/check"
	"github.com/bufbuild/buf/private/bufpkg/bufcheck/bufcheckserver/internal/bufcheckserverutil"
	"github.com/bufbuild/buf/private/bufpkg/bufprotosource"
)

// ---- grpH, C02-B: lint handlers that render the keys of a Go map into the annotation MESSAGE ----
// Uses grpB's file/import stubs (lstubs.go: lvFile, lvImport, lvLoc, lvReq) read-only; own response writer that keeps
// the rendered message text.

type vhIRW = bufcheckserverutil.ResponseWriter

type vhAnn struct{ loc, file, msg string }

type vhRW struct {
	vhIRW
	anns []vhAnn
}

func (w *vhRW) AddProtosourceAnnotation(location bufprotosource.Location, against bufprotosource.Location, fileName string, format string, args ...any) {
	tag := ""
	if l, ok := location.(*lvLoc); ok && l != nil {
		tag = l.tag
	}
	w.anns = append(w.anns, vhAnn{loc: tag, file: fileName, msg: fmt.Sprintf(format, args...)})
}

func (w *vhRW) AddAnnotation(options ...check.AddAnnotationOption) {
	w.anns = append(w.anns, vhAnn{loc: "<AddAnnotation>"})
}

func vhAnnLess(a, b vhAnn) bool {
	if a.file != b.file {
		return a.file < b.file
	}
	if a.loc != b.loc {
		return a.loc < b.loc
	}
	return a.msg < b.msg
}

// vhSorted: the annotations as the printers see them - sorted (bufanalysis sorts by file, position, type, message).
func vhSorted(in []vhAnn) []vhAnn {
	out := make([]vhAnn, 0, len(in))
	for _, a := range in {
		i := len(out)
		out = append(out, a)
		for i > 0 && vhAnnLess(a, out[i-1]) {
			out[i] = out[i-1]
			i--
		}
		out[i] = a
	}
	return out
}

func vhSameAnns(a, b []vhAnn) bool {
	if len(a) != len(b) {
		return false
	}
	for i := range a {
		if a[i] != b[i] {
			return false
		}
	}
	return true
}

// vhRepeats: Go's native map order is random and cannot be driven by a replay, so natively every call is repeated and
// all results must agree; the engine explores every map order itself and compares two independent runs.
func vhRepeats() int {
	if verifInEngine() {
		return 2
	}
	return 64
}

var vhNames = []string{"", "a", "b", "c"}

// VerifLemma_C02B_LintGroupMessages: DIRECTORY_SAME_PACKAGE, PACKAGE_SAME_DIRECTORY and the PACKAGE_SAME_<option>
// handlers collect the distinct values of a group of files in a map and print them in the message. For 2..FILES
// files whose value is any of "", a, b, c: the sorted annotation list - location, file AND message text - is the same
// for every iteration order of the map.
func VerifLemma_C02B_LintGroupMessages() {
	k := verifNondetChoice(verifParam("FILES")-1) + 2
	vals := make([]string, k)
	for i := 0; i < k; i++ {
		vals[i] = vhNames[verifNondetChoice(len(vhNames))]
	}
	handler := verifNondetChoice(5)
	files := make([]*lvFile, k)
	ifiles := make([]bufprotosource.File, k)
	for i := 0; i < k; i++ {
		f := &lvFile{path: "d/f" + string(rune('0'+i)) + ".proto", pkg: "p"}
		switch handler {
		case 0:
			f.pkg = vals[i]
		case 1:
			dir := vals[i]
			if dir == "" {
				dir = "z"
			}
			f.path = dir + "/f" + string(rune('0'+i)) + ".proto"
		case 2:
			f.opt[1] = vals[i] // go_package
		case 3:
			f.opt[2] = vals[i] // java_package
		case 4:
			f.opt[5] = vals[i] // swift_prefix
		}
		files[i] = f
		ifiles[i] = f
	}
	req := lvNewReq(nil)
	run := func() []vhAnn {
		w := &vhRW{}
		var err error
		switch handler {
		case 0:
			err = handleLintDirectorySamePackage(w, req, "d", ifiles)
		case 1:
			err = handleLintPackageSameDirectory(w, req, "p", ifiles)
		case 2:
			err = handleLintPackageSameGoPackage(w, req, "p", ifiles)
		case 3:
			err = handleLintPackageSameJavaPackage(w, req, "p", ifiles)
		case 4:
			err = handleLintPackageSameSwiftPrefix(w, req, "p", ifiles)
		}
		verifAssert(err == nil, "group handler does not fail")
		return vhSorted(w.anns)
	}
	first := run()
	verifCover("handled")
	for r := 1; r < vhRepeats(); r++ {
		verifAssert(vhSameAnns(first, run()), "same annotations, message text included, for every map iteration order")
	}
	// distinct values
	distinct := 0
	for i := 0; i < k; i++ {
		seen := false
		for j := 0; j < i; j++ {
			if vals[j] == vals[i] {
				seen = true
			}
		}
		if !seen {
			distinct++
		}
	}
	if distinct >= 2 {
		verifCover("disagreeing group")
		verifAssert(len(first) > 0, "a disagreeing group is reported")
	}
	// How the values are ordered inside the message, whether every file gets the same text and how many annotations
	// there are is C05's business; C02 only needs the list above to be the same for every map order.
}

// vhCycleWorld builds files whose packages import each other. Package cycles need several files per package
// (file-level import cycles do not compile).
//
//	world 0: a1(a) -> b1(b) -> a2(a)                                  one cycle  a -> b -> a
//	world 1: a1(a) -> b1(b) -> {c1(c), a2(a)},  c1(c) -> a2(a)        two cycles through a -> b: a->b->a and a->b->c->a
//	world 2: world 1 plus a1 -> c1                                     a imports b and c directly
func vhCycleWorld(world int) []bufprotosource.File {
	mk := func(path, pkg string) *lvFile { return &lvFile{path: path, pkg: pkg} }
	imp := func(from *lvFile, to *lvFile) {
		from.imports = append(from.imports, &lvImport{file: from, id: from.path + ">" + to.path, path: to.path})
	}
	a1, a2, b1, c1 := mk("a/a1.proto", "a"), mk("a/a2.proto", "a"), mk("b/b1.proto", "b"), mk("c/c1.proto", "c")
	imp(a1, b1)
	imp(b1, a2)
	files := []bufprotosource.File{a1, a2, b1}
	if world >= 1 {
		imp(b1, c1)
		imp(c1, a2)
		files = append(files, c1)
	}
	if world >= 2 {
		imp(a1, c1)
	}
	return files
}

// VerifLemma_C02B_LintImportCycle: PACKAGE_NO_IMPORT_CYCLE ranges over package maps at three levels (start package,
// directly imported package, DFS successor). The sorted annotation list, message text included, must be the same for
// every iteration order.
func VerifLemma_C02B_LintImportCycle() {
	world := verifNondetChoice(verifParam("WORLDS"))
	files := vhCycleWorld(world)
	req := lvNewReq(nil)
	req.files = files
	run := func() []vhAnn {
		w := &vhRW{}
		err := handleLintPackageNoImportCycle(context.Background(), w, req)
		verifAssert(err == nil, "cycle handler does not fail")
		return vhSorted(w.anns)
	}
	first := run()
	verifCover("cycles searched")
	verifAssert(len(first) > 0, "the cycle through packages a and b is reported")
	same := true
	for r := 1; r < vhRepeats(); r++ {
		if !vhSameAnns(first, run()) {
			same = false
		}
	}
	// F22: with two cycles through the same first edge the DFS reports whichever the map yields first
	if verifKnown("F22-import-cycle-map-order", world >= 1) {
		return
	}
	verifAssert(same, "same import-cycle annotations, message text included, for every map iteration order")
}
