//go:build verif

package bufcheckserverhandle

import (
	"github.com/bufbuild/buf/private/bufpkg/bufcheck/bufcheckserver/internal/bufcheckserverutil"
	"github.com/bufbuild/buf/private/bufpkg/bufprotosource"
	"google.golang.org/protobuf/types/descriptorpb"
)

// C03-G: RPC signature rules, file package / syntax / tracked options, message option and required-field rules.

// VerifLemma_C03G_RPC: RPC_SAME_REQUEST_TYPE / RESPONSE_TYPE / CLIENT_STREAMING / SERVER_STREAMING /
// IDEMPOTENCY_LEVEL each report exactly their own attribute's change, once, at the documented location of the
// current method.
func VerifLemma_C03G_RPC() {
	nl := verifParam("NL")
	svcP, svcC := &vbService{name: "S"}, &vbService{name: "S"}
	mk := func(s *vbService) *vbMethod {
		return &vbMethod{name: "R", svc: s, in: vbNondetName(nl), out: vbNondetName(nl),
			cStream: verifNondetBool(), sStream: verifNondetBool(),
			idempotency: descriptorpb.MethodOptions_IdempotencyLevel(verifNondetChoice(3))}
	}
	prev, cur := mk(svcP), mk(svcC)
	type h = func(bufcheckserverutil.ResponseWriter, bufcheckserverutil.Request, bufprotosource.Method, bufprotosource.Method) error
	hs := []h{handleBreakingRPCSameRequestType, handleBreakingRPCSameResponseType, handleBreakingRPCSameClientStreaming,
		handleBreakingRPCSameServerStreaming, handleBreakingRPCSameIdempotencyLevel}
	changed := []bool{prev.in != cur.in, prev.out != cur.out, prev.cStream != cur.cStream, prev.sStream != cur.sStream,
		prev.idempotency != cur.idempotency}
	for i := 0; i < len(hs); i++ {
		rw := &vRW{}
		err := hs[i](rw, vReq{}, cur, prev)
		verifAssert(err == nil, "rpc handler returns no error")
		if changed[i] {
			verifCover("an rpc attribute changed")
			verifAssert(rw.n >= 1 && rw.vbAt(cur), "rpc rule reports its attribute's change at the method")
		} else {
			verifAssert(rw.n == 0, "rpc rule silent when its attribute is unchanged")
		}
	}
	verifCover("rpc handlers returned")
}

type vbFileHandler = func(bufcheckserverutil.ResponseWriter, bufcheckserverutil.Request, bufprotosource.File, bufprotosource.File) error

// VerifLemma_C03G_FileOptions: FILE_SAME_PACKAGE, FILE_SAME_SYNTAX and the 16 tracked FILE_SAME_<option> rules.
// One attribute (structural choice) gets arbitrary previous / current values, all others are equal; every rule is
// run: the rule of the chosen attribute reports (once, at that attribute's location in the current file) iff the
// values differ; no other rule reports anything. Syntax "unspecified" is proto2.
func VerifLemma_C03G_FileOptions() {
	nl := verifParam("NL")
	prev, cur := &vFile{path: "a.proto", syntax: bufprotosource.SyntaxProto3}, &vFile{path: "a.proto", syntax: bufprotosource.SyntaxProto3}
	which := verifNondetChoice(18)
	differ := false
	switch {
	case which < 10:
		prev.strOpt[which], cur.strOpt[which] = vbNondetName(nl), vbNondetName(nl)
		differ = prev.strOpt[which] != cur.strOpt[which]
	case which < 15:
		prev.boolOpt[which-10], cur.boolOpt[which-10] = verifNondetBool(), verifNondetBool()
		differ = prev.boolOpt[which-10] != cur.boolOpt[which-10]
	case which == 15:
		prev.optFor = descriptorpb.FileOptions_OptimizeMode(verifNondetChoice(3) + 1)
		cur.optFor = descriptorpb.FileOptions_OptimizeMode(verifNondetChoice(3) + 1)
		differ = prev.optFor != cur.optFor
	case which == 16:
		prev.pkg, cur.pkg = vbNondetName(nl), vbNondetName(nl)
		differ = prev.pkg != cur.pkg
	default:
		ps, cs := verifNondetInt(1, 4), verifNondetInt(1, 4)
		prev.syntax, cur.syntax = bufprotosource.Syntax(ps), bufprotosource.Syntax(cs)
		if ps == 1 {
			ps = 2 // unspecified is proto2
		}
		if cs == 1 {
			cs = 2
		}
		differ = ps != cs
	}
	hs := []vbFileHandler{
		handleBreakingFileSameCsharpNamespace, handleBreakingFileSameGoPackage, handleBreakingFileSameJavaOuterClassname,
		handleBreakingFileSameJavaPackage, handleBreakingFileSameObjcClassPrefix, handleBreakingFileSamePhpClassPrefix,
		handleBreakingFileSamePhpNamespace, handleBreakingFileSamePhpMetadataNamespace, handleBreakingFileSameRubyPackage,
		handleBreakingFileSameSwiftPrefix,
		handleBreakingFileSameCcEnableArenas, handleBreakingFileSameCcGenericServices, handleBreakingFileSameJavaGenericServices,
		handleBreakingFileSameJavaMultipleFiles, handleBreakingFileSamePyGenericServices,
		handleBreakingFileSameOptimizeFor, handleBreakingFileSamePackage, handleBreakingFileSameSyntax,
	}
	for i := 0; i < len(hs); i++ {
		rw := &vRW{}
		err := hs[i](rw, vReq{}, cur, prev)
		verifAssert(err == nil, "file handler returns no error")
		if i == which && differ {
			verifCover("a tracked file attribute changed")
			verifAssert(rw.n >= 1 && rw.vbAt(cur), "file rule reports its attribute's change at the current file")
		} else {
			verifAssert(rw.n == 0, "file rule silent when its attribute is unchanged")
		}
	}
	verifCover("file handlers returned")
}

// VerifLemma_C03G_MessageRules: MESSAGE_NO_REMOVE_STANDARD_DESCRIPTOR_ACCESSOR (false -> true reported) and
// MESSAGE_SAME_REQUIRED_FIELDS (a required field number that disappears or stops being required is reported at the
// message; a number that becomes required is reported at that field), 1..NF previous fields with symbolic numbers.
func VerifLemma_C03G_MessageRules() {
	nf := verifNondetChoice(verifParam("NF")) + 1
	maxTag := bufprotosource.MessageRangeInclusiveMax
	prev, cur := &vMsg{name: "M", noStdDA: verifNondetBool()}, &vMsg{name: "M", noStdDA: verifNondetBool()}
	rw := &vRW{}
	err := handleBreakingMessageNoRemoveStandardDescriptorAccessor(rw, vReq{}, cur, prev)
	verifAssert(err == nil, "accessor handler returns no error")
	if !prev.noStdDA && cur.noStdDA {
		verifAssert(rw.n >= 1 && rw.vbAt(cur), "removing the standard descriptor accessor is reported at the message")
	} else {
		verifAssert(rw.n == 0, "accessor rule silent otherwise")
	}

	req := descriptorpb.FieldDescriptorProto_LABEL_REQUIRED
	opt := descriptorpb.FieldDescriptorProto_LABEL_OPTIONAL
	nums := make([]int, nf)
	prevReq := make([]bool, nf)
	curHas := make([]bool, nf)
	curReq := make([]bool, nf)
	curFields := make([]*vField, nf)
	for i := 0; i < nf; i++ {
		nums[i] = verifNondetInt(1, maxTag)
		for j := 0; j < i; j++ {
			verifAssume(nums[j] != nums[i])
		}
		prevReq[i] = verifNondetChoice(2) == 1
		pl := opt
		if prevReq[i] {
			pl = req
		}
		prev.fields = append(prev.fields, &vField{name: "f", number: nums[i], label: pl, parent: prev})
		switch verifNondetChoice(3) {
		case 1:
			curHas[i] = true
			curFields[i] = &vField{name: "f", number: nums[i], label: opt, parent: cur}
		case 2:
			curHas[i], curReq[i] = true, true
			curFields[i] = &vField{name: "f", number: nums[i], label: req, parent: cur}
		}
		if curHas[i] {
			cur.fields = append(cur.fields, curFields[i])
		}
	}
	// one optional brand-new field
	var added *vField
	addedReq := false
	if verifNondetChoice(2) == 1 {
		n := verifNondetInt(1, maxTag)
		for j := 0; j < nf; j++ {
			verifAssume(nums[j] != n)
		}
		addedReq = verifNondetChoice(2) == 1
		l := opt
		if addedReq {
			l = req
		}
		added = &vField{name: "g", number: n, label: l, parent: cur}
		cur.fields = append(cur.fields, added)
	}
	rw2 := &vRW{}
	err = handleBreakingMessageSameRequiredFields(rw2, vReq{}, cur, prev)
	verifAssert(err == nil, "required-fields handler returns no error")
	verifCover("message handlers returned")
	want := 0
	for i := 0; i < nf; i++ {
		if prevReq[i] && !curReq[i] {
			want++
			verifAssert(rw2.vbAt(cur), "a required field that is gone / no longer required is reported at the message")
		}
		if !prevReq[i] && curReq[i] {
			want++
			verifAssert(rw2.vbAt(curFields[i]), "a field that became required is reported at the field")
		}
	}
	if addedReq {
		want++
		verifAssert(rw2.vbAt(added), "an added required field is reported at the field")
	}
	if want > 0 {
		verifCover("required fields changed")
	}
	verifAssert((want == 0 && rw2.n == 0) || (want > 0 && rw2.n >= want), "MESSAGE_SAME_REQUIRED_FIELDS: every changed required number is reported, nothing else")
}

// VerifLemma_C03G_EnumSameType: ENUM_SAME_TYPE reports (once, at the enum_type feature or else the enum) exactly
// when an enum changes between open and closed.
func VerifLemma_C03G_EnumSameType() {
	prev := &vbEnum{name: "E", closed: verifNondetBool(), hasEnumTypeLoc: verifNondetBool()}
	cur := &vbEnum{name: "E", closed: verifNondetBool(), hasEnumTypeLoc: verifNondetBool()}
	rw := &vRW{}
	err := handleBreakingEnumSameType(rw, vReq{}, cur, prev)
	verifAssert(err == nil, "enum type handler returns no error")
	verifCover("enum type handler returned")
	if prev.closed != cur.closed {
		verifCover("enum changed between open and closed")
		verifAssert(rw.n >= 1 && rw.vbAt(cur), "ENUM_SAME_TYPE reports the change at the enum")
	} else {
		verifAssert(rw.n == 0, "ENUM_SAME_TYPE silent when open/closed is unchanged")
	}
}
