//go:build verif

package bufcheckserverhandle

import (
	"context"
)

// C03-E (package level): PACKAGE_ENUM/EXTENSION/MESSAGE/SERVICE_NO_DELETE and PACKAGE_NO_DELETE.

func vbNondetLetter() string {
	s := verifNondetStringN(1)
	verifAssume(s[0] >= 'a' && s[0] <= 'z')
	return s
}

type vbPkgEl struct {
	pkg, name string
	file      *vFile
	el        any
}

// vbAddPkgEl adds one element of the kind to file f and returns its record.
func vbAddPkgEl(kind int, f *vFile, name string) vbPkgEl {
	switch kind {
	case 0:
		e := &vbEnum{name: "x", nested: name, file: f}
		f.enums = append(f.enums, e)
		return vbPkgEl{f.pkg, name, f, e}
	case 1:
		e := &vField{name: "x", nested: name, file: f, extendee: "p.M", number: 1}
		f.exts = append(f.exts, e)
		return vbPkgEl{f.pkg, name, f, e}
	case 2:
		e := &vMsg{name: "x", nested: name, file: f}
		f.msgs = append(f.msgs, e)
		return vbPkgEl{f.pkg, name, f, e}
	default:
		e := &vbService{name: name, file: f}
		f.svcs = append(f.svcs, e)
		return vbPkgEl{f.pkg, name, f, e}
	}
}

func vbAssumeFreshPkgEl(pkg, name string, els []vbPkgEl) {
	for i := 0; i < len(els); i++ {
		verifAssume(els[i].pkg != pkg || els[i].name != name)
	}
}

var vbPathPool = []string{"a.proto", "b.proto", "c.proto"}

// VerifLemma_C03E_PackageElements: the four PACKAGE_<kind>_NO_DELETE rules (param KIND) over 1..2 previous
// (a.proto, b.proto) and 0..2 current files (a.proto or c.proto; b.proto), symbolic one-letter packages, each file with 0..1 element of the chosen kind
// (nested names of 1..ND symbolic levels), current files optionally with one more message. Documented: an element
// whose (package, nested name) is gone while its package still exists is reported exactly once, against the previous
// element, located at the surviving enclosing message if there is one (else: no location; the path of the current
// file with the previous element's path, or "" when that file is gone). Elements of deleted packages are left to
// PACKAGE_NO_DELETE.
func VerifLemma_C03E_PackageElements() {
	nd := verifParam("ND")
	kind := verifParam("KIND") // 0 enum, 1 extension, 2 message, 3 service (one registered lemma per kind)
	np := verifNondetChoice(2) + 1
	nc := verifNondetChoice(3)
	req := &vbReq{}
	var prevEls, curEls []vbPkgEl
	for i := 0; i < np; i++ {
		f := &vFile{path: vbPathPool[i], pkg: vbNondetLetter(), isImport: verifNondetBool()}
		req.prev = append(req.prev, f)
		if i == 0 || verifNondetChoice(2) == 1 {
			n := vbNondetNested(nd)
			vbAssumeFreshPkgEl(f.pkg, n, prevEls)
			prevEls = append(prevEls, vbAddPkgEl(kind, f, n))
		}
	}
	var curFiles []*vFile
	var curMsgs []vbPkgEl // all current messages (kind 2: the elements themselves)
	for i := 0; i < nc; i++ {
		// current file 0 is a.proto or the new c.proto, current file 1 is b.proto
		k := i
		if i == 0 && verifNondetChoice(2) == 1 {
			k = 2
		}
		f := &vFile{path: vbPathPool[k], pkg: vbNondetLetter(), isImport: verifNondetBool()}
		req.cur = append(req.cur, f)
		curFiles = append(curFiles, f)
		if verifNondetChoice(2) == 1 {
			n := vbNondetNested(nd)
			vbAssumeFreshPkgEl(f.pkg, n, curEls)
			el := vbAddPkgEl(kind, f, n)
			curEls = append(curEls, el)
			if kind == 2 {
				curMsgs = append(curMsgs, el)
			}
		}
		if kind < 2 && nd > 1 && verifNondetChoice(2) == 1 {
			n := vbNondetNested(nd)
			vbAssumeFreshPkgEl(f.pkg, n, curMsgs)
			curMsgs = append(curMsgs, vbAddPkgEl(2, f, n))
		}
	}
	rw := &vRW{}
	var err error
	switch kind {
	case 0:
		err = handleBreakingPackageEnumNoDelete(context.Background(), rw, req)
	case 1:
		err = handleBreakingPackageExtensionNoDelete(context.Background(), rw, req)
	case 2:
		err = handleBreakingPackageMessageNoDelete(context.Background(), rw, req)
	default:
		err = handleBreakingPackageServiceNoDelete(context.Background(), rw, req)
	}
	verifAssert(err == nil, "package element handler returns no error")
	verifCover("package element handler returned")
	want := 0
	for i := 0; i < len(prevEls); i++ {
		p := prevEls[i]
		pkgSurvives, pkgHasKind, still := false, false, false
		for j := 0; j < len(curFiles); j++ {
			if curFiles[j].pkg == p.pkg {
				pkgSurvives = true
			}
		}
		for j := 0; j < len(curEls); j++ {
			if curEls[j].pkg == p.pkg {
				pkgHasKind = true
				if curEls[j].name == p.name {
					still = true
				}
			}
		}
		if still || !pkgSurvives {
			continue
		}
		verifCover("an element was deleted from a surviving package")
		if kind != 3 && verifKnown("F7-pkg-last-element-delete", !pkgHasKind) {
			return
		}
		want++
		// expected location
		var sameFile *vFile
		for j := 0; j < len(curFiles); j++ {
			if curFiles[j].path == p.file.path {
				sameFile = curFiles[j]
			}
		}
		var parent *vMsg
		if sameFile != nil && kind != 3 {
			// enclosing message: enums/extensions look in the current file of the same path, messages in the package
			for k := len(p.name) - 1; k >= 0 && parent == nil; k-- {
				if p.name[k] != '.' {
					continue
				}
				for j := 0; j < len(curMsgs); j++ {
					m := curMsgs[j]
					inScope := m.file == sameFile
					if kind == 2 {
						inScope = m.pkg == p.pkg
					}
					if inScope && m.name == p.name[:k] {
						parent = m.el.(*vMsg)
						break
					}
				}
			}
		}
		if parent != nil {
			verifCover("deleted package element has a surviving enclosing message")
		}
		if sameFile != nil && kind != 2 {
			// the element's file still exists: the report is attributable to it (an enclosing message of that file, or
			// its path). Messages may be reported at an enclosing message anywhere in the package.
			verifAssert(rw.vbInFile(sameFile.path), "element deleted from a surviving file is reported in that file")
		}
	}
	// required: an annotation per element deleted from a surviving package, silence otherwise; the choice of the
	// enclosing element, the against-location and the exact number of annotations are not part of the property
	verifAssert((want == 0 && rw.n == 0) || (want > 0 && rw.n >= want), "every element deleted from a surviving package is reported, nothing else")
}

// VerifLemma_C03E_PackageNoDelete: PACKAGE_NO_DELETE over 1..2 previous and 0..2 current files with symbolic
// one-letter packages: one annotation per previous package that no current file declares.
func VerifLemma_C03E_PackageNoDelete() {
	np := verifNondetChoice(2) + 1
	nc := verifNondetChoice(3)
	req := &vbReq{}
	var prevPkgs, curPkgs []string
	for i := 0; i < np; i++ {
		f := &vFile{path: vbPathPool[i], pkg: vbNondetLetter(), isImport: verifNondetBool()}
		req.prev = append(req.prev, f)
		prevPkgs = append(prevPkgs, f.pkg)
	}
	for i := 0; i < nc; i++ {
		f := &vFile{path: vbPathPool[i], pkg: vbNondetLetter(), isImport: verifNondetBool()}
		req.cur = append(req.cur, f)
		curPkgs = append(curPkgs, f.pkg)
	}
	rw := &vRW{}
	err := handleBreakingPackageNoDelete(context.Background(), rw, req)
	verifAssert(err == nil, "package delete handler returns no error")
	verifCover("package delete handler returned")
	want := 0
	for i := 0; i < np; i++ {
		if refBrkNameIn(prevPkgs[i], curPkgs) || refBrkNameIn(prevPkgs[i], prevPkgs[:i]) {
			continue
		}
		want++
	}
	if want > 0 {
		verifCover("a package was deleted")
	}
	verifAssert((want == 0 && rw.n == 0) || (want > 0 && rw.n >= want), "PACKAGE_NO_DELETE: every deleted package is reported, nothing else")
}
