//go:build verif

package bufcheckserverhandle

import (
	"github.com/bufbuild/buf/private/bufpkg/bufcheck/bufcheckserver/internal/bufcheckserverutil"
	"github.com/bufbuild/buf/private/bufpkg/bufprotosource"
	"google.golang.org/protobuf/reflect/protoreflect"
	"google.golang.org/protobuf/types/descriptorpb"
)

// Stub descriptors: each embeds the repo interface (through an alias, because the interfaces have a
// method named like the interface itself) and overrides the attributes the handlers read.

type (
	iFile  = bufprotosource.File
	iMsg   = bufprotosource.Message
	iField = bufprotosource.Field
	iLoc   = bufprotosource.Location
	iFD    = protoreflect.FieldDescriptor
	iRW    = bufcheckserverutil.ResponseWriter
	iReq   = bufcheckserverutil.Request
)

type vLoc struct {
	iLoc
	tag string
}

type vFD struct {
	iFD
	kind protoreflect.Kind
}

func (f *vFD) Kind() protoreflect.Kind     { return f.kind }
func (f *vFD) Syntax() protoreflect.Syntax { return protoreflect.Proto3 }

type vFile struct {
	iFile
	path string
}

func (f *vFile) Path() string { return f.path }

type vMsg struct {
	iMsg
	name string
}

func (m *vMsg) Name() string { return m.name }

type vField struct {
	iField
	fd       *vFD
	typ      descriptorpb.FieldDescriptorProto_Type
	typeName string
	name     string
	number   int
}

func (f *vField) AsDescriptor() (protoreflect.FieldDescriptor, error) { return f.fd, nil }
func (f *vField) Type() descriptorpb.FieldDescriptorProto_Type       { return f.typ }
func (f *vField) TypeName() string                                   { return f.typeName }
func (f *vField) TypeNameLocation() bufprotosource.Location          { return &vLoc{tag: "typename"} }
func (f *vField) TypeLocation() bufprotosource.Location              { return &vLoc{tag: "type"} }
func (f *vField) Location() bufprotosource.Location                  { return &vLoc{tag: "field"} }
func (f *vField) File() bufprotosource.File                          { return &vFile{path: "a.proto"} }
func (f *vField) Extendee() string                                   { return "" }
func (f *vField) Name() string                                       { return f.name }
func (f *vField) Number() int                                        { return f.number }
func (f *vField) ParentMessage() bufprotosource.Message              { return &vMsg{name: "M"} }

// vRW counts annotations and remembers the last location tags.
type vRW struct {
	iRW
	n       int
	lastLoc string
}

func (w *vRW) AddProtosourceAnnotation(location bufprotosource.Location, against bufprotosource.Location, name string, format string, args ...any) {
	w.n++
	if l, ok := location.(*vLoc); ok && l != nil {
		w.lastLoc = l.tag
	} else {
		w.lastLoc = ""
	}
}

type vReq struct{ iReq }

func (vReq) ProtosourceFiles() []bufprotosource.File        { return nil }
func (vReq) AgainstProtosourceFiles() []bufprotosource.File { return nil }
