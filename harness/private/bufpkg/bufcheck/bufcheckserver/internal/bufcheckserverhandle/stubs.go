//go:build verif

package bufcheckserverhandle

import (
	"buf.build/go/bufplugin/check"
	"github.com/bufbuild/buf/private/bufpkg/bufcheck/bufcheckserver/internal/bufcheckserverutil"
	"github.com/bufbuild/buf/private/bufpkg/bufprotosource"
	"google.golang.org/protobuf/reflect/protoreflect"
	"google.golang.org/protobuf/types/descriptorpb"
)

// Stub descriptors (owned by grpA, C03/C04): each embeds the repo interface (through an alias, because the
// interfaces have a method named like the interface itself) and overrides the attributes the breaking
// handlers read. Calling a method that is not overridden aborts the path ("nil interface invoke"), so a
// handler that starts reading a new attribute makes the lemma incomplete instead of silently passing.

type (
	iFile  = bufprotosource.File
	iMsg   = bufprotosource.Message
	iField = bufprotosource.Field
	iLoc   = bufprotosource.Location
	iFD    = protoreflect.FieldDescriptor
	iRW    = bufcheckserverutil.ResponseWriter
	iReq   = bufcheckserverutil.Request

	vbiEnum      = bufprotosource.Enum
	vbiEnumValue = bufprotosource.EnumValue
	vbiService   = bufprotosource.Service
	vbiMethod    = bufprotosource.Method
	vbiOneof     = bufprotosource.Oneof
	vbiTagRange  = bufprotosource.TagRange
	vbiMsgRange  = bufprotosource.MessageRange
	vbiEnumRange = bufprotosource.EnumRange
	vbiExtRange  = bufprotosource.ExtensionRange
	vbiResName   = bufprotosource.ReservedName
	vbiMD        = protoreflect.MessageDescriptor
	vbiOD        = protoreflect.OneofDescriptor
	vbiED        = protoreflect.EnumDescriptor
	vbiFeatures  = bufprotosource.FeaturesDescriptor
)

// vLoc is a location token: tag says which location accessor produced it, of is the stub element it belongs to.
type vLoc struct {
	iLoc
	tag string
	of  any
}

type vFD struct {
	iFD
	kind protoreflect.Kind
	// cardinality attributes (C03-B)
	isList, isMap, required, presence bool
	inMapEntry                        bool
}

func (f *vFD) Kind() protoreflect.Kind     { return f.kind }
func (f *vFD) Syntax() protoreflect.Syntax { return protoreflect.Proto3 }
func (f *vFD) IsList() bool                { return f.isList }
func (f *vFD) IsMap() bool                 { return f.isMap }
func (f *vFD) HasPresence() bool           { return f.presence }
func (f *vFD) Cardinality() protoreflect.Cardinality {
	if f.required {
		return protoreflect.Required
	}
	if f.isList || f.isMap {
		return protoreflect.Repeated
	}
	return protoreflect.Optional
}
func (f *vFD) ContainingMessage() protoreflect.MessageDescriptor {
	return &vbMD{mapEntry: f.inMapEntry}
}

type vbMD struct {
	vbiMD
	mapEntry bool
}

func (m *vbMD) IsMapEntry() bool { return m.mapEntry }

type vbED struct {
	vbiED
	closed bool
}

func (e *vbED) IsClosed() bool { return e.closed }

// vbFeatures: only the enum_type feature location is modelled (present or not).
type vbFeatures struct {
	vbiFeatures
	enumTypeLoc bufprotosource.Location
}

func (f *vbFeatures) EnumTypeLocation() bufprotosource.Location { return f.enumTypeLoc }

type vbOD struct {
	vbiOD
	synthetic bool
}

func (o *vbOD) IsSynthetic() bool { return o.synthetic }

type vFile struct {
	iFile
	path string
	pkg  string
	// isImport: the file is only in the image because a target file imports it (breaking handlers treat such
	// files like any other; excluding imports happens before the handlers run)
	isImport bool
	// containers
	msgs  []bufprotosource.Message
	enums []bufprotosource.Enum
	exts  []bufprotosource.Field
	svcs  []bufprotosource.Service
	// C03-G file attributes
	syntax  bufprotosource.Syntax
	strOpt  [10]string // csharp, go, javaOuter, javaPkg, objc, phpClass, phpNs, phpMeta, ruby, swift
	boolOpt [5]bool    // ccArenas, ccGeneric, javaGeneric, javaMultiple, pyGeneric
	optFor  descriptorpb.FileOptions_OptimizeMode
}

func (f *vFile) Path() string                             { return f.path }
func (f *vFile) IsImport() bool                           { return f.isImport }
func (f *vFile) File() bufprotosource.File                { return f }
func (f *vFile) Package() string                          { return f.pkg }
func (f *vFile) Messages() []bufprotosource.Message       { return f.msgs }
func (f *vFile) Enums() []bufprotosource.Enum             { return f.enums }
func (f *vFile) Extensions() []bufprotosource.Field       { return f.exts }
func (f *vFile) Services() []bufprotosource.Service       { return f.svcs }
func (f *vFile) Syntax() bufprotosource.Syntax            { return f.syntax }
func (f *vFile) SyntaxLocation() bufprotosource.Location  { return &vLoc{tag: "syntax", of: f} }
func (f *vFile) PackageLocation() bufprotosource.Location { return &vLoc{tag: "package", of: f} }

func (f *vFile) CsharpNamespace() string      { return f.strOpt[0] }
func (f *vFile) GoPackage() string            { return f.strOpt[1] }
func (f *vFile) JavaOuterClassname() string   { return f.strOpt[2] }
func (f *vFile) JavaPackage() string          { return f.strOpt[3] }
func (f *vFile) ObjcClassPrefix() string      { return f.strOpt[4] }
func (f *vFile) PhpClassPrefix() string       { return f.strOpt[5] }
func (f *vFile) PhpNamespace() string         { return f.strOpt[6] }
func (f *vFile) PhpMetadataNamespace() string { return f.strOpt[7] }
func (f *vFile) RubyPackage() string          { return f.strOpt[8] }
func (f *vFile) SwiftPrefix() string          { return f.strOpt[9] }
func (f *vFile) CcEnableArenas() bool         { return f.boolOpt[0] }
func (f *vFile) CcGenericServices() bool      { return f.boolOpt[1] }
func (f *vFile) JavaGenericServices() bool    { return f.boolOpt[2] }
func (f *vFile) JavaMultipleFiles() bool      { return f.boolOpt[3] }
func (f *vFile) PyGenericServices() bool      { return f.boolOpt[4] }
func (f *vFile) OptimizeFor() descriptorpb.FileOptions_OptimizeMode {
	return f.optFor
}

func (f *vFile) CsharpNamespaceLocation() bufprotosource.Location { return &vLoc{tag: "opt0", of: f} }
func (f *vFile) GoPackageLocation() bufprotosource.Location       { return &vLoc{tag: "opt1", of: f} }
func (f *vFile) JavaOuterClassnameLocation() bufprotosource.Location {
	return &vLoc{tag: "opt2", of: f}
}
func (f *vFile) JavaPackageLocation() bufprotosource.Location     { return &vLoc{tag: "opt3", of: f} }
func (f *vFile) ObjcClassPrefixLocation() bufprotosource.Location { return &vLoc{tag: "opt4", of: f} }
func (f *vFile) PhpClassPrefixLocation() bufprotosource.Location  { return &vLoc{tag: "opt5", of: f} }
func (f *vFile) PhpNamespaceLocation() bufprotosource.Location    { return &vLoc{tag: "opt6", of: f} }
func (f *vFile) PhpMetadataNamespaceLocation() bufprotosource.Location {
	return &vLoc{tag: "opt7", of: f}
}
func (f *vFile) RubyPackageLocation() bufprotosource.Location    { return &vLoc{tag: "opt8", of: f} }
func (f *vFile) SwiftPrefixLocation() bufprotosource.Location    { return &vLoc{tag: "opt9", of: f} }
func (f *vFile) CcEnableArenasLocation() bufprotosource.Location { return &vLoc{tag: "bopt0", of: f} }
func (f *vFile) CcGenericServicesLocation() bufprotosource.Location {
	return &vLoc{tag: "bopt1", of: f}
}
func (f *vFile) JavaGenericServicesLocation() bufprotosource.Location {
	return &vLoc{tag: "bopt2", of: f}
}
func (f *vFile) JavaMultipleFilesLocation() bufprotosource.Location {
	return &vLoc{tag: "bopt3", of: f}
}
func (f *vFile) PyGenericServicesLocation() bufprotosource.Location {
	return &vLoc{tag: "bopt4", of: f}
}
func (f *vFile) OptimizeForLocation() bufprotosource.Location { return &vLoc{tag: "optfor", of: f} }

type vMsg struct {
	iMsg
	name string
	// optional: nested name (defaults to name), file, children
	nested  string
	full    string
	file    *vFile
	fields  []bufprotosource.Field
	msgs    []bufprotosource.Message
	enums   []bufprotosource.Enum
	exts    []bufprotosource.Field
	oneofs  []bufprotosource.Oneof
	resRngs []bufprotosource.MessageRange
	extRngs []bufprotosource.ExtensionRange
	resNms  []bufprotosource.ReservedName
	msgSet  bool
	noStdDA bool
}

func (m *vMsg) Name() string { return m.name }
func (m *vMsg) NestedName() string {
	if m.nested != "" {
		return m.nested
	}
	return m.name
}
func (m *vMsg) FullName() string {
	if m.full != "" {
		return m.full
	}
	return m.NestedName()
}
func (m *vMsg) File() bufprotosource.File {
	if m.file != nil {
		return m.file
	}
	return &vFile{path: "a.proto"}
}
func (m *vMsg) Location() bufprotosource.Location            { return &vLoc{tag: "message", of: m} }
func (m *vMsg) Fields() []bufprotosource.Field               { return m.fields }
func (m *vMsg) Messages() []bufprotosource.Message           { return m.msgs }
func (m *vMsg) Enums() []bufprotosource.Enum                 { return m.enums }
func (m *vMsg) Extensions() []bufprotosource.Field           { return m.exts }
func (m *vMsg) Oneofs() []bufprotosource.Oneof               { return m.oneofs }
func (m *vMsg) MessageSetWireFormat() bool                   { return m.msgSet }
func (m *vMsg) NoStandardDescriptorAccessor() bool           { return m.noStdDA }
func (m *vMsg) ReservedNames() []bufprotosource.ReservedName { return m.resNms }
func (m *vMsg) ReservedMessageRanges() []bufprotosource.MessageRange {
	return m.resRngs
}
func (m *vMsg) ExtensionRanges() []bufprotosource.ExtensionRange { return m.extRngs }
func (m *vMsg) ReservedTagRanges() []bufprotosource.TagRange {
	out := make([]bufprotosource.TagRange, len(m.resRngs))
	for i, r := range m.resRngs {
		out[i] = r
	}
	return out
}
func (m *vMsg) NoStandardDescriptorAccessorLocation() bufprotosource.Location {
	return &vLoc{tag: "nostdda", of: m}
}

// vbRange implements MessageRange, EnumRange and ExtensionRange (the handlers only read Start/End/Max).
type vbRange struct {
	vbiExtRange
	s, e int
	max  bool
}

func (r *vbRange) Start() int { return r.s }
func (r *vbRange) End() int   { return r.e }
func (r *vbRange) Max() bool  { return r.max }

type vbEnumRange struct {
	vbiEnumRange
	s, e int
	max  bool
}

func (r *vbEnumRange) Start() int { return r.s }
func (r *vbEnumRange) End() int   { return r.e }
func (r *vbEnumRange) Max() bool  { return r.max }

type vbResName struct {
	vbiResName
	v string
}

func (r *vbResName) Value() string { return r.v }

type vbEnum struct {
	vbiEnum
	name    string
	nested  string
	full    string
	file    *vFile
	values  []bufprotosource.EnumValue
	resRngs []bufprotosource.EnumRange
	resNms  []bufprotosource.ReservedName
	// ENUM_SAME_TYPE
	closed         bool
	hasEnumTypeLoc bool
}

func (e *vbEnum) AsDescriptor() (protoreflect.EnumDescriptor, error) {
	return &vbED{closed: e.closed}, nil
}
func (e *vbEnum) Features() bufprotosource.FeaturesDescriptor {
	if e.hasEnumTypeLoc {
		return &vbFeatures{enumTypeLoc: &vLoc{tag: "enumtype", of: e}}
	}
	return &vbFeatures{}
}
func (e *vbEnum) Name() string { return e.name }
func (e *vbEnum) NestedName() string {
	if e.nested != "" {
		return e.nested
	}
	return e.name
}
func (e *vbEnum) FullName() string {
	if e.full != "" {
		return e.full
	}
	return e.NestedName()
}
func (e *vbEnum) File() bufprotosource.File {
	if e.file != nil {
		return e.file
	}
	return &vFile{path: "a.proto"}
}
func (e *vbEnum) Location() bufprotosource.Location            { return &vLoc{tag: "enum", of: e} }
func (e *vbEnum) Values() []bufprotosource.EnumValue           { return e.values }
func (e *vbEnum) ReservedNames() []bufprotosource.ReservedName { return e.resNms }
func (e *vbEnum) ReservedEnumRanges() []bufprotosource.EnumRange {
	return e.resRngs
}
func (e *vbEnum) ReservedTagRanges() []bufprotosource.TagRange {
	out := make([]bufprotosource.TagRange, len(e.resRngs))
	for i, r := range e.resRngs {
		out[i] = r
	}
	return out
}

type vbEnumValue struct {
	vbiEnumValue
	name   string
	number int
	enum   *vbEnum
}

func (v *vbEnumValue) Name() string                            { return v.name }
func (v *vbEnumValue) Number() int                             { return v.number }
func (v *vbEnumValue) Enum() bufprotosource.Enum               { return v.enum }
func (v *vbEnumValue) File() bufprotosource.File               { return v.enum.File() }
func (v *vbEnumValue) NumberLocation() bufprotosource.Location { return &vLoc{tag: "evnumber", of: v} }

type vbOneof struct {
	vbiOneof
	name      string
	synthetic bool
	fields    []bufprotosource.Field
}

func (o *vbOneof) Fields() []bufprotosource.Field { return o.fields }

func (o *vbOneof) Name() string { return o.name }
func (o *vbOneof) AsDescriptor() (protoreflect.OneofDescriptor, error) {
	return &vbOD{synthetic: o.synthetic}, nil
}

type vbService struct {
	vbiService
	name    string
	full    string
	file    *vFile
	methods []bufprotosource.Method
}

func (s *vbService) Name() string { return s.name }
func (s *vbService) FullName() string {
	if s.full != "" {
		return s.full
	}
	return s.name
}
func (s *vbService) File() bufprotosource.File {
	if s.file != nil {
		return s.file
	}
	return &vFile{path: "a.proto"}
}
func (s *vbService) Location() bufprotosource.Location { return &vLoc{tag: "service", of: s} }
func (s *vbService) Methods() []bufprotosource.Method  { return s.methods }

type vbMethod struct {
	vbiMethod
	name        string
	svc         *vbService
	in, out     string
	cStream     bool
	sStream     bool
	idempotency descriptorpb.MethodOptions_IdempotencyLevel
}

func (m *vbMethod) Name() string                    { return m.name }
func (m *vbMethod) Service() bufprotosource.Service { return m.svc }
func (m *vbMethod) File() bufprotosource.File       { return m.svc.File() }
func (m *vbMethod) InputTypeName() string           { return m.in }
func (m *vbMethod) OutputTypeName() string          { return m.out }
func (m *vbMethod) ClientStreaming() bool           { return m.cStream }
func (m *vbMethod) ServerStreaming() bool           { return m.sStream }
func (m *vbMethod) IdempotencyLevel() descriptorpb.MethodOptions_IdempotencyLevel {
	return m.idempotency
}
func (m *vbMethod) Location() bufprotosource.Location          { return &vLoc{tag: "method", of: m} }
func (m *vbMethod) InputTypeLocation() bufprotosource.Location { return &vLoc{tag: "input", of: m} }
func (m *vbMethod) OutputTypeLocation() bufprotosource.Location {
	return &vLoc{tag: "output", of: m}
}
func (m *vbMethod) IdempotencyLevelLocation() bufprotosource.Location {
	return &vLoc{tag: "idempotency", of: m}
}

type vField struct {
	iField
	fd       *vFD
	typ      descriptorpb.FieldDescriptorProto_Type
	typeName string
	name     string
	number   int
	// optional attributes (zero values keep the C03-A behaviour)
	full           string
	nested         string
	extendee       string
	jsonName       string
	hasJSONLoc     bool
	jsType         descriptorpb.FieldOptions_JSType
	hasJSTypeLoc   bool
	oneof          *vbOneof
	proto3Optional bool
	label          descriptorpb.FieldDescriptorProto_Label
	file           *vFile
	parent         *vMsg
}

func (f *vField) AsDescriptor() (protoreflect.FieldDescriptor, error) { return f.fd, nil }
func (f *vField) Type() descriptorpb.FieldDescriptorProto_Type        { return f.typ }
func (f *vField) TypeName() string                                    { return f.typeName }
func (f *vField) TypeNameLocation() bufprotosource.Location           { return &vLoc{tag: "typename", of: f} }
func (f *vField) TypeLocation() bufprotosource.Location               { return &vLoc{tag: "type", of: f} }
func (f *vField) Location() bufprotosource.Location                   { return &vLoc{tag: "field", of: f} }
func (f *vField) NameLocation() bufprotosource.Location               { return &vLoc{tag: "fieldname", of: f} }
func (f *vField) File() bufprotosource.File {
	if f.file != nil {
		return f.file
	}
	return &vFile{path: "a.proto"}
}
func (f *vField) Extendee() string { return f.extendee }
func (f *vField) Name() string     { return f.name }
func (f *vField) FullName() string { return f.full }
func (f *vField) NestedName() string {
	if f.nested != "" {
		return f.nested
	}
	return f.name
}
func (f *vField) Number() int { return f.number }
func (f *vField) ParentMessage() bufprotosource.Message {
	if f.parent != nil {
		return f.parent
	}
	return &vMsg{name: "M"}
}
func (f *vField) JSONName() string { return f.jsonName }
func (f *vField) JSONNameLocation() bufprotosource.Location {
	if f.hasJSONLoc {
		return &vLoc{tag: "jsonname", of: f}
	}
	return nil
}
func (f *vField) JSType() descriptorpb.FieldOptions_JSType { return f.jsType }
func (f *vField) JSTypeLocation() bufprotosource.Location {
	if f.hasJSTypeLoc {
		return &vLoc{tag: "jstype", of: f}
	}
	return nil
}
func (f *vField) Oneof() bufprotosource.Oneof {
	if f.oneof == nil {
		return nil
	}
	return f.oneof
}
func (f *vField) Label() descriptorpb.FieldDescriptorProto_Label { return f.label }
func (f *vField) Proto3Optional() bool                           { return f.proto3Optional }
func (f *vField) Deprecated() bool                               { return false }
func (f *vField) Default() string                                { return "" }

// vAnn is one recorded annotation.
type vAnn struct {
	tag     string // location tag ("" = nil location)
	of      any    // element the location belongs to
	file    string // inputFileName argument
	against any    // element of the against location (nil = none)
	plain   bool   // added through AddAnnotation (no protosource location)
}

// vRW counts annotations and remembers their locations.
type vRW struct {
	iRW
	n       int
	lastLoc string
	anns    []vAnn
}

func (w *vRW) AddProtosourceAnnotation(location bufprotosource.Location, against bufprotosource.Location, name string, format string, args ...any) {
	w.n++
	a := vAnn{file: name}
	if l, ok := location.(*vLoc); ok && l != nil {
		w.lastLoc = l.tag
		a.tag, a.of = l.tag, l.of
	} else {
		w.lastLoc = ""
	}
	if l, ok := against.(*vLoc); ok && l != nil {
		a.against = l.of
	}
	w.anns = append(w.anns, a)
}

func (w *vRW) AddAnnotation(options ...check.AddAnnotationOption) {
	w.n++
	w.lastLoc = ""
	w.anns = append(w.anns, vAnn{plain: true})
}

// vbAt reports whether some annotation is located at element of (at the element itself or at any of its
// sub-locations: name, type, option ...). The property only promises "located at the edited element".
func (w *vRW) vbAt(of any) bool {
	for i := 0; i < len(w.anns); i++ {
		if w.anns[i].tag != "" && w.anns[i].of == of {
			return true
		}
	}
	return false
}

// vbInFile reports whether some annotation is attributable to the file with the given path: located at an element
// of that file, or without location but carrying the path as input file name.
func (w *vRW) vbInFile(path string) bool {
	for i := 0; i < len(w.anns); i++ {
		a := w.anns[i]
		if a.tag == "" {
			if a.file == path {
				return true
			}
			continue
		}
		if d, ok := a.of.(bufprotosource.Descriptor); ok && d.File().Path() == path {
			return true
		}
	}
	return false
}

// vbHas reports whether some annotation is located (tag) at element of.
func (w *vRW) vbHas(tag string, of any) bool {
	for i := 0; i < len(w.anns); i++ {
		if w.anns[i].tag == tag && w.anns[i].of == of {
			return true
		}
	}
	return false
}

type vReq struct{ iReq }

func (vReq) ProtosourceFiles() []bufprotosource.File        { return nil }
func (vReq) AgainstProtosourceFiles() []bufprotosource.File { return nil }

// vbReq is a request with explicit current / previous file lists.
type vbReq struct {
	iReq
	cur, prev []bufprotosource.File
}

func (r *vbReq) ProtosourceFiles() []bufprotosource.File        { return r.cur }
func (r *vbReq) AgainstProtosourceFiles() []bufprotosource.File { return r.prev }
