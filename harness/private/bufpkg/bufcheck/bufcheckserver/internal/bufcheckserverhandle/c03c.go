//go:build verif

package bufcheckserverhandle

import (
	"github.com/bufbuild/buf/private/bufpkg/bufprotosource"
	"google.golang.org/protobuf/types/descriptorpb"
)

// C03-C: FIELD_SAME_NAME, FIELD_SAME_JSON_NAME, FIELD_SAME_ONEOF, FIELD_SAME_JSTYPE, ENUM_VALUE_SAME_NAME.

// VerifLemma_C03C_FieldName: a changed field name (extensions: full name) is reported once, at the name of the
// current field; an unchanged name is silent.
func VerifLemma_C03C_FieldName() {
	nl := verifParam("NL")
	isExt := verifNondetChoice(2) == 1
	mk := func() *vField {
		f := &vField{number: 1}
		if isExt {
			f.extendee = "p.M"
			f.name = "same" // extensions are known by their full name
			f.full = "p." + vbNondetName(nl)
		} else {
			f.name = vbNondetName(nl)
			f.full = "p.M.same"
		}
		return f
	}
	prev, cur := mk(), mk()
	rw := &vRW{}
	err := handleBreakingFieldSameName(rw, vReq{}, cur, prev)
	verifAssert(err == nil, "name handler returns no error")
	verifCover("name handler returned")
	changed := prev.name != cur.name
	if isExt {
		changed = prev.full != cur.full
	}
	if changed {
		verifCover("field name changed")
		verifAssert(rw.n >= 1 && rw.vbAt(cur), "FIELD_SAME_NAME reports the rename at the field")
	} else {
		verifAssert(rw.n == 0, "FIELD_SAME_NAME silent for an unchanged name")
	}
}

// VerifLemma_C03C_FieldJSONName: a changed json_name of a message field is reported once at the json_name option
// (falling back to the field); unchanged json names and extensions are silent.
func VerifLemma_C03C_FieldJSONName() {
	nl := verifParam("NL")
	isExt := verifNondetChoice(2) == 1
	mk := func() *vField {
		f := &vField{number: 1, name: "f", full: "p.M.f", jsonName: vbNondetName(nl), hasJSONLoc: verifNondetChoice(2) == 1}
		if isExt {
			f.extendee = "p.M"
		}
		return f
	}
	prev, cur := mk(), mk()
	rw := &vRW{}
	err := handleBreakingFieldSameJSONName(rw, vReq{}, cur, prev)
	verifAssert(err == nil, "json name handler returns no error")
	verifCover("json name handler returned")
	if !isExt && prev.jsonName != cur.jsonName {
		verifCover("json name changed")
		verifAssert(rw.n >= 1 && rw.vbAt(cur), "FIELD_SAME_JSON_NAME reports the change at the field (json_name option or the field itself)")
	} else {
		verifAssert(rw.n == 0, "FIELD_SAME_JSON_NAME silent for an unchanged json name / extensions")
	}
}

// VerifLemma_C03C_FieldOneof: FIELD_SAME_ONEOF reports (once, at the current field) exactly when the real-oneof
// membership changes: into / out of a oneof, or between differently named oneofs. Synthetic (proto3 optional)
// oneofs count as "no oneof". Each side: not in a oneof / in a synthetic oneof / in a real oneof, combined with an
// independent Proto3Optional flag (a real proto3 `optional` field has the flag and a synthetic oneof; the flag must
// not silence a move between a real oneof and an optional field in either direction).
func VerifLemma_C03C_FieldOneof() {
	nl := verifParam("NL")
	mk := func() (*vField, bool, string) {
		f := &vField{number: 1, name: "f", proto3Optional: verifNondetBool()}
		switch verifNondetChoice(3) {
		case 0:
			return f, false, ""
		case 1:
			// the compiler names a synthetic oneof "_<field>" or, when that is taken, "X_<field>", ...: the name is
			// arbitrary here; the documented criterion is the descriptor's IsSynthetic
			f.oneof = &vbOneof{name: vbNondetName(nl), synthetic: true, fields: []bufprotosource.Field{f}}
			return f, false, ""
		default:
			f.oneof = &vbOneof{name: vbNondetName(nl), fields: []bufprotosource.Field{f}}
			if verifNondetBool() {
				f.oneof.fields = append(f.oneof.fields, &vField{number: 2, name: "sibling"})
			}
			return f, true, f.oneof.name
		}
	}
	prev, pin, pname := mk()
	cur, cin, cname := mk()
	rw := &vRW{}
	err := handleBreakingFieldSameOneof(rw, vReq{}, cur, prev)
	verifAssert(err == nil, "oneof handler returns no error")
	verifCover("oneof handler returned")
	changed := pin != cin
	if pin && cin && pname != cname {
		changed = true
	}
	if changed {
		verifCover("oneof membership changed")
		if prev.proto3Optional || cur.proto3Optional {
			verifCover("move between a real oneof and a proto3 optional field")
		}
		verifAssert(rw.n >= 1 && rw.vbAt(cur), "FIELD_SAME_ONEOF reports the move at the field")
	} else {
		verifAssert(rw.n == 0, "FIELD_SAME_ONEOF silent when membership is unchanged")
	}
}

// VerifLemma_C03C_FieldJSType: FIELD_SAME_JSTYPE reports a changed jstype between two 64-bit integer fields.
func VerifLemma_C03C_FieldJSType() {
	mk := func() *vField {
		return &vField{number: 1, name: "f",
			typ:          descriptorpb.FieldDescriptorProto_Type(verifNondetInt(1, 18)),
			jsType:       descriptorpb.FieldOptions_JSType(verifNondetChoice(3)),
			hasJSTypeLoc: verifNondetChoice(2) == 1}
	}
	prev, cur := mk(), mk()
	rw := &vRW{}
	err := handleBreakingFieldSameJSType(rw, vReq{}, cur, prev)
	verifAssert(err == nil, "jstype handler returns no error")
	verifCover("jstype handler returned")
	// int64=3 uint64=4 fixed64=6 sfixed64=16 sint64=18
	is64 := func(t descriptorpb.FieldDescriptorProto_Type) bool {
		return t == 3 || t == 4 || t == 6 || t == 16 || t == 18
	}
	if is64(prev.typ) && is64(cur.typ) && prev.jsType != cur.jsType {
		verifCover("jstype changed")
		verifAssert(rw.n >= 1 && rw.vbAt(cur), "FIELD_SAME_JSTYPE reports the change at the field (jstype option or the field itself)")
	} else {
		verifAssert(rw.n == 0, "FIELD_SAME_JSTYPE silent otherwise")
	}
}

// VerifLemma_C03C_EnumValueSameName: for one enum value number with 1..2 previous and 1..2 current names:
// ENUM_VALUE_SAME_NAME reports (at a current value of that number) iff some previous name of the
// number is no longer one of its names (adding an alias is compatible, removing / renaming is not).
func VerifLemma_C03C_EnumValueSameName() {
	nl := verifParam("NL")
	en := &vbEnum{name: "E"}
	mk := func() (map[string]bufprotosource.EnumValue, []string, []*vbEnumValue) {
		n := verifNondetChoice(2) + 1
		m := map[string]bufprotosource.EnumValue{}
		var names []string
		var vals []*vbEnumValue
		for i := 0; i < n; i++ {
			nm := vbNondetName(nl)
			for j := 0; j < i; j++ {
				verifAssume(names[j] != nm)
			}
			v := &vbEnumValue{name: nm, number: 7, enum: en}
			names = append(names, nm)
			vals = append(vals, v)
			m[nm] = v
		}
		return m, names, vals
	}
	prevM, prevNames, _ := mk()
	curM, curNames, curVals := mk()
	rw := &vRW{}
	err := handleBreakingEnumValueSameName(rw, vReq{}, curM, prevM)
	verifAssert(err == nil, "enum value name handler returns no error")
	verifCover("enum value name handler returned")
	// documented: the current names of a number must cover its previous names (aliases may be added, not removed)
	renamed := false
	for i := 0; i < len(prevNames); i++ {
		if !refBrkNameIn(prevNames[i], curNames) {
			renamed = true
		}
	}
	if renamed {
		verifCover("a previous enum value name is gone for its number")
		atValue := false
		for i := 0; i < len(curVals); i++ {
			if rw.vbAt(curVals[i]) {
				atValue = true
			}
		}
		verifAssert(rw.n >= 1 && atValue, "ENUM_VALUE_SAME_NAME reports at a current value of the number")
	} else {
		verifAssert(rw.n == 0, "ENUM_VALUE_SAME_NAME silent when the current names cover the previous ones")
	}
}
