//go:build verif

package bufcheckserverhandle

import (
	"github.com/bufbuild/buf/private/bufpkg/bufprotosource"
	"google.golang.org/protobuf/reflect/protoreflect"
	"google.golang.org/protobuf/types/descriptorpb"
)

func vNondetTypedField() *vField {
	k := verifNondetInt(1, 18)
	name := verifNondetString(verifParam("TN"))
	kind := protoreflect.Kind(k)
	if k == 11 && verifNondetBool() {
		// editions: a TYPE_MESSAGE field with features.message_encoding = DELIMITED resolves to GroupKind
		kind = protoreflect.GroupKind
	}
	return &vField{fd: &vFD{kind: kind}, typ: descriptorpb.FieldDescriptorProto_Type(k), typeName: name, name: "f", number: 1}
}

// VerifLemma_C03A_FieldTypeHierarchy: for every pair of field kinds and type names, WIRE fires => WIRE_JSON
// fires => SAME_TYPE fires; identical fields are clean; a changed kind is reported by FIELD_SAME_TYPE.
func VerifLemma_C03A_FieldTypeHierarchy() {
	prev, cur := vNondetTypedField(), vNondetTypedField()
	wire, wireJSON, same := &vRW{}, &vRW{}, &vRW{}
	if err := handleBreakingFieldWireCompatibleType(wire, vReq{}, cur, prev); err != nil {
		return
	}
	if err := handleBreakingFieldWireJSONCompatibleType(wireJSON, vReq{}, cur, prev); err != nil {
		return
	}
	if err := handleBreakingFieldSameType(same, vReq{}, cur, prev); err != nil {
		return
	}
	verifCover("all three handlers returned")
	verifAssert(wire.n == 0 || wireJSON.n > 0, "WIRE fires => WIRE_JSON fires")
	verifAssert(wireJSON.n == 0 || same.n > 0, "WIRE_JSON fires => FIELD_SAME_TYPE fires")
	pk, ck := prev.fd.kind, cur.fd.kind
	named := ck == protoreflect.MessageKind || ck == protoreflect.GroupKind || ck == protoreflect.EnumKind
	renamed := named && prev.typeName != cur.typeName // (enum renames with WIRE/WIRE_JSON need the request: not on these paths)
	if pk == ck && !renamed {
		verifAssert(same.n == 0 && wire.n == 0 && wireJSON.n == 0, "identical resolved type: nothing reported")
	}
	if pk != ck {
		verifCover("resolved kind changed")
		verifAssert(same.n >= 1 && same.vbAt(cur), "resolved kind changed (incl. message <-> delimited) => FIELD_SAME_TYPE reports at the field")
	}
	if pk == ck && renamed {
		verifCover("message / group type name changed")
		verifAssert(same.n >= 1 && same.vbAt(cur), "type name changed => FIELD_SAME_TYPE reports at the field")
		verifAssert(wire.n >= 1 && wireJSON.n >= 1 && wire.vbAt(cur) && wireJSON.vbAt(cur), "message / group type name changed => WIRE and WIRE_JSON report at the field")
	}
	// documented compatibility groups
	wantWire := refBrkWireGroup(pk) != refBrkWireGroup(ck) && !(pk == protoreflect.StringKind && ck == protoreflect.BytesKind)
	wantWJ := refBrkWireJSONGroup(pk) != refBrkWireJSONGroup(ck)
	if pk != ck {
		if wantWire {
			verifAssert(wire.n >= 1 && wire.vbAt(cur), "kind changed across WIRE groups => FIELD_WIRE_COMPATIBLE_TYPE reports at the field")
		} else {
			verifCover("kind changed inside a WIRE group (or string -> bytes)")
			verifAssert(wire.n == 0, "kind changed inside a WIRE group (or string -> bytes) => WIRE silent")
		}
		if wantWJ {
			verifAssert(wireJSON.n >= 1 && wireJSON.vbAt(cur), "kind changed across WIRE_JSON groups => FIELD_WIRE_JSON_COMPATIBLE_TYPE reports at the field")
		} else {
			verifCover("kind changed inside a WIRE_JSON group")
			verifAssert(wireJSON.n == 0, "kind changed inside a WIRE_JSON group => WIRE_JSON silent")
		}
	}
}

// Documented wire compatibility groups (buf docs, FIELD_WIRE_COMPATIBLE_TYPE): int32/uint32/int64/uint64/bool;
// sint32/sint64; fixed32/sfixed32; fixed64/sfixed64; everything else alone (string -> bytes is a one-way exception).
func refBrkWireGroup(k protoreflect.Kind) int {
	switch k {
	case protoreflect.Int32Kind, protoreflect.Uint32Kind, protoreflect.Int64Kind, protoreflect.Uint64Kind, protoreflect.BoolKind:
		return 100
	case protoreflect.Sint32Kind, protoreflect.Sint64Kind:
		return 101
	case protoreflect.Fixed32Kind, protoreflect.Sfixed32Kind:
		return 102
	case protoreflect.Fixed64Kind, protoreflect.Sfixed64Kind:
		return 103
	}
	return int(k)
}

// Documented wire+JSON groups (FIELD_WIRE_JSON_COMPATIBLE_TYPE): int32/uint32; int64/uint64; fixed32/sfixed32;
// fixed64/sfixed64; everything else alone.
func refBrkWireJSONGroup(k protoreflect.Kind) int {
	switch k {
	case protoreflect.Int32Kind, protoreflect.Uint32Kind:
		return 100
	case protoreflect.Int64Kind, protoreflect.Uint64Kind:
		return 101
	case protoreflect.Fixed32Kind, protoreflect.Sfixed32Kind:
		return 102
	case protoreflect.Fixed64Kind, protoreflect.Sfixed64Kind:
		return 103
	}
	return int(k)
}

// VerifLemma_C03A_EnumTypeChange: an enum-typed field whose type name changes. FIELD_SAME_TYPE always reports it;
// FIELD_WIRE(_JSON)_COMPATIBLE_TYPE report it unless the new enum has the same short name and contains every
// previous value (same name, same number) - the documented "moved enum" allowance. 1..NV values per enum.
func VerifLemma_C03A_EnumTypeChange() {
	prevEnum := &vbEnum{name: "E", full: "p.E"}
	curEnum := &vbEnum{name: "E", full: "p.E"}
	switch verifNondetChoice(3) {
	case 1:
		curEnum.full = "q.E" // moved to another package
	case 2:
		curEnum.name, curEnum.full = "F", "p.F" // renamed
	}
	mkVals := func(e *vbEnum) ([]string, []int) {
		n := verifNondetChoice(verifParam("NV")) + 1
		names, nums := make([]string, n), make([]int, n)
		for i := 0; i < n; i++ {
			names[i] = vbNondetLetter()
			vbDistinctFrom(names[i], names[:i])
			nums[i] = verifNondetInt(vbTagLo, vbTagHi)
			e.values = append(e.values, &vbEnumValue{name: names[i], number: nums[i], enum: e})
		}
		return names, nums
	}
	pNames, pNums := mkVals(prevEnum)
	cNames, cNums := mkVals(curEnum)
	req := &vbReq{
		cur:  []bufprotosource.File{&vFile{path: "a.proto", enums: []bufprotosource.Enum{curEnum}}},
		prev: []bufprotosource.File{&vFile{path: "a.proto", enums: []bufprotosource.Enum{prevEnum}}},
	}
	mk := func(e *vbEnum) *vField {
		return &vField{fd: &vFD{kind: protoreflect.EnumKind}, typ: descriptorpb.FieldDescriptorProto_TYPE_ENUM,
			typeName: "." + e.full, name: "f", number: 1}
	}
	prev, cur := mk(prevEnum), mk(curEnum)
	wire, wireJSON, same := &vRW{}, &vRW{}, &vRW{}
	e1 := handleBreakingFieldWireCompatibleType(wire, req, cur, prev)
	e2 := handleBreakingFieldWireJSONCompatibleType(wireJSON, req, cur, prev)
	e3 := handleBreakingFieldSameType(same, req, cur, prev)
	verifAssert(e1 == nil && e2 == nil && e3 == nil, "enum type handlers return no error")
	verifCover("enum type handlers returned")
	if prevEnum.full == curEnum.full {
		verifAssert(wire.n == 0 && wireJSON.n == 0 && same.n == 0, "same enum type name: nothing reported (value changes are other rules' business)")
		return
	}
	verifAssert(same.n >= 1 && same.vbAt(cur), "enum type name changed => FIELD_SAME_TYPE reports at the field")
	subset := true
	for i := 0; i < len(pNames); i++ {
		found := false
		for j := 0; j < len(cNames); j++ {
			if pNames[i] == cNames[j] && pNums[i] == cNums[j] {
				found = true
			}
		}
		if !found {
			subset = false
		}
	}
	if prevEnum.name == curEnum.name && subset {
		verifCover("enum moved with all previous values kept")
		verifAssert(wire.n == 0 && wireJSON.n == 0, "moved enum that keeps every previous value is wire(/JSON) compatible")
	} else {
		verifCover("enum replaced by an incompatible one")
		verifAssert(wire.n >= 1 && wire.vbAt(cur), "incompatible enum change => WIRE reports at the field")
		verifAssert(wireJSON.n >= 1 && wireJSON.vbAt(cur), "incompatible enum change => WIRE_JSON reports at the field")
	}
}
