//go:build verif

package bufcheckserverhandle

import (
	"google.golang.org/protobuf/reflect/protoreflect"
	"google.golang.org/protobuf/types/descriptorpb"
)

func vNondetTypedField() *vField {
	k := verifNondetInt(1, 18)
	name := verifNondetString(verifParam("TN"))
	return &vField{fd: &vFD{kind: protoreflect.Kind(k)}, typ: descriptorpb.FieldDescriptorProto_Type(k), typeName: name, name: "f", number: 1}
}

// VerifLemma_C03A_FieldTypeHierarchy: for every pair of field kinds and type names, WIRE fires => WIRE_JSON
// fires => SAME_TYPE fires; identical fields are clean; a changed kind is reported by FIELD_SAME_TYPE.
func VerifLemma_C03A_FieldTypeHierarchy() {
	prev, cur := vNondetTypedField(), vNondetTypedField()
	wire, wireJSON, same := &vRW{}, &vRW{}, &vRW{}
	if err := handleBreakingFieldWireCompatibleType(wire, vReq{}, cur, prev); err != nil {
		return
	}
	if err := handleBreakingFieldWireJSONCompatibleType(wireJSON, vReq{}, cur, prev); err != nil {
		return
	}
	if err := handleBreakingFieldSameType(same, vReq{}, cur, prev); err != nil {
		return
	}
	verifCover("all three handlers returned")
	verifAssert(wire.n == 0 || wireJSON.n > 0, "WIRE fires => WIRE_JSON fires")
	verifAssert(wireJSON.n == 0 || same.n > 0, "WIRE_JSON fires => FIELD_SAME_TYPE fires")
	if prev.typ == cur.typ && prev.typeName == cur.typeName {
		verifAssert(same.n == 0 && wire.n == 0 && wireJSON.n == 0, "identical type: nothing reported")
	}
	if prev.typ != cur.typ {
		verifAssert(same.n > 0, "kind changed => FIELD_SAME_TYPE reports")
	}
}
