//go:build verif

package bufcheckserverhandle

import (
	"context"

	"github.com/bufbuild/buf/private/bufpkg/bufcheck/bufcheckserver/internal/bufcheckserverutil"
	"github.com/bufbuild/buf/private/bufpkg/bufprotosource"
	"google.golang.org/protobuf/reflect/protoreflect"
	"google.golang.org/protobuf/types/descriptorpb"
)

// C04-A / C04-B: a schema compared with itself, or with a version that only adds things, is never reported.

// vbSchemaAttrs: the (symbolic) attributes of a small but complete schema: one file with options, a message with a
// field (any type / cardinality / oneof membership / json name / jstype), reserved and extension ranges, a reserved
// name, a nested message, an enum with a value, reserved range and name, an extension, a service with a method.
type vbSchemaAttrs struct {
	pkg                    string
	strOpt                 string
	boolOpt                bool
	syntax                 int
	optFor                 int
	fNum, xNum, vNum       int
	fName, fJSON, vName    string
	fKind                  int
	fDelimited             bool
	fClass                 int
	fMapEntry              bool
	fInOneof, fSynthetic   bool
	fJSType                int
	resS, resE, extS, extE int
	eResS, eResE           int
	resName, eResName      string
	noStdDA                bool
	in, out                string
	cStream, sStream       bool
	idem                   int
	// additions (fresh numbers / names are assumed distinct from the existing ones)
	addFNum, addVNum   int
	addFName, addVName string
	addResS, addResE   int
	addEResS, addEResE int
	addResName         string
	// name of the field\'s synthetic oneof after the additions (the compiler renames it when "_<field>" gets taken)
	addSynName string
	addFClass  int
}

// vbNondetSchemaAttrs: concrete defaults everywhere except the focused attribute group, which is symbolic
// (0 file, 1 field type, 2 field cardinality, 3 field number / names / oneof / jstype, 4 message ranges / names /
// option, 5 enum, 6 service / method, 7 extension). Focusing keeps the path count a sum instead of a product.
const vbFocusGroups = 8

func vbNondetSchemaAttrs(focus int) *vbSchemaAttrs {
	maxTag := bufprotosource.MessageRangeInclusiveMax
	a := &vbSchemaAttrs{pkg: "p", strOpt: "s", syntax: 3, optFor: 1, fNum: 1, xNum: 100, vNum: 0, fName: "f", fJSON: "f", vName: "V",
		fKind: 5, fClass: 2, resS: 10, resE: 12, extS: 100, extE: 200, eResS: 5, eResE: 6, resName: "r", eResName: "R", in: "i", out: "o"}
	switch focus {
	case 0:
		a.pkg = vbNondetLetter()
		a.strOpt = vbNondetLetter()
		a.boolOpt = verifNondetBool()
		a.syntax = verifNondetInt(1, 4)
		a.optFor = verifNondetChoice(3) + 1
	case 1:
		a.fKind = verifNondetInt(1, 18)
		a.fDelimited = verifNondetBool()
	case 2:
		a.fClass = verifNondetInt(1, 5)
		a.fMapEntry = verifNondetBool()
	case 3:
		a.fNum = verifNondetInt(1, maxTag)
		a.fName, a.fJSON = vbNondetLetter(), vbNondetLetter()
		a.fInOneof, a.fSynthetic = verifNondetBool(), verifNondetBool()
		a.fKind = 3 // int64, so that jstype matters
		a.fJSType = verifNondetChoice(3)
	case 4:
		a.resS, a.resE = verifNondetInt(1, maxTag), verifNondetInt(1, maxTag)
		verifAssume(a.resS <= a.resE)
		a.extS, a.extE = verifNondetInt(1, maxTag), verifNondetInt(1, maxTag)
		verifAssume(a.extS <= a.extE)
		a.resName = vbNondetLetter()
		a.noStdDA = verifNondetBool()
	case 5:
		a.vNum = verifNondetInt(vbTagLo, vbTagHi)
		a.vName = vbNondetLetter()
		a.eResS, a.eResE = verifNondetInt(vbTagLo, vbTagHi), verifNondetInt(vbTagLo, vbTagHi)
		verifAssume(a.eResS <= a.eResE)
		a.eResName = vbNondetLetter()
	case 6:
		a.in, a.out = vbNondetLetter(), vbNondetLetter()
		a.cStream, a.sStream = verifNondetBool(), verifNondetBool()
		a.idem = verifNondetChoice(3)
	case 7:
		a.xNum = verifNondetInt(1, maxTag)
	}
	return a
}

func vbNondetAdditions(a *vbSchemaAttrs) {
	maxTag := bufprotosource.MessageRangeInclusiveMax
	a.addFNum = verifNondetInt(1, maxTag)
	verifAssume(a.addFNum != a.fNum)
	a.addFName = vbNondetLetter()
	verifAssume(a.addFName != a.fName)
	a.addFClass = verifNondetInt(1, 5)
	verifAssume(a.addFClass != 3) // not required
	a.addVNum = verifNondetInt(vbTagLo, vbTagHi)
	verifAssume(a.addVNum != a.vNum)
	a.addVName = vbNondetLetter()
	verifAssume(a.addVName != a.vName)
	// added ranges are concrete here; symbolic added / widened / reordered ranges: VerifLemma_C04B_RangesAdditive
	a.addResS, a.addResE = 20, 30
	a.addEResS, a.addEResE = -3, -1
	a.addResName = vbNondetLetter()
	a.addSynName = "X_" + vbNondetLetter()
}

type vbSchema struct {
	files  []bufprotosource.File
	file   *vFile
	msg    *vMsg
	nested *vMsg
	field  *vField
	ext    *vField
	enum   *vbEnum
	value  *vbEnumValue
	svc    *vbService
	method *vbMethod
}

func vbMkField(num int, name, json string, kind int, delimited bool, class int, mapEntry bool, parent *vMsg, file *vFile) *vField {
	k := protoreflect.Kind(kind)
	if kind == 11 && delimited {
		k = protoreflect.GroupKind
	}
	fd := &vFD{kind: k, isList: class == 4, isMap: class == 5, required: class == 3, presence: class == 1 || class == 3, inMapEntry: mapEntry}
	label := descriptorpb.FieldDescriptorProto_LABEL_OPTIONAL
	if class == 3 {
		label = descriptorpb.FieldDescriptorProto_LABEL_REQUIRED
	}
	if class >= 4 {
		label = descriptorpb.FieldDescriptorProto_LABEL_REPEATED
	}
	f := &vField{fd: fd, typ: descriptorpb.FieldDescriptorProto_Type(kind), name: name, number: num, jsonName: json,
		label: label, parent: parent, file: file, full: "p.M." + name}
	if kind == 10 || kind == 11 || kind == 14 {
		f.typeName = ".p.T"
	}
	return f
}

// vbBuildSchema builds fresh stub objects from the attributes; with additions it also adds a second file, new
// top-level message / enum / service, a new method, a new real oneof holding a new non-required field, a new enum
// value, new reserved ranges and a new reserved name.
func vbBuildSchema(a *vbSchemaAttrs, additions bool) *vbSchema {
	s := &vbSchema{}
	f := &vFile{path: "a.proto", pkg: a.pkg, syntax: bufprotosource.Syntax(a.syntax), optFor: descriptorpb.FileOptions_OptimizeMode(a.optFor)}
	for i := 0; i < len(f.strOpt); i++ {
		f.strOpt[i] = a.strOpt
	}
	for i := 0; i < len(f.boolOpt); i++ {
		f.boolOpt[i] = a.boolOpt
	}
	m := &vMsg{name: "M", nested: "M", full: "p.M", file: f, noStdDA: a.noStdDA}
	n := &vMsg{name: "N", nested: "M.N", full: "p.M.N", file: f}
	m.msgs = append(m.msgs, n)
	fld := vbMkField(a.fNum, a.fName, a.fJSON, a.fKind, a.fDelimited, a.fClass, a.fMapEntry, m, f)
	fld.jsType = descriptorpb.FieldOptions_JSType(a.fJSType)
	if a.fInOneof {
		o := &vbOneof{name: "o", synthetic: a.fSynthetic, fields: []bufprotosource.Field{fld}}
		if a.fSynthetic {
			// proto3 optional: the compiler-generated oneof is "_<field>", or another free name when an added field
			// takes that one
			o.name = "_" + a.fName
			if additions {
				o.name = a.addSynName
			}
		}
		fld.oneof = o
		fld.proto3Optional = a.fSynthetic
		m.oneofs = append(m.oneofs, o)
	}
	m.fields = append(m.fields, fld)
	m.resRngs = append(m.resRngs, &vbRange{s: a.resS, e: a.resE})
	m.extRngs = append(m.extRngs, &vbRange{s: a.extS, e: a.extE})
	m.resNms = append(m.resNms, &vbResName{v: a.resName})
	e := &vbEnum{name: "E", nested: "E", full: "p.E", file: f}
	v := &vbEnumValue{name: a.vName, number: a.vNum, enum: e}
	e.values = append(e.values, v)
	e.resRngs = append(e.resRngs, &vbEnumRange{s: a.eResS, e: a.eResE})
	e.resNms = append(e.resNms, &vbResName{v: a.eResName})
	x := &vField{fd: &vFD{kind: protoreflect.Int32Kind, presence: true}, typ: descriptorpb.FieldDescriptorProto_TYPE_INT32,
		name: "x", nested: "x", full: "p.x", number: a.xNum, extendee: ".p.M", file: f, jsonName: "x"}
	svc := &vbService{name: "S", full: "p.S", file: f}
	meth := &vbMethod{name: "R", svc: svc, in: a.in, out: a.out, cStream: a.cStream, sStream: a.sStream,
		idempotency: descriptorpb.MethodOptions_IdempotencyLevel(a.idem)}
	svc.methods = append(svc.methods, meth)
	f.msgs = append(f.msgs, m)
	f.enums = append(f.enums, e)
	f.exts = append(f.exts, x)
	f.svcs = append(f.svcs, svc)
	s.files = []bufprotosource.File{f}
	s.file, s.msg, s.nested, s.field, s.ext, s.enum, s.value, s.svc, s.method = f, m, n, fld, x, e, v, svc, meth
	if additions {
		o2 := &vbOneof{name: "o2"}
		f2 := vbMkField(a.addFNum, a.addFName, a.addFName, 5, false, a.addFClass, false, m, f)
		if a.addFClass <= 2 {
			f2.oneof = o2
			o2.fields = append(o2.fields, f2)
		}
		m.oneofs = append(m.oneofs, o2)
		m.fields = append(m.fields, f2)
		m.resRngs = append(m.resRngs, &vbRange{s: a.addResS, e: a.addResE})
		m.extRngs = append(m.extRngs, &vbRange{s: a.addResS, e: a.addResE})
		m.resNms = append(m.resNms, &vbResName{v: a.addResName})
		m.msgs = append(m.msgs, &vMsg{name: "N2", nested: "M.N2", full: "p.M.N2", file: f})
		e.values = append(e.values, &vbEnumValue{name: a.addVName, number: a.addVNum, enum: e})
		e.resRngs = append(e.resRngs, &vbEnumRange{s: a.addEResS, e: a.addEResE})
		e.resNms = append(e.resNms, &vbResName{v: a.addResName})
		svc.methods = append(svc.methods, &vbMethod{name: "R2", svc: svc, in: "i", out: "o"})
		f.msgs = append(f.msgs, &vMsg{name: "M3", nested: "M3", full: "p.M3", file: f})
		f.enums = append(f.enums, &vbEnum{name: "E2", nested: "E2", full: "p.E2", file: f})
		f.exts = append(f.exts, &vField{name: "x2", nested: "x2", full: "p.x2", number: 1, extendee: ".p.M3", file: f})
		f.svcs = append(f.svcs, &vbService{name: "S2", full: "p.S2", file: f})
		g := &vFile{path: "b.proto", pkg: a.pkg, syntax: bufprotosource.SyntaxProto3, isImport: verifNondetBool()}
		g.msgs = append(g.msgs, &vMsg{name: "M2", nested: "M2", full: "p.M2", file: g})
		s.files = append(s.files, g)
	}
	return s
}

type (
	vbMsgHandler    = func(bufcheckserverutil.ResponseWriter, bufcheckserverutil.Request, bufprotosource.Message, bufprotosource.Message) error
	vbFieldHandler  = func(bufcheckserverutil.ResponseWriter, bufcheckserverutil.Request, bufprotosource.Field, bufprotosource.Field) error
	vbEnumHandler   = func(bufcheckserverutil.ResponseWriter, bufcheckserverutil.Request, bufprotosource.Enum, bufprotosource.Enum) error
	vbMethodHandler = func(bufcheckserverutil.ResponseWriter, bufcheckserverutil.Request, bufprotosource.Method, bufprotosource.Method) error
	vbReqHandler    = func(context.Context, bufcheckserverutil.ResponseWriter, bufcheckserverutil.Request) error
)

var (
	vbAllFileHandlers = []vbFileHandler{
		handleBreakingEnumNoDelete, handleBreakingExtensionNoDelete, handleBreakingMessageNoDelete, handleBreakingServiceNoDelete,
		handleBreakingFileSameCsharpNamespace, handleBreakingFileSameGoPackage, handleBreakingFileSameJavaOuterClassname,
		handleBreakingFileSameJavaPackage, handleBreakingFileSameObjcClassPrefix, handleBreakingFileSamePhpClassPrefix,
		handleBreakingFileSamePhpNamespace, handleBreakingFileSamePhpMetadataNamespace, handleBreakingFileSameRubyPackage,
		handleBreakingFileSameSwiftPrefix, handleBreakingFileSameCcEnableArenas, handleBreakingFileSameCcGenericServices,
		handleBreakingFileSameJavaGenericServices, handleBreakingFileSameJavaMultipleFiles, handleBreakingFileSamePyGenericServices,
		handleBreakingFileSameOptimizeFor, handleBreakingFileSamePackage, handleBreakingFileSameSyntax,
	}
	vbAllMsgHandlers = []vbMsgHandler{
		handleBreakingExtensionMessageNoDelete, handleBreakingFieldNoDelete, handleBreakingFieldNoDeleteUnlessNameReserved,
		handleBreakingFieldNoDeleteUnlessNumberReserved, handleBreakingMessageNoRemoveStandardDescriptorAccessor,
		handleBreakingOneofNoDelete, handleBreakingMessageSameRequiredFields, handleBreakingReservedMessageNoDelete,
	}
	vbAllFieldHandlers = []vbFieldHandler{
		handleBreakingFieldSameCardinality, handleBreakingFieldWireJSONCompatibleCardinality, handleBreakingFieldWireCompatibleCardinality,
		handleBreakingFieldSameType, handleBreakingFieldWireJSONCompatibleType, handleBreakingFieldWireCompatibleType,
		handleBreakingFieldSameJSType, handleBreakingFieldSameJSONName, handleBreakingFieldSameName, handleBreakingFieldSameOneof,
	}
	vbAllEnumHandlers = []vbEnumHandler{
		handleBreakingEnumValueNoDelete, handleBreakingEnumValueNoDeleteUnlessNameReserved,
		handleBreakingEnumValueNoDeleteUnlessNumberReserved, handleBreakingReservedEnumNoDelete, handleBreakingEnumSameType,
	}
	vbAllMethodHandlers = []vbMethodHandler{
		handleBreakingRPCSameRequestType, handleBreakingRPCSameResponseType, handleBreakingRPCSameClientStreaming,
		handleBreakingRPCSameServerStreaming, handleBreakingRPCSameIdempotencyLevel,
	}
	vbAllReqHandlers = []vbReqHandler{
		handleBreakingFileNoDelete, handleBreakingPackageEnumNoDelete, handleBreakingPackageExtensionNoDelete,
		handleBreakingPackageMessageNoDelete, handleBreakingPackageServiceNoDelete, handleBreakingPackageNoDelete,
	}
)

// vbRunAll runs every (non feature-based) breaking handler on the paired elements of two schemas and returns the
// total number of annotations and whether any handler returned an error.
func vbRunAll(prev, cur *vbSchema) (int, bool) {
	req := &vbReq{cur: cur.files, prev: prev.files}
	rw := &vRW{}
	failed := false
	note := func(err error) {
		if err != nil {
			failed = true
		}
	}
	for _, h := range vbAllFileHandlers {
		note(h(rw, req, cur.file, prev.file))
	}
	for _, h := range vbAllMsgHandlers {
		note(h(rw, req, cur.msg, prev.msg))
		note(h(rw, req, cur.nested, prev.nested))
	}
	for _, h := range vbAllFieldHandlers {
		note(h(rw, req, cur.field, prev.field))
		note(h(rw, req, cur.ext, prev.ext))
	}
	for _, h := range vbAllEnumHandlers {
		note(h(rw, req, cur.enum, prev.enum))
	}
	// enum values are paired by number: the value of number vNum on each side
	curVals := map[string]bufprotosource.EnumValue{}
	for _, v := range cur.enum.values {
		if v.Number() == cur.value.number {
			curVals[v.Name()] = v
		}
	}
	note(handleBreakingEnumValueSameName(rw, req, curVals, map[string]bufprotosource.EnumValue{prev.value.name: prev.value}))
	note(handleBreakingRPCNoDelete(rw, req, cur.svc, prev.svc))
	for _, h := range vbAllMethodHandlers {
		note(h(rw, req, cur.method, prev.method))
	}
	for _, h := range vbAllReqHandlers {
		note(h(context.Background(), rw, req))
	}
	return rw.n, failed
}

// VerifLemma_C04A_Identity: a schema with arbitrary attribute values compared with an attribute-equal copy of itself:
// none of the 57 handlers reports anything or fails.
func VerifLemma_C04A_Identity() {
	a := vbNondetSchemaAttrs(verifNondetChoice(vbFocusGroups))
	prev, cur := vbBuildSchema(a, false), vbBuildSchema(a, false)
	n, failed := vbRunAll(prev, cur)
	verifCover("all handlers ran on identical schemas")
	verifAssert(!failed, "identical schemas: no handler fails")
	verifAssert(n == 0, "identical schemas: nothing reported")
}

// VerifLemma_C04B_Additive: the current schema only adds things (file, message, nested message, enum, extension,
// service, RPC, oneof, non-required field with fresh number and name, enum value with fresh number and name,
// reserved ranges and names, extension range): none of the handlers reports anything.
func VerifLemma_C04B_Additive() {
	a := vbNondetSchemaAttrs(verifNondetChoice(vbFocusGroups))
	vbNondetAdditions(a)
	prev, cur := vbBuildSchema(a, false), vbBuildSchema(a, true)
	n, failed := vbRunAll(prev, cur)
	verifCover("all handlers ran on an additive change")
	verifAssert(!failed, "additive change: no handler fails")
	verifAssert(n == 0, "additive change: nothing reported")
}
