//go:build verif

package bufcheckserverhandle

import (
	"github.com/bufbuild/buf/private/bufpkg/bufprotosource"
)

// C03-F: tag ranges (reserved ranges / extension ranges must not lose values).

// vbTagLo/vbTagHi: every tag value the descriptor model admits (enum numbers are int32, message tags are
// 1..2^29-1); as Go ints (64 bit) so that end+1 never overflows.
const (
	vbTagLo = -2147483648
	vbTagHi = 2147483647
)

func vbNondetSimpleRanges(n int, lo, hi int) []simpleTagRange {
	out := make([]simpleTagRange, n)
	for i := 0; i < n; i++ {
		s := verifNondetInt(lo, hi)
		e := verifNondetInt(lo, hi)
		verifAssume(s <= e)
		out[i] = simpleTagRange{s, e}
	}
	return out
}

// refBrkCovered: the closed integer range p is covered by the union of rs iff its start is covered and the
// successor of every range end that lies inside p (before p's end) is covered.
func refBrkCovered(p simpleTagRange, rs []simpleTagRange) bool {
	if !refBrkInRanges(p[0], rs) {
		return false
	}
	for i := 0; i < len(rs); i++ {
		if p[0] <= rs[i][1] && rs[i][1] < p[1] {
			if !refBrkInRanges(rs[i][1]+1, rs) {
				return false
			}
		}
	}
	return true
}

func refBrkInRanges(x int, rs []simpleTagRange) bool {
	for i := 0; i < len(rs); i++ {
		if rs[i][0] <= x && x <= rs[i][1] {
			return true
		}
	}
	return false
}

// VerifLemma_C03F_TagRangeKernel: collapseRanges + findMissing compute exactly prev \ union(cur).
// For NC current ranges, one previous range and a universally quantified witness tag x:
//   - x in prev and x not in union(cur)  =>  x lies in some returned missing range (no lost value goes unreported);
//   - x in a returned missing range       =>  x in prev and x not in union(cur) (nothing reported that is still covered).
//
// Nothing is asserted about the representation (order, overlap, adjacency) of the intermediate or returned ranges.
func VerifLemma_C03F_TagRangeKernel() {
	n := verifNondetChoice(verifParam("NC") + 1)
	lo, hi := vbTagLo, vbTagHi
	if w := verifParam("W"); w > 0 && w < 32 {
		lo, hi = -(1 << (w - 1)), 1<<(w-1)-1
	}
	cur := vbNondetSimpleRanges(n, lo, hi)
	ps := verifNondetInt(lo, hi)
	pe := verifNondetInt(lo, hi)
	verifAssume(ps <= pe)
	x := verifNondetInt(lo, hi)

	// collapseRanges sorts a private copy; keep the original for the reference.
	orig := make([]simpleTagRange, n)
	copy(orig, cur)
	col := collapseRanges(cur)
	verifCover("collapsed")
	inCur := refBrkInRanges(x, orig)

	miss := findMissing(ps, pe, col)
	verifCover("findMissing returned")
	inPrev := ps <= x && x <= pe
	inMiss := refBrkInRanges(x, miss)
	if inPrev && !inCur {
		verifCover("witness tag was removed")
		verifAssert(inMiss, "removed tag lies in a returned missing range")
	}
	if inMiss {
		verifAssert(inPrev, "missing range within the previous range")
		verifAssert(!inCur, "missing range disjoint from the current ranges")
	}
}

// VerifLemma_C03F_CollapseRanges: collapseRanges alone, for up to NC ranges: the result is well-formed, ascending,
// pairwise non-adjacent, and covers exactly the same tags (witness x universally quantified). "Sorted and collapsed"
// is the helper's documented contract with findMissing (parameter `collapsedRanges`, binary search on End(); inline
// comment "overlapping or adjacent, so we can collapse i into j"): this lemma and VerifLemma_C03F_FindMissing decide
// that internal contract; the contract-free statement is VerifLemma_C03F_TagRangeKernel.
func VerifLemma_C03F_CollapseRanges() {
	n := verifNondetChoice(verifParam("NC") + 1)
	cur := vbNondetSimpleRanges(n, vbTagLo, vbTagHi)
	x := verifNondetInt(vbTagLo, vbTagHi)
	orig := make([]simpleTagRange, n)
	copy(orig, cur)
	col := collapseRanges(cur)
	verifCover("collapsed")
	for i := 0; i < len(col); i++ {
		verifAssert(col[i][0] <= col[i][1], "collapsed range well-formed")
		if i > 0 {
			verifAssert(col[i-1][1]+1 < col[i][0], "collapsed ranges ascending and not adjacent")
		}
	}
	verifAssert(refBrkInRanges(x, col) == refBrkInRanges(x, orig), "collapse preserves the union")
}

// VerifLemma_C03F_FindMissing: findMissing over *collapsed* ranges (precondition = the postcondition that
// VerifLemma_C03F_CollapseRanges establishes: well-formed, ascending, non-adjacent), up to NM of them:
// returned ranges = prev \ union(col), well-formed, ascending, disjoint.
func VerifLemma_C03F_FindMissing() {
	m := verifNondetChoice(verifParam("NM") + 1)
	col := vbNondetSimpleRanges(m, vbTagLo, vbTagHi)
	for i := 1; i < m; i++ {
		verifAssume(col[i-1][1]+1 < col[i][0])
	}
	ps := verifNondetInt(vbTagLo, vbTagHi)
	pe := verifNondetInt(vbTagLo, vbTagHi)
	verifAssume(ps <= pe)
	x := verifNondetInt(vbTagLo, vbTagHi)
	miss := findMissing(ps, pe, col)
	verifCover("findMissing returned")
	inCur := refBrkInRanges(x, col)
	inPrev := ps <= x && x <= pe
	inMiss := refBrkInRanges(x, miss)
	if inPrev && !inCur {
		verifCover("witness tag was removed")
		verifAssert(inMiss, "removed tag lies in a returned missing range")
	}
	if inMiss {
		verifAssert(inPrev, "missing range within the previous range")
		verifAssert(!inCur, "missing range disjoint from the current ranges")
	}
}

func vbNondetMsgRanges(n int, lo, hi int) ([]*vbRange, []simpleTagRange) {
	out := make([]*vbRange, n)
	ref := make([]simpleTagRange, n)
	for i := 0; i < n; i++ {
		s := verifNondetInt(lo, hi)
		e := verifNondetInt(lo, hi)
		verifAssume(s <= e)
		out[i] = &vbRange{s: s, e: e} // Max() only feeds the message text
		ref[i] = simpleTagRange{s, e}
	}
	return out, ref
}

// VerifLemma_C03F_ReservedRangeHandlers: RESERVED_MESSAGE_NO_DELETE, EXTENSION_MESSAGE_NO_DELETE and
// RESERVED_ENUM_NO_DELETE report (located at the current element) iff some previously reserved / extension tag
// is no longer covered, for NP previous and NC current ranges with symbolic bounds.
func VerifLemma_C03F_ReservedRangeHandlers() {
	np := verifNondetChoice(verifParam("NP")) + 1
	nc := verifNondetChoice(verifParam("NC") + 1)
	if sum := verifParam("SUM"); sum > 0 {
		verifAssume(np+nc <= sum) // bound on the total number of ranges (the cost is a product over the ranges)
	}
	which := verifNondetChoice(3)
	lo, hi := 1, bufprotosource.MessageRangeInclusiveMax
	if which == 2 {
		lo, hi = vbTagLo, vbTagHi
	}
	prevR, prevRef := vbNondetMsgRanges(np, lo, hi)
	curR, curRef := vbNondetMsgRanges(nc, lo, hi)
	rw := &vRW{}
	var curEl any
	var err error
	switch which {
	case 0:
		prev, cur := &vMsg{name: "M"}, &vMsg{name: "M"}
		for _, r := range prevR {
			prev.resRngs = append(prev.resRngs, r)
		}
		for _, r := range curR {
			cur.resRngs = append(cur.resRngs, r)
		}
		curEl = cur
		err = handleBreakingReservedMessageNoDelete(rw, vReq{}, cur, prev)
	case 1:
		prev, cur := &vMsg{name: "M"}, &vMsg{name: "M"}
		for _, r := range prevR {
			prev.extRngs = append(prev.extRngs, r)
		}
		for _, r := range curR {
			cur.extRngs = append(cur.extRngs, r)
		}
		curEl = cur
		err = handleBreakingExtensionMessageNoDelete(rw, vReq{}, cur, prev)
	default:
		prev, cur := &vbEnum{name: "E"}, &vbEnum{name: "E"}
		for _, r := range prevR {
			prev.resRngs = append(prev.resRngs, &vbEnumRange{s: r.s, e: r.e, max: r.max})
		}
		for _, r := range curR {
			cur.resRngs = append(cur.resRngs, &vbEnumRange{s: r.s, e: r.e, max: r.max})
		}
		curEl = cur
		err = handleBreakingReservedEnumNoDelete(rw, vReq{}, cur, prev)
	}
	verifAssert(err == nil, "range handler returns no error")
	verifCover("handler returned")
	uncovered := 0
	for i := 0; i < np; i++ {
		if !refBrkCovered(prevRef[i], curRef) {
			uncovered++
		}
	}
	if uncovered > 0 {
		verifCover("a previous range lost tags")
	}
	verifAssert(refBrkReported(rw, uncovered, curEl), "every previous range that lost tags is reported at the current element, nothing otherwise")
}
