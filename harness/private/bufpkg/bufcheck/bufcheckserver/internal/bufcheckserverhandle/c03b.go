//go:build verif

package bufcheckserverhandle

import (
	"google.golang.org/protobuf/reflect/protoreflect"
	"google.golang.org/protobuf/types/descriptorpb"
)

// C03-B: field cardinality (FIELD_SAME_CARDINALITY, FIELD_WIRE_JSON_COMPATIBLE_CARDINALITY,
// FIELD_WIRE_COMPATIBLE_CARDINALITY).

// vbNondetCardField returns a field whose descriptor has an arbitrary *valid* cardinality valuation:
// at most one of list / map / required; required implies presence; list and map have no presence.
// The reference class is 1 optional-explicit, 2 optional-implicit, 3 required, 4 repeated, 5 map.
func vbNondetCardField() (*vField, int) {
	fd := &vFD{kind: protoreflect.Int32Kind}
	class := verifNondetInt(1, 5)
	fd.isList = class == 4
	fd.isMap = class == 5
	fd.required = class == 3
	fd.presence = class == 1 || class == 3
	fd.inMapEntry = verifNondetBool()
	return &vField{fd: fd, typ: descriptorpb.FieldDescriptorProto_TYPE_INT32, name: "f", number: 1}, class
}

// documented groups: WIRE_JSON: optional(1,2) / required / repeated / map; WIRE: optional(1,2) / required / repeated+map.
func refBrkCardGroup(class int, wireOnly bool) int {
	switch {
	case class <= 2:
		return 1
	case class == 3:
		return 2
	case class == 4:
		return 3
	default:
		if wireOnly {
			return 3
		}
		return 4
	}
}

// VerifLemma_C03B_Cardinality: each cardinality rule reports (once, at the current field) exactly when the
// documented class / group changes - unless both fields are synthetic map-entry fields - and the three rules are
// ordered WIRE => WIRE_JSON => SAME.
func VerifLemma_C03B_Cardinality() {
	prev, pc := vbNondetCardField()
	cur, cc := vbNondetCardField()
	same, wireJSON, wire := &vRW{}, &vRW{}, &vRW{}
	e1 := handleBreakingFieldSameCardinality(same, vReq{}, cur, prev)
	e2 := handleBreakingFieldWireJSONCompatibleCardinality(wireJSON, vReq{}, cur, prev)
	e3 := handleBreakingFieldWireCompatibleCardinality(wire, vReq{}, cur, prev)
	verifAssert(e1 == nil && e2 == nil && e3 == nil, "cardinality handlers return no error")
	verifCover("all three cardinality handlers returned")
	skip := prev.fd.inMapEntry && cur.fd.inMapEntry
	wantSame := !skip && pc != cc
	wantWJ := !skip && refBrkCardGroup(pc, false) != refBrkCardGroup(cc, false)
	wantW := !skip && refBrkCardGroup(pc, true) != refBrkCardGroup(cc, true)
	if wantSame {
		verifCover("cardinality class changed")
		verifAssert(same.n >= 1 && same.vbAt(cur), "FIELD_SAME_CARDINALITY reports the change at the field")
	} else {
		verifAssert(same.n == 0, "FIELD_SAME_CARDINALITY silent when the class is unchanged")
	}
	if wantWJ {
		verifAssert(wireJSON.n >= 1 && wireJSON.vbAt(cur), "WIRE_JSON cardinality reports a group change at the field")
	} else {
		verifAssert(wireJSON.n == 0, "WIRE_JSON cardinality silent inside a group")
	}
	if wantW {
		verifAssert(wire.n >= 1 && wire.vbAt(cur), "WIRE cardinality reports a group change at the field")
	} else {
		verifAssert(wire.n == 0, "WIRE cardinality silent inside a group")
	}
	verifAssert(wire.n == 0 || wireJSON.n > 0, "WIRE cardinality fires => WIRE_JSON fires")
	verifAssert(wireJSON.n == 0 || same.n > 0, "WIRE_JSON cardinality fires => SAME fires")
}
