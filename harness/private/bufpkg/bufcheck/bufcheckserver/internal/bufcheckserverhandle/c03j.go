//go:build verif

package bufcheckserverhandle

// C03-J: FIELD_SAME_DEFAULT, integer / bool kinds only. The handler itself needs protoreflect.Value (outside the
// claim); its comparison kernel defaultsEqual works on plain Go values and is driven directly.

func vbDefaultOf(kind int, x int64) any {
	switch kind {
	case 0:
		return int32(x)
	case 1:
		return int64(x)
	case 2:
		return uint32(x)
	case 3:
		return uint64(x)
	default:
		return x&1 == 1
	}
}

// VerifLemma_C03J_IntegerDefaults: for two default values of the kinds int32 / int64 / uint32 / uint64 / bool
// (kinds chosen independently: a kind change is FIELD_SAME_TYPE's business, the default comparison is lenient about
// it), with arbitrary 64-bit patterns: defaultsEqual says "equal" exactly when the two values are numerically equal.
// In particular 64-bit defaults beyond 2^53 that differ by one are different. Param D > 0: the current value is within
// +-D of the previous one (quick tier); D = 0: independent values (thorough tier). Param XK = 0: both sides have the same kind; XK = 1: kinds independent.
func VerifLemma_C03J_IntegerDefaults() {
	pk := verifNondetChoice(5)
	ck := pk
	if verifParam("XK") > 0 {
		ck = verifNondetChoice(5) // cross-kind comparisons (the kernel is lenient about kind changes)
	}
	px := verifNondetInt64(-9223372036854775808, 9223372036854775807)
	var cx int64
	if w := verifNondetChoice(4); w > 0 {
		// concrete witnesses beyond 2^53 (also executable by an implementation that goes through machine floats,
		// which the engine cannot run on symbolic values): 2^53+1, MaxInt64, MinInt64+1
		px = []int64{0, 9007199254740993, 9223372036854775807, -9223372036854775807}[w]
		cx = px - 1
	} else if d := int64(verifParam("D")); d > 0 {
		// neighbouring values (wrapping): the pairs that limited precision would confuse; keeps both values in
		// (nearly) the same binary exponent class, which is what the path count is a product of
		cx = px + verifNondetInt64(-d, d)
	} else {
		cx = verifNondetInt64(-9223372036854775808, 9223372036854775807)
	}
	p, c := vbDefaultOf(pk, px), vbDefaultOf(ck, cx)
	got := defaultsEqual(fieldDefault{comparable: p, printable: p}, fieldDefault{comparable: c, printable: c})
	verifCover("defaultsEqual returned")
	// numeric value of each side as (negative?, magnitude)
	num := func(kind int, x int64) (bool, uint64) {
		switch kind {
		case 0:
			v := int64(int32(x))
			if v < 0 {
				return true, uint64(-v)
			}
			return false, uint64(v)
		case 1:
			if x < 0 {
				return true, uint64(-x) // two's complement: correct for MinInt64 as well
			}
			return false, uint64(x)
		case 2:
			return false, uint64(uint32(x))
		case 3:
			return false, uint64(x)
		default:
			return false, uint64(x & 1)
		}
	}
	pn, pm := num(pk, px)
	cn, cm := num(ck, cx)
	want := pn == cn && pm == cm
	if want {
		verifCover("numerically equal defaults")
	}
	verifAssert(got == want, "integer defaults compare equal exactly when numerically equal")
}
