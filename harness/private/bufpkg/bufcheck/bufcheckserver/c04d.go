//go:build verif

package bufcheckserver

import (
	"buf.build/go/bufplugin/check"
)

// C04-D / C03-I: the category tables of the three real spec values (concrete; the engine runs the real package
// initialisers that build them).

var vbCategoryOrder = []string{"WIRE", "WIRE_JSON", "PACKAGE", "FILE"} // laxest first

// vbImpliers: "rule fires => some rule of the set fires", each set discharged by a handler-level lemma:
// type chain C04-C.field-type-order, cardinality chain C04-C.cardinality-order, reservation variants
// C04-C.field-delete-order / C04-C.enum-value-delete-order, package rules C04-C.package-implies-file.
// A rule of a laxer category is covered in the stricter one if it is a member itself or one of its sets is
// entirely contained in the stricter category.
var vbImpliers = map[string][][]string{
	"FIELD_WIRE_COMPATIBLE_TYPE":                  {{"FIELD_WIRE_JSON_COMPATIBLE_TYPE"}, {"FIELD_SAME_TYPE"}},
	"FIELD_WIRE_JSON_COMPATIBLE_TYPE":             {{"FIELD_SAME_TYPE"}},
	"FIELD_WIRE_COMPATIBLE_CARDINALITY":           {{"FIELD_WIRE_JSON_COMPATIBLE_CARDINALITY"}, {"FIELD_SAME_CARDINALITY"}},
	"FIELD_WIRE_JSON_COMPATIBLE_CARDINALITY":      {{"FIELD_SAME_CARDINALITY"}},
	"FIELD_NO_DELETE_UNLESS_NUMBER_RESERVED":      {{"FIELD_NO_DELETE"}},
	"FIELD_NO_DELETE_UNLESS_NAME_RESERVED":        {{"FIELD_NO_DELETE"}},
	"ENUM_VALUE_NO_DELETE_UNLESS_NUMBER_RESERVED": {{"ENUM_VALUE_NO_DELETE"}},
	"ENUM_VALUE_NO_DELETE_UNLESS_NAME_RESERVED":   {{"ENUM_VALUE_NO_DELETE"}},
	"PACKAGE_ENUM_NO_DELETE":                      {{"ENUM_NO_DELETE", "FILE_NO_DELETE", "FILE_SAME_PACKAGE"}},
	"PACKAGE_EXTENSION_NO_DELETE":                 {{"EXTENSION_NO_DELETE", "FILE_NO_DELETE", "FILE_SAME_PACKAGE"}},
	"PACKAGE_MESSAGE_NO_DELETE":                   {{"MESSAGE_NO_DELETE", "FILE_NO_DELETE", "FILE_SAME_PACKAGE"}},
	"PACKAGE_SERVICE_NO_DELETE":                   {{"SERVICE_NO_DELETE", "FILE_NO_DELETE", "FILE_SAME_PACKAGE"}},
	"PACKAGE_NO_DELETE":                           {{"FILE_NO_DELETE", "FILE_SAME_PACKAGE"}},
}

func vbRulesOf(spec *check.Spec, category string) map[string]bool {
	out := map[string]bool{}
	for _, r := range spec.Rules {
		if r.Type != check.RuleTypeBreaking {
			continue
		}
		for _, c := range r.CategoryIDs {
			if c == category {
				out[r.ID] = true
			}
		}
	}
	return out
}

func vbCovered(rule string, stricter map[string]bool) bool {
	if stricter[rule] {
		return true
	}
	for _, set := range vbImpliers[rule] {
		all := true
		for _, r := range set {
			if !stricter[r] {
				all = false
			}
		}
		if all {
			return true
		}
	}
	return false
}

func vbSpec(i int) *check.Spec {
	switch i {
	case 0:
		return V1Beta1Spec
	case 1:
		return V1Spec
	default:
		return V2Spec
	}
}

// VerifLemma_C04D_CategoryTables: in each of V1Beta1Spec / V1Spec / V2Spec and for each adjacent pair of
// WIRE < WIRE_JSON < PACKAGE < FILE, every breaking rule of the laxer category is a member of the stricter one or
// has an implier set inside it. A rule moved between categories without an implier fails here.
func VerifLemma_C04D_CategoryTables() {
	v := verifNondetChoice(3)
	spec := vbSpec(v)
	for i := 0; i+1 < len(vbCategoryOrder); i++ {
		lax, strict := vbRulesOf(spec, vbCategoryOrder[i]), vbRulesOf(spec, vbCategoryOrder[i+1])
		verifAssert(len(lax) > 0 && len(strict) > 0, "categories are populated")
		for _, r := range spec.Rules {
			if lax[r.ID] {
				verifAssert(vbCovered(r.ID, strict), "every rule of a laxer category is implied inside the next stricter category")
			}
		}
	}
	verifCover("category tables checked")
}

// vbDocumented: the category each documented breaking rule must at least belong to (its laxest documented
// category; with VerifLemma_C04D_CategoryTables' ordering this places it in every stricter one as well, directly or
// through an implier). Rules added by later config versions are marked with the first version index that has them.
var vbDocumented = []struct {
	id      string
	laxest  string
	fromVer int
}{
	{"ENUM_NO_DELETE", "FILE", 0}, {"FILE_NO_DELETE", "FILE", 0}, {"MESSAGE_NO_DELETE", "FILE", 0}, {"SERVICE_NO_DELETE", "FILE", 0},
	{"EXTENSION_NO_DELETE", "FILE", 2},
	{"ENUM_VALUE_NO_DELETE", "PACKAGE", 0}, {"ENUM_SAME_TYPE", "PACKAGE", 0}, {"EXTENSION_MESSAGE_NO_DELETE", "PACKAGE", 0}, {"FIELD_NO_DELETE", "PACKAGE", 0},
	{"FIELD_SAME_CARDINALITY", "PACKAGE", 0}, {"FIELD_SAME_JSTYPE", "PACKAGE", 0}, {"FIELD_SAME_TYPE", "PACKAGE", 0},
	{"FILE_SAME_CC_ENABLE_ARENAS", "PACKAGE", 0}, {"FILE_SAME_CC_GENERIC_SERVICES", "PACKAGE", 0}, {"FILE_SAME_CSHARP_NAMESPACE", "PACKAGE", 0},
	{"FILE_SAME_GO_PACKAGE", "PACKAGE", 0}, {"FILE_SAME_JAVA_GENERIC_SERVICES", "PACKAGE", 0}, {"FILE_SAME_JAVA_MULTIPLE_FILES", "PACKAGE", 0},
	{"FILE_SAME_JAVA_OUTER_CLASSNAME", "PACKAGE", 0}, {"FILE_SAME_JAVA_PACKAGE", "PACKAGE", 0}, {"FILE_SAME_OBJC_CLASS_PREFIX", "PACKAGE", 0},
	{"FILE_SAME_OPTIMIZE_FOR", "PACKAGE", 0}, {"FILE_SAME_PHP_CLASS_PREFIX", "PACKAGE", 0}, {"FILE_SAME_PHP_METADATA_NAMESPACE", "PACKAGE", 0},
	{"FILE_SAME_PHP_NAMESPACE", "PACKAGE", 0}, {"FILE_SAME_PY_GENERIC_SERVICES", "PACKAGE", 0}, {"FILE_SAME_RUBY_PACKAGE", "PACKAGE", 0},
	{"FILE_SAME_SWIFT_PREFIX", "PACKAGE", 0}, {"FILE_SAME_SYNTAX", "PACKAGE", 0},
	{"MESSAGE_NO_REMOVE_STANDARD_DESCRIPTOR_ACCESSOR", "PACKAGE", 0}, {"ONEOF_NO_DELETE", "PACKAGE", 0}, {"RPC_NO_DELETE", "PACKAGE", 0},
	{"PACKAGE_ENUM_NO_DELETE", "PACKAGE", 0}, {"PACKAGE_MESSAGE_NO_DELETE", "PACKAGE", 0}, {"PACKAGE_NO_DELETE", "PACKAGE", 0},
	{"PACKAGE_SERVICE_NO_DELETE", "PACKAGE", 0}, {"PACKAGE_EXTENSION_NO_DELETE", "PACKAGE", 2},
	{"ENUM_VALUE_SAME_NAME", "WIRE_JSON", 0}, {"FIELD_SAME_JSON_NAME", "WIRE_JSON", 0}, {"FIELD_SAME_NAME", "WIRE_JSON", 0},
	{"ENUM_VALUE_NO_DELETE_UNLESS_NAME_RESERVED", "WIRE_JSON", 0}, {"FIELD_NO_DELETE_UNLESS_NAME_RESERVED", "WIRE_JSON", 0},
	{"FIELD_WIRE_JSON_COMPATIBLE_CARDINALITY", "WIRE_JSON", 0}, {"FIELD_WIRE_JSON_COMPATIBLE_TYPE", "WIRE_JSON", 1},
	{"FIELD_SAME_ONEOF", "WIRE", 0}, {"MESSAGE_SAME_REQUIRED_FIELDS", "WIRE", 0}, {"RESERVED_ENUM_NO_DELETE", "WIRE", 0},
	{"RESERVED_MESSAGE_NO_DELETE", "WIRE", 0}, {"RPC_SAME_CLIENT_STREAMING", "WIRE", 0}, {"RPC_SAME_IDEMPOTENCY_LEVEL", "WIRE", 0},
	{"RPC_SAME_REQUEST_TYPE", "WIRE", 0}, {"RPC_SAME_RESPONSE_TYPE", "WIRE", 0}, {"RPC_SAME_SERVER_STREAMING", "WIRE", 0},
	{"ENUM_VALUE_NO_DELETE_UNLESS_NUMBER_RESERVED", "WIRE", 0}, {"FIELD_NO_DELETE_UNLESS_NUMBER_RESERVED", "WIRE", 0},
	{"FIELD_WIRE_COMPATIBLE_CARDINALITY", "WIRE", 0}, {"FIELD_WIRE_COMPATIBLE_TYPE", "WIRE", 1},
}

// VerifLemma_C03I_RuleTables: every documented breaking rule that the handler lemmas cover is registered in each
// spec version (from the version that introduced it) as a breaking, non-deprecated rule with a handler, is a member
// of its documented laxest category, and FILE_SAME_PACKAGE is in FILE. A rule dropped from its category (which would
// silence a documented breaking change there) fails here.
func VerifLemma_C03I_RuleTables() {
	v := verifNondetChoice(3)
	spec := vbSpec(v)
	byID := map[string]*check.RuleSpec{}
	for _, r := range spec.Rules {
		_, dup := byID[r.ID]
		verifAssert(!dup, "rule IDs are unique within a spec")
		byID[r.ID] = r
	}
	for _, d := range vbDocumented {
		if v < d.fromVer {
			continue
		}
		r := byID[d.id]
		verifAssert(r != nil, "documented breaking rule is registered")
		verifAssert(r.Type == check.RuleTypeBreaking && !r.Deprecated && r.Handler != nil, "registered as an active breaking rule with a handler")
		verifAssert(vbRulesOf(spec, d.laxest)[d.id], "rule is a member of its documented laxest category")
	}
	verifAssert(vbRulesOf(spec, "FILE")["FILE_SAME_PACKAGE"], "FILE_SAME_PACKAGE is in FILE")
	verifCover("rule tables checked")
}
