//go:build verif

package bufcheckserver

import (
	"context"
	"fmt"

	"buf.build/go/bufplugin/check"
	"github.com/bufbuild/buf/private/bufpkg/bufprotosource"
	"google.golang.org/protobuf/reflect/protoreflect"
	"google.golang.org/protobuf/types/descriptorpb"
)

// C03-I (spec level): rule ID -> handler wiring and category membership, observed through behaviour. For each spec
// version and each scenario of the catalogue (one documented edit applied to a base schema), every documented
// breaking rule registered in the spec is run through its *registered* handler (RuleSpec.Handler.Handle, i.e. the
// real pair-matching wrappers and the real handler the builder wired to the ID). Every rule of the scenario's documented set must fire
// (compatible scenarios: none may fire). A rule wired to another rule's handler, or dropped, changes some set.

// vbsCtx answers bufcheckserverutil's two (unexported) context keys like the context that Before() builds.
type vbsCtx struct {
	context.Context
	cur, prev []bufprotosource.File
}

func (c vbsCtx) Value(key any) any {
	switch fmt.Sprintf("%T", key) {
	case "bufcheckserverutil.protosourceFilesContextKey":
		if len(c.cur) > 0 {
			return c.cur
		}
	case "bufcheckserverutil.againstProtosourceFilesContextKey":
		if len(c.prev) > 0 {
			return c.prev
		}
	}
	return nil
}

type vbsSchema struct {
	files []bufprotosource.File
	file  *vFile
	msg   *vMsg
	enum  *vbEnum
	svc   *vbService
	// fields of M by name
	f, g, h, k, j, q *vField
	oneof            *vbOneof
	ext              *vField
	v, w             *vbEnumValue
	method           *vbMethod
}

func vbsField(m *vMsg, f *vFile, name string, num int, kind protoreflect.Kind, class int) *vField {
	fd := &vFD{kind: kind, isList: class == 4, isMap: class == 5, required: class == 3, presence: class == 1 || class == 3}
	label := descriptorpb.FieldDescriptorProto_LABEL_OPTIONAL
	if class == 3 {
		label = descriptorpb.FieldDescriptorProto_LABEL_REQUIRED
	}
	if class >= 4 {
		label = descriptorpb.FieldDescriptorProto_LABEL_REPEATED
	}
	fl := &vField{fd: fd, typ: descriptorpb.FieldDescriptorProto_Type(kind), name: name, number: num, jsonName: name,
		label: label, parent: m, file: f, full: "p.M." + name}
	m.fields = append(m.fields, fl)
	return fl
}

// vbsBase: file a.proto, package p, proto3; message p.M {f=1 int32, g=2 int32 in oneof o, h=3 required int32,
// k=4 repeated int32, j=5 int64, q=6 proto3-optional int32 (synthetic oneof _q); reserved 10..12, "r"; extensions 100..200; nested message M.N};
// enum p.E {V=0, W=1; reserved 5..6, "R"}; extension p.x = 100 of .p.M; service p.S {rpc R(i) returns (o)}; plus dep.proto (package dep), present only as an import.
func vbsBase() *vbsSchema {
	s := &vbsSchema{}
	f := &vFile{path: "a.proto", pkg: "p", syntax: bufprotosource.SyntaxProto3, optFor: descriptorpb.FileOptions_SPEED}
	for i := 0; i < len(f.strOpt); i++ {
		f.strOpt[i] = "s"
	}
	m := &vMsg{name: "M", nested: "M", full: "p.M", file: f}
	m.msgs = append(m.msgs, &vMsg{name: "N", nested: "M.N", full: "p.M.N", file: f})
	s.f = vbsField(m, f, "f", 1, protoreflect.Int32Kind, 2)
	s.g = vbsField(m, f, "g", 2, protoreflect.Int32Kind, 1)
	s.oneof = &vbOneof{name: "o", fields: []bufprotosource.Field{s.g}}
	s.g.oneof = s.oneof
	m.oneofs = append(m.oneofs, s.oneof)
	s.h = vbsField(m, f, "h", 3, protoreflect.Int32Kind, 3)
	s.k = vbsField(m, f, "k", 4, protoreflect.Int32Kind, 4)
	s.j = vbsField(m, f, "j", 5, protoreflect.Int64Kind, 2)
	s.q = vbsField(m, f, "q", 6, protoreflect.Int32Kind, 1) // proto3 optional: synthetic oneof "_q"
	s.q.proto3Optional = true
	s.q.oneof = &vbOneof{name: "_q", synthetic: true, fields: []bufprotosource.Field{s.q}}
	m.oneofs = append(m.oneofs, s.q.oneof)
	m.resRngs = append(m.resRngs, &vbRange{s: 10, e: 12})
	m.resNms = append(m.resNms, &vbResName{v: "r"})
	m.extRngs = append(m.extRngs, &vbRange{s: 100, e: 200})
	e := &vbEnum{name: "E", nested: "E", full: "p.E", file: f}
	s.v = &vbEnumValue{name: "V", number: 0, enum: e}
	s.w = &vbEnumValue{name: "W", number: 1, enum: e}
	e.values = append(e.values, s.v, s.w)
	e.resRngs = append(e.resRngs, &vbEnumRange{s: 5, e: 6})
	e.resNms = append(e.resNms, &vbResName{v: "R"})
	s.ext = &vField{fd: &vFD{kind: protoreflect.Int32Kind, presence: true}, typ: descriptorpb.FieldDescriptorProto_TYPE_INT32,
		name: "x", nested: "x", full: "p.x", number: 100, extendee: ".p.M", file: f, jsonName: "x"}
	svc := &vbService{name: "S", full: "p.S", file: f}
	s.method = &vbMethod{name: "R", svc: svc, in: "i", out: "o"}
	svc.methods = append(svc.methods, s.method)
	f.msgs = append(f.msgs, m)
	f.enums = append(f.enums, e)
	f.exts = append(f.exts, s.ext)
	f.svcs = append(f.svcs, svc)
	// dep.proto is only in the image as an import (imports are part of the request unless excluded by configuration)
	s.files = []bufprotosource.File{f, &vFile{path: "dep.proto", pkg: "dep", syntax: bufprotosource.SyntaxProto3, isImport: true}}
	s.file, s.msg, s.enum, s.svc = f, m, e, svc
	return s
}

func vbsDropField(m *vMsg, x *vField) {
	var out []bufprotosource.Field
	for _, f := range m.fields {
		if f != bufprotosource.Field(x) {
			out = append(out, f)
		}
	}
	m.fields = out
}

type vbsScenario struct {
	name string
	edit func(s *vbsSchema)
	want []string
}

func vbsStrOptScenario(i int, rule string) vbsScenario {
	return vbsScenario{rule, func(s *vbsSchema) { s.file.strOpt[i] = "t" }, []string{rule}}
}

func vbsBoolOptScenario(i int, rule string) vbsScenario {
	return vbsScenario{rule, func(s *vbsSchema) { s.file.boolOpt[i] = true }, []string{rule}}
}

var (
	vbsFieldDel3 = []string{"FIELD_NO_DELETE", "FIELD_NO_DELETE_UNLESS_NUMBER_RESERVED", "FIELD_NO_DELETE_UNLESS_NAME_RESERVED"}
	vbsValueDel3 = []string{"ENUM_VALUE_NO_DELETE", "ENUM_VALUE_NO_DELETE_UNLESS_NUMBER_RESERVED", "ENUM_VALUE_NO_DELETE_UNLESS_NAME_RESERVED"}
	vbsCard3     = []string{"FIELD_SAME_CARDINALITY", "FIELD_WIRE_JSON_COMPATIBLE_CARDINALITY", "FIELD_WIRE_COMPATIBLE_CARDINALITY"}
	vbsType3     = []string{"FIELD_SAME_TYPE", "FIELD_WIRE_JSON_COMPATIBLE_TYPE", "FIELD_WIRE_COMPATIBLE_TYPE"}
)

// vbsScenarios: the edit catalogue with the documented set of rules each edit violates (rules that a spec version
// does not have are ignored for that version).
var vbsScenarios = []vbsScenario{
	{"identity", func(s *vbsSchema) {}, nil},
	{"delete enum", func(s *vbsSchema) { s.file.enums = nil }, []string{"ENUM_NO_DELETE", "PACKAGE_ENUM_NO_DELETE"}},
	{"move enum to a new file of the package", func(s *vbsSchema) {
		s.file.enums = nil
		g := &vFile{path: "b.proto", pkg: "p", syntax: bufprotosource.SyntaxProto3}
		s.enum.file = g
		g.enums = append(g.enums, s.enum)
		s.files = append(s.files, g)
	}, []string{"ENUM_NO_DELETE"}},
	{"delete extension", func(s *vbsSchema) { s.file.exts = nil }, []string{"EXTENSION_NO_DELETE", "PACKAGE_EXTENSION_NO_DELETE"}},
	{"rename file", func(s *vbsSchema) { s.file.path = "b.proto" }, []string{"FILE_NO_DELETE"}},
	{"delete nested message", func(s *vbsSchema) { s.msg.msgs = nil }, []string{"MESSAGE_NO_DELETE", "PACKAGE_MESSAGE_NO_DELETE"}},
	{"delete service", func(s *vbsSchema) { s.file.svcs = nil }, []string{"SERVICE_NO_DELETE", "PACKAGE_SERVICE_NO_DELETE"}},
	{"close enum", func(s *vbsSchema) { s.enum.closed = true }, []string{"ENUM_SAME_TYPE"}},
	{"delete enum value", func(s *vbsSchema) { s.enum.values = []bufprotosource.EnumValue{s.w} }, vbsValueDel3},
	{"delete enum value, number reserved", func(s *vbsSchema) {
		s.enum.values = []bufprotosource.EnumValue{s.w}
		s.enum.resRngs = append(s.enum.resRngs, &vbEnumRange{s: 0, e: 0})
	}, []string{"ENUM_VALUE_NO_DELETE", "ENUM_VALUE_NO_DELETE_UNLESS_NAME_RESERVED"}},
	{"delete enum value, name reserved", func(s *vbsSchema) {
		s.enum.values = []bufprotosource.EnumValue{s.w}
		s.enum.resNms = append(s.enum.resNms, &vbResName{v: "V"})
	}, []string{"ENUM_VALUE_NO_DELETE", "ENUM_VALUE_NO_DELETE_UNLESS_NUMBER_RESERVED"}},
	{"shrink extension range", func(s *vbsSchema) { s.msg.extRngs = []bufprotosource.ExtensionRange{&vbRange{s: 100, e: 150}} }, []string{"EXTENSION_MESSAGE_NO_DELETE"}},
	{"delete field", func(s *vbsSchema) { vbsDropField(s.msg, s.f) }, vbsFieldDel3},
	{"delete field, number reserved", func(s *vbsSchema) {
		vbsDropField(s.msg, s.f)
		s.msg.resRngs = append(s.msg.resRngs, &vbRange{s: 1, e: 1})
	}, []string{"FIELD_NO_DELETE", "FIELD_NO_DELETE_UNLESS_NAME_RESERVED"}},
	{"delete field, name reserved", func(s *vbsSchema) {
		vbsDropField(s.msg, s.f)
		s.msg.resNms = append(s.msg.resNms, &vbResName{v: "f"})
	}, []string{"FIELD_NO_DELETE", "FIELD_NO_DELETE_UNLESS_NUMBER_RESERVED"}},
	{"implicit -> explicit presence", func(s *vbsSchema) { s.f.fd.presence = true }, []string{"FIELD_SAME_CARDINALITY"}},
	{"optional -> repeated", func(s *vbsSchema) { s.f.fd.isList = true }, vbsCard3},
	{"repeated -> map", func(s *vbsSchema) { s.k.fd.isList, s.k.fd.isMap = false, true }, []string{"FIELD_SAME_CARDINALITY", "FIELD_WIRE_JSON_COMPATIBLE_CARDINALITY"}},
	{"change jstype", func(s *vbsSchema) { s.j.jsType = descriptorpb.FieldOptions_JS_STRING }, []string{"FIELD_SAME_JSTYPE"}},
	{"int32 -> uint32", func(s *vbsSchema) {
		s.f.fd.kind, s.f.typ = protoreflect.Uint32Kind, descriptorpb.FieldDescriptorProto_TYPE_UINT32
	}, []string{"FIELD_SAME_TYPE"}},
	{"int32 -> int64", func(s *vbsSchema) {
		s.f.fd.kind, s.f.typ = protoreflect.Int64Kind, descriptorpb.FieldDescriptorProto_TYPE_INT64
	}, []string{"FIELD_SAME_TYPE", "FIELD_WIRE_JSON_COMPATIBLE_TYPE"}},
	{"int32 -> string", func(s *vbsSchema) {
		s.f.fd.kind, s.f.typ = protoreflect.StringKind, descriptorpb.FieldDescriptorProto_TYPE_STRING
	}, vbsType3},
	vbsStrOptScenario(0, "FILE_SAME_CSHARP_NAMESPACE"), vbsStrOptScenario(1, "FILE_SAME_GO_PACKAGE"),
	vbsStrOptScenario(2, "FILE_SAME_JAVA_OUTER_CLASSNAME"), vbsStrOptScenario(3, "FILE_SAME_JAVA_PACKAGE"),
	vbsStrOptScenario(4, "FILE_SAME_OBJC_CLASS_PREFIX"), vbsStrOptScenario(5, "FILE_SAME_PHP_CLASS_PREFIX"),
	vbsStrOptScenario(6, "FILE_SAME_PHP_NAMESPACE"), vbsStrOptScenario(7, "FILE_SAME_PHP_METADATA_NAMESPACE"),
	vbsStrOptScenario(8, "FILE_SAME_RUBY_PACKAGE"), vbsStrOptScenario(9, "FILE_SAME_SWIFT_PREFIX"),
	vbsBoolOptScenario(0, "FILE_SAME_CC_ENABLE_ARENAS"), vbsBoolOptScenario(1, "FILE_SAME_CC_GENERIC_SERVICES"),
	vbsBoolOptScenario(2, "FILE_SAME_JAVA_GENERIC_SERVICES"), vbsBoolOptScenario(3, "FILE_SAME_JAVA_MULTIPLE_FILES"),
	vbsBoolOptScenario(4, "FILE_SAME_PY_GENERIC_SERVICES"),
	{"change optimize_for", func(s *vbsSchema) { s.file.optFor = descriptorpb.FileOptions_CODE_SIZE }, []string{"FILE_SAME_OPTIMIZE_FOR"}},
	{"change syntax", func(s *vbsSchema) { s.file.syntax = bufprotosource.SyntaxProto2 }, []string{"FILE_SAME_SYNTAX"}},
	{"change package", func(s *vbsSchema) { s.file.pkg = "q" }, []string{"FILE_SAME_PACKAGE", "PACKAGE_NO_DELETE"}},
	{"remove standard descriptor accessor", func(s *vbsSchema) { s.msg.noStdDA = true }, []string{"MESSAGE_NO_REMOVE_STANDARD_DESCRIPTOR_ACCESSOR"}},
	{"dissolve oneof", func(s *vbsSchema) { s.msg.oneofs, s.g.oneof = nil, nil }, []string{"ONEOF_NO_DELETE", "FIELD_SAME_ONEOF"}},
	{"delete rpc", func(s *vbsSchema) { s.svc.methods = nil }, []string{"RPC_NO_DELETE"}},
	{"rename enum value", func(s *vbsSchema) { s.v.name = "V2" }, []string{"ENUM_VALUE_SAME_NAME"}},
	{"change json name", func(s *vbsSchema) { s.f.jsonName = "ff" }, []string{"FIELD_SAME_JSON_NAME"}},
	{"rename field", func(s *vbsSchema) { s.f.name = "f2" }, []string{"FIELD_SAME_NAME"}},
	{"move field into oneof", func(s *vbsSchema) {
		s.f.oneof = s.oneof
		s.oneof.fields = append(s.oneof.fields, s.f)
	}, []string{"FIELD_SAME_ONEOF"}},
	{"real oneof member -> proto3 optional", func(s *vbsSchema) {
		syn := &vbOneof{name: "_g", synthetic: true, fields: []bufprotosource.Field{s.g}}
		s.g.oneof, s.g.proto3Optional = syn, true
		s.msg.oneofs = append(s.msg.oneofs, syn)
	}, []string{"FIELD_SAME_ONEOF"}},
	{"add field _q: the compiler renames q's synthetic oneof to X_q", func(s *vbsSchema) {
		s.q.oneof.name = "X_q"
		vbsField(s.msg, s.file, "_q", 7, protoreflect.Int32Kind, 2)
	}, nil},
	{"drop an import: the imported file (and its package) leaves the image", func(s *vbsSchema) { s.files = s.files[:1] },
		[]string{"FILE_NO_DELETE", "PACKAGE_NO_DELETE"}},
	{"required label removed", func(s *vbsSchema) { s.h.label = descriptorpb.FieldDescriptorProto_LABEL_OPTIONAL }, []string{"MESSAGE_SAME_REQUIRED_FIELDS"}},
	{"delete enum reserved range", func(s *vbsSchema) { s.enum.resRngs = nil }, []string{"RESERVED_ENUM_NO_DELETE"}},
	{"delete message reserved name", func(s *vbsSchema) { s.msg.resNms = nil }, []string{"RESERVED_MESSAGE_NO_DELETE"}},
	{"rpc request type", func(s *vbsSchema) { s.method.in = "i2" }, []string{"RPC_SAME_REQUEST_TYPE"}},
	{"rpc response type", func(s *vbsSchema) { s.method.out = "o2" }, []string{"RPC_SAME_RESPONSE_TYPE"}},
	{"rpc client streaming", func(s *vbsSchema) { s.method.cStream = true }, []string{"RPC_SAME_CLIENT_STREAMING"}},
	{"rpc server streaming", func(s *vbsSchema) { s.method.sStream = true }, []string{"RPC_SAME_SERVER_STREAMING"}},
	{"rpc idempotency", func(s *vbsSchema) { s.method.idempotency = descriptorpb.MethodOptions_IDEMPOTENT }, []string{"RPC_SAME_IDEMPOTENCY_LEVEL"}},
}

// VerifLemma_C03I_SpecScenarios: see the file comment. Also: every documented rule has a scenario in which it fires
// (checked by VerifLemma_C03I_ScenarioCoverage), and per scenario the categories are ordered:
// some WIRE rule fires => some WIRE_JSON rule fires => some PACKAGE rule fires => some FILE rule fires.
func VerifLemma_C03I_SpecScenarios() {
	v := verifNondetChoice(3)
	sc := vbsScenarios[verifNondetChoice(len(vbsScenarios))]
	spec := vbSpec(v)
	prev, cur := vbsBase(), vbsBase()
	sc.edit(cur)
	ctx := vbsCtx{Context: context.Background(), cur: cur.files, prev: prev.files}
	documented := map[string]bool{}
	for _, d := range vbDocumented {
		documented[d.id] = true
	}
	documented["FILE_SAME_PACKAGE"] = true
	fired := map[string]bool{}
	for _, r := range spec.Rules {
		if r.Type != check.RuleTypeBreaking || !documented[r.ID] {
			continue // lint rules; feature-based / deprecated breaking rules are outside the claim
		}
		rw := &vbsRW{}
		err := r.Handler.Handle(ctx, rw, nil)
		verifAssert(err == nil, "registered handler returns no error on the scenario")
		if rw.n > 0 {
			fired[r.ID] = true
		}
	}
	verifCover("scenario evaluated through the registered handlers")
	want := map[string]bool{}
	for _, id := range sc.want {
		want[id] = true
	}
	for _, r := range spec.Rules {
		if r.Type != check.RuleTypeBreaking || !documented[r.ID] {
			continue
		}
		if want[r.ID] {
			verifAssert(fired[r.ID], "the rule documented for the edit fires through its registered handler")
		} else if len(sc.want) == 0 {
			// compatible scenarios (identity, compiler-renamed synthetic oneof): C04 requires silence. For breaking
			// edits the property does not forbid further rules from firing, so nothing is asserted about them.
			verifAssert(!fired[r.ID], "nothing fires on a compatible scenario")
		}
	}
	for i := 0; i+1 < len(vbCategoryOrder); i++ {
		laxFired, strictFired := false, false
		for id := range vbRulesOf(spec, vbCategoryOrder[i]) {
			if fired[id] {
				laxFired = true
			}
		}
		for id := range vbRulesOf(spec, vbCategoryOrder[i+1]) {
			if fired[id] {
				strictFired = true
			}
		}
		verifAssert(!laxFired || strictFired, "a scenario reported in a laxer category is reported in the next stricter one")
	}
}

// VerifLemma_C03I_ScenarioCoverage: the catalogue has, for every documented rule, a scenario whose documented set
// contains it (so VerifLemma_C03I_SpecScenarios exercises every registered handler positively).
func VerifLemma_C03I_ScenarioCoverage() {
	covered := map[string]bool{}
	for _, sc := range vbsScenarios {
		for _, id := range sc.want {
			covered[id] = true
		}
	}
	for _, d := range vbDocumented {
		verifAssert(covered[d.id], "every documented rule has a positive scenario")
	}
	verifAssert(covered["FILE_SAME_PACKAGE"], "FILE_SAME_PACKAGE has a positive scenario")
	verifCover("catalogue coverage checked")
}
