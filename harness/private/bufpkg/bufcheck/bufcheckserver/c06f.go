//go:build verif

package bufcheckserver

import (
	"buf.build/go/bufplugin/check"
)

// C06-F / C05 wiring (grpB): the lint category tables of the three real spec values (concrete; the engine runs the
// real package initialisers that build them).

func lvSpec(i int) *check.Spec {
	switch i {
	case 0:
		return V1Beta1Spec
	case 1:
		return V1Spec
	default:
		return V2Spec
	}
}

func lvLintRulesOf(spec *check.Spec, category string) map[string]bool {
	out := map[string]bool{}
	for _, r := range spec.Rules {
		if r.Type != check.RuleTypeLint {
			continue
		}
		for _, c := range r.CategoryIDs {
			if c == category {
				out[r.ID] = true
			}
		}
	}
	return out
}

func lvSubset(a, b map[string]bool) bool {
	for k := range a {
		if !b[k] {
			return false
		}
	}
	return true
}

// lvLintRuleIDs: the builtin lint rules the handler lemmas C05-B..F cover (PROTOVALIDATE is outside the claim), with
// the first spec version (0 = v1beta1, 1 = v1, 2 = v2) that has them (read off the documented rule lists).
var lvLintRuleIDs = []struct {
	id      string
	fromVer int
	onlyV0  bool // FIELD_NO_DESCRIPTOR exists in v1beta1 only
}{
	{"COMMENT_ENUM", 0, false}, {"COMMENT_ENUM_VALUE", 0, false}, {"COMMENT_FIELD", 0, false}, {"COMMENT_MESSAGE", 0, false}, {"COMMENT_ONEOF", 0, false},
	{"COMMENT_RPC", 0, false}, {"COMMENT_SERVICE", 0, false}, {"DIRECTORY_SAME_PACKAGE", 0, false}, {"ENUM_FIRST_VALUE_ZERO", 0, false},
	{"ENUM_NO_ALLOW_ALIAS", 0, false}, {"ENUM_PASCAL_CASE", 0, false}, {"ENUM_VALUE_PREFIX", 0, false}, {"ENUM_VALUE_UPPER_SNAKE_CASE", 0, false},
	{"ENUM_ZERO_VALUE_SUFFIX", 0, false}, {"FIELD_LOWER_SNAKE_CASE", 0, false}, {"FIELD_NO_DESCRIPTOR", 0, true}, {"FIELD_NOT_REQUIRED", 2, false},
	{"FILE_LOWER_SNAKE_CASE", 0, false}, {"IMPORT_NO_PUBLIC", 0, false}, {"IMPORT_USED", 1, false}, {"MESSAGE_PASCAL_CASE", 0, false},
	{"ONEOF_LOWER_SNAKE_CASE", 0, false}, {"PACKAGE_DEFINED", 0, false}, {"PACKAGE_DIRECTORY_MATCH", 0, false}, {"PACKAGE_LOWER_SNAKE_CASE", 0, false},
	{"PACKAGE_NO_IMPORT_CYCLE", 1, false}, {"PACKAGE_SAME_CSHARP_NAMESPACE", 0, false}, {"PACKAGE_SAME_DIRECTORY", 0, false},
	{"PACKAGE_SAME_GO_PACKAGE", 0, false}, {"PACKAGE_SAME_JAVA_MULTIPLE_FILES", 0, false}, {"PACKAGE_SAME_JAVA_PACKAGE", 0, false},
	{"PACKAGE_SAME_PHP_NAMESPACE", 0, false}, {"PACKAGE_SAME_RUBY_PACKAGE", 0, false}, {"PACKAGE_SAME_SWIFT_PREFIX", 0, false},
	{"PACKAGE_VERSION_SUFFIX", 0, false}, {"RPC_NO_CLIENT_STREAMING", 0, false}, {"RPC_NO_SERVER_STREAMING", 0, false}, {"RPC_PASCAL_CASE", 0, false},
	{"RPC_REQUEST_RESPONSE_UNIQUE", 0, false}, {"RPC_REQUEST_STANDARD_NAME", 0, false}, {"RPC_RESPONSE_STANDARD_NAME", 0, false},
	{"SERVICE_PASCAL_CASE", 0, false}, {"SERVICE_SUFFIX", 0, false}, {"STABLE_PACKAGE_NO_IMPORT_UNSTABLE", 2, false}, {"SYNTAX_SPECIFIED", 1, false},
}

// VerifLemma_C06F_LintCategoryTables: in each of V1Beta1Spec / V1Spec / V2Spec:
// MINIMAL is within BASIC is within STANDARD; the deprecated DEFAULT (STYLE_DEFAULT) category has exactly the rules of
// its replacement STANDARD (STYLE_STANDARD) and names it as replacement; a lint rule is a default rule iff it is in
// STANDARD; rule IDs are unique, every rule has a handler, every category a rule names is declared, replacements of
// deprecated rules/categories are declared and not deprecated; every lint rule covered by C05-B..F is registered.
func VerifLemma_C06F_LintCategoryTables() {
	v := verifNondetChoice(3)
	spec := lvSpec(v)
	minimal, basic, standard := lvLintRulesOf(spec, "MINIMAL"), lvLintRulesOf(spec, "BASIC"), lvLintRulesOf(spec, "STANDARD")
	verifAssert(len(minimal) > 0 && len(basic) > 0 && len(standard) > 0, "MINIMAL, BASIC, STANDARD are populated")
	verifAssert(lvSubset(minimal, basic), "MINIMAL is within BASIC")
	verifAssert(lvSubset(basic, standard), "BASIC is within STANDARD")

	cats := map[string]*check.CategorySpec{}
	for _, c := range spec.Categories {
		_, dup := cats[c.ID]
		verifAssert(!dup, "category IDs are unique")
		cats[c.ID] = c
	}
	for _, c := range spec.Categories {
		if !c.Deprecated {
			continue
		}
		verifAssert(len(c.ReplacementIDs) > 0, "a deprecated category names its replacement")
		for _, rep := range c.ReplacementIDs {
			rc, ok := cats[rep]
			verifAssert(ok && !rc.Deprecated, "replacement category is declared and not deprecated")
			old, repl := lvLintRulesOf(spec, c.ID), lvLintRulesOf(spec, rep)
			verifAssert(lvSubset(old, repl) && lvSubset(repl, old), "a deprecated category has exactly the rules of its replacement")
		}
	}
	dflt, ok := cats["DEFAULT"]
	namesStandard := false
	if ok {
		for _, rep := range dflt.ReplacementIDs {
			if rep == "STANDARD" {
				namesStandard = true
			}
		}
	}
	verifAssert(ok && dflt.Deprecated && namesStandard, "DEFAULT is the deprecated alias of STANDARD")

	byID := map[string]*check.RuleSpec{}
	for _, r := range spec.Rules {
		_, dup := byID[r.ID]
		verifAssert(!dup, "rule IDs are unique within a spec")
		_, clash := cats[r.ID]
		verifAssert(!clash, "no rule shares its ID with a category")
		byID[r.ID] = r
	}
	for _, r := range spec.Rules {
		verifAssert(r.Handler != nil, "every rule has a handler")
		for _, c := range r.CategoryIDs {
			_, ok := cats[c]
			verifAssert(ok, "every category a rule names is declared")
		}
		if r.Deprecated {
			for _, rep := range r.ReplacementIDs {
				rr, ok := byID[rep]
				verifAssert(ok && !rr.Deprecated && rr.Type == r.Type, "replacement rule is registered, of the same type and not deprecated")
			}
		}
		if r.Type == check.RuleTypeLint {
			verifAssert(r.Default == standard[r.ID], "a lint rule is a default rule iff it is in STANDARD")
		}
	}
	for _, d := range lvLintRuleIDs {
		if v < d.fromVer || (d.onlyV0 && v > 0) {
			continue
		}
		r, ok := byID[d.id]
		verifAssert(ok && r.Type == check.RuleTypeLint && !r.Deprecated, "every covered lint rule is registered as a lint rule")
	}
	verifCover("lint category tables checked")
}
