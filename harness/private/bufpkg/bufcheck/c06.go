//go:build verif

package bufcheck

import (
	"buf.build/go/bufplugin/check"
	"buf.build/go/bufplugin/descriptor"
	"google.golang.org/protobuf/reflect/protoreflect"
)

// ---- stubs of the bufplugin / protoreflect interfaces that ignoreFileLocation reads (grpB, C06) ----

type (
	lvIFileLocation = descriptor.FileLocation
	lvIFileDesc     = descriptor.FileDescriptor
	lvIPFD          = protoreflect.FileDescriptor
	lvISrcLocs      = protoreflect.SourceLocations
	lvIAnnotation   = check.Annotation
)

// lvSrcLocs: source info with at most one commented location.
type lvSrcLocs struct {
	lvISrcLocs
	path    protoreflect.SourcePath
	comment string
	lookups int
}

func (s *lvSrcLocs) ByPath(p protoreflect.SourcePath) protoreflect.SourceLocation {
	s.lookups++
	if len(p) != len(s.path) {
		return protoreflect.SourceLocation{}
	}
	for i := range p {
		if p[i] != s.path[i] {
			return protoreflect.SourceLocation{}
		}
	}
	return protoreflect.SourceLocation{Path: p, LeadingComments: s.comment}
}

type lvPFD struct {
	lvIPFD
	path string
	pkg  string
	locs *lvSrcLocs
}

func (f *lvPFD) Path() string                                  { return f.path }
func (f *lvPFD) Package() protoreflect.FullName                { return protoreflect.FullName(f.pkg) }
func (f *lvPFD) SourceLocations() protoreflect.SourceLocations { return f.locs }

type lvFileDesc struct {
	lvIFileDesc
	isImport bool
	pfd      *lvPFD
}

func (f *lvFileDesc) IsImport() bool                                          { return f.isImport }
func (f *lvFileDesc) ProtoreflectFileDescriptor() protoreflect.FileDescriptor { return f.pfd }

type lvFileLocation struct {
	lvIFileLocation
	fd   *lvFileDesc
	path protoreflect.SourcePath
}

func (l *lvFileLocation) FileDescriptor() descriptor.FileDescriptor { return l.fd }
func (l *lvFileLocation) SourcePath() protoreflect.SourcePath       { return l.path }

type lvAnnotation struct {
	lvIAnnotation
	ruleID  string
	loc     *lvFileLocation
	against *lvFileLocation
	tag     int
}

func (a *lvAnnotation) RuleID() string { return a.ruleID }
func (a *lvAnnotation) FileLocation() descriptor.FileLocation {
	if a.loc == nil {
		return nil
	}
	return a.loc
}
func (a *lvAnnotation) AgainstFileLocation() descriptor.FileLocation {
	if a.against == nil {
		return nil
	}
	return a.against
}

func lvConfig(global map[string]struct{}, perRule map[string]map[string]struct{}, o *optionsConfig) *config {
	return &config{
		rulesConfig:   &rulesConfig{IgnoreRootPaths: global, IgnoreRuleIDToRootPaths: perRule},
		optionsConfig: o,
	}
}

// ---- reference notions ----

// lvNondetRelPath: a normalized, validated relative path by construction: 1..n bytes over [a-z/], no leading,
// trailing or doubled '/'. (No '.', so there is no "." / ".." component; normalpath itself is the subject of C13.)
func lvNondetRelPath(n int) string {
	s := verifNondetString(n)
	verifAssume(len(s) > 0)
	for i := 0; i < len(s); i++ {
		c := s[i]
		verifAssume((c >= 'a' && c <= 'z') || c == '/')
		if c == '/' {
			verifAssume(i > 0 && i < len(s)-1 && s[i-1] != '/')
		}
	}
	return s
}

// lvRefContains: root equals path or is a directory prefix of it.
func lvRefContains(root, path string) bool {
	if len(root) > len(path) {
		return false
	}
	for i := 0; i < len(root); i++ {
		if root[i] != path[i] {
			return false
		}
	}
	return len(root) == len(path) || path[len(root)] == '/'
}

var lvPackages = []string{"", "foo", "foo.v1", "foo.v1beta1", "foo.v2alpha", "foo.v1test"}

func lvPackageUnstable(i int) bool { return i >= 3 }

// VerifLemma_C06B_IgnoreFileLocation: path-based suppression. For every file path, a global ignore root, an optional
// per-rule root for rule R1, rule R1/R2, import / exclude-imports / ignore-unstable flags and package:
//   ignored  <=>  (excludeImports && isImport) || the global root contains the path
//                 || (the rule has a root containing the path) || (ignoreUnstable && package is versioned-unstable)
func VerifLemma_C06B_IgnoreFileLocation() {
	path := lvNondetRelPath(verifParam("PN"))
	g1 := lvNondetRelPath(verifParam("RN"))
	hasRuleRoot := verifNondetBool()
	perRule := map[string]map[string]struct{}{}
	pr := ""
	if hasRuleRoot {
		pr = lvNondetRelPath(verifParam("RN"))
		perRule["R1"] = map[string]struct{}{pr: {}}
	}
	ruleID := "R1"
	if verifNondetBool() {
		ruleID = "R2"
	}
	isImport, excludeImports, ignoreUnstable := verifNondetBool(), verifNondetBool(), verifNondetBool()
	pkgIdx := 0
	if ignoreUnstable {
		pkgIdx = verifNondetChoice(len(lvPackages))
	}
	opts := &optionsConfig{ExcludeImports: excludeImports, IgnoreUnstablePackages: ignoreUnstable}
	loc := &lvFileLocation{fd: &lvFileDesc{isImport: isImport, pfd: &lvPFD{path: path, pkg: lvPackages[pkgIdx], locs: &lvSrcLocs{}}}}
	cfg := lvConfig(map[string]struct{}{g1: {}}, perRule, opts)
	got, err := ignoreFileLocation(cfg, ruleID, loc)
	verifCover("returned")
	verifAssert(err == nil, "no error without comment ignores")
	ref := (excludeImports && isImport) ||
		lvRefContains(g1, path) ||
		(hasRuleRoot && ruleID == "R1" && lvRefContains(pr, path)) ||
		(ignoreUnstable && lvPackageUnstable(pkgIdx))
	if ref {
		verifCover("ignored")
	} else {
		verifCover("reported")
	}
	verifAssert(got == ref, "ignored iff import-excluded, under a global root, under the rule's root, or unstable package")
}

// VerifLemma_C06B_IgnoreRootMonotone: adding an ignore root (global, or to the rule's own roots) never turns an
// ignored location into a reported one and changes nothing for a path the new root does not contain; with two
// roots the verdict is the disjunction of the single-root verdicts.
func VerifLemma_C06B_IgnoreRootMonotone() {
	path := lvNondetRelPath(verifParam("PN"))
	g1 := lvNondetRelPath(verifParam("RN"))
	g2 := lvNondetRelPath(verifParam("RN"))
	perRuleSide := verifNondetBool() // the roots are the rule's roots instead of global ones
	loc := &lvFileLocation{fd: &lvFileDesc{pfd: &lvPFD{path: path, locs: &lvSrcLocs{}}}}
	var cfgA, cfgB *config
	if perRuleSide {
		cfgA = lvConfig(map[string]struct{}{}, map[string]map[string]struct{}{"R1": {g1: {}}}, &optionsConfig{})
		cfgB = lvConfig(map[string]struct{}{}, map[string]map[string]struct{}{"R1": {g1: {}, g2: {}}}, &optionsConfig{})
	} else {
		cfgA = lvConfig(map[string]struct{}{g1: {}}, map[string]map[string]struct{}{}, &optionsConfig{})
		cfgB = lvConfig(map[string]struct{}{g1: {}, g2: {}}, map[string]map[string]struct{}{}, &optionsConfig{})
	}
	gotA, errA := ignoreFileLocation(cfgA, "R1", loc)
	gotB, errB := ignoreFileLocation(cfgB, "R1", loc)
	other, errO := ignoreFileLocation(cfgB, "R2", loc)
	verifCover("returned")
	verifAssert(errA == nil && errB == nil && errO == nil, "no error")
	verifAssert(gotA == lvRefContains(g1, path), "one root: ignored iff the root contains the path")
	verifAssert(gotB == (lvRefContains(g1, path) || lvRefContains(g2, path)), "two roots: ignored iff one of them contains the path")
	verifAssert(!gotA || gotB, "adding an ignore root never un-ignores")
	if !lvRefContains(g2, path) {
		verifAssert(gotA == gotB, "adding a root does not change the verdict of a path it does not contain")
	} else {
		verifCover("second root contains the path")
	}
	if perRuleSide {
		verifAssert(!other, "a rule's ignore roots do not suppress another rule")
	} else {
		verifAssert(other == gotB, "global roots suppress every rule alike")
	}
}

// ---- comment ignores ----

// VerifLemma_C06C_CommentLine: checkCommentLineForCheckIgnore(line, prefix, rule) <=> line starts with
// prefix + " " + rule, for every line up to L bytes (all byte values), prefix "buf:lint:ignore" and rule R1 / R12.
func VerifLemma_C06C_CommentLine() {
	line := verifNondetString(verifParam("L"))
	ruleID := "R1"
	if verifNondetBool() {
		ruleID = "R12"
	}
	got := checkCommentLineForCheckIgnore(line, lintCommentIgnorePrefix, ruleID)
	verifCover("returned")
	want := "buf:lint:ignore " + ruleID
	ref := len(line) >= len(want)
	if ref {
		for i := 0; i < len(want); i++ {
			if line[i] != want[i] {
				ref = false
				break
			}
		}
	}
	if ref {
		verifCover("directive recognised")
	}
	verifAssert(got == ref, "directive recognised iff the line starts with prefix, space, rule ID")
}

// lvAnnotated are the annotated elements of the flow lemma: the location path a rule reports and the complete
// declarations that enclose it (the only places where a directive may suppress it).
var lvAnnotated = []struct {
	path      protoreflect.SourcePath
	enclosing []protoreflect.SourcePath
}{
	{protoreflect.SourcePath{4, 0, 2, 1, 1}, []protoreflect.SourcePath{{4, 0}, {4, 0, 2, 1}}},             // field name
	{protoreflect.SourcePath{4, 1, 3, 0, 3, 2}, []protoreflect.SourcePath{{4, 1}, {4, 1, 3, 0}, {4, 1, 3, 0, 3, 2}}}, // nested message
	{protoreflect.SourcePath{5, 0, 2, 3, 1}, []protoreflect.SourcePath{{5, 0}, {5, 0, 2, 3}}},             // enum value name
	{protoreflect.SourcePath{6, 0, 2, 1, 2}, []protoreflect.SourcePath{{6, 0}, {6, 0, 2, 1}}},             // rpc input type
	{protoreflect.SourcePath{4, 0, 8, 0, 1}, []protoreflect.SourcePath{{4, 0}, {4, 0, 8, 0}}},             // oneof name
	{protoreflect.SourcePath{2}, []protoreflect.SourcePath{{2}}},                                           // package
	{protoreflect.SourcePath{8, 10}, []protoreflect.SourcePath{{8, 10}}},                                   // file option
	{protoreflect.SourcePath{3, 1}, []protoreflect.SourcePath{{3, 1}}},                                     // import
}

var lvComments = []struct {
	text string
	rule string // the rule the text is a directive for ("" = none)
}{
	{"buf:lint:ignore R1", "R1"},
	{"  buf:lint:ignore R1 because\n", "R1"},
	{"some text\n buf:lint:ignore R1\nmore", "R1"},
	{"buf:lint:ignore R2", "R2"},
	{"buf:lint:ignoreR1", ""},
	{"buf:lint:ignore  R1", ""},
	{"text buf:lint:ignore R1", ""},
	{"", ""},
}

// VerifLemma_C06C_CommentIgnoreFlow: ignoreFileLocation with allow_comment_ignores: an annotation of rule R1 at an
// element is suppressed <=> comment ignores are allowed and a leading comment of *the element's own declaration or
// an enclosing declaration* carries a directive for R1. The commented location is an arbitrary int32 path q
// (|q| <= |p|, symbolic), so siblings, children and unrelated elements are covered; directives for another rule,
// malformed directives and allow_comment_ignores=false never suppress. Never an error on these element paths.
func VerifLemma_C06C_CommentIgnoreFlow() {
	el := lvAnnotated[verifNondetChoice(len(lvAnnotated))]
	cm := lvComments[verifNondetChoice(len(lvComments))]
	allow := verifNondetBool()
	n := verifNondetChoice(len(el.path) + 1)
	q := make(protoreflect.SourcePath, n)
	for i := 0; i < n; i++ {
		q[i] = verifNondetInt32(-2147483648, 2147483647)
	}
	locs := &lvSrcLocs{path: q, comment: cm.text}
	loc := &lvFileLocation{
		fd:   &lvFileDesc{pfd: &lvPFD{path: "a/b.proto", pkg: "a", locs: locs}},
		path: el.path,
	}
	prefix := ""
	if allow {
		prefix = lintCommentIgnorePrefix
	}
	cfg := lvConfig(map[string]struct{}{}, map[string]map[string]struct{}{},
		&optionsConfig{AllowCommentIgnores: allow, CommentIgnorePrefix: prefix})
	got, err := ignoreFileLocation(cfg, "R1", loc)
	verifCover("returned")
	verifAssert(err == nil, "element paths reported by lint rules are valid comment-ignore anchors")
	onEnclosing := false
	for _, e := range el.enclosing {
		if len(e) == len(q) {
			same := true
			for i := range e {
				if e[i] != q[i] {
					same = false
				}
			}
			if same {
				onEnclosing = true
			}
		}
	}
	ref := allow && onEnclosing && cm.rule == "R1"
	if ref {
		verifCover("suppressed by a directive on an enclosing declaration")
	}
	if n > 0 && !onEnclosing {
		verifCover("comment elsewhere")
	}
	verifAssert(got == ref, "suppressed iff allowed and a directive for the rule is on the element or an enclosing declaration")
}

// ---- C06-D: filterAnnotations ----

// VerifLemma_C06D_FilterAnnotations: for <= K annotations over two files (file F0 a/x.proto, F1 b/y.proto, import
// flags nondet), each with an optional location and an optional against-location, rule R1/R2, a symbolic global
// ignore root, a per-rule root for R1 and exclude-imports nondet:
// the output is exactly the input minus the annotations whose location or against-location is ignored.
func VerifLemma_C06D_FilterAnnotations() {
	k := verifNondetChoice(verifParam("K") + 1)
	g := lvNondetRelPath(1)
	pr := lvNondetRelPath(1)
	excludeImports := verifNondetBool()
	files := []*lvFileDesc{
		{isImport: verifNondetBool(), pfd: &lvPFD{path: "a/x.proto", locs: &lvSrcLocs{}}},
		{isImport: verifNondetBool(), pfd: &lvPFD{path: "b/y.proto", locs: &lvSrcLocs{}}},
	}
	cfg := lvConfig(map[string]struct{}{g: {}}, map[string]map[string]struct{}{"R1": {pr: {}}},
		&optionsConfig{ExcludeImports: excludeImports})
	refIgnoredFile := func(ruleID string, f int) bool {
		p := files[f].pfd.path
		return (excludeImports && files[f].isImport) || lvRefContains(g, p) || (ruleID == "R1" && lvRefContains(pr, p))
	}
	var in []*annotation
	var wantTags []int
	for i := 0; i < k; i++ {
		a := &lvAnnotation{ruleID: "R1", tag: i}
		if verifNondetBool() {
			a.ruleID = "R2"
		}
		ignored := false
		if c := verifNondetChoice(3); c > 0 {
			a.loc = &lvFileLocation{fd: files[c-1]}
			ignored = refIgnoredFile(a.ruleID, c-1)
		}
		if c := verifNondetChoice(3); c > 0 {
			a.against = &lvFileLocation{fd: files[c-1]}
			if refIgnoredFile(a.ruleID, c-1) {
				ignored = true
			}
		}
		in = append(in, newAnnotation(a, ""))
		if !ignored {
			wantTags = append(wantTags, i)
		}
	}
	out, err := filterAnnotations(cfg, in)
	verifCover("returned")
	verifAssert(err == nil, "no error")
	verifAssert(len(out) == len(wantTags), "exactly the non-ignored annotations remain")
	if len(out) != len(wantTags) {
		return
	}
	if len(out) > 0 && len(out) < k {
		verifCover("some kept, some dropped")
	}
	// order is not part of the contract (the caller sorts and de-duplicates the set afterwards)
	for _, want := range wantTags {
		found := 0
		for i := range out {
			if out[i].Annotation.(*lvAnnotation).tag == want {
				found++
			}
		}
		verifAssert(found == 1, "every non-ignored annotation is kept, once")
	}
}

// ---- C06-A: selection algebra of newRulesConfig ----

type (
	lvICheckRule     = check.Rule
	lvICheckCategory = check.Category
)

type lvCategory struct {
	lvICheckCategory
	id         string
	deprecated bool
	repl       []string
}

func (c *lvCategory) ID() string               { return c.id }
func (c *lvCategory) Deprecated() bool         { return c.deprecated }
func (c *lvCategory) ReplacementIDs() []string { return c.repl }

type lvRule struct {
	lvICheckRule
	id         string
	cats       []check.Category
	isDefault  bool
	deprecated bool
	repl       []string
}

func (r *lvRule) ID() string                   { return r.id }
func (r *lvRule) Categories() []check.Category { return r.cats }
func (r *lvRule) Default() bool                { return r.isDefault }
func (r *lvRule) Type() check.RuleType         { return check.RuleTypeLint }
func (r *lvRule) Deprecated() bool             { return r.deprecated }
func (r *lvRule) ReplacementIDs() []string     { return r.repl }

// The universe: live rules R0 R1 R2 (result order), deprecated rule R3 -> {R0, R2}; categories CA = {R0, R1},
// CB = {R1, R2, R3}, deprecated category CD -> CA with CD = {R2}. Defaults: R0, R1. All IDs are 2 bytes.
var (
	lvLive      = []string{"R0", "R1", "R2"}
	lvRuleCats  = map[string][]string{"R0": {"CA"}, "R1": {"CA", "CB"}, "R2": {"CB", "CD"}, "R3": {"CB"}}
	lvAllIDs    = []string{"R0", "R1", "R2", "R3", "CA", "CB", "CD"}
	lvR3Replace = []string{"R0", "R2"}
)

func lvUniverse() ([]Rule, []Category) {
	ca := &lvCategory{id: "CA"}
	cb := &lvCategory{id: "CB"}
	cd := &lvCategory{id: "CD", deprecated: true, repl: []string{"CA"}}
	rules := []Rule{
		newRule(&lvRule{id: "R0", cats: []check.Category{ca}, isDefault: true}, ""),
		newRule(&lvRule{id: "R1", cats: []check.Category{ca, cb}, isDefault: true}, ""),
		newRule(&lvRule{id: "R2", cats: []check.Category{cb, cd}}, ""),
		newRule(&lvRule{id: "R3", cats: []check.Category{cb}, deprecated: true, repl: lvR3Replace}, ""),
	}
	return rules, []Category{newCategory(ca, ""), newCategory(cb, ""), newCategory(cd, "")}
}

// lvNondetID: "" or any 2-byte ASCII string (so: an ID of the universe, an unknown ID, or blank).
func lvNondetID() string {
	if verifNondetBool() {
		return ""
	}
	s := verifNondetStringN(2)
	verifAssume(s[0] < 0x80 && s[1] < 0x80)
	return s
}

func lvIsBlank(s string) bool {
	for i := 0; i < len(s); i++ {
		c := s[i]
		if !(c == ' ' || (c >= 9 && c <= 13)) {
			return false
		}
	}
	return true
}

func lvKnownID(s string) bool {
	for _, id := range lvAllIDs {
		if s == id {
			return true
		}
	}
	return false
}

// lvDirect: id names rule r directly or through one of r's categories (before deprecation replacement).
func lvDirect(id, r string) bool {
	if id == r {
		return true
	}
	for _, c := range lvRuleCats[r] {
		if id == c {
			return true
		}
	}
	return false
}

// lvCovers: after expansion and replacement of deprecated rules, id selects live rule r.
func lvCovers(id, r string) bool {
	if lvDirect(id, r) {
		return true
	}
	if lvDirect(id, "R3") {
		for _, rep := range lvR3Replace {
			if rep == r {
				return true
			}
		}
	}
	return false
}

// VerifLemma_C06A_Selection: newRulesConfig over the stub universe with use / except lists and one ignore_only key
// made of *symbolic* IDs: an unknown non-blank ID anywhere => error; otherwise
//   RuleIDs = sorted { r live : (some use ID, or the defaults when use is blank, covers r) and no except ID covers r }
// (empty => error), independent of list order and of blank entries; the ignore_only paths of a key land on exactly
// the live rules it covers.
func VerifLemma_C06A_Selection() {
	nUse := verifNondetChoice(verifParam("USE") + 1)
	nExc := verifNondetChoice(verifParam("EXCEPT") + 1)
	var use, except []string
	for i := 0; i < nUse; i++ {
		use = append(use, lvNondetID())
	}
	for i := 0; i < nExc; i++ {
		except = append(except, lvNondetID())
	}
	ignoreOnly := map[string][]string{}
	ignKey, hasIgn := "", false
	if verifParam("IGNORE") > 0 && verifNondetBool() {
		hasIgn = true
		ignKey = lvNondetID()
		ignoreOnly[ignKey] = []string{"dir"}
	}
	rules, cats := lvUniverse()
	cfg, err := newRulesConfig(use, except, nil, ignoreOnly, rules, cats, check.RuleTypeLint, nil)
	verifCover("configured")

	// reference
	unknown := false
	useBlank := true
	for _, id := range use {
		if !lvIsBlank(id) {
			useBlank = false
			if !lvKnownID(id) {
				unknown = true
			}
		}
	}
	for _, id := range except {
		if !lvIsBlank(id) && !lvKnownID(id) {
			unknown = true
		}
	}
	// an ignore_only key is only skipped when it is the empty string (it is not trimmed)
	if hasIgn && ignKey != "" && !lvKnownID(ignKey) {
		unknown = true
	}
	if unknown {
		verifCover("unknown id")
		verifAssert(err != nil, "an unknown rule or category ID is rejected")
		return
	}
	var want []string
	for _, r := range lvLive {
		sel := false
		if useBlank {
			sel = r == "R0" || r == "R1"
		}
		for _, id := range use {
			if !lvIsBlank(id) && lvCovers(id, r) {
				sel = true
			}
		}
		for _, id := range except {
			if !lvIsBlank(id) && lvCovers(id, r) {
				sel = false
			}
		}
		if sel {
			want = append(want, r)
		}
	}
	if len(want) == 0 {
		verifCover("empty selection")
		verifAssert(err != nil, "an empty selection is an error")
		return
	}
	verifCover("selected")
	verifAssert(err == nil, "known IDs and a non-empty selection are accepted")
	if err != nil {
		return
	}
	// as a set (sortedness / uniqueness of the slice is C02-B's determinism claim, not a C06 requirement)
	inWant := func(id string) bool {
		for _, w := range want {
			if w == id {
				return true
			}
		}
		return false
	}
	for _, id := range cfg.RuleIDs {
		verifAssert(inWant(id), "every selected rule is in expand(use or defaults) minus expand(except), deprecated IDs replaced")
	}
	for _, w := range want {
		found := false
		for _, id := range cfg.RuleIDs {
			if id == w {
				found = true
			}
		}
		verifAssert(found, "every rule of expand(use or defaults) minus expand(except) is selected")
	}
	if hasIgn {
		for _, r := range lvLive {
			_, got := cfg.IgnoreRuleIDToRootPaths[r]["dir"]
			verifAssert(got == (ignKey != "" && lvCovers(ignKey, r)), "ignore_only key expands to exactly the live rules it covers")
		}
		_, dep := cfg.IgnoreRuleIDToRootPaths["R3"]
		verifAssert(!dep, "no ignore_only entry is left under a deprecated rule ID")
	}
	// order independence: reversed lists give the same selection
	if len(use) > 1 || len(except) > 1 {
		ru := make([]string, len(use))
		for i := range use {
			ru[len(use)-1-i] = use[i]
		}
		re := make([]string, len(except))
		for i := range except {
			re[len(except)-1-i] = except[i]
		}
		cfg2, err2 := newRulesConfig(ru, re, nil, ignoreOnly, rules, cats, check.RuleTypeLint, nil)
		verifAssert(err2 == nil, "acceptance independent of list order")
		if err2 == nil {
			for _, id := range cfg2.RuleIDs {
				verifAssert(inWant(id), "selection independent of list order (nothing extra)")
			}
			for _, w := range want {
				found := false
				for _, id := range cfg2.RuleIDs {
					if id == w {
						found = true
					}
				}
				verifAssert(found, "selection independent of list order (nothing missing)")
			}
		}
	}
}

// ---- C06-E: ignore roots are normalized, relative, inside the module and never "." ----

// VerifLemma_C06E_NormalizeIgnoreRoots: for every byte string r (0..N bytes) and a second fixed root "a/b":
// normalizeIgnoreRootPaths([r, "a/b"]) either fails or returns a list in which every root is
// non-empty, relative, not ".", free of "." / ".." / empty components (so it can only match files inside the
// module), and "" is skipped. A root that already is a clean relative path is kept as is.
func VerifLemma_C06E_NormalizeIgnoreRoots() {
	r := verifNondetString(verifParam("N"))
	out, err := normalizeIgnoreRootPaths([]string{r, "a/b"})
	verifCover("returned")
	clean := len(r) > 0 // r is a clean relative path over [a-z/]
	for i := 0; i < len(r); i++ {
		c := r[i]
		if !((c >= 'a' && c <= 'z') || c == '/') {
			clean = false
		}
		if c == '/' && (i == 0 || i == len(r)-1 || r[i-1] == '/') {
			clean = false
		}
	}
	if err != nil {
		verifCover("rejected")
		verifAssert(!clean && len(r) > 0, "a clean relative root and the empty root are never rejected")
		return
	}
	verifCover("accepted")
	hasAB, hasR := false, false
	for _, p := range out {
		if p == "a/b" {
			hasAB = true
		}
		if p == r {
			hasR = true
		}
		verifAssert(len(p) > 0 && p[0] != '/', "root is non-empty and relative")
		verifAssert(p != ".", "the module root itself cannot be ignored")
		start := 0
		for i := 0; i <= len(p); i++ {
			if i == len(p) || p[i] == '/' {
				comp := p[start:i]
				verifAssert(comp != "" && comp != "." && comp != "..", "no empty, '.' or '..' component")
				start = i + 1
			}
		}
	}
	verifAssert(hasAB, "the other root is kept")
	if clean {
		verifAssert(hasR, "a clean relative root is kept unchanged")
	}
	if len(r) == 0 {
		for _, p := range out {
			verifAssert(p == "a/b", "the empty root is skipped")
		}
	}
}

// ---- C06-A (union): two ignore_only keys compose as a union per live rule ----

// VerifLemma_C06A_IgnoreOnlyUnion: ignore_only with TWO keys (each any known rule, deprecated rule, category or
// deprecated category of the universe; distinct) mapped to different directories d1 and d2. For every live rule r the
// resulting per-rule ignore roots contain d1 iff the first key covers r and d2 iff the second key covers r: the
// suppression sets of several keys that resolve to the same rule (a deprecated ID next to its replacement, a rule next
// to its category) are united, none overwrites the other. Map iteration order is nondeterministic natively; the
// assertion is order-free.
func VerifLemma_C06A_IgnoreOnlyUnion() {
	k1 := lvAllIDs[verifNondetChoice(len(lvAllIDs))]
	k2 := lvAllIDs[verifNondetChoice(len(lvAllIDs))]
	verifAssume(k1 != k2)
	ignoreOnly := map[string][]string{k1: {"d1"}, k2: {"d2", "d3"}}
	rules, cats := lvUniverse()
	cfg, err := newRulesConfig(nil, nil, nil, ignoreOnly, rules, cats, check.RuleTypeLint, nil)
	verifCover("configured")
	verifAssert(err == nil, "known ignore_only keys are accepted")
	if err != nil {
		return
	}
	for _, r := range lvLive {
		_, got1 := cfg.IgnoreRuleIDToRootPaths[r]["d1"]
		_, got2 := cfg.IgnoreRuleIDToRootPaths[r]["d2"]
		_, got3 := cfg.IgnoreRuleIDToRootPaths[r]["d3"]
		verifAssert(got1 == lvCovers(k1, r), "two ignore_only keys: the first key's directory lands on exactly the live rules it covers")
		verifAssert(got2 == lvCovers(k2, r), "two ignore_only keys: the second key's directory lands on exactly the live rules it covers")
		verifAssert(got3 == got2, "two ignore_only keys: all directories of a key travel together")
	}
	_, dep := cfg.IgnoreRuleIDToRootPaths["R3"]
	verifAssert(!dep, "two ignore_only keys: no entry is left under a deprecated rule ID")
}
