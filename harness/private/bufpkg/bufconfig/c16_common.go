//go:build verif

package bufconfig

// ---------- nondet helpers shared by the C16 lemmas ----------

// vComp returns a symbolic path component: 1..n bytes, no '/', no NUL, not "." and not "..".
// (Every normalized, validated relative path is a '/'-join of such components, or ".".)
func vComp(n int) string {
	s := verifNondetString(n)
	verifAssume(len(s) > 0)
	for i := 0; i < len(s); i++ {
		c := s[i]
		verifAssume(c != '/')
	}
	verifAssume(s != "." && s != "..")
	return s
}

// vCompPrintable: as vComp over printable non-space ASCII (0x21..0x7e). Used by the whole-file lemmas, where
// the reader also trims/decodes the strings (TrimSpace, utf8) - byte classes that only multiply paths.
func vCompPrintable(n int) string {
	s := verifNondetString(n)
	verifAssume(len(s) > 0)
	for i := 0; i < len(s); i++ {
		c := s[i]
		verifAssume(c > ' ' && c < 0x7f && c != '/')
	}
	verifAssume(s != "." && s != "..")
	return s
}

// vRelPathPrintable: as vRelPath over printable non-space components.
func vRelPathPrintable(depth, n int) string {
	p := vCompPrintable(n)
	for d := 1; d < depth; d++ {
		if !verifNondetBool() {
			break
		}
		p = p + "/" + vCompPrintable(n)
	}
	return p
}

// vRelPath returns a normalized relative path of 1..depth symbolic components (never ".").
func vRelPath(depth, n int) string {
	p := vComp(n)
	for d := 1; d < depth; d++ {
		if !verifNondetBool() {
			break
		}
		p = p + "/" + vComp(n)
	}
	return p
}

// vDir returns a module directory: "." or a normalized relative path of 1..depth components.
func vDir(depth, n int) string {
	if verifNondetBool() {
		return "."
	}
	return vRelPath(depth, n)
}

var vIDPool = []string{"AA", "BB", "CC"}

// vIDSubset returns one of a few unsorted ID lists over the 3-ID pool (the constructors sort and de-duplicate).
func vIDSubset() []string {
	switch verifNondetChoice(3) {
	case 0:
		return nil
	case 1:
		return []string{vIDPool[1]}
	}
	return []string{vIDPool[2], vIDPool[0], vIDPool[2]}
}

func vStrsEq(a, b []string) bool {
	if len(a) != len(b) {
		return false
	}
	for i := range a {
		if a[i] != b[i] {
			return false
		}
	}
	return true
}

func vStrsMapEq(a, b map[string][]string) bool {
	if len(a) != len(b) {
		return false
	}
	for k, av := range a {
		bv, ok := b[k]
		if !ok || !vStrsEq(av, bv) {
			return false
		}
	}
	return true
}

// vNondetCheckConfig builds an arbitrary valid CheckConfig through the real constructors:
// disabled, or enabled with use/except subsets of the ID pool, <=nIgnore ignore paths and <=1 ignore_only entry
// (paths relative to the module, normalized, never "." - the reader never produces "." for an enabled config).
func vNondetCheckConfig(fileVersion FileVersion, nIgnore, depth, n int) *checkConfig {
	if verifNondetBool() {
		return newDisabledCheckConfig(fileVersion)
	}
	var ignore []string
	for i := 0; i < nIgnore; i++ {
		if verifNondetBool() {
			ignore = append(ignore, vRelPath(depth, n))
		}
	}
	ignoreOnly := map[string][]string{}
	if verifNondetBool() {
		ignoreOnly[vIDPool[verifNondetChoice(2)]] = []string{vRelPath(depth, n)}
	}
	cc, err := newEnabledCheckConfig(fileVersion, vIDSubset(), vIDSubset(), ignore, ignoreOnly, verifNondetBool())
	// precondition of the constructor: ignore paths unique and not nested
	verifAssume(err == nil)
	return cc
}

func vCheckConfigEq(a, b CheckConfig) bool {
	return a.FileVersion() == b.FileVersion() &&
		a.Disabled() == b.Disabled() &&
		vStrsEq(a.UseIDsAndCategories(), b.UseIDsAndCategories()) &&
		vStrsEq(a.ExceptIDsAndCategories(), b.ExceptIDsAndCategories()) &&
		vStrsEq(a.IgnorePaths(), b.IgnorePaths()) &&
		vStrsMapEq(a.IgnoreIDOrCategoryToPaths(), b.IgnoreIDOrCategoryToPaths()) &&
		a.DisableBuiltin() == b.DisableBuiltin()
}

func vNondetLintConfig(fileVersion FileVersion, nIgnore, depth, n int) LintConfig {
	return newLintConfig(
		vNondetCheckConfig(fileVersion, nIgnore, depth, n),
		verifNondetString(1),
		verifNondetBool(),
		verifNondetBool(),
		verifNondetBool(),
		verifNondetString(1),
		verifNondetBool(),
	)
}

func vNondetBreakingConfig(fileVersion FileVersion, nIgnore, depth, n int) BreakingConfig {
	return newBreakingConfig(vNondetCheckConfig(fileVersion, nIgnore, depth, n), verifNondetBool())
}

func vLintConfigEq(a, b LintConfig) bool {
	return vCheckConfigEq(a, b) &&
		a.EnumZeroValueSuffix() == b.EnumZeroValueSuffix() &&
		a.RPCAllowSameRequestResponse() == b.RPCAllowSameRequestResponse() &&
		a.RPCAllowGoogleProtobufEmptyRequests() == b.RPCAllowGoogleProtobufEmptyRequests() &&
		a.RPCAllowGoogleProtobufEmptyResponses() == b.RPCAllowGoogleProtobufEmptyResponses() &&
		a.ServiceSuffix() == b.ServiceSuffix() &&
		a.AllowCommentIgnores() == b.AllowCommentIgnores()
}

func vBreakingConfigEq(a, b BreakingConfig) bool {
	return vCheckConfigEq(a, b) && a.IgnoreUnstablePackages() == b.IgnoreUnstablePackages()
}

// vKnownF3Disabled gates the class of finding F3a: a disabled lint/breaking config is written as an empty section
// (Disabled() is lost on the round trip).
func vKnownF3Disabled(class bool) bool {
	return verifKnown("F3a-disabled-check-config-not-written", class)
}

// vKnownF3Includes gates the class of finding F3b: a v2 file whose only module is at "." with includes and no
// excludes is collapsed to the module-less form by the writer, which has no place for the includes.
func vKnownF3Includes(class bool) bool {
	return verifKnown("F3b-single-root-module-includes-not-written", class)
}
