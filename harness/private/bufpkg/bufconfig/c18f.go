//go:build verif

package bufconfig

import (
	"google.golang.org/protobuf/types/descriptorpb"
)

// C18-F: buf.gen.yaml v1 `managed:` section -> GenerateManagedConfig (no codec: the external struct is built
// directly). bufimagemodify resolves a file option as "last matching override rule wins" (lemmas C18-A/C18-B); v1
// documents that a per-file `override:` entry beats the per-module `override` of the option, which beats the option's
// top-level default. So the rule ORDER produced here decides the semantics.

// refEffectiveOverride: the value bufimagemodify's resolution gives (last rule for the option that matches the file).
func refEffectiveOverride(config GenerateManagedConfig, opt FileOption, filePath, fileModule string) (any, bool) {
	var val any
	found := false
	for _, r := range config.Overrides() {
		if r.FileOption() != opt {
			continue
		}
		p := r.Path()
		if p != "" && p != "." && p != filePath && !(len(filePath) > len(p) && filePath[:len(p)] == p && filePath[len(p)] == '/') {
			continue
		}
		if r.FullName() != "" && r.FullName() != fileModule {
			continue
		}
		val, found = r.Value(), true
	}
	return val, found
}

// VerifLemma_C18F_ManagedV1Precedence: for each v1 option that has both a top-level value and a per-file override
// for path p: the effective value for a file at p is the per-file one; for a file of the overridden module (not at
// p) the per-module one; for any other file the top-level default. Also: enabled flag carried over, `except`
// modules become disable rules for the governed option.
func VerifLemma_C18F_ManagedV1Precedence() {
	n := verifParam("N")
	const modA, modB = "buf.build/acme/one", "buf.build/acme/two"
	// the per-file path: a file "<c>.proto" or a directory "<c>"
	comp := vCompPrintable(n)
	verifAssume(comp != "zz")
	p, fileAtP := comp+".proto", comp+".proto"
	if verifNondetBool() {
		p, fileAtP = comp, comp+"/x.proto"
	}
	other := "zz/other.proto"
	ext := externalGenerateManagedConfigV1{Enabled: verifNondetBool()}
	var opt FileOption
	var key string
	var top, mod, per any // expected values: top-level default, per-module override (nil if none), per-file override
	which := verifNondetChoice(7)
	switch which {
	case 0, 1, 2:
		tv := verifNondetBool()
		pv := !tv
		ps := "false"
		if pv {
			ps = "true"
		}
		top, per = tv, pv
		switch which {
		case 0:
			opt, key, ext.CcEnableArenas = FileOptionCcEnableArenas, "CC_ENABLE_ARENAS", &tv
		case 1:
			opt, key, ext.JavaMultipleFiles = FileOptionJavaMultipleFiles, "java_multiple_files", &tv
		case 2:
			opt, key, ext.JavaStringCheckUtf8 = FileOptionJavaStringCheckUtf8, "JAVA_STRING_CHECK_UTF8", &tv
		}
		ext.Override = map[string]map[string]string{key: {p: ps}}
	case 3:
		opt, key = FileOptionOptimizeFor, "OPTIMIZE_FOR"
		ext.OptimizeFor = externalOptimizeForConfigV1{Default: "SPEED", Override: map[string]string{modA: "LITE_RUNTIME"}}
		top, mod, per = descriptorpb.FileOptions_SPEED, descriptorpb.FileOptions_LITE_RUNTIME, descriptorpb.FileOptions_CODE_SIZE
		ext.Override = map[string]map[string]string{key: {p: "CODE_SIZE"}}
	case 4:
		opt, key = FileOptionJavaPackagePrefix, "JAVA_PACKAGE_PREFIX"
		tv, mv, pv := verifNondetStringN(1), verifNondetStringN(1), verifNondetStringN(1)
		ext.JavaPackagePrefix = externalJavaPackagePrefixConfigV1{Default: tv, Override: map[string]string{modA: mv}, Except: []string{modB}}
		top, mod, per = tv, mv, pv
		ext.Override = map[string]map[string]string{key: {p: pv}}
	case 5:
		opt, key = FileOptionGoPackagePrefix, "GO_PACKAGE_PREFIX"
		tv, mv, pv := verifNondetStringN(1), verifNondetStringN(1), verifNondetStringN(1)
		ext.GoPackagePrefix = externalGoPackagePrefixConfigV1{Default: tv, Override: map[string]string{modA: mv}, Except: []string{modB}}
		top, mod, per = tv, mv, pv
		ext.Override = map[string]map[string]string{key: {p: pv}}
	case 6:
		opt, key = FileOptionObjcClassPrefix, "OBJC_CLASS_PREFIX"
		tv, mv, pv := verifNondetStringN(1), verifNondetStringN(1), verifNondetStringN(1)
		ext.ObjcClassPrefix = externalObjcClassPrefixConfigV1{Default: tv, Override: map[string]string{modA: mv}}
		top, mod, per = tv, mv, pv
		ext.Override = map[string]map[string]string{key: {p: pv}}
	}
	config, err := newGenerateManagedConfigFromExternalV1(ext)
	verifAssert(err == nil, "a well-formed v1 managed section is accepted")
	verifCover("parsed")
	verifAssert(config.Enabled() == ext.Enabled, "enabled flag carried over")
	eq := func(got any, ok bool, want any) bool {
		if !ok {
			return false
		}
		switch w := want.(type) {
		case bool:
			g, isB := got.(bool)
			return isB && g == w
		case string:
			g, isS := got.(string)
			return isS && g == w
		case descriptorpb.FileOptions_OptimizeMode:
			g, isE := got.(descriptorpb.FileOptions_OptimizeMode)
			return isE && g == w
		}
		return false
	}
	// file at the per-file path (in the module that also has a per-module override, and in no module)
	v, ok := refEffectiveOverride(config, opt, fileAtP, modA)
	verifAssert(eq(v, ok, per), "per-file override beats the per-module override and the default")
	v, ok = refEffectiveOverride(config, opt, fileAtP, "")
	verifAssert(eq(v, ok, per), "per-file override beats the top-level default")
	// another file
	v, ok = refEffectiveOverride(config, opt, other, "")
	verifAssert(eq(v, ok, top), "files elsewhere get the top-level default")
	if mod != nil {
		verifCover("module override")
		v, ok = refEffectiveOverride(config, opt, other, modA)
		verifAssert(eq(v, ok, mod), "per-module override beats the top-level default")
	}
	// except => the governed option is disabled for files of that module and for no other file (semantics of the
	// disable rules, not their number or shape)
	governed := opt
	hasExcept := which == 4 || which == 5
	if which == 4 {
		governed = FileOptionJavaPackage
	}
	if which == 5 {
		governed = FileOptionGoPackage
	}
	disabledFor := func(fileModule string) bool {
		for _, d := range config.Disables() {
			if d.FieldOption() != FieldOptionUnspecified {
				continue
			}
			if d.FileOption() != FileOptionUnspecified && d.FileOption() != governed {
				continue
			}
			if d.Path() != "" && d.Path() != "." {
				continue // a path rule: does not apply to the probe file zz/other.proto unless it names it
			}
			if d.FullName() != "" && d.FullName() != fileModule {
				continue
			}
			return true
		}
		return false
	}
	verifAssert(disabledFor(modB) == hasExcept, "an `except` module has the governed option disabled")
	verifAssert(!disabledFor(modA) && !disabledFor(""), "files of other modules are not disabled")
}
