//go:build verif

package bufconfig

import (
	"bytes"
	"context"

	"github.com/bufbuild/buf/private/pkg/encoding"
)

// ---------- getRootToExcludes ----------

// refContains: normalized relative dir r contains-or-equals path e.
func refContainsOrEq(r, e string) bool {
	if r == "." || r == e {
		return true
	}
	return len(e) > len(r) && e[:len(r)] == r && e[len(r)] == '/'
}

// VerifLemma_C16C_RootToExcludes: v1beta1 roots and excludes. For normalized inputs getRootToExcludes fails exactly
// when two roots (or two excludes) are equal or nested, an exclude equals a root, or an exclude is under no root;
// otherwise every root is a key, each exclude lands - re-based - under exactly the root that contains it, and the
// lists are sorted.
func VerifLemma_C16C_RootToExcludes() {
	depth, n := verifParam("DEPTH"), verifParam("N")
	var roots, excludes []string
	for i := 0; i < verifParam("ROOTS"); i++ {
		if verifNondetBool() {
			roots = append(roots, vRelPathPrintable(depth, n))
		}
	}
	for i := 0; i < verifParam("EXCL"); i++ {
		if verifNondetBool() {
			excludes = append(excludes, vRelPathPrintable(depth+1, n))
		}
	}
	got, err := getRootToExcludes(roots, excludes)
	verifCover("computed")
	effRoots := roots
	if len(effRoots) == 0 {
		effRoots = []string{"."}
	}
	bad := false
	for i := range effRoots {
		for j := range effRoots {
			if i != j && refContainsOrEq(effRoots[i], effRoots[j]) {
				bad = true
			}
		}
	}
	if bad {
		verifAssert(err != nil, "equal or nested roots are rejected")
		return
	}
	for i := range excludes {
		for j := range excludes {
			if i != j && refContainsOrEq(excludes[i], excludes[j]) {
				bad = true
			}
		}
		nRoots := 0
		for _, r := range effRoots {
			if r == excludes[i] {
				bad = true
			}
			if refContainsOrEq(r, excludes[i]) {
				nRoots++
			}
		}
		if nRoots != 1 {
			bad = true
		}
	}
	if bad {
		verifCover("rejected")
		verifAssert(err != nil, "equal/nested excludes, an exclude equal to a root or outside every root are rejected")
		return
	}
	verifCover("accepted")
	verifAssert(err == nil, "well-formed roots and excludes are accepted")
	verifAssert(len(got) == len(effRoots), "exactly the roots are keys")
	total := 0
	for _, r := range effRoots {
		ex, ok := got[r]
		verifAssert(ok, "every root is a key")
		total += len(ex)
		for k := 1; k < len(ex); k++ {
			verifAssert(ex[k-1] < ex[k], "excludes of a root are sorted and unique")
		}
		for _, e := range excludes {
			want := refContainsOrEq(r, e)
			rel := e
			if r != "." && want {
				rel = e[len(r)+1:]
			}
			found := false
			for _, x := range ex {
				if x == rel {
					found = true
				}
			}
			if want {
				verifAssert(found, "an exclude is listed, re-based, under the root that contains it")
			}
		}
	}
	verifAssert(total == len(excludes), "no exclude is listed twice or under a foreign root")
}

// ---------- v1 / v1beta1 buf.yaml ----------

func vModuleConfigEqV1(a, b ModuleConfig) bool {
	an, bn := a.FullName(), b.FullName()
	if (an == nil) != (bn == nil) || (an != nil && an.String() != bn.String()) {
		return false
	}
	return a.DirPath() == b.DirPath() &&
		vStrsMapEq(a.RootToIncludes(), b.RootToIncludes()) && vStrsMapEq(a.RootToExcludes(), b.RootToExcludes()) &&
		vLintConfigEq(a.LintConfig(), b.LintConfig()) && vBreakingConfigEq(a.BreakingConfig(), b.BreakingConfig())
}

// VerifLemma_C16C_BufYAMLV1: v1 and v1beta1 buf.yaml: read(write(read(doc))) ~ read(doc) for every accepted document
// in bounds: name, deps, build.roots (v1beta1) / build.excludes, lint and breaking sections; and the writer is idempotent.
func VerifLemma_C16C_BufYAMLV1() {
	n := verifParam("N")
	ext := externalBufYAMLFileV1Beta1V1{Version: "v1", Deps: []string{"buf.build/acme/dep"}}
	v1beta1 := verifNondetBool()
	root := "."
	if v1beta1 {
		ext.Version = "v1beta1"
		switch verifNondetChoice(3) {
		case 1:
			root = vCompPrintable(n)
			ext.Build.Roots = []string{root}
		case 2:
			root = vCompPrintable(n)
			ext.Build.Roots = []string{root, vCompPrintable(n)}
		}
	}
	if verifNondetBool() {
		ext.Name = vNamePool[0]
	}
	switch verifNondetChoice(3) {
	case 1:
		ext.Build.Excludes = []string{vUnder(root, vCompPrintable(n))}
	case 2:
		ext.Build.Excludes = []string{vUnder(root, vCompPrintable(n)), vUnder(root, vCompPrintable(n))}
	}
	// lint: none | use + flags | ignore a path | ignore "." (switched off)
	switch verifNondetChoice(4) {
	case 1:
		ext.Lint.Use = []string{vIDPool[1]}
		ext.Lint.AllowCommentIgnores = verifNondetBool()
		ext.Lint.ServiceSuffix = verifNondetStringN(1)
	case 2:
		ext.Lint.Ignore = []string{vCompPrintable(n)}
		ext.Lint.IgnoreOnly = map[string][]string{vIDPool[0]: {vCompPrintable(n)}}
	case 3:
		ext.Lint.Ignore = []string{"."}
	}
	switch verifNondetChoice(3) {
	case 1:
		ext.Breaking.Use = []string{vIDPool[2]}
		ext.Breaking.IgnoreUnstablePackages = verifNondetBool()
	case 2:
		ext.Breaking.Ignore = []string{"."}
	}
	doc0, err := encoding.MarshalYAML(&ext)
	verifAssume(err == nil)
	f1, err := readBufYAMLFile(doc0, nil, false)
	verifAssume(err == nil) // domain: accepted documents
	verifCover("document accepted")
	doc1 := vWriteV(f1)
	f2, err := readBufYAMLFile(doc1, nil, false)
	m1 := f1.ModuleConfigs()[0]
	if vKnownF3Disabled(m1.LintConfig().Disabled() || m1.BreakingConfig().Disabled()) {
		return
	}
	verifAssert(err == nil, "the written v1/v1beta1 buf.yaml is accepted by the reader")
	verifAssert(f2.FileVersion() == f1.FileVersion(), "file version preserved")
	verifAssert(len(f2.ModuleConfigs()) == 1, "one module")
	m2 := f2.ModuleConfigs()[0]
	verifAssert(vStrsMapEq(m1.RootToExcludes(), m2.RootToExcludes()), "roots and excludes preserved")
	verifAssert(m1.LintConfig().Disabled() == m2.LintConfig().Disabled() && m1.BreakingConfig().Disabled() == m2.BreakingConfig().Disabled(), "switched-off checks stay switched off")
	verifAssert(vModuleConfigEqV1(m1, m2), "module config preserved")
	verifAssert(vLintConfigEq(f1.TopLevelLintConfig(), f2.TopLevelLintConfig()) && vBreakingConfigEq(f1.TopLevelBreakingConfig(), f2.TopLevelBreakingConfig()), "top-level configs preserved")
	d1, d2 := f1.ConfiguredDepModuleRefs(), f2.ConfiguredDepModuleRefs()
	verifAssert(len(d1) == len(d2) && (len(d1) == 0 || d1[0].String() == d2[0].String()), "deps preserved")
	doc2 := vWriteV(f2)
	var e1, e2 externalBufYAMLFileV1Beta1V1
	verifAssert(encoding.UnmarshalYAMLStrict(doc1, &e1) == nil && encoding.UnmarshalYAMLStrict(doc2, &e2) == nil, "written documents decode")
	verifAssert(e1.Version == e2.Version && e1.Name == e2.Name && vStrsEq(e1.Deps, e2.Deps) && vStrsEq(e1.Build.Roots, e2.Build.Roots) &&
		vStrsEq(e1.Build.Excludes, e2.Build.Excludes) && vStrsEq(e1.Lint.Ignore, e2.Lint.Ignore) && vStrsEq(e1.Lint.Use, e2.Lint.Use) &&
		vStrsMapEq(e1.Lint.IgnoreOnly, e2.Lint.IgnoreOnly) && vExtBreakingEq(e1.Breaking, e2.Breaking), "write(read(write(f))) == write(f)")
}

// ---------- buf.work.yaml ----------

// VerifLemma_C16C_BufWorkYAML: directories round-trip (sorted, normalized); ".", duplicates, nested directories and
// an empty list are rejected; accepted lists are written back identically.
func VerifLemma_C16C_BufWorkYAML() {
	depth, n := verifParam("DEPTH"), verifParam("N")
	var dirs []string
	for i := 0; i < verifParam("DIRS"); i++ {
		switch verifNondetChoice(3) {
		case 1:
			dirs = append(dirs, vRelPath(depth, n))
		case 2:
			dirs = append(dirs, ".")
		}
	}
	ext := externalBufWorkYAMLFileV1{Version: "v1", Directories: dirs}
	doc0, err := encoding.MarshalYAML(&ext)
	verifAssume(err == nil)
	f1, err := readBufWorkYAMLFile(doc0, nil, false)
	verifCover("read")
	bad := len(dirs) == 0
	for i := range dirs {
		if dirs[i] == "." {
			bad = true
		}
		for j := range dirs {
			if i != j && refContainsOrEq(dirs[i], dirs[j]) {
				bad = true
			}
		}
	}
	if bad {
		verifCover("rejected")
		verifAssert(err != nil, "empty list, '.', duplicate or nested workspace directories are rejected")
		return
	}
	verifAssert(err == nil, "well-formed workspace directories are accepted")
	got := f1.DirPaths()
	verifAssert(len(got) == len(dirs), "all directories kept")
	for k := 1; k < len(got); k++ {
		verifAssert(got[k-1] < got[k], "directories sorted")
	}
	for _, d := range dirs {
		found := false
		for _, g := range got {
			if g == d {
				found = true
			}
		}
		verifAssert(found, "every directory kept")
	}
	var buf bytes.Buffer
	verifAssert(writeBufWorkYAMLFile(&buf, f1) == nil, "buf.work.yaml is written")
	f2, err := readBufWorkYAMLFile(buf.Bytes(), nil, false)
	verifAssert(err == nil && vStrsEq(f2.DirPaths(), got) && f2.FileVersion() == FileVersionV1, "buf.work.yaml round-trips")
	verifCover("round trip")
}

// ---------- buf.lock ----------

var (
	vLockNames   = []string{"buf.build/acme/one", "buf.build/acme/two", "buf.build/acme/one"} // index 2 duplicates 0
	vLockCommits = []string{"00000000000000000000000000000001", "00000000000000000000000000000002", "00000000000000000000000000000003"}
	vLockDigestB5 = []string{
		"b5:" + "0123456789abcdef0123456789abcdef0123456789abcdef0123456789abcdef0123456789abcdef0123456789abcdef0123456789abcdef0123456789abcdef",
		"b5:" + "fedcba9876543210fedcba9876543210fedcba9876543210fedcba9876543210fedcba9876543210fedcba9876543210fedcba9876543210fedcba9876543210",
	}
)

// VerifLemma_C16C_BufLockV2: v2 buf.lock: deps (name, commit, digest) round-trip, are sorted by name, duplicate
// names and missing fields are rejected. Structural: names/commits/digests from pools (uuid and hex parsing are concrete).
func VerifLemma_C16C_BufLockV2() {
	ctx := context.Background()
	ext := externalBufLockFileV2{Version: "v2"}
	nDeps := verifNondetChoice(verifParam("DEPS") + 1)
	missing := false
	names := map[string]bool{}
	dup := false
	for i := 0; i < nDeps; i++ {
		k := verifNondetChoice(3)
		d := externalBufLockFileDepV2{Name: vLockNames[k], Commit: vLockCommits[i%3], Digest: vLockDigestB5[i%2]}
		switch verifNondetChoice(4) {
		case 1:
			d.Name = ""
			missing = true
		case 2:
			d.Commit = ""
			missing = true
		case 3:
			d.Digest = ""
			missing = true
		}
		if d.Name != "" {
			if names[d.Name] {
				dup = true
			}
			names[d.Name] = true
		}
		ext.Deps = append(ext.Deps, d)
	}
	doc0, err := encoding.MarshalYAML(&ext)
	verifAssume(err == nil)
	f1, err := readBufLockFile(ctx, doc0, nil, false)
	verifCover("read")
	if missing || dup {
		verifCover("rejected")
		verifAssert(err != nil, "a dep without name/commit/digest or a duplicate module name is rejected")
		return
	}
	verifAssert(err == nil, "a well-formed v2 buf.lock is accepted")
	keys := f1.DepModuleKeys()
	verifAssert(len(keys) == nDeps, "all deps kept")
	for k := 1; k < len(keys); k++ {
		verifAssert(keys[k-1].FullName().String() < keys[k].FullName().String(), "deps sorted by module name")
	}
	var buf bytes.Buffer
	verifAssert(writeBufLockFile(&buf, f1) == nil, "buf.lock is written")
	f2, err := readBufLockFile(ctx, buf.Bytes(), nil, false)
	verifAssert(err == nil && f2.FileVersion() == FileVersionV2, "the written buf.lock is accepted")
	keys2 := f2.DepModuleKeys()
	verifAssert(len(keys2) == len(keys), "same number of deps after write+read")
	for i := range keys {
		d1, err1 := keys[i].Digest()
		d2, err2 := keys2[i].Digest()
		verifAssert(err1 == nil && err2 == nil && d1.String() == d2.String(), "pinned digest preserved")
		verifAssert(keys[i].FullName().String() == keys2[i].FullName().String() && keys[i].CommitID() == keys2[i].CommitID(), "module name and commit preserved")
		// and they are the ones of the document
		found := false
		for _, d := range ext.Deps {
			if d.Name == keys[i].FullName().String() && d.Digest == d1.String() {
				found = true
			}
		}
		verifAssert(found, "dep is the one of the document")
	}
	verifCover("round trip")
}
