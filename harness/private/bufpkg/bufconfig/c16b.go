//go:build verif

package bufconfig

import (
	"bytes"

	"github.com/bufbuild/buf/private/pkg/encoding"
)

// C16-B: whole buf.yaml (v2) round trip through the real reader and writer. The YAML text layer is the identity
// codec of the engine (see lemma stubs); the domain is "every document (external struct) the reader accepts"
// within the bounds: the harness builds a nondet external document, reads it (assumed accepted), writes the
// resulting BufYAMLFile, reads the written document again and compares all accessors.

var vNamePool = []string{"buf.build/acme/one", "buf.build/acme/two"}

// vNondetExternalLintV2 returns a small nondet lint section: empty | use+flag | ignore path | both.
// ignorePath is a workspace-relative path chosen by the caller ("" = none).
func vNondetExternalLintV2(ignorePath string) externalBufYAMLFileLintV2 {
	var l externalBufYAMLFileLintV2
	if verifNondetBool() {
		l.Use = []string{vIDPool[1]}
		l.Except = []string{vIDPool[0]}
		l.DisallowCommentIgnores = verifNondetBool()
		l.EnumZeroValueSuffix = verifNondetStringN(1)
	}
	if ignorePath != "" {
		l.Ignore = []string{ignorePath}
	}
	return l
}

func vNondetExternalBreaking(ignorePath string) externalBufYAMLFileBreakingV1Beta1V1V2 {
	var b externalBufYAMLFileBreakingV1Beta1V1V2
	if verifNondetBool() {
		b.Use = []string{vIDPool[2]}
		b.IgnoreUnstablePackages = verifNondetBool()
	}
	if ignorePath != "" {
		b.Ignore = []string{ignorePath}
	}
	return b
}

// vUnder returns a path below dir: dir/comp ("." -> comp).
func vUnder(dir string, comp string) string {
	if dir == "." || dir == "" {
		return comp
	}
	return dir + "/" + comp
}

// vNondetIgnoreFor returns "", the module dir itself (=> disabled), or a path below it.
func vNondetIgnoreFor(dir string, n int) string {
	switch verifNondetChoice(3) {
	case 1:
		if dir == "" {
			return "."
		}
		return dir
	case 2:
		return vUnder(dir, vCompPrintable(n))
	}
	return ""
}

type vModuleShape struct {
	dir                string
	hasIncl, hasExcl   bool
	lintOff, breakOff  bool
}

func vModuleConfigEq(a, b ModuleConfig) bool {
	if a.DirPath() != b.DirPath() {
		return false
	}
	an, bn := a.FullName(), b.FullName()
	if (an == nil) != (bn == nil) {
		return false
	}
	if an != nil && an.String() != bn.String() {
		return false
	}
	return vStrsMapEq(a.RootToIncludes(), b.RootToIncludes()) &&
		vStrsMapEq(a.RootToExcludes(), b.RootToExcludes()) &&
		vLintConfigEq(a.LintConfig(), b.LintConfig()) &&
		vBreakingConfigEq(a.BreakingConfig(), b.BreakingConfig())
}

func vWriteV(f BufYAMLFile) []byte {
	var buf bytes.Buffer
	err := writeBufYAMLFile(&buf, f)
	verifAssert(err == nil, "writeBufYAMLFile succeeds on a file produced by the reader")
	return buf.Bytes()
}

// vNondetFiles sets includes/excludes of a module: none | include | include + exclude inside it | exclude.
func vNondetFiles(m *externalBufYAMLFileModuleV2, n int) {
	switch verifNondetChoice(4) {
	case 1:
		m.Includes = []string{vUnder(m.Path, vCompPrintable(n))}
	case 2:
		inc := vUnder(m.Path, vCompPrintable(n))
		m.Includes = []string{inc}
		m.Excludes = []string{inc + "/" + vCompPrintable(n)}
	case 3:
		m.Excludes = []string{vUnder(m.Path, vCompPrintable(n))}
	}
}

// VerifLemma_C16B_SingleModule: v2 files with the implicit module or one explicit module: collapse of the single
// "." module, re-basing of includes/excludes/ignores onto the module directory, hoisting of the module's sections.
func VerifLemma_C16B_SingleModule() {
	n := verifParam("N")
	ext := externalBufYAMLFileV2{Version: "v2", Deps: []string{"buf.build/acme/dep"}}
	dir := "."
	if verifNondetBool() {
		// implicit module at "."
		if verifNondetBool() {
			ext.Name = vNamePool[0]
		}
	} else {
		var m externalBufYAMLFileModuleV2
		switch verifNondetChoice(3) {
		case 0:
			m.Path = "" // defaults to "."
		case 1:
			m.Path = "."
		case 2:
			m.Path = vCompPrintable(n)
			dir = m.Path
		}
		m.Name = vNamePool[1]
		vNondetFiles(&m, n)
		if verifNondetBool() {
			// module-specific sections (the same ignore path in both)
			ign := vNondetIgnoreFor(dir, n)
			m.Lint = vNondetExternalLintV2(ign)
			m.Breaking = vNondetExternalBreaking(ign)
		}
		ext.Modules = append(ext.Modules, m)
	}
	if verifNondetBool() {
		// workspace-level sections, possibly ignoring the module (or something in it)
		ext.Lint = vNondetExternalLintV2(vNondetIgnoreFor(dir, n))
		ext.Breaking = externalBufYAMLFileBreakingV1Beta1V1V2{Use: []string{vIDPool[2]}, IgnoreUnstablePackages: verifNondetBool()}
	}
	vRoundTripV2(ext)
}

// vSectionFor returns the check sections of a module for one of 4 shapes:
// 0 inherit (empty) | 1 own lint+breaking | 2 own lint with an ignore below the module | 3 lint ignoring the module
// directory itself (checks switched off).
func vSectionFor(shape int, dir string, n int) (externalBufYAMLFileLintV2, externalBufYAMLFileBreakingV1Beta1V1V2) {
	var l externalBufYAMLFileLintV2
	var b externalBufYAMLFileBreakingV1Beta1V1V2
	switch shape {
	case 1:
		l.Use = []string{vIDPool[1]}
		b.Use = []string{vIDPool[2]}
	case 2:
		l.Use = []string{vIDPool[1]}
		l.Ignore = []string{vUnder(dir, vCompPrintable(n))}
	case 3:
		l.Ignore = []string{dir}
	}
	return l, b
}

// VerifLemma_C16B_TwoModules: two named modules (first at "." or "p", second at a symbolic directory); each has its
// own sections or inherits the workspace-level ones; exercises the writer's hoisting of identical sections and the
// "workspace-level ignore names a module" form of switching checks off.
func VerifLemma_C16B_TwoModules() {
	n := verifParam("N")
	ext := externalBufYAMLFileV2{Version: "v2"}
	for i := 0; i < 2; i++ {
		var m externalBufYAMLFileModuleV2
		if i == 0 {
			m.Path = []string{".", "p"}[verifNondetChoice(2)]
		} else {
			m.Path = vCompPrintable(n)
		}
		m.Name = vNamePool[i]
		if verifParam("FILES") > 0 {
			vNondetFiles(&m, n)
		}
		m.Lint, m.Breaking = vSectionFor(verifNondetChoice(4), m.Path, n)
		ext.Modules = append(ext.Modules, m)
	}
	switch verifNondetChoice(4) {
	case 1:
		ext.Lint, ext.Breaking = vSectionFor(1, ".", n)
	case 2:
		// workspace-level lint that switches the second module off
		ext.Lint, _ = vSectionFor(3, ext.Modules[1].Path, n)
	case 3:
		// workspace-level lint with an ignore below the first module
		ext.Lint, _ = vSectionFor(2, ext.Modules[0].Path, n)
	}
	vRoundTripV2(ext)
}

// vRoundTripV2: read(write(read(doc))) ~ read(doc) and write(read(write(f))) == write(f).
func vRoundTripV2(ext externalBufYAMLFileV2) {
	doc0, err := encoding.MarshalYAML(&ext)
	verifAssume(err == nil)
	f1, err := readBufYAMLFile(doc0, nil, false)
	// domain: documents the reader accepts
	verifAssume(err == nil)
	verifCover("document accepted")

	doc1 := vWriteV(f1)
	f2, err := readBufYAMLFile(doc1, nil, false)

	// classes of the two recorded defects (F3a, F3b)
	mods1 := f1.ModuleConfigs()
	anyDisabled := false
	for _, m := range mods1 {
		if m.LintConfig().Disabled() || m.BreakingConfig().Disabled() {
			anyDisabled = true
		}
	}
	if vKnownF3Disabled(anyDisabled) {
		return
	}
	singleRootWithIncludesOnly := len(mods1) == 1 && mods1[0].DirPath() == "." &&
		len(mods1[0].RootToIncludes()["."]) > 0 && len(mods1[0].RootToExcludes()["."]) == 0
	if vKnownF3Includes(singleRootWithIncludesOnly) {
		return
	}

	verifAssert(err == nil, "the written buf.yaml is accepted by the reader")
	verifAssert(f2.FileVersion() == FileVersionV2, "file version preserved")
	mods2 := f2.ModuleConfigs()
	verifAssert(len(mods1) == len(mods2), "same number of modules after write+read")
	for i := range mods1 {
		verifAssert(mods1[i].DirPath() == mods2[i].DirPath(), "module directory preserved")
		verifAssert(vStrsMapEq(mods1[i].RootToIncludes(), mods2[i].RootToIncludes()), "module includes preserved")
		verifAssert(vStrsMapEq(mods1[i].RootToExcludes(), mods2[i].RootToExcludes()), "module excludes preserved")
		verifAssert(vLintConfigEq(mods1[i].LintConfig(), mods2[i].LintConfig()), "effective lint config of the module preserved")
		verifAssert(vBreakingConfigEq(mods1[i].BreakingConfig(), mods2[i].BreakingConfig()), "effective breaking config of the module preserved")
		verifAssert(vModuleConfigEq(mods1[i], mods2[i]), "module config (incl. name) preserved")
	}
	d1, d2 := f1.ConfiguredDepModuleRefs(), f2.ConfiguredDepModuleRefs()
	verifAssert(len(d1) == len(d2), "same number of deps")
	for i := range d1 {
		verifAssert(d1[i].String() == d2[i].String(), "dep preserved")
	}
	verifAssert(f1.IncludeDocsLink() == f2.IncludeDocsLink(), "docs link flag preserved")
	verifCover("round trip compared")

	// idempotence of the writer: the documents written for f1 and f2 decode to equal external structs
	doc2 := vWriteV(f2)
	var e1, e2 externalBufYAMLFileV2
	verifAssert(encoding.UnmarshalYAMLStrict(doc1, &e1) == nil && encoding.UnmarshalYAMLStrict(doc2, &e2) == nil, "written documents decode")
	verifAssert(vExternalV2Eq(e1, e2), "write(read(write(f))) == write(f)")
}

func vExtLintV2Eq(a, b externalBufYAMLFileLintV2) bool {
	return vStrsEq(a.Use, b.Use) && vStrsEq(a.Except, b.Except) && vStrsEq(a.Ignore, b.Ignore) &&
		vStrsMapEq(a.IgnoreOnly, b.IgnoreOnly) && a.EnumZeroValueSuffix == b.EnumZeroValueSuffix &&
		a.RPCAllowSameRequestResponse == b.RPCAllowSameRequestResponse &&
		a.RPCAllowGoogleProtobufEmptyRequests == b.RPCAllowGoogleProtobufEmptyRequests &&
		a.RPCAllowGoogleProtobufEmptyResponses == b.RPCAllowGoogleProtobufEmptyResponses &&
		a.ServiceSuffix == b.ServiceSuffix && a.DisallowCommentIgnores == b.DisallowCommentIgnores &&
		a.DisableBuiltin == b.DisableBuiltin
}

func vExtBreakingEq(a, b externalBufYAMLFileBreakingV1Beta1V1V2) bool {
	return vStrsEq(a.Use, b.Use) && vStrsEq(a.Except, b.Except) && vStrsEq(a.Ignore, b.Ignore) &&
		vStrsMapEq(a.IgnoreOnly, b.IgnoreOnly) && a.IgnoreUnstablePackages == b.IgnoreUnstablePackages &&
		a.DisableBuiltin == b.DisableBuiltin
}

func vExternalV2Eq(a, b externalBufYAMLFileV2) bool {
	if a.Version != b.Version || a.Name != b.Name || !vStrsEq(a.Deps, b.Deps) || len(a.Modules) != len(b.Modules) {
		return false
	}
	if !vExtLintV2Eq(a.Lint, b.Lint) || !vExtBreakingEq(a.Breaking, b.Breaking) {
		return false
	}
	for i := range a.Modules {
		x, y := a.Modules[i], b.Modules[i]
		if x.Path != y.Path || x.Name != y.Name || !vStrsEq(x.Includes, y.Includes) || !vStrsEq(x.Excludes, y.Excludes) ||
			!vExtLintV2Eq(x.Lint, y.Lint) || !vExtBreakingEq(x.Breaking, y.Breaking) {
			return false
		}
	}
	return true
}

// VerifLemma_C16B_Plugins: check plugins of a v2 buf.yaml (local plugins; a remote reference needs os.Stat) keep
// their order, names, args and options through write+read.
func VerifLemma_C16B_Plugins() {
	n := verifParam("N")
	ext := externalBufYAMLFileV2{Version: "v2"}
	nPlugins := 1 + verifNondetChoice(2)
	for i := 0; i < nPlugins; i++ {
		name := []string{"buf-plugin-a", "plugin-b.wasm"}[verifNondetChoice(2)]
		var p externalBufYAMLFilePluginV2
		switch verifNondetChoice(3) {
		case 0:
			p.Plugin = name
		case 1:
			p.Plugin = []any{name}
		case 2:
			p.Plugin = []any{name, vCompPrintable(n), "--flag"}
		}
		if verifNondetBool() {
			p.Options = map[string]any{"opt": vCompPrintable(n), "on": verifNondetBool()}
		}
		ext.Plugins = append(ext.Plugins, p)
	}
	doc0, err := encoding.MarshalYAML(&ext)
	verifAssume(err == nil)
	f1, err := readBufYAMLFile(doc0, nil, false)
	verifAssume(err == nil)
	verifCover("document accepted")
	f2, err := readBufYAMLFile(vWriteV(f1), nil, false)
	verifAssert(err == nil, "the written buf.yaml with plugins is accepted")
	p1, p2 := f1.PluginConfigs(), f2.PluginConfigs()
	verifAssert(len(p1) == nPlugins && len(p2) == nPlugins, "all plugins kept")
	for i := range p1 {
		verifAssert(p1[i].Name() == p2[i].Name() && p1[i].Type() == p2[i].Type(), "plugin name and kind preserved, in order")
		verifAssert(vStrsEq(p1[i].Args(), p2[i].Args()), "plugin args preserved")
		o1, o2 := p1[i].Options(), p2[i].Options()
		verifAssert(len(o1) == len(o2), "plugin options preserved (count)")
		if len(o1) > 0 {
			s1, ok1 := o1["opt"].(string)
			s2, ok2 := o2["opt"].(string)
			b1, ok3 := o1["on"].(bool)
			b2, ok4 := o2["on"].(bool)
			verifAssert(ok1 && ok2 && ok3 && ok4 && s1 == s2 && b1 == b2, "plugin option values preserved")
		}
	}
}
