//go:build verif

package bufconfig

// C16-A: the conversion between validated check configs and the external (YAML) structs is a round trip:
//
//	getXConfigForExternalX(getExternalXForXConfig(c, dir), dir) == c     (on every accessor)
//
// for every valid config c (including disabled ones) and every module directory dir. No codec involved.

// VerifLemma_C16A_LintV2: lint section of a v2 buf.yaml, module directory "." or symbolic.
func VerifLemma_C16A_LintV2() {
	depth, n := verifParam("DEPTH"), verifParam("N")
	dir := vDir(depth, n)
	lc := vNondetLintConfig(FileVersionV2, verifParam("IGN"), depth, n)
	ext := getExternalLintV2ForLintConfig(lc, dir)
	lc2, err := getLintConfigForExternalLintV2(FileVersionV2, ext, dir, verifNondetBool())
	verifCover("converted")
	if vKnownF3Disabled(lc.Disabled()) {
		return
	}
	verifAssert(err == nil, "external lint (v2) written for a valid config reads back without error")
	verifAssert(lc2.Disabled() == lc.Disabled(), "lint (v2): Disabled() survives the round trip")
	verifAssert(vLintConfigEq(lc, lc2), "lint (v2): all accessors survive the round trip")
	if !lc.Disabled() {
		verifCover("enabled config round-tripped")
	}
}

// VerifLemma_C16A_LintV1: lint section of a v1 / v1beta1 buf.yaml (module directory is always ".").
func VerifLemma_C16A_LintV1() {
	depth, n := verifParam("DEPTH"), verifParam("N")
	fileVersion := FileVersionV1
	if verifNondetBool() {
		fileVersion = FileVersionV1Beta1
	}
	lc := vNondetLintConfig(fileVersion, verifParam("IGN"), depth, n)
	ext := getExternalLintV1Beta1V1ForLintConfig(lc, ".")
	lc2, err := getLintConfigForExternalLintV1Beta1V1(fileVersion, ext, ".", true)
	verifCover("converted")
	if vKnownF3Disabled(lc.Disabled()) {
		return
	}
	verifAssert(err == nil, "external lint (v1) written for a valid config reads back without error")
	verifAssert(lc2.Disabled() == lc.Disabled(), "lint (v1): Disabled() survives the round trip")
	verifAssert(vLintConfigEq(lc, lc2), "lint (v1): all accessors survive the round trip")
	if !lc.Disabled() {
		verifCover("enabled config round-tripped")
	}
}

// VerifLemma_C16A_Breaking: breaking section (same shape in all versions); v2 with a symbolic module directory,
// v1/v1beta1 with ".".
func VerifLemma_C16A_Breaking() {
	depth, n := verifParam("DEPTH"), verifParam("N")
	fileVersion := FileVersionV2
	dir := "."
	switch verifNondetChoice(3) {
	case 0:
		dir = vDir(depth, n)
	case 1:
		fileVersion = FileVersionV1
	case 2:
		fileVersion = FileVersionV1Beta1
	}
	bc := vNondetBreakingConfig(fileVersion, verifParam("IGN"), depth, n)
	ext := getExternalBreakingForBreakingConfig(bc, dir)
	bc2, err := getBreakingConfigForExternalBreaking(fileVersion, ext, dir, verifNondetBool())
	verifCover("converted")
	if vKnownF3Disabled(bc.Disabled()) {
		return
	}
	verifAssert(err == nil, "external breaking written for a valid config reads back without error")
	verifAssert(bc2.Disabled() == bc.Disabled(), "breaking: Disabled() survives the round trip")
	verifAssert(vBreakingConfigEq(bc, bc2), "breaking: all accessors survive the round trip")
	if !bc.Disabled() {
		verifCover("enabled config round-tripped")
	}
}

// VerifLemma_C16A_DefaultSkipsForeignPaths: reading a workspace-level (default) lint section for a module keeps
// exactly the ignore paths inside the module directory, re-based; an ignore equal to the module directory
// disables; with requirePathsToBeContained an outside path is an error.
func VerifLemma_C16A_DefaultSkipsForeignPaths() {
	depth, n := verifParam("DEPTH"), verifParam("N")
	dir := vRelPath(depth, n)
	p := vRelPath(depth+1, n)
	require := verifNondetBool()
	ext := externalBufYAMLFileLintV2{Ignore: []string{p}}
	lc, err := getLintConfigForExternalLintV2(FileVersionV2, ext, dir, require)
	verifCover("read")
	// reference: p inside dir  <=>  p == dir or p starts with dir + "/"
	inside := len(p) > len(dir) && p[:len(dir)] == dir && p[len(dir)] == '/'
	if p == dir {
		verifAssert(err == nil && lc.Disabled(), "ignore == module directory disables the checks")
		return
	}
	if inside {
		verifCover("inside")
		verifAssert(err == nil && !lc.Disabled(), "ignore path inside the module is accepted")
		ig := lc.IgnorePaths()
		verifAssert(len(ig) == 1 && ig[0] == p[len(dir)+1:], "ignore path is re-based onto the module directory")
		return
	}
	if require {
		verifAssert(err != nil, "module-specific section: ignore path outside the module is an error")
	} else {
		verifAssert(err == nil && !lc.Disabled() && len(lc.IgnorePaths()) == 0, "default section: ignore path outside the module is skipped")
	}
}

// VerifLemma_C16A_IgnoreOnlyRebased: ignore_only of a lint (v2) and breaking section read for a module at a
// directory other than ".": a path inside the module is stored relative to the module directory under its rule id,
// a path outside is dropped (workspace-level section) or an error (module-level section), an entry left without
// paths disappears.
func VerifLemma_C16A_IgnoreOnlyRebased() {
	depth, n := verifParam("DEPTH"), verifParam("N")
	dir := vRelPath(depth, n)
	p := vRelPath(depth+1, n)
	require := verifNondetBool()
	id := vIDPool[0]
	inside := len(p) > len(dir) && p[:len(dir)] == dir && p[len(dir)] == '/'
	var got map[string][]string
	var err error
	if verifNondetBool() {
		var bc BreakingConfig
		bc, err = getBreakingConfigForExternalBreaking(FileVersionV2, externalBufYAMLFileBreakingV1Beta1V1V2{IgnoreOnly: map[string][]string{id: {p}}}, dir, require)
		if err == nil {
			got = bc.IgnoreIDOrCategoryToPaths()
		}
	} else {
		var lc LintConfig
		lc, err = getLintConfigForExternalLintV2(FileVersionV2, externalBufYAMLFileLintV2{IgnoreOnly: map[string][]string{id: {p}}}, dir, require)
		if err == nil {
			got = lc.IgnoreIDOrCategoryToPaths()
		}
	}
	verifCover("read")
	if inside {
		verifCover("inside")
		verifAssert(err == nil && len(got) == 1 && len(got[id]) == 1 && got[id][0] == p[len(dir)+1:], "ignore_only path inside the module is stored relative to the module directory")
		return
	}
	if p == dir {
		// the module directory itself: the helper's doc says "returns error", the code stores "." - not pinned here
		return
	}
	if require {
		verifAssert(err != nil, "module-level section: ignore_only path outside the module is an error")
	} else {
		verifAssert(err == nil && len(got) == 0, "workspace-level section: ignore_only path outside the module is dropped with its entry")
	}
}
