//go:build verif

package bufconfig

import (
	"bytes"
	"context"
	"errors"
	"io"

	"github.com/bufbuild/buf/private/pkg/encoding"
	"github.com/bufbuild/buf/private/pkg/storage"
)

// ---- fault-injecting write bucket (copy of the C15-D stub; harness files cannot be shared across packages) ----
//
// Put, each Write and each Close are numbered in execution order; operation failAt (and failAt2) returns an error.
// Non-atomic Put publishes at Put/Write time; atomic Put publishes at a successful Close and is skipped after any
// failed Write (contract of storage.PutWithAtomic). A failing Write may be short (all but one byte transferred).

var vdErrInjected = errors.New("vd: injected write fault")

type vdFObj struct {
	path string
	data []byte
}

type vdFaultBucket struct {
	storage.ReadWriteBucket
	objs       []*vdFObj
	ops        int
	failAt     int
	failAt2    int
	short      bool
	faulted    bool
	puts       int
	open       int // writers not yet closed
	openAtomic int // atomic writers not yet closed (on a disk bucket each would leave a temp file behind)
}

func (b *vdFaultBucket) find(path string) *vdFObj {
	for _, o := range b.objs {
		if o.path == path {
			return o
		}
	}
	return nil
}

func (b *vdFaultBucket) set(path string, data []byte) {
	if o := b.find(path); o != nil {
		o.data = data
		return
	}
	b.objs = append(b.objs, &vdFObj{path: path, data: data})
}

func (b *vdFaultBucket) step() error {
	b.ops++
	if b.ops == b.failAt || b.ops == b.failAt2 {
		b.faulted = true
		return vdErrInjected
	}
	return nil
}

type vdFWriter struct {
	b      *vdFaultBucket
	path   string
	atomic bool
	buf    []byte
	failed bool
	closed int
}

func (b *vdFaultBucket) Put(ctx context.Context, path string, opts ...storage.PutOption) (storage.WriteObjectCloser, error) {
	b.puts++
	if err := b.step(); err != nil {
		return nil, err
	}
	w := &vdFWriter{b: b, path: path, atomic: storage.NewPutOptions(opts).Atomic()}
	b.open++
	if w.atomic {
		b.openAtomic++
	}
	if !w.atomic {
		b.set(path, nil)
	}
	return w, nil
}

func (w *vdFWriter) Write(p []byte) (int, error) {
	if err := w.b.step(); err != nil {
		w.failed = true
		n := 0
		if w.b.short && len(p) > 0 {
			n = len(p) - 1
			w.buf = append(w.buf, p[:n]...)
			if !w.atomic {
				w.b.set(w.path, append([]byte(nil), w.buf...))
			}
		}
		return n, err
	}
	w.buf = append(w.buf, p...)
	if !w.atomic {
		w.b.set(w.path, append([]byte(nil), w.buf...))
	}
	return len(p), nil
}

func (w *vdFWriter) Close() error {
	w.closed++
	if w.closed == 1 {
		w.b.open--
		if w.atomic {
			w.b.openAtomic--
		}
	}
	if err := w.b.step(); err != nil {
		return err
	}
	if w.atomic {
		if w.failed {
			return vdErrInjected
		}
		w.b.set(w.path, append([]byte(nil), w.buf...))
	}
	return nil
}
func (w *vdFWriter) SetExternalPath(string) error { return nil }
func (w *vdFWriter) SetLocalPath(string) error    { return nil }

func (b *vdFaultBucket) SetExternalAndLocalPathsSupported() bool { return false }

type vdFile struct {
	File
	version FileVersion
}

func (f vdFile) FileVersion() FileVersion { return f.version }

func vdNewFaultBucket(maxOps int) *vdFaultBucket {
	b := &vdFaultBucket{failAt: verifNondetInt(0, maxOps), short: verifNondetBool()}
	if verifParam("DOUBLE") == 1 {
		b.failAt2 = verifNondetInt(0, maxOps)
		verifAssume(b.failAt2 == 0 || b.failAt2 > b.failAt)
	}
	return b
}

// VerifLemma_C15D_PutFileForPrefix: the generic config-file writer putFileForPrefix with a write callback that emits
// symbolic data in one or two Writes and may itself fail: any failure (version check, Put, Write, Close, callback) is
// reported; nil error implies the file holds exactly the data; the file is put atomically, so a failed write leaves
// no object behind; the writer is closed exactly once.
func VerifLemma_C15D_PutFileForPrefix() {
	data := verifNondetBytes(verifParam("DATA"))
	split := verifNondetChoice(len(data) + 1)
	cbFail := verifNondetBool()
	versions := []FileVersion{FileVersionV1Beta1, FileVersionV1, FileVersionV2, FileVersion(0)}
	f := vdFile{version: versions[verifNondetChoice(len(versions))]}
	b := vdNewFaultBucket(4)
	cbFailed := false
	err := putFileForPrefix(context.Background(), b, "pre/fix", f, DefaultBufYAMLFileName, bufYAMLFileNameToSupportedFileVersions,
		func(w io.Writer, _ vdFile) error {
			if _, err := w.Write(data[:split]); err != nil {
				return err
			}
			if split < len(data) {
				if _, err := w.Write(data[split:]); err != nil {
					return err
				}
			}
			if cbFail {
				cbFailed = true
				return vdErrInjected
			}
			return nil
		})
	verifCover("returned")
	supported := f.version == FileVersionV1Beta1 || f.version == FileVersionV1 || f.version == FileVersionV2
	verifAssert(supported || (err != nil && len(b.objs) == 0), "putFileForPrefix: an unsupported file version is an error and no file appears")
	verifAssert(!(b.faulted || cbFailed) || err != nil, "putFileForPrefix: an injected failure seen by the code is reported")
	// "The buf.yaml file will be written atomically": a failed atomic put leaves no new object behind, so the atomic
	// writer must be closed (cleaned up) on every path
	verifAssert(b.openAtomic == 0 && (err != nil || b.open == 0), "putFileForPrefix: the atomic writer is closed on every path")
	o := b.find("pre/fix/buf.yaml")
	if err == nil {
		verifCover("success")
		verifAssert(o != nil && bytes.Equal(o.data, data), "putFileForPrefix: nil error implies the file holds exactly the data")
	}
	if b.faulted {
		verifAssert(o == nil, "putFileForPrefix: a failed Put/Write/Close of the atomic put leaves no object behind")
	}
}

// VerifLemma_C15D_PutBufWorkYAML: the real PutBufWorkYAMLFileForPrefix (writeBufWorkYAMLFile + identity YAML codec)
// into the fault bucket: failure reported; success implies the stored document decodes to the same directories.
func VerifLemma_C15D_PutBufWorkYAML() {
	dirs := []string{"a", "b/c"}
	if verifNondetBool() {
		dirs = dirs[:1]
	}
	file, err := NewBufWorkYAMLFile(FileVersionV1, dirs)
	verifAssert(err == nil, "harness: a valid buf.work.yaml is constructed")
	if err != nil {
		return
	}
	b := vdNewFaultBucket(4)
	err = PutBufWorkYAMLFileForPrefix(context.Background(), b, ".", file)
	verifCover("returned")
	verifAssert(!b.faulted || err != nil, "PutBufWorkYAMLFileForPrefix: an injected failure seen by the code is reported")
	verifAssert(b.openAtomic == 0 && (err != nil || b.open == 0), "PutBufWorkYAMLFileForPrefix: the atomic writer is closed on every path")
	o := b.find("buf.work.yaml")
	if b.faulted {
		verifAssert(o == nil, "PutBufWorkYAMLFileForPrefix: a failed atomic put leaves no object behind")
	}
	if err == nil {
		verifCover("success")
		verifAssert(o != nil, "PutBufWorkYAMLFileForPrefix: nil error implies the file exists")
		if o != nil {
			var ext externalBufWorkYAMLFileV1
			derr := encoding.UnmarshalYAMLStrict(o.data, &ext)
			verifAssert(derr == nil && ext.Version == "v1" && len(ext.Directories) == len(dirs), "PutBufWorkYAMLFileForPrefix: the stored document decodes to the same version and directory count")
			for i := range dirs {
				if i < len(ext.Directories) {
					verifAssert(ext.Directories[i] == dirs[i], "PutBufWorkYAMLFileForPrefix: the stored directories equal the written ones")
				}
			}
		}
	}
}
