//go:build verif

package bufconfig

// C16-E: buf.gen.yaml v2 `inputs` entries: the conversion between validated InputConfig objects and the external
// (YAML) struct is a round trip. Pure struct conversion, no codec.

func vOptStr(n int) *string {
	if !verifNondetBool() {
		return nil
	}
	s := verifNondetString(n)
	return &s
}

func vOptBool() *bool {
	if !verifNondetBool() {
		return nil
	}
	b := verifNondetBool()
	return &b
}

func vOptU32() *uint32 {
	if !verifNondetBool() {
		return nil
	}
	v := uint32(verifNondetInt32(0, 0x7fffffff))
	return &v
}

func vU32PtrEq(a, b *uint32) bool {
	if (a == nil) != (b == nil) {
		return false
	}
	return a == nil || *a == *b
}

func vInputConfigEq(a, b InputConfig) bool {
	return a.Type() == b.Type() && a.Location() == b.Location() && a.Compression() == b.Compression() &&
		a.StripComponents() == b.StripComponents() && a.SubDir() == b.SubDir() && a.Branch() == b.Branch() &&
		a.CommitOrTag() == b.CommitOrTag() && a.Ref() == b.Ref() && vU32PtrEq(a.Depth(), b.Depth()) &&
		a.RecurseSubmodules() == b.RecurseSubmodules() && a.IncludePackageFiles() == b.IncludePackageFiles() &&
		vStrsEq(a.TargetPaths(), b.TargetPaths()) && vStrsEq(a.ExcludePaths(), b.ExcludePaths()) &&
		vStrsEq(a.IncludeTypes(), b.IncludeTypes())
}

// VerifLemma_C16E_InputConfig: for every external input entry the reader accepts (any of the 10 input kinds, symbolic
// location, any applicable options with symbolic values, types / paths lists):
//
//	newInputConfigFromExternalV2(newExternalInputConfigV2FromInputConfig(c)) == c   on every accessor.
func VerifLemma_C16E_InputConfig() {
	n := verifParam("N")
	var ext externalInputConfigV2
	loc := verifNondetString(n)
	kind := verifNondetChoice(10)
	switch kind {
	case 0:
		ext.Module = &loc
	case 1:
		ext.Directory = &loc
	case 2:
		ext.ProtoFile = &loc
	case 3:
		ext.Tarball = &loc
	case 4:
		ext.ZipArchive = &loc
	case 5:
		ext.BinaryImage = &loc
	case 6:
		ext.JSONImage = &loc
	case 7:
		ext.TextImage = &loc
	case 8:
		ext.YAMLImage = &loc
	case 9:
		ext.GitRepo = &loc
	}
	// options: only those that can be accepted for the kind are made nondet (the others are rejected by the reader;
	// one representative foreign option is tried too)
	switch kind {
	case 9:
		ext.Branch, ext.Ref, ext.Subdir = vOptStr(1), vOptStr(1), vOptStr(1)
		if verifNondetBool() {
			ext.Commit = vOptStr(1)
		} else {
			ext.Tag = vOptStr(1)
		}
		ext.Depth, ext.RecurseSubmodules = vOptU32(), vOptBool()
	case 2:
		ext.IncludePackageFiles = vOptBool()
	case 3:
		ext.Compression, ext.StripComponents, ext.Subdir = vOptStr(1), vOptU32(), vOptStr(1)
	case 4:
		ext.StripComponents, ext.Subdir = vOptU32(), vOptStr(1)
	case 5, 6, 7, 8:
		ext.Compression = vOptStr(1)
	default:
		ext.Compression = vOptStr(1) // not allowed for module / directory: rejected
	}
	if verifNondetBool() {
		ext.Types = []string{"pk.A"}
		ext.TargetPaths = []string{verifNondetString(1)}
		ext.ExcludePaths = []string{"x", "y"}
	}
	if verifParam("EXCLUDE_TYPES") > 0 && verifNondetBool() {
		ext.ExcludeTypes = []string{"pk.B"}
	}
	c1, err := newInputConfigFromExternalV2(ext)
	verifAssume(err == nil) // domain: entries the reader accepts
	verifCover("entry accepted")
	ext2, err := newExternalInputConfigV2FromInputConfig(c1)
	verifAssert(err == nil, "an accepted input config is written")
	c2, err := newInputConfigFromExternalV2(ext2)
	verifAssert(err == nil, "the written input entry is accepted")
	verifAssert(c2.Type() == c1.Type(), "input kind preserved")
	verifAssert(c2.Location() == c1.Location(), "input location preserved")
	verifAssert(vInputConfigEq(c1, c2), "input options, paths and types preserved")
	if vKnownInputExcludeTypes(len(c1.ExcludeTypes()) > 0) {
		return
	}
	verifAssert(vStrsEq(c1.ExcludeTypes(), c2.ExcludeTypes()), "input exclude_types preserved")
}

// vKnownInputExcludeTypes gates the class of finding F16e: exclude_types of an input is not written.
func vKnownInputExcludeTypes(class bool) bool {
	return verifKnown("F16e-input-exclude-types-not-written", class)
}
