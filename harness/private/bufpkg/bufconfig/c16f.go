//go:build verif

package bufconfig

import (
	"github.com/bufbuild/buf/private/pkg/encoding"
)

// C16-F: "is this section present?" and per-module scalar options.

func vOptStrs() []string {
	if verifNondetBool() {
		return []string{verifNondetString(1)}
	}
	if verifNondetBool() {
		return []string{}
	}
	return nil
}

func vOptMap() map[string][]string {
	switch verifNondetChoice(3) {
	case 1:
		return map[string][]string{}
	case 2:
		return map[string][]string{vIDPool[0]: nil}
	}
	return nil
}

// VerifLemma_C16F_IsEmpty: for the three external check-section structs (lint v1beta1/v1, lint v2, breaking):
// isEmpty() <=> every field is at its zero value (empty and nil collections alike). The v2 reader decides with
// isEmpty() whether a module has its own section or inherits the workspace-level one.
func VerifLemma_C16F_IsEmpty() {
	use, except, ignore, ignoreOnly := vOptStrs(), vOptStrs(), vOptStrs(), vOptMap()
	collectionsZero := len(use) == 0 && len(except) == 0 && len(ignore) == 0 && len(ignoreOnly) == 0
	switch verifNondetChoice(3) {
	case 0:
		l := externalBufYAMLFileLintV2{Use: use, Except: except, Ignore: ignore, IgnoreOnly: ignoreOnly,
			EnumZeroValueSuffix: verifNondetString(1), RPCAllowSameRequestResponse: verifNondetBool(),
			RPCAllowGoogleProtobufEmptyRequests: verifNondetBool(), RPCAllowGoogleProtobufEmptyResponses: verifNondetBool(),
			ServiceSuffix: verifNondetString(1), DisallowCommentIgnores: verifNondetBool(), DisableBuiltin: verifNondetBool()}
		want := collectionsZero && l.EnumZeroValueSuffix == "" && !l.RPCAllowSameRequestResponse &&
			!l.RPCAllowGoogleProtobufEmptyRequests && !l.RPCAllowGoogleProtobufEmptyResponses && l.ServiceSuffix == "" &&
			!l.DisallowCommentIgnores && !l.DisableBuiltin
		verifCover("lint v2")
		verifAssert(l.isEmpty() == want, "lint v2 section: isEmpty <=> every field zero")
	case 1:
		l := externalBufYAMLFileLintV1Beta1V1{Use: use, Except: except, Ignore: ignore, IgnoreOnly: ignoreOnly,
			EnumZeroValueSuffix: verifNondetString(1), RPCAllowSameRequestResponse: verifNondetBool(),
			RPCAllowGoogleProtobufEmptyRequests: verifNondetBool(), RPCAllowGoogleProtobufEmptyResponses: verifNondetBool(),
			ServiceSuffix: verifNondetString(1), AllowCommentIgnores: verifNondetBool(), DisableBuiltin: verifNondetBool()}
		want := collectionsZero && l.EnumZeroValueSuffix == "" && !l.RPCAllowSameRequestResponse &&
			!l.RPCAllowGoogleProtobufEmptyRequests && !l.RPCAllowGoogleProtobufEmptyResponses && l.ServiceSuffix == "" &&
			!l.AllowCommentIgnores && !l.DisableBuiltin
		verifCover("lint v1")
		verifAssert(l.isEmpty() == want, "lint v1 section: isEmpty <=> every field zero")
	case 2:
		b := externalBufYAMLFileBreakingV1Beta1V1V2{Use: use, Except: except, Ignore: ignore, IgnoreOnly: ignoreOnly,
			IgnoreUnstablePackages: verifNondetBool(), DisableBuiltin: verifNondetBool()}
		want := collectionsZero && !b.IgnoreUnstablePackages && !b.DisableBuiltin
		verifCover("breaking")
		verifAssert(b.isEmpty() == want, "breaking section: isEmpty <=> every field zero")
	}
}

// VerifLemma_C16F_ModuleScalarOptions: a v2 file with two modules and a non-empty workspace-level lint and
// breaking section. The second module has its own lint (breaking) section whose ONLY non-default key is one scalar
// option. The reader must give that module exactly its own section (not the workspace one), the first module the
// workspace one, and write+read must keep both.
func VerifLemma_C16F_ModuleScalarOptions() {
	ext := externalBufYAMLFileV2{Version: "v2"}
	ext.Lint = externalBufYAMLFileLintV2{Use: []string{vIDPool[1]}, ServiceSuffix: "W", EnumZeroValueSuffix: "_W"}
	ext.Breaking = externalBufYAMLFileBreakingV1Beta1V1V2{Use: []string{vIDPool[2]}}
	m0 := externalBufYAMLFileModuleV2{Path: ".", Name: vNamePool[0], Excludes: []string{"p"}}
	m1 := externalBufYAMLFileModuleV2{Path: "p", Name: vNamePool[1]}
	which := verifNondetChoice(9)
	sfx := verifNondetStringN(1)
	switch which {
	case 0:
		m1.Lint.EnumZeroValueSuffix = sfx
	case 1:
		m1.Lint.ServiceSuffix = sfx
	case 2:
		m1.Lint.RPCAllowSameRequestResponse = true
	case 3:
		m1.Lint.RPCAllowGoogleProtobufEmptyRequests = true
	case 4:
		m1.Lint.RPCAllowGoogleProtobufEmptyResponses = true
	case 5:
		m1.Lint.DisallowCommentIgnores = true
	case 6:
		m1.Lint.DisableBuiltin = true
	case 7:
		m1.Breaking.IgnoreUnstablePackages = true
	case 8:
		m1.Breaking.DisableBuiltin = true
	}
	ext.Modules = []externalBufYAMLFileModuleV2{m0, m1}
	doc0, err := encoding.MarshalYAML(&ext)
	verifAssume(err == nil)
	f1, err := readBufYAMLFile(doc0, nil, false)
	verifAssert(err == nil, "the document is accepted")
	verifCover("read")
	mods := f1.ModuleConfigs()
	verifAssert(len(mods) == 2 && mods[0].DirPath() == "." && mods[1].DirPath() == "p", "two modules, sorted by directory")
	l0, l1, b0, b1 := mods[0].LintConfig(), mods[1].LintConfig(), mods[0].BreakingConfig(), mods[1].BreakingConfig()
	// the first module inherits the workspace-level sections
	verifAssert(l0.ServiceSuffix() == "W" && l0.EnumZeroValueSuffix() == "_W" && vStrsEq(l0.UseIDsAndCategories(), []string{vIDPool[1]}) &&
		vStrsEq(b0.UseIDsAndCategories(), []string{vIDPool[2]}), "module without own sections inherits the workspace-level ones")
	// the second module has exactly its own section where it has one
	ownLint := which <= 6
	wantLint := externalBufYAMLFileLintV2{}
	wantBreaking := externalBufYAMLFileBreakingV1Beta1V1V2{}
	if ownLint {
		wantLint = m1.Lint
		wantBreaking = ext.Breaking
	} else {
		wantLint = ext.Lint
		wantBreaking = m1.Breaking
	}
	verifAssert(l1.EnumZeroValueSuffix() == wantLint.EnumZeroValueSuffix && l1.ServiceSuffix() == wantLint.ServiceSuffix &&
		l1.RPCAllowSameRequestResponse() == wantLint.RPCAllowSameRequestResponse &&
		l1.RPCAllowGoogleProtobufEmptyRequests() == wantLint.RPCAllowGoogleProtobufEmptyRequests &&
		l1.RPCAllowGoogleProtobufEmptyResponses() == wantLint.RPCAllowGoogleProtobufEmptyResponses &&
		l1.AllowCommentIgnores() == !wantLint.DisallowCommentIgnores && l1.DisableBuiltin() == wantLint.DisableBuiltin &&
		vStrsEq(l1.UseIDsAndCategories(), wantLint.Use), "a module-level lint section with a single scalar option is the module's lint config")
	verifAssert(b1.IgnoreUnstablePackages() == wantBreaking.IgnoreUnstablePackages && b1.DisableBuiltin() == wantBreaking.DisableBuiltin &&
		vStrsEq(b1.UseIDsAndCategories(), wantBreaking.Use), "a module-level breaking section with a single scalar option is the module's breaking config")
	// and write + read keeps it
	f2, err := readBufYAMLFile(vWriteV(f1), nil, false)
	verifAssert(err == nil, "the written file is accepted")
	mods2 := f2.ModuleConfigs()
	verifAssert(len(mods2) == 2 && vModuleConfigEq(mods[0], mods2[0]) && vModuleConfigEq(mods[1], mods2[1]), "module configs preserved by write+read")
}
