//go:build verif

package bufmodule

import (
	"context"

	"github.com/bufbuild/buf/private/bufpkg/bufparse"
	"github.com/bufbuild/buf/private/pkg/storage"
	"github.com/bufbuild/buf/private/pkg/storage/storagemem"
	"github.com/google/uuid"
)

// ---- C08-F (grpI): the b5 digest of a local module through the real Module / ModuleSet path ----

// viWorkspaceDigest builds three real local modules over in-memory buckets, puts them into a real ModuleSet and returns
// the b5 digest of the first one (real Module.Digest -> ModuleDeps -> getModuleDepsRec with the real fastscan ->
// recursive dependency digests -> getB5DigestForBucketAndModuleDeps):
//
//	A: a.proto (imports depFile iff importsDep)
//	W: depFile (w/w.proto or the well-known type path google/protobuf/any.proto) + LICENSE = wLicense
//	U: u.proto + LICENSE = uLicense (never imported)
// viImportModifier: "", "public " or "weak " - every import statement names a file the importer depends on.
var viImportModifier = ""

func viWorkspaceDigest(names []string, targets []bool, depFile string, importsDep bool, wLicense, uLicense []byte) Digest {
	ctx := context.Background()
	srcA := "syntax = \"proto3\";\npackage a;\n"
	if importsDep {
		srcA += "import " + viImportModifier + "\"" + depFile + "\";\n"
	}
	srcA += "message A {}\n"
	datas := []map[string][]byte{
		{"a.proto": []byte(srcA)},
		{depFile: []byte("syntax = \"proto3\";\npackage w;\nmessage W {}\n"), "LICENSE": wLicense},
		{"u.proto": []byte("syntax = \"proto3\";\npackage u;\nmessage U {}\n"), "LICENSE": uLicense},
	}
	modules := make([]Module, len(datas))
	for i, data := range datas {
		bucket, err := storagemem.NewReadBucket(data)
		verifAssume(err == nil)
		module, err := newModule(
			ctx,
			func() (storage.ReadBucket, error) { return bucket, nil },
			names[i], "", nil, uuid.Nil, targets[i], true,
			func() (ObjectData, error) { return nil, nil },
			func() (ObjectData, error) { return nil, nil },
			func() ([]ModuleKey, error) { return nil, nil },
			nil, nil, "", false,
		)
		if err != nil {
			verifAssert(false, "real module constructed")
		}
		modules[i] = module
	}
	if _, err := newModuleSet(modules); err != nil {
		verifAssert(false, "module set of distinct modules is accepted")
	}
	digest, err := modules[0].Digest(DigestTypeB5)
	verifAssert(err == nil && digest != nil, "the b5 digest of a local module with resolvable imports is computed")
	return digest
}

// VerifLemma_C08F_ModuleDigestDeps: two workspaces that differ in the LICENSE bytes of W and of U, in the module
// names and in the targeting flags. The digest of A is the same iff A does not import W's file or W's content is the
// same - also when the imported file is a well-known-type path that W ships (W is then a real dependency).
func VerifLemma_C08F_ModuleDigestDeps() {
	depFile := "w/w.proto"
	if verifNondetBool() {
		depFile = "google/protobuf/any.proto"
	}
	importsDep := verifNondetBool()
	viImportModifier = []string{"", "public ", "weak "}[verifNondetChoice(3)]
	// workspace 1 has concrete LICENSE bytes (its digests are real SHAKE256 values), workspace 2 arbitrary ones
	w1, w2 := []byte{'x'}, verifNondetBytesN(1)
	u1, u2 := []byte{'y'}, verifNondetBytesN(1)
	t := func() bool { return verifNondetBool() }
	d1 := viWorkspaceDigest([]string{"ma", "mw", "mu"}, []bool{true, t(), t()}, depFile, importsDep, w1, u1)
	d2 := viWorkspaceDigest([]string{"x/other-a", "a-first", "zz"}, []bool{t(), t(), t()}, depFile, importsDep, w2, u2)
	verifCover("both digests computed")
	if !importsDep {
		verifAssert(DigestEqual(d1, d2), "the digest ignores modules that are not dependencies, module names and targeting")
	} else if w1[0] == w2[0] {
		verifAssert(DigestEqual(d1, d2), "the digest ignores non-dependencies, module names and targeting when the dependency is unchanged")
	} else {
		verifAssert(!DigestEqual(d1, d2), "a changed byte of a dependency - also one that provides a well-known-type path - changes the importer's digest")
	}
}

// ---- C08-F (remote): a remote module's b5 digest uses the dependency digests pinned by its commit ----

// viRemoteDigest builds a ModuleSet of a *remote* module R (r.proto imports d/d.proto; its commit pins the dependency D
// at the digest of a D whose LICENSE is pinnedLicense) and a workspace copy of D whose LICENSE is localLicense (the
// module the import resolves to inside this ModuleSet), and returns R's b5 digest through the real Module.Digest.
func viRemoteDigest(pinnedLicense, localLicense []byte, dIsLocal bool) Digest {
	ctx := context.Background()
	const dSrc = "syntax = \"proto3\";\npackage d;\nmessage D {}\n"
	pinnedBucket, err := storagemem.NewReadBucket(map[string][]byte{"d/d.proto": []byte(dSrc), "LICENSE": pinnedLicense})
	verifAssume(err == nil)
	pinnedDigest, err := getB5DigestForBucketAndDepModuleKeys(ctx, pinnedBucket, nil)
	if err != nil {
		verifAssert(false, "digest of the pinned dependency content is computed")
	}
	dName, err := bufparse.NewFullName("buf.build", "acme", "d")
	verifAssume(err == nil)
	rName, err := bufparse.NewFullName("buf.build", "acme", "r")
	verifAssume(err == nil)
	dKey, err := NewModuleKey(dName, uuid.UUID{1}, func() (Digest, error) { return pinnedDigest, nil })
	verifAssume(err == nil)
	rBucket, err := storagemem.NewReadBucket(map[string][]byte{
		"r.proto": []byte("syntax = \"proto3\";\npackage r;\nimport \"d/d.proto\";\nmessage R {}\n"),
	})
	verifAssume(err == nil)
	dBucket, err := storagemem.NewReadBucket(map[string][]byte{"d/d.proto": []byte(dSrc), "LICENSE": localLicense})
	verifAssume(err == nil)
	none := func() (ObjectData, error) { return nil, nil }
	r, err := newModule(ctx, func() (storage.ReadBucket, error) { return rBucket, nil },
		"", "", rName, uuid.UUID{2}, false, false, none, none,
		func() ([]ModuleKey, error) { return []ModuleKey{dKey}, nil }, nil, nil, "", false)
	if err != nil {
		verifAssert(false, "real remote module constructed")
	}
	dCommit := uuid.Nil
	dBucketID := "d"
	if !dIsLocal {
		dCommit, dBucketID = uuid.UUID{3}, ""
	}
	d, err := newModule(ctx, func() (storage.ReadBucket, error) { return dBucket, nil },
		dBucketID, "", dName, dCommit, true, dIsLocal, none, none,
		func() ([]ModuleKey, error) { return nil, nil }, nil, nil, "", false)
	if err != nil {
		verifAssert(false, "real dependency module constructed")
	}
	if _, err := newModuleSet([]Module{r, d}); err != nil {
		verifAssert(false, "module set is accepted")
	}
	digest, err := r.Digest(DigestTypeB5)
	verifAssert(err == nil && digest != nil, "the b5 digest of a remote module is computed")
	return digest
}

// VerifLemma_C08F_RemoteDigestPinned: the digest of a remote module is a function of its own files and of the
// dependency digests pinned by its commit - not of whatever content the same dependency name resolves to in the
// current workspace (a locally edited copy, or another commit): same pinned digest => same digest whatever the local
// copy holds; different pinned digest => different digest.
func VerifLemma_C08F_RemoteDigestPinned() {
	p1, p2 := []byte{'x'}, verifNondetBytesN(1)
	q1, q2 := []byte{'x'}, verifNondetBytesN(1)
	dIsLocal := verifNondetBool()
	d1 := viRemoteDigest(p1, q1, dIsLocal)
	d2 := viRemoteDigest(p2, q2, dIsLocal)
	verifCover("both remote digests computed")
	if p1[0] == p2[0] {
		verifAssert(DigestEqual(d1, d2), "a remote module's digest does not depend on the content its dependency resolves to in the workspace")
	} else {
		verifAssert(!DigestEqual(d1, d2), "a remote module's digest changes with the dependency digest pinned by its commit")
	}
}
