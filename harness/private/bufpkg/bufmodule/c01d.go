//go:build verif

package bufmodule

import (
	"context"
	"errors"
	"io/fs"
)

// ---- C01-D / C10-C: the union bucket over modules rejects a .proto path served by two modules ----

func vNondetProtoName() string {
	prefix := verifNondetStringN(1)
	c := prefix[0]
	verifAssume(c >= 'a' && c <= 'z')
	return prefix + ".proto"
}

// VerifLemma_C01D_MultiBucket: D stub modules, each with 0..F .proto files with symbolic names (distinct inside a
// module) and optionally a LICENSE, in the real multiProtoFileModuleReadBucket. For a symbolic .proto path or
// LICENSE:
//   - served by no module (or only as a non-.proto file)  => fs.ErrNotExist
//   - served by exactly one module                       => that module's FileInfo and delegate index
//   - served by two or more modules                      => error carrying a DuplicateProtoPathError for the path
//
// WalkFileInfos: fails with a DuplicateProtoPathError iff some .proto path is served twice, otherwise yields every
// .proto file exactly once and no non-.proto file.
func VerifLemma_C01D_MultiBucket() {
	ctx := context.Background()
	d := verifNondetChoice(verifParam("D")) + 1
	maxFiles := verifParam("F")
	mods := make([]*vModule, d)
	for i := 0; i < d; i++ {
		mods[i] = &vModule{opaqueID: vModuleName(i), isTarget: true}
		nFiles := verifNondetChoice(maxFiles + 1)
		for k := 0; k < nFiles; k++ {
			name := vNondetProtoName()
			for _, f := range mods[i].files {
				verifAssume(f.path != name)
			}
			mods[i].files = append(mods[i].files, vFileSpec{path: name, fileType: FileTypeProto})
		}
		if verifNondetBool() {
			mods[i].files = append(mods[i].files, vFileSpec{path: "LICENSE", fileType: FileTypeLicense})
		}
	}
	bucket := newMultiProtoFileModuleReadBucket(mods, true)
	var path string
	if verifNondetBool() {
		path = "LICENSE"
	} else {
		path = vNondetProtoName()
	}
	verifCover("bucket built")
	owners := 0
	owner := -1
	for i := 0; i < d; i++ {
		for _, f := range mods[i].files {
			if f.fileType == FileTypeProto && f.path == path {
				owners++
				owner = i
			}
		}
	}
	fileInfo, index, err := bucket.getFileInfoAndDelegateIndex(ctx, "stat", path)
	switch {
	case owners == 0:
		verifCover("not served")
		verifAssert(err != nil && errors.Is(err, fs.ErrNotExist), "unserved path does not exist")
	case owners == 1:
		verifCover("served once")
		verifAssert(err == nil && fileInfo != nil, "path served by one module is found")
		if err == nil && fileInfo != nil {
			verifAssert(index == owner, "delegate index is the serving module")
			verifAssert(fileInfo.Path() == path && fileInfo.Module() != nil && fileInfo.Module().OpaqueID() == mods[owner].opaqueID, "file info is the serving module's")
		}
	default:
		verifCover("served twice")
		verifAssert(err != nil, "path served by two modules is an error")
		found := false
		for _, e := range vJoinedErrors(err) {
			var dupErr *DuplicateProtoPathError
			if errors.As(e, &dupErr) && dupErr.ProtoPath == path {
				found = true
				verifAssert(len(dupErr.ModuleDescriptions) == owners, "duplicate error names every serving module")
			}
		}
		verifAssert(found, "the error is a DuplicateProtoPathError for the path")
	}
	// StatFileInfo agrees.
	statInfo, statErr := bucket.StatFileInfo(ctx, path)
	verifAssert((statErr == nil) == (owners == 1), "StatFileInfo succeeds iff exactly one module serves the path")
	if statErr == nil {
		verifAssert(statInfo != nil && statInfo.Path() == path, "StatFileInfo returns the path")
	}

	// Walk.
	anyDup := false
	for i := 0; i < d; i++ {
		for _, f := range mods[i].files {
			for j := 0; j < i; j++ {
				for _, h := range mods[j].files {
					if f.fileType == FileTypeProto && h.fileType == FileTypeProto && f.path == h.path {
						anyDup = true
					}
				}
			}
		}
	}
	total := 0
	for i := 0; i < d; i++ {
		for _, f := range mods[i].files {
			if f.fileType == FileTypeProto {
				total++
			}
		}
	}
	walked := 0
	nonProto := false
	walkErr := bucket.WalkFileInfos(ctx, func(fileInfo FileInfo) error {
		walked++
		if fileInfo.FileType() != FileTypeProto {
			nonProto = true
		}
		return nil
	})
	verifAssert(!nonProto, "walk yields only .proto files")
	if anyDup {
		verifCover("walk over duplicate")
		verifAssert(walkErr != nil, "walk over a duplicated .proto path fails")
		var dupErr *DuplicateProtoPathError
		verifAssert(walkErr != nil && errors.As(walkErr, &dupErr), "walk error is a DuplicateProtoPathError")
	} else {
		verifCover("walk without duplicate")
		verifAssert(walkErr == nil, "walk without duplicates succeeds")
		verifAssert(walked == total, "walk yields every .proto file exactly once")
	}
}
