//go:build verif

package bufmodule

import (
	"bytes"
	"context"
	"errors"
	"io"
	"io/fs"
	"strings"

	"github.com/bufbuild/buf/private/bufpkg/bufcas"
	"github.com/bufbuild/buf/private/bufpkg/bufparse"
	"github.com/bufbuild/buf/private/pkg/storage"
	"github.com/google/uuid"
)

// ---- C08 (grpI): identifiers are prefixed vi / refI ----

// viObj is one object of the stub bucket.
type viObj struct {
	path string
	data []byte
}

type viInfo struct{ path string }

func (i viInfo) Path() string         { return i.path }
func (i viInfo) ExternalPath() string { return i.path }
func (i viInfo) LocalPath() string    { return "" }

type viReadObj struct {
	viInfo
	data []byte
	pos  int
}

func (o *viReadObj) Read(p []byte) (int, error) {
	if o.pos >= len(o.data) {
		return 0, io.EOF
	}
	n := copy(p, o.data[o.pos:])
	o.pos += n
	return n, nil
}
func (o *viReadObj) Close() error { return nil }

// viBucket is a storage.ReadBucket over a list of objects with pairwise distinct paths; Walk enumerates them in the
// given order (the harness chooses every order).
type viBucket struct {
	storage.ReadBucket
	objs  []viObj
	order []int
}

func (b *viBucket) Get(ctx context.Context, path string) (storage.ReadObjectCloser, error) {
	for _, o := range b.objs {
		if o.path == path {
			return &viReadObj{viInfo: viInfo{o.path}, data: o.data}, nil
		}
	}
	return nil, &fs.PathError{Op: "read", Path: path, Err: fs.ErrNotExist}
}

func (b *viBucket) Stat(ctx context.Context, path string) (storage.ObjectInfo, error) {
	for _, o := range b.objs {
		if o.path == path {
			return viInfo{o.path}, nil
		}
	}
	return nil, &fs.PathError{Op: "stat", Path: path, Err: fs.ErrNotExist}
}

func (b *viBucket) Walk(ctx context.Context, prefix string, f func(storage.ObjectInfo) error) error {
	for _, k := range b.order {
		if err := f(viInfo{b.objs[k].path}); err != nil {
			return err
		}
	}
	return nil
}

// viPerm returns a nondeterministically chosen permutation of 0..n-1 (every permutation is explored).
func viPerm(n int) []int {
	rest := make([]int, n)
	for i := range rest {
		rest[i] = i
	}
	out := make([]int, 0, n)
	for len(rest) > 0 {
		k := 0
		if len(rest) > 1 {
			k = verifNondetChoice(len(rest))
		}
		out = append(out, rest[k])
		rest = append(rest[:k:k], rest[k+1:]...)
	}
	return out
}

func viSpecialNames() []string { return []string{"LICENSE", "buf.md", "README.md", "README.markdown"} }

// viNondetPath: a module-file-looking or arbitrary object path.
//
//	kind 0: stem (0..N arbitrary bytes) + ".proto"
//	kind 1: one of LICENSE, buf.md, README.md, README.markdown
//	kind 2: 1..M arbitrary bytes
//
// The caller assumes validity (normalized, validated) where needed.
func viNondetPath(kinds int) string {
	switch verifNondetChoice(kinds) {
	case 0:
		return verifNondetString(verifParam("N")) + ".proto"
	case 1:
		names := viSpecialNames()
		return names[verifNondetChoice(len(names))]
	default:
		p := verifNondetString(verifParam("M"))
		verifAssume(len(p) > 0)
		return p
	}
}

// viNondetObjs: n objects with pairwise distinct paths and 0..DATA arbitrary content bytes each.
func viNondetObjs(n int) []viObj {
	objs := make([]viObj, 0, n)
	for i := 0; i < n; i++ {
		p := viNondetPath(3)
		for _, o := range objs {
			verifAssume(o.path != p)
		}
		objs = append(objs, viObj{path: p, data: verifNondetBytes(verifParam("DATA"))})
	}
	return objs
}

func refIHasSuffix(s, suffix string) bool {
	if len(s) < len(suffix) {
		return false
	}
	for i := 0; i < len(suffix); i++ {
		if s[len(s)-len(suffix)+i] != suffix[i] {
			return false
		}
	}
	return true
}

func refILess(a, b string) bool {
	for i := 0; i < len(a) && i < len(b); i++ {
		if a[i] != b[i] {
			return a[i] < b[i]
		}
	}
	return len(a) < len(b)
}

// refIDocPath: the documented choice of the documentation file: the first of buf.md, README.md, README.markdown
// that is an object of the bucket ("" if none).
func refIDocPath(objs []viObj) string {
	for _, name := range []string{"buf.md", "README.md", "README.markdown"} {
		for _, o := range objs {
			if o.path == name {
				return name
			}
		}
	}
	return ""
}

// refIIsModuleFile: .proto files, LICENSE and the chosen documentation file.
func refIIsModuleFile(path string, docPath string) bool {
	if refIHasSuffix(path, ".proto") {
		return true
	}
	if path == "LICENSE" {
		return true
	}
	return docPath != "" && path == docPath
}

// refISortedStrings: insertion sort, bytewise order.
func refISortedStrings(in []string) []string {
	out := make([]string, 0, len(in))
	for _, s := range in {
		k := len(out)
		for k > 0 && refILess(s, out[k-1]) {
			k--
		}
		out = append(out, "")
		copy(out[k+1:], out[k:])
		out[k] = s
	}
	return out
}

// refIFilesManifestText is the published inner pre-image: one line "shake256:<hex of SHAKE256(content)>  <path>\n"
// per module file, in increasing path order.
func refIFilesManifestText(objs []viObj) string {
	return refIManifestText(objs, nil)
}

// refIManifestText: the manifest of the module files of objs plus the extra (always included) objects.
func refIManifestText(objs []viObj, extra []viObj) string {
	docPath := refIDocPath(objs)
	var paths []string
	var all []viObj
	for _, o := range objs {
		if refIIsModuleFile(o.path, docPath) {
			paths = append(paths, o.path)
			all = append(all, o)
		}
	}
	for _, o := range extra {
		paths = append(paths, o.path)
		all = append(all, o)
	}
	text := ""
	for _, p := range refISortedStrings(paths) {
		for _, o := range all {
			if o.path == p {
				d, err := bufcas.NewDigestForContent(bytes.NewReader(o.data))
				verifAssume(err == nil)
				text += d.String() + "  " + p + "\n"
			}
		}
	}
	return text
}

// refIB5 is the published b5 construction: SHAKE256 over (files digest string, then the sorted dependency digest
// strings, joined by "\n"), the files digest being SHAKE256 over the manifest text.
func refIB5(objs []viObj, depDigests []Digest) []byte {
	filesDigest, err := bufcas.NewDigestForContent(strings.NewReader(refIFilesManifestText(objs)))
	verifAssume(err == nil)
	var deps []string
	for _, d := range depDigests {
		deps = append(deps, d.String())
	}
	pre := filesDigest.String()
	for _, s := range refISortedStrings(deps) {
		pre += "\n" + s
	}
	outer, err := bufcas.NewDigestForContent(strings.NewReader(pre))
	verifAssume(err == nil)
	return outer.Value()
}

// viB5Digest: a b5 Digest whose value has nsym symbolic leading bytes (the rest concrete, derived from seed).
func viB5Digest(nsym int, seed byte) Digest {
	return viModuleDigest(DigestTypeB5, nsym, seed)
}

func viModuleDigest(digestType DigestType, nsym int, seed byte) Digest {
	value := make([]byte, 64)
	for i := range value {
		value[i] = seed + byte(i)*7
	}
	if nsym > 0 {
		copy(value, verifNondetBytesN(nsym))
	}
	casDigest, err := bufcas.NewDigest(value)
	verifAssume(err == nil)
	d, err := NewDigest(digestType, casDigest)
	verifAssume(err == nil)
	return d
}

func viNondetDepDigests() []Digest {
	n := verifNondetChoice(verifParam("DEPS") + 1)
	deps := make([]Digest, 0, n)
	for i := 0; i < n; i++ {
		// a later dependency either has its own concrete tail or shares the tail of the first one: then the two
		// digests coincide whenever their symbolic leading bytes do (two dependencies with identical content, e.g. a
		// mirror under another name, have equal digests - the construction lists both)
		seed := byte(40*i + 3)
		if i > 0 && verifNondetBool() {
			seed = 3
		}
		deps = append(deps, viB5Digest(verifParam("DEPSYM"), seed))
	}
	return deps
}

// viAllValid assumes that every object path is a valid bucket path (what every real bucket guarantees).
func viAllValid(objs []viObj) {
	for _, o := range objs {
		_, err := bufcas.NewFileNode(o.path, viB5DigestConcreteCAS())
		if err != nil {
			verifAssume(false)
		}
	}
}

func viB5DigestConcreteCAS() bufcas.Digest {
	d, err := bufcas.NewDigest(make([]byte, 64))
	verifAssume(err == nil)
	return d
}

// VerifLemma_C08C_B5Construction: getB5DigestForBucketAndDepDigests over a stub bucket (module files and
// non-module files, every enumeration order) and dependency digests (every order) equals the published construction.
func VerifLemma_C08C_B5Construction() {
	n := verifNondetChoice(verifParam("FILES") + 1)
	objs := viNondetObjs(n)
	viAllValid(objs)
	deps := viNondetDepDigests()
	bucket := &viBucket{objs: objs, order: viPerm(n)}
	ctx := context.Background()
	got, err := getB5DigestForBucketAndDepDigests(ctx, bucket, deps)
	verifAssert(err == nil, "b5 digest of a bucket of valid paths is computed")
	verifCover("b5 digest computed")
	verifAssert(got.Type() == DigestTypeB5, "digest type is b5")
	want := refIB5(objs, deps)
	verifAssert(bytes.Equal(got.Value(), want), "b5 digest = SHAKE256(files digest, sorted dep digests) with files digest = SHAKE256(path-sorted manifest of exactly the module files)")
	// the production path applies the module-file matcher before the digest walk as well: same value
	filtered := storage.FilterReadBucket(bucket, getStorageMatcher(ctx, bucket))
	got2, err := getB5DigestForBucketAndDepDigests(ctx, filtered, deps)
	verifAssert(err == nil, "b5 digest of the pre-filtered bucket is computed")
	verifAssert(DigestEqual(got, got2), "pre-filtering the bucket with the module-file matcher does not change the digest")
}

// VerifLemma_C08C_B4Construction: getB4Digest = SHAKE256 over the path-sorted manifest of exactly the module files
// plus the v1 buf.yaml / buf.lock object data when present; independent of the walk order.
func VerifLemma_C08C_B4Construction() {
	n := verifNondetChoice(verifParam("FILES") + 1)
	objs := viNondetObjs(n)
	viAllValid(objs)
	// buf.yaml / buf.lock are never module files, so they cannot collide with a manifest path of the bucket
	var yamlData, lockData ObjectData
	var extra []viObj
	if verifNondetBool() {
		data := verifNondetBytes(verifParam("DATA"))
		yamlData = viObjectData{name: "buf.yaml", data: data}
		extra = append(extra, viObj{path: "buf.yaml", data: data})
	}
	if verifNondetBool() {
		data := verifNondetBytes(verifParam("DATA"))
		lockData = viObjectData{name: "buf.lock", data: data}
		extra = append(extra, viObj{path: "buf.lock", data: data})
	}
	bucket := &viBucket{objs: objs, order: viPerm(n)}
	got, err := getB4Digest(context.Background(), bucket, yamlData, lockData)
	verifAssert(err == nil, "b4 digest of a bucket of valid paths is computed")
	verifCover("b4 digest computed")
	verifAssert(got.Type() == DigestTypeB4, "digest type is b4")
	want, err := bufcas.NewDigestForContent(strings.NewReader(refIManifestText(objs, extra)))
	verifAssume(err == nil)
	verifAssert(bytes.Equal(got.Value(), want.Value()), "b4 digest = SHAKE256(path-sorted manifest of exactly the module files plus buf.yaml and buf.lock)")
}

// VerifLemma_C08D_Sensitivity: differential form. Two buckets / dependency lists are digested with the real
// function and the digests compared (the hash is uninterpreted: functional and collision-free):
//
//	mode 0: B = A plus one non-module object (arbitrary path and content)      => equal digests
//	mode 1: B = A with the content of one module file changed (any bytes)           => different digests
//	mode 2: B = A with one module file moved to a different module-file path  => different digests
//	mode 3: same bucket, one dependency digest changed                        => different digests
//	mode 4: same bucket, one dependency digest added (possibly equal to one already listed) => different digests
func VerifLemma_C08D_Sensitivity() {
	n := verifNondetChoice(verifParam("FILES")) + 1
	objs := viNondetObjs(n)
	viAllValid(objs)
	deps := viNondetDepDigests()
	ctx := context.Background()
	docPath := refIDocPath(objs)

	objsB := append([]viObj(nil), objs...)
	depsB := append([]Digest(nil), deps...)
	wantEqual := false
	mode := verifParam("MODE") // 0..4: that perturbation only; 5: every perturbation
	if mode >= 5 {
		mode = verifNondetChoice(5)
	}
	switch mode {
	case 0:
		p := viNondetPath(3)
		for _, o := range objs {
			verifAssume(o.path != p)
		}
		objsB = append(objsB, viObj{path: p, data: verifNondetBytes(verifParam("DATA"))})
		viAllValid(objsB[n:])
		// not a module file, and it does not change the choice of the documentation file
		verifAssume(!refIIsModuleFile(p, refIDocPath(objsB)))
		verifAssume(refIDocPath(objsB) == docPath)
		wantEqual = true
		verifCover("non-module object added")
	case 1:
		k := verifNondetChoice(n)
		verifAssume(refIIsModuleFile(objs[k].path, docPath))
		data := verifNondetBytes(verifParam("DATA"))
		verifAssume(!bytes.Equal(data, objs[k].data))
		objsB[k] = viObj{path: objs[k].path, data: data}
		verifCover("module file content changed")
	case 2:
		k := verifNondetChoice(n)
		verifAssume(refIIsModuleFile(objs[k].path, docPath))
		p := viNondetPath(2)
		for _, o := range objs {
			verifAssume(o.path != p)
		}
		objsB[k] = viObj{path: p, data: objs[k].data}
		viAllValid(objsB[k : k+1])
		docB := refIDocPath(objsB)
		verifAssume(refIIsModuleFile(p, docB))
		// the other files keep their module-file status (the doc-file choice may otherwise move)
		for i := range objs {
			if i != k {
				verifAssume(refIIsModuleFile(objs[i].path, docPath) == refIIsModuleFile(objs[i].path, docB))
			}
		}
		verifCover("module file path changed")
	case 3:
		verifAssume(len(deps) > 0)
		k := verifNondetChoice(len(deps))
		d := viB5Digest(verifParam("DEPSYM"), byte(40*k+3))
		verifAssume(!DigestEqual(d, deps[k]))
		// the dependency multiset really changes
		for _, other := range deps {
			verifAssume(!DigestEqual(d, other))
		}
		depsB[k] = d
		verifCover("dependency digest changed")
	case 4:
		// the added digest may equal one that is already in the list (the dependency list is a multiset)
		seed := byte(201)
		if verifNondetBool() {
			seed = 3
		}
		depsB = append(depsB, viB5Digest(verifParam("DEPSYM"), seed))
		verifCover("dependency digest added")
	}
	a, err := getB5DigestForBucketAndDepDigests(ctx, &viBucket{objs: objs, order: viPerm(len(objs))}, deps)
	verifAssert(err == nil, "digest A computed")
	b, err := getB5DigestForBucketAndDepDigests(ctx, &viBucket{objs: objsB, order: viPerm(len(objsB))}, depsB)
	verifAssert(err == nil, "digest B computed")
	if wantEqual {
		verifAssert(DigestEqual(a, b), "a non-module object does not change the digest")
	} else {
		verifAssert(!DigestEqual(a, b), "changing a module file byte, a module file path or a dependency digest changes the digest")
	}
}

// ---- C08-E: tamper check of moduleData ----

type viModuleKey struct {
	ModuleKey
	digest Digest
}

func (k *viModuleKey) Digest() (Digest, error) { return k.digest, nil }
func (k *viModuleKey) FullName() bufparse.FullName { return nil }
func (k *viModuleKey) CommitID() uuid.UUID         { return uuid.Nil }

type viObjectData struct {
	name string
	data []byte
}

func (o viObjectData) Name() string { return o.name }
func (o viObjectData) Data() []byte { return o.data }

// VerifLemma_C08E_TamperCheck: moduleData.Bucket / DepModuleKeys / V1Beta1OrV1BufYAMLObjectData /
// V1Beta1OrV1BufLockObjectData return a *DigestMismatchError (and no data) whenever the digest recomputed from the
// downloaded bucket and dependency keys differs from the digest of the module key, and succeed when it is equal;
// for b4 and b5 keys.
func VerifLemma_C08E_TamperCheck() {
	n := verifNondetChoice(verifParam("FILES") + 1)
	objs := viNondetObjs(n)
	viAllValid(objs)
	bucket := &viBucket{objs: objs, order: viPerm(n)}
	ctx := context.Background()
	isB5 := verifNondetBool()

	var depKeys []ModuleKey
	var depDigests []Digest
	var yamlData, lockData ObjectData
	var actual Digest
	var err error
	if isB5 {
		depDigests = viNondetDepDigests()
		for _, d := range depDigests {
			depKeys = append(depKeys, &viModuleKey{digest: d})
		}
		actual, err = getB5DigestForBucketAndDepDigests(ctx, bucket, depDigests)
	} else {
		if verifNondetBool() {
			yamlData = viObjectData{name: "buf.yaml", data: verifNondetBytes(verifParam("DATA"))}
		}
		if verifNondetBool() {
			lockData = viObjectData{name: "buf.lock", data: verifNondetBytes(verifParam("DATA"))}
		}
		actual, err = getB4Digest(ctx, bucket, yamlData, lockData)
	}
	verifAssert(err == nil, "reference digest computed")

	// the expected digest of the key: equal to the actual one, or an arbitrary one of the same type
	tampered := verifNondetBool()
	expected := actual
	if tampered {
		digestType := DigestTypeB4
		if isB5 {
			digestType = DigestTypeB5
		}
		expected = viModuleDigest(digestType, verifParam("KEYSYM"), 9)
		verifAssume(!DigestEqual(expected, actual))
	}
	md := newModuleData(
		ctx,
		&viModuleKey{digest: expected},
		func() (storage.ReadBucket, error) { return bucket, nil },
		func() ([]ModuleKey, error) { return depKeys, nil },
		func() (ObjectData, error) { return yamlData, nil },
		func() (ObjectData, error) { return lockData, nil },
	)
	var gotErr error
	var gotSomething bool
	switch verifNondetChoice(4) {
	case 0:
		b, err := md.Bucket()
		gotErr, gotSomething = err, b != nil
	case 1:
		k, err := md.DepModuleKeys()
		gotErr, gotSomething = err, k != nil
	case 2:
		o, err := md.V1Beta1OrV1BufYAMLObjectData()
		gotErr, gotSomething = err, o != nil
	case 3:
		o, err := md.V1Beta1OrV1BufLockObjectData()
		gotErr, gotSomething = err, o != nil
	}
	verifCover("moduleData accessor returned")
	if tampered {
		var mismatch *DigestMismatchError
		verifAssert(gotErr != nil && errors.As(gotErr, &mismatch), "a digest mismatch is reported as DigestMismatchError")
		verifAssert(!gotSomething, "no data is handed out on a digest mismatch")
		verifAssert(DigestEqual(mismatch.ExpectedDigest, expected) && DigestEqual(mismatch.ActualDigest, actual), "the error carries the expected and the actual digest")
	} else {
		verifAssert(gotErr == nil, "matching digests: the accessor succeeds")
	}
	// asking again gives the same verdict (the check is cached, not skipped)
	_, err2 := md.Bucket()
	verifAssert((err2 != nil) == tampered, "a second access gives the same verdict")
}
