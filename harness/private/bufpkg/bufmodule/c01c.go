//go:build verif

package bufmodule

import "context"

// Shared stubs for the bufmodule harnesses (C01-C, C01-D, C10-A, C10-B, C10-C).

// vModule is a stub Module. Only the methods the code under test calls are overridden.
type vModule struct {
	Module
	opaqueID string
	isTarget bool
	isLocal  bool
}

func (m *vModule) OpaqueID() string { return m.opaqueID }
func (m *vModule) IsTarget() bool   { return m.isTarget }
func (m *vModule) IsLocal() bool    { return m.isLocal }

// vIsNormalizedRelPath is the reference for "normalized and validated" (the documented precondition of every
// path handed to a moduleReadBucket): non-empty, no empty, "." or ".." component, not rooted. "." (the root)
// is accepted iff allowRoot.
func vIsNormalizedRelPath(p string, allowRoot bool) bool {
	if len(p) == 0 {
		return false
	}
	if len(p) == 1 && p[0] == '.' {
		return allowRoot
	}
	start := 0
	for i := 0; i <= len(p); i++ {
		if i == len(p) || p[i] == '/' {
			l := i - start
			if l == 0 {
				return false
			}
			if l == 1 && p[start] == '.' {
				return false
			}
			if l == 2 && p[start] == '.' && p[start+1] == '.' {
				return false
			}
			start = i + 1
		}
	}
	return true
}

// vContains is the reference for "dir equals or contains path" on normalized relative paths.
func vContains(dir string, path string) bool {
	if len(dir) == 1 && dir[0] == '.' {
		return true
	}
	if len(dir) > len(path) {
		return false
	}
	for i := 0; i < len(dir); i++ {
		if dir[i] != path[i] {
			return false
		}
	}
	return len(dir) == len(path) || path[len(dir)] == '/'
}

func vNondetPaths(maxCount int, maxLen int) []string {
	n := verifNondetChoice(maxCount + 1)
	var out []string
	for i := 0; i < n; i++ {
		p := verifNondetString(maxLen)
		verifAssume(vIsNormalizedRelPath(p, true))
		out = append(out, p)
	}
	return out
}

// VerifLemma_C01C_TargetPaths: for a moduleReadBucket built by the real constructor with 0..K target paths and
// 0..K exclude paths, a file is a target file iff the module is a target, (there are no target paths or one of
// them equals/contains the file path) and no exclude path equals/contains it.
func VerifLemma_C01C_TargetPaths() {
	ctx := context.Background()
	module := &vModule{opaqueID: "m", isTarget: verifNondetBool()}
	targets := vNondetPaths(verifParam("K"), verifParam("TN"))
	excludes := vNondetPaths(verifParam("K"), verifParam("TN"))
	path := verifNondetString(verifParam("N"))
	verifAssume(vIsNormalizedRelPath(path, false))
	bucket, err := newModuleReadBucketForModule(ctx, nil, module, targets, excludes, "", false)
	verifAssert(err == nil && bucket != nil, "constructor accepts target and exclude paths")
	if err != nil {
		return
	}
	verifCover("constructed")
	got, err := bucket.getIsTargetFileForPathUncached(ctx, path)
	verifAssert(err == nil, "target decision does not fail without a proto file target")
	inTargets := len(targets) == 0
	for _, t := range targets {
		if vContains(t, path) {
			inTargets = true
		}
	}
	inExcludes := false
	for _, e := range excludes {
		if vContains(e, path) {
			inExcludes = true
		}
	}
	want := module.isTarget && inTargets && !inExcludes
	if want {
		verifCover("file is a target")
	}
	if inExcludes && module.isTarget {
		verifCover("file is excluded")
	}
	verifAssert(got == want, "target decision equals the reference")
}

// VerifLemma_C01C_ProtoFileTarget: with a proto file target path and includePackageFiles=false, a .proto file is a
// target iff the module is a target and its path is the proto file target path; doc/license files never are.
// The constructor rejects a non-.proto target and the combination with target/exclude paths.
func VerifLemma_C01C_ProtoFileTarget() {
	ctx := context.Background()
	module := &vModule{opaqueID: "m", isTarget: verifNondetBool()}
	pft := verifNondetString(verifParam("N"))
	verifAssume(vIsNormalizedRelPath(pft, false))
	hasProtoExt := vHasProtoExt(pft)
	var extra []string
	if verifNondetBool() {
		extra = []string{"a"}
	}
	extraIsExclude := verifNondetBool()
	var bucket *moduleReadBucket
	var err error
	if extraIsExclude {
		bucket, err = newModuleReadBucketForModule(ctx, nil, module, nil, extra, pft, false)
	} else {
		bucket, err = newModuleReadBucketForModule(ctx, nil, module, extra, nil, pft, false)
	}
	verifCover("constructor returned")
	verifAssert((err != nil) == (!hasProtoExt || len(extra) > 0), "constructor rejects exactly non-.proto targets and mixes with paths")
	if err != nil {
		return
	}
	var path string
	switch verifNondetChoice(4) {
	case 0:
		path = verifNondetString(verifParam("N"))
		verifAssume(vIsNormalizedRelPath(path, false))
		verifAssume(vHasProtoExt(path))
	case 1:
		path = "LICENSE"
	case 2:
		path = "README.md"
	case 3:
		path = "buf.md"
	}
	got, err := bucket.getIsTargetFileForPathUncached(ctx, path)
	verifAssert(err == nil, "target decision does not fail for a module file path")
	want := module.isTarget && path == pft
	if want {
		verifCover("proto file target")
	}
	verifAssert(got == want, "proto file target decision equals the reference")
}

func vHasProtoExt(p string) bool {
	n := len(p)
	return n >= 6 && p[n-6] == '.' && p[n-5] == 'p' && p[n-4] == 'r' && p[n-3] == 'o' && p[n-2] == 't' && p[n-1] == 'o'
}
