//go:build verif

package bufmodule

import (
	"context"

	"github.com/bufbuild/buf/private/pkg/storage"
	"github.com/bufbuild/buf/private/pkg/storage/storagemem"
	"github.com/google/uuid"
)

// vIsNormalizedRelPath is the reference for "normalized and validated" (the documented precondition of every
// path handed to a moduleReadBucket): non-empty, no empty, "." or ".." component, not rooted. "." (the root)
// is accepted iff allowRoot.
func vIsNormalizedRelPath(p string, allowRoot bool) bool {
	if len(p) == 0 {
		return false
	}
	if len(p) == 1 && p[0] == '.' {
		return allowRoot
	}
	start := 0
	for i := 0; i <= len(p); i++ {
		if i == len(p) || p[i] == '/' {
			l := i - start
			if l == 0 {
				return false
			}
			if l == 1 && p[start] == '.' {
				return false
			}
			if l == 2 && p[start] == '.' && p[start+1] == '.' {
				return false
			}
			start = i + 1
		}
	}
	return true
}

// vContains is the reference for "dir equals or contains path" on normalized relative paths.
func vContains(dir string, path string) bool {
	if len(dir) == 1 && dir[0] == '.' {
		return true
	}
	if len(dir) > len(path) {
		return false
	}
	for i := 0; i < len(dir); i++ {
		if dir[i] != path[i] {
			return false
		}
	}
	return len(dir) == len(path) || path[len(dir)] == '/'
}

func vNondetPaths(maxCount int, maxLen int) []string {
	n := verifNondetChoice(maxCount + 1)
	var out []string
	for i := 0; i < n; i++ {
		p := verifNondetString(maxLen)
		verifAssume(vIsNormalizedRelPath(p, true))
		out = append(out, p)
	}
	return out
}

// VerifLemma_C01C_TargetPaths: for a moduleReadBucket built by the real constructor with 0..K target paths and
// 0..K exclude paths, a file is a target file iff the module is a target, (there are no target paths or one of
// them equals/contains the file path) and no exclude path equals/contains it.
func VerifLemma_C01C_TargetPaths() {
	ctx := context.Background()
	module := &vModule{opaqueID: "m", isTarget: verifNondetBool()}
	targets := vNondetPaths(verifParam("K"), verifParam("TN"))
	excludes := vNondetPaths(verifParam("K"), verifParam("TN"))
	path := verifNondetString(verifParam("N"))
	verifAssume(vIsNormalizedRelPath(path, false))
	bucket, err := newModuleReadBucketForModule(ctx, nil, module, targets, excludes, "", false)
	verifAssert(err == nil && bucket != nil, "constructor accepts target and exclude paths")
	if err != nil {
		return
	}
	verifCover("constructed")
	got, err := bucket.getIsTargetFileForPathUncached(ctx, path)
	verifAssert(err == nil, "target decision does not fail without a proto file target")
	inTargets := len(targets) == 0
	for _, t := range targets {
		if vContains(t, path) {
			inTargets = true
		}
	}
	inExcludes := false
	for _, e := range excludes {
		if vContains(e, path) {
			inExcludes = true
		}
	}
	want := module.isTarget && inTargets && !inExcludes
	if want {
		verifCover("file is a target")
	}
	if inExcludes && module.isTarget {
		verifCover("file is excluded")
	}
	verifAssert(got == want, "target decision equals the reference")
}

// VerifLemma_C01C_ProtoFileTarget: with a proto file target path and includePackageFiles=false, a .proto file is a
// target iff the module is a target and its path is the proto file target path; doc/license files never are.
// The constructor rejects a non-.proto target and the combination with target/exclude paths.
func VerifLemma_C01C_ProtoFileTarget() {
	ctx := context.Background()
	module := &vModule{opaqueID: "m", isTarget: verifNondetBool()}
	pft := verifNondetString(verifParam("N"))
	verifAssume(vIsNormalizedRelPath(pft, false))
	hasProtoExt := vHasProtoExt(pft)
	var extra []string
	if verifNondetBool() {
		extra = []string{"a"}
	}
	extraIsExclude := verifNondetBool()
	var bucket *moduleReadBucket
	var err error
	if extraIsExclude {
		bucket, err = newModuleReadBucketForModule(ctx, nil, module, nil, extra, pft, false)
	} else {
		bucket, err = newModuleReadBucketForModule(ctx, nil, module, extra, nil, pft, false)
	}
	verifCover("constructor returned")
	// A well-formed request must be accepted. An ill-formed one (non-.proto reference, or a reference mixed with
	// --path/--exclude-path) is rejected here today, but the same validation also sits in the callers ("TODO FUTURE:
	// get these validations into a common place"), so where it is rejected is not asserted.
	illFormed := !hasProtoExt || len(extra) > 0
	if !illFormed {
		verifAssert(err == nil, "constructor accepts a .proto reference without paths")
	}
	if err != nil || illFormed {
		return
	}
	var path string
	switch verifNondetChoice(4) {
	case 0:
		path = verifNondetString(verifParam("N"))
		verifAssume(vIsNormalizedRelPath(path, false))
		verifAssume(vHasProtoExt(path))
	case 1:
		path = "LICENSE"
	case 2:
		path = "README.md"
	case 3:
		path = "buf.md"
	}
	got, err := bucket.getIsTargetFileForPathUncached(ctx, path)
	verifAssert(err == nil, "target decision does not fail for a module file path")
	want := module.isTarget && path == pft
	if want {
		verifCover("proto file target")
	}
	verifAssert(got == want, "proto file target decision equals the reference")
}

func vHasProtoExt(p string) bool {
	n := len(p)
	return n >= 6 && p[n-6] == '.' && p[n-5] == 'p' && p[n-4] == 'r' && p[n-3] == 'o' && p[n-2] == 't' && p[n-1] == 'o'
}

// VerifLemma_C01C_ProtoFileTargetPackage: proto-file reference targeting through the real Module (real newModule
// over an in-memory bucket, package clauses scanned by the real fastscan). F .proto files each in package "",
// "pa" or "pb" (nondet), the referenced file is one of them or a .proto path the module does not contain,
// includePackageFiles nondet, module target or not:
// file i is a target file <=> module is target && (i is the referenced file || (includePackageFiles && the
// referenced file exists, has a non-empty package and file i has the same package)); LICENSE is never a target;
// GetTargetFileInfos lists exactly the target files sorted by path.
func VerifLemma_C01C_ProtoFileTargetPackage() {
	ctx := context.Background()
	nFiles := verifParam("F")
	pkg := [vMaxMods]int{}
	data := map[string][]byte{"LICENSE": []byte("license")}
	for i := 0; i < nFiles; i++ {
		pkg[i] = verifNondetChoice(3)
		src := "syntax = \"proto3\";\n"
		switch pkg[i] {
		case 1:
			src += "package pa;\n"
		case 2:
			src += "package pb;\n"
		}
		src += "message M {}\n"
		data[vProtoName(i)] = []byte(src)
	}
	bucket, err := storagemem.NewReadBucket(data)
	verifAssert(err == nil, "memory bucket")
	ref := verifNondetChoice(nFiles + 1) // nFiles: a path that is not in the module
	refPath := "zz/none.proto"
	if ref < nFiles {
		refPath = vProtoName(ref)
	}
	includePackageFiles := verifNondetBool()
	isTarget := verifNondetBool()
	module, err := newModule(
		ctx,
		func() (storage.ReadBucket, error) { return bucket, nil },
		"m0", "", nil, uuid.Nil, isTarget, true,
		func() (ObjectData, error) { return nil, nil },
		func() (ObjectData, error) { return nil, nil },
		func() ([]ModuleKey, error) { return nil, nil },
		nil, nil, refPath, includePackageFiles,
	)
	verifAssert(err == nil && module != nil, "real module constructed")
	if err != nil {
		return
	}
	verifCover("module built")
	want := [vMaxMods]bool{}
	nWant := 0
	for i := 0; i < nFiles; i++ {
		want[i] = isTarget && (i == ref || (includePackageFiles && ref < nFiles && pkg[ref] != 0 && pkg[i] == pkg[ref]))
		if want[i] {
			nWant++
		}
		fileInfo, err := module.StatFileInfo(ctx, vProtoName(i))
		verifAssert(err == nil && fileInfo != nil, "module file is found")
		if err != nil {
			return
		}
		verifAssert(fileInfo.IsTargetFile() == want[i], "proto file reference target decision equals the reference")
	}
	if nWant > 1 {
		verifCover("package files targeted")
	}
	licenseInfo, err := module.StatFileInfo(ctx, "LICENSE")
	verifAssert(err == nil && licenseInfo != nil && !licenseInfo.IsTargetFile(), "LICENSE is not a target of a proto file reference")
	targetFileInfos, err := GetTargetFileInfos(ctx, module)
	verifAssert(err == nil, "target files are listed")
	if err != nil {
		return
	}
	verifAssert(len(targetFileInfos) == nWant, "exactly the target files are listed")
	k := 0
	for i := 0; i < nFiles; i++ {
		if want[i] && k < len(targetFileInfos) {
			verifAssert(targetFileInfos[k].Path() == vProtoName(i), "target files listed sorted by path")
			k++
		}
	}
}

// vWalkFile: the fixed tree of VerifLemma_C01C_WalkTargetFiles. Directory names that are string prefixes but not
// path prefixes of each other ("a" / "ab"), nested directories, a root file.
func vWalkFile(i int) string {
	switch i {
	case 0:
		return "a/b/x.proto"
	case 1:
		return "a/x.proto"
	case 2:
		return "ab/x.proto"
	case 3:
		return "b/x.proto"
	}
	return "x.proto"
}

const vWalkFiles = 5

// vNondetTargetPath: ".", a symbolic directory path (1..n bytes over {a b /}, normalized) or such a path ++ "/x.proto".
func vNondetTargetPath(n int) string {
	kind := verifNondetChoice(3)
	if kind == 2 {
		return "."
	}
	dir := verifNondetString(n)
	for i := 0; i < len(dir); i++ {
		c := dir[i]
		verifAssume(c == 'a' || c == 'b' || c == '/')
	}
	verifAssume(vIsNormalizedRelPath(dir, false))
	if kind == 1 {
		return dir + "/x.proto"
	}
	return dir
}

// VerifLemma_C01C_WalkTargetFiles: a real Module (real newModule, real moduleReadBucket) over an in-memory bucket with
// a fixed tree of five .proto files and a LICENSE; 0..T symbolic --path values (in the order given, so every order
// of two values occurs) and 0..E symbolic --exclude-path values:
//   - StatFileInfo(f).IsTargetFile() equals the reference rule (C01-C.target-paths) for every file
//   - WalkFileInfos over all files yields every file exactly once with the same flag
//   - WalkFileInfos over only target files (what the compiler is given) yields exactly the files the rule targets,
//     each once; GetTargetFileInfos lists them sorted by path.
func VerifLemma_C01C_WalkTargetFiles() {
	ctx := context.Background()
	nTargets := verifNondetChoice(verifParam("T") + 1)
	nExcludes := verifNondetChoice(verifParam("E") + 1)
	var targets, excludes []string
	for i := 0; i < nTargets; i++ {
		targets = append(targets, vNondetTargetPath(verifParam("L")))
	}
	for i := 0; i < nExcludes; i++ {
		excludes = append(excludes, vNondetTargetPath(verifParam("L")))
	}
	data := map[string][]byte{"LICENSE": []byte("license")}
	for i := 0; i < vWalkFiles; i++ {
		data[vWalkFile(i)] = []byte("syntax = \"proto3\";\n")
	}
	bucket, err := storagemem.NewReadBucket(data)
	verifAssert(err == nil, "memory bucket")
	module, err := newModule(
		ctx,
		func() (storage.ReadBucket, error) { return bucket, nil },
		"m0", "", nil, uuid.Nil, true, true,
		func() (ObjectData, error) { return nil, nil },
		func() (ObjectData, error) { return nil, nil },
		func() ([]ModuleKey, error) { return nil, nil },
		targets, excludes, "", false,
	)
	verifAssert(err == nil && module != nil, "real module constructed")
	if err != nil {
		return
	}
	verifCover("module built")
	want := [vWalkFiles]bool{}
	nWant := 0
	for i := 0; i < vWalkFiles; i++ {
		f := vWalkFile(i)
		in := len(targets) == 0
		for _, t := range targets {
			if vContains(t, f) {
				in = true
			}
		}
		for _, e := range excludes {
			if vContains(e, f) {
				in = false
			}
		}
		want[i] = in
		if in {
			nWant++
		}
		fileInfo, err := module.StatFileInfo(ctx, f)
		verifAssert(err == nil && fileInfo != nil, "module file is found")
		if err != nil {
			return
		}
		verifAssert(fileInfo.IsTargetFile() == want[i], "IsTargetFile equals the reference rule")
	}
	if nWant > 0 && nWant < vWalkFiles {
		verifCover("some but not all files targeted")
	}
	// Walk over all files.
	seenAll := [vWalkFiles]int{}
	licenseSeen := 0
	err = module.WalkFileInfos(ctx, func(fileInfo FileInfo) error {
		if fileInfo.Path() == "LICENSE" {
			licenseSeen++
			return nil
		}
		for i := 0; i < vWalkFiles; i++ {
			if fileInfo.Path() == vWalkFile(i) {
				seenAll[i]++
				verifAssert(fileInfo.IsTargetFile() == want[i], "full walk reports the same target flag")
			}
		}
		return nil
	})
	verifAssert(err == nil, "full walk succeeds")
	verifAssert(licenseSeen == 1, "full walk yields the license once")
	for i := 0; i < vWalkFiles; i++ {
		verifAssert(seenAll[i] == 1, "full walk yields every file exactly once")
	}
	// Walk over only the target files.
	seenTarget := [vWalkFiles]int{}
	err = module.WalkFileInfos(ctx, func(fileInfo FileInfo) error {
		verifAssert(fileInfo.IsTargetFile(), "target walk yields only target files")
		for i := 0; i < vWalkFiles; i++ {
			if fileInfo.Path() == vWalkFile(i) {
				seenTarget[i]++
			}
		}
		return nil
	}, WalkFileInfosWithOnlyTargetFiles())
	verifAssert(err == nil, "target walk succeeds")
	for i := 0; i < vWalkFiles; i++ {
		if want[i] {
			verifAssert(seenTarget[i] == 1, "target walk yields every targeted file exactly once")
		} else {
			verifAssert(seenTarget[i] == 0, "target walk yields no untargeted file")
		}
	}
	targetFileInfos, err := GetTargetFileInfos(ctx, ModuleReadBucketWithOnlyProtoFiles(module))
	verifAssert(err == nil, "target files are listed")
	if err != nil {
		return
	}
	verifAssert(len(targetFileInfos) == nWant, "exactly the targeted files are listed")
	k := 0
	for i := 0; i < vWalkFiles; i++ {
		if want[i] && k < len(targetFileInfos) {
			verifAssert(targetFileInfos[k].Path() == vWalkFile(i), "target files listed sorted by path")
			k++
		}
	}
}
