//go:build verif

package bufmodule

import (
	"context"
	"io/fs"

	"github.com/bufbuild/buf/private/pkg/storage"
)

// ---- grpH, C02-B: which documentation file is part of the module ----

type vhDocObjectInfo struct{ path string }

func (o *vhDocObjectInfo) Path() string         { return o.path }
func (o *vhDocObjectInfo) ExternalPath() string { return o.path }
func (o *vhDocObjectInfo) LocalPath() string    { return "" }

// vhDocBucket: a storage.ReadBucket of which only Stat is used: the listed paths exist.
type vhDocBucket struct {
	storage.ReadBucket
	present []string
	stats   int
}

func (b *vhDocBucket) Stat(ctx context.Context, path string) (storage.ObjectInfo, error) {
	b.stats++
	for _, p := range b.present {
		if p == path {
			return &vhDocObjectInfo{path: path}, nil
		}
	}
	return nil, &fs.PathError{Op: "stat", Path: path, Err: fs.ErrNotExist}
}

// vhDocModuleBucket: a ModuleReadBucket of which only StatFileInfo is used.
type vhDocModuleBucket struct {
	ModuleReadBucket
	present []string
}

func (b *vhDocModuleBucket) StatFileInfo(ctx context.Context, path string) (FileInfo, error) {
	for _, p := range b.present {
		if p == path {
			return &vhFileInfo{path: path}, nil
		}
	}
	return nil, &fs.PathError{Op: "stat", Path: path, Err: fs.ErrNotExist}
}

// VerifLemma_C02B_DocFile: for every subset of {buf.md, README.md, README.markdown} (plus unrelated files) present
// in a bucket, the documentation file chosen for the module - and therefore the storage matcher / digest input - is
// the first present one in the documented priority buf.md > README.md > README.markdown, "" if none; the same under
// every iteration order of every map involved (docFilePathMap), for the storage and the module bucket flavour.
func VerifLemma_C02B_DocFile() {
	priority := []string{"buf.md", "README.md", "README.markdown"}
	var present []string
	want := ""
	// files are added in a nondeterministic order, so the bucket's own listing order does not help either
	order := [][]int{{0, 1, 2}, {2, 1, 0}, {1, 2, 0}}[verifNondetChoice(3)]
	has := []bool{verifNondetBool(), verifNondetBool(), verifNondetBool()}
	for _, k := range order {
		if has[k] {
			present = append(present, priority[k])
		}
	}
	if verifNondetBool() {
		present = append(present, "a.proto", "LICENSE", "readme.md")
	}
	for k := 2; k >= 0; k-- {
		if has[k] {
			want = priority[k]
		}
	}
	ctx := context.Background()
	sb := &vhDocBucket{present: present}
	got := getDocFilePathForStorageReadBucket(ctx, sb)
	gotM := getDocFilePathForModuleReadBucket(ctx, &vhDocModuleBucket{present: present})
	verifCover("chosen")
	verifAssert(got == want, "storage bucket: first present doc file in the documented priority, under every map order")
	verifAssert(gotM == want, "module bucket: first present doc file in the documented priority, under every map order")
	// the matcher that filters a bucket down to module files lets exactly that doc file through
	m := getStorageMatcher(ctx, sb)
	for _, p := range priority {
		verifAssert(m.MatchPath(p) == (p == want), "storage matcher admits exactly the chosen doc file")
	}
	verifAssert(m.MatchPath("a.proto") && m.MatchPath("LICENSE") && !m.MatchPath("readme.md"), "storage matcher: protos and LICENSE, nothing else")
}
