//go:build verif

package bufmodule

import (
	"context"
	"time"

	"github.com/bufbuild/buf/private/bufpkg/bufparse"
	"github.com/google/uuid"
)

// ---- grpH, C02-B: which remote commit of a module is built when several are candidates ----

type vhCommitProvider struct {
	CommitProvider
	secs []int64 // create time of commit i (commit id byte 0 == i+1)
}

func (p *vhCommitProvider) GetCommitsForModuleKeys(ctx context.Context, moduleKeys []ModuleKey) ([]Commit, error) {
	commits := make([]Commit, len(moduleKeys))
	for i, moduleKey := range moduleKeys {
		sec := p.secs[int(moduleKey.CommitID()[0])-1]
		commits[i] = NewCommit(moduleKey, func() (time.Time, error) { return time.Unix(sec, 0), nil })
	}
	return commits, nil
}

// VerifLemma_C02B_RemoteModuleTie: selectRemoteAddedModuleForOpaqueIDIgnoreTargeting over 2..K remote candidates of
// one module with distinct commit ids and symbolic create times: the chosen candidate is the same for every iteration
// order of commitIDToAddedModules, and it is a commit with the latest create time.
func VerifLemma_C02B_RemoteModuleTie() {
	k := verifNondetChoice(verifParam("K")-1) + 2
	fullName, err := bufparse.NewFullName("buf.build", "acme", "dep")
	verifAssert(err == nil, "full name")
	provider := &vhCommitProvider{}
	candidates := make([]*addedModule, k)
	for i := 0; i < k; i++ {
		provider.secs = append(provider.secs, verifNondetInt64(0, 3))
		moduleKey, err := NewModuleKey(fullName, uuid.UUID{byte(i + 1)}, func() (Digest, error) { return nil, nil })
		verifAssert(err == nil, "module key")
		candidates[i] = newRemoteAddedModule(moduleKey, nil, nil, true)
	}
	latest := provider.secs[0]
	for i := 1; i < k; i++ {
		if provider.secs[i] > latest {
			latest = provider.secs[i]
		}
	}
	nLatest := 0
	for i := 0; i < k; i++ {
		if provider.secs[i] == latest {
			nLatest++
		}
	}
	repeats := 2
	if !verifInEngine() {
		repeats = 64
	}
	var first *addedModule
	same := true
	for r := 0; r < repeats; r++ {
		input := make([]*addedModule, k)
		copy(input, candidates)
		got, err := selectRemoteAddedModuleForOpaqueIDIgnoreTargeting(context.Background(), provider, input)
		verifAssert(err == nil && got != nil, "a candidate is selected")
		verifAssert(provider.secs[int(got.remoteModuleKey.CommitID()[0])-1] == latest, "a commit with the latest create time is selected")
		if r == 0 {
			first = got
		} else if got != first {
			same = false
		}
	}
	verifCover("selected")
	// F23: equal create times of two different commits - the map order decides
	if verifKnown("F23-remote-module-tie-map-order", nLatest > 1) {
		return
	}
	verifAssert(same, "the same commit is selected for every map iteration order")
}
