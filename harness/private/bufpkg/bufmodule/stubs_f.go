//go:build verif

package bufmodule

import (
	"context"
	"io/fs"

	"github.com/bufbuild/buf/private/bufpkg/bufparse"
	"github.com/bufbuild/buf/private/pkg/storage/storageutil"
	"github.com/bufbuild/protocompile/parser/fastscan"
	"github.com/google/uuid"
)

// Shared stubs for the bufmodule harnesses of grpF (C01-C, C01-D, C10-A, C10-B, C10-C).

type vFileSpec struct {
	path     string
	fileType FileType
	imports  []string
}

// vModule is a stub Module: a named set of files with their import lists. Only the methods the code under test
// calls are overridden; everything else is the embedded nil interface (calling it aborts the path).
type vModule struct {
	Module
	opaqueID  string
	isTarget  bool
	isLocal   bool
	files     []vFileSpec
	moduleSet ModuleSet
	walks     int
}

func (m *vModule) OpaqueID() string                 { return m.opaqueID }
func (m *vModule) Description() string              { return "module " + m.opaqueID }
func (m *vModule) BucketID() string                 { return "" }
func (m *vModule) FullName() bufparse.FullName      { return nil }
func (m *vModule) CommitID() uuid.UUID              { return uuid.Nil }
func (m *vModule) IsTarget() bool                   { return m.isTarget }
func (m *vModule) IsLocal() bool                    { return m.isLocal }
func (m *vModule) ModuleSet() ModuleSet             { return m.moduleSet }
func (m *vModule) setModuleSet(moduleSet ModuleSet) { m.moduleSet = moduleSet }
func (m *vModule) ShouldBeSelfContained() bool      { return false }
func (m *vModule) isModule()                        {}
func (m *vModule) isModuleReadBucket()              {}

func (m *vModule) vFileInfo(f vFileSpec) FileInfo {
	return newFileInfo(
		storageutil.NewObjectInfo(f.path, "ext/"+m.opaqueID+"/"+f.path, ""),
		m,
		f.fileType,
		m.isTarget,
		func() ([]string, error) { return f.imports, nil },
		func() (string, error) { return "", nil },
	)
}

func (m *vModule) StatFileInfo(ctx context.Context, path string) (FileInfo, error) {
	for _, f := range m.files {
		if f.path == path {
			return m.vFileInfo(f), nil
		}
	}
	return nil, &fs.PathError{Op: "stat", Path: path, Err: fs.ErrNotExist}
}

func (m *vModule) WalkFileInfos(ctx context.Context, fn func(FileInfo) error, options ...WalkFileInfosOption) error {
	walkFileInfosOptions := newWalkFileInfosOptions()
	for _, option := range options {
		option(walkFileInfosOptions)
	}
	m.walks++
	for _, f := range m.files {
		if walkFileInfosOptions.onlyTargetFiles && !m.isTarget {
			continue
		}
		if err := fn(m.vFileInfo(f)); err != nil {
			return err
		}
	}
	return nil
}

func (m *vModule) getFastscanResultForPath(ctx context.Context, path string) (fastscan.Result, error) {
	for _, f := range m.files {
		if f.path == path {
			var result fastscan.Result
			for _, imp := range f.imports {
				result.Imports = append(result.Imports, fastscan.Import{Path: imp})
			}
			return result, nil
		}
	}
	return fastscan.Result{}, &fs.PathError{Op: "read", Path: path, Err: fs.ErrNotExist}
}

// vModuleName / vProtoName: fixed names (functions, so that no package initialiser is needed).
func vModuleName(i int) string {
	switch i {
	case 0:
		return "m0"
	case 1:
		return "m1"
	case 2:
		return "m2"
	case 3:
		return "m3"
	case 4:
		return "m4"
	}
	return "m5"
}

func vProtoName(i int) string {
	switch i {
	case 0:
		return "p0/a.proto"
	case 1:
		return "p1/a.proto"
	case 2:
		return "p2/a.proto"
	case 3:
		return "p3/a.proto"
	case 4:
		return "p4/a.proto"
	}
	return "p5/a.proto"
}

// vJoinedErrors flattens an errors.Join result.
func vJoinedErrors(err error) []error {
	if err == nil {
		return nil
	}
	if joined, ok := err.(interface{ Unwrap() []error }); ok {
		return joined.Unwrap()
	}
	return []error{err}
}
