//go:build verif

package bufmodule

import "context"

// ---- grpH, C02-C: a ModuleReadBucket that enumerates its files in an arbitrary order ----

type vhIFileInfo = FileInfo

type vhFileInfo struct {
	vhIFileInfo
	path   string
	target bool
}

func (f *vhFileInfo) Path() string         { return f.path }
func (f *vhFileInfo) ExternalPath() string { return f.path }
func (f *vhFileInfo) IsTargetFile() bool   { return f.target }

type vhModuleReadBucket struct {
	ModuleReadBucket
	files []*vhFileInfo // visited in this order
}

func (b *vhModuleReadBucket) WalkFileInfos(ctx context.Context, f func(FileInfo) error, options ...WalkFileInfosOption) error {
	opts := newWalkFileInfosOptions()
	for _, o := range options {
		o(opts)
	}
	for _, fi := range b.files {
		if opts.onlyTargetFiles && !fi.target {
			continue
		}
		if err := f(fi); err != nil {
			return err
		}
	}
	return nil
}

// VerifLemma_C02C_FileInfos: GetFileInfos, GetTargetFileInfos and GetFilePaths over a module bucket that walks its
// <= FILES files (distinct symbolic paths, target flag nondet) in any order: strictly ascending by path, exactly the
// (target) files - the same for every walk order.
func VerifLemma_C02C_FileInfos() {
	n := verifNondetChoice(verifParam("FILES") + 1)
	files := make([]*vhFileInfo, n)
	nTargets := 0
	for i := 0; i < n; i++ {
		files[i] = &vhFileInfo{path: verifNondetStringN(verifNondetChoice(verifParam("N")) + 1), target: verifNondetBool()}
		if files[i].target {
			nTargets++
		}
		for j := 0; j < i; j++ {
			verifAssume(files[j].path != files[i].path)
		}
	}
	// every enumeration order
	rest := append([]*vhFileInfo(nil), files...)
	var order []*vhFileInfo
	for len(rest) > 0 {
		k := verifNondetChoice(len(rest))
		order = append(order, rest[k])
		rest = append(rest[:k:k], rest[k+1:]...)
	}
	bucket := &vhModuleReadBucket{files: order}
	ctx := context.Background()
	all, err1 := GetFileInfos(ctx, bucket)
	targets, err2 := GetTargetFileInfos(ctx, bucket)
	paths, err3 := GetFilePaths(ctx, bucket)
	verifCover("walked")
	verifAssert(err1 == nil && err2 == nil && err3 == nil, "no error")
	verifAssert(len(all) == n && len(paths) == n, "every file exactly once")
	verifAssert(len(targets) == nTargets, "exactly the target files")
	for i := 1; i < len(all); i++ {
		verifAssert(all[i-1].Path() < all[i].Path(), "GetFileInfos strictly ascending for every walk order")
	}
	for i := 1; i < len(targets); i++ {
		verifAssert(targets[i-1].Path() < targets[i].Path(), "GetTargetFileInfos strictly ascending for every walk order")
	}
	for _, t := range targets {
		verifAssert(t.IsTargetFile(), "only target files")
	}
	if len(paths) == len(all) {
		for i := range all {
			verifAssert(paths[i] == all[i].Path(), "GetFilePaths follows GetFileInfos")
		}
	}
	for _, fi := range all {
		found := false
		for _, f := range files {
			if FileInfo(f) == fi {
				found = true
			}
		}
		verifAssert(found, "only files of the bucket")
	}
}
