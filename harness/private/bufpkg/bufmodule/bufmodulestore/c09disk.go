//go:build verif

package bufmodulestore

import (
	"context"
	"errors"
	"io"
	"io/fs"
	"log/slog"
	"os"
	"sort"
	"time"

	"github.com/bufbuild/buf/private/bufpkg/bufmodule"
	"github.com/bufbuild/buf/private/pkg/storage"
	"github.com/bufbuild/buf/private/pkg/storage/storageos"
	"github.com/bufbuild/buf/private/pkg/thread"
)

// ===================================================================================================
// C09-A on the *real disk bucket*: the store writes through storageos (real path mapping, real directory layout, real
// atomic writer and its real temp-file naming) into a file system. Under the engine the file system is the in-memory
// model below (the engine delegates the os.* file functions to the verifOS* functions of this package,
// engine/intercepts_osfs.go); natively it is a real temp directory. The crash schedule is applied one level above, by a
// wrapper around the disk bucket that numbers Put / Write / Close and drops operation k and everything after it (a
// dying Write forwards a prefix, a dropped Close never happens: a temp file of an atomic Put stays where the real
// code put it, under the name the real code gave it). Both worlds therefore see the same schedule and a
// counterexample replays natively.
// ===================================================================================================

type vdDiskOpen struct {
	path     string
	pos      int // read offset
	wpos     int // write offset
	appendTo bool
	closed   bool
}

type vdDiskFS struct {
	files map[string][]byte
	dirs  map[string]bool
	open  map[*os.File]*vdDiskOpen
	tmpN  int
}

var vdDisk *vdDiskFS

func vdDiskDirOf(p string) string {
	for i := len(p) - 1; i > 0; i-- {
		if p[i] == '/' {
			return p[:i]
		}
	}
	return "/"
}

func vdDiskBaseOf(p string) string {
	for i := len(p) - 1; i >= 0; i-- {
		if p[i] == '/' {
			return p[i+1:]
		}
	}
	return p
}

func (f *vdDiskFS) newFile(path string) *os.File {
	file := new(os.File)
	f.open[file] = &vdDiskOpen{path: path}
	return file
}

func verifOSCreateTemp(dir, pattern string) (*os.File, error) {
	f := vdDisk
	if !f.dirs[dir] {
		return nil, &fs.PathError{Op: "createtemp", Path: dir, Err: fs.ErrNotExist}
	}
	// os.CreateTemp: the last "*" of the pattern is replaced by a random decimal string
	prefix, suffix := pattern, ""
	for i := len(pattern) - 1; i >= 0; i-- {
		if pattern[i] == '*' {
			prefix, suffix = pattern[:i], pattern[i+1:]
			break
		}
	}
	f.tmpN++
	name := dir + "/" + prefix + []string{"0", "1831", "2907", "3344", "4120", "5566", "6071", "7752", "8218", "9903"}[f.tmpN%10] + suffix
	f.files[name] = []byte{}
	return f.newFile(name), nil
}

func verifOSCreate(name string) (*os.File, error) {
	f := vdDisk
	if !f.dirs[vdDiskDirOf(name)] {
		return nil, &fs.PathError{Op: "open", Path: name, Err: fs.ErrNotExist}
	}
	if f.dirs[name] {
		return nil, &fs.PathError{Op: "open", Path: name, Err: errors.New("is a directory")}
	}
	f.files[name] = []byte{}
	return f.newFile(name), nil
}

func verifOSOpen(name string) (*os.File, error) {
	f := vdDisk
	if _, ok := f.files[name]; !ok && !f.dirs[name] {
		return nil, &fs.PathError{Op: "open", Path: name, Err: fs.ErrNotExist}
	}
	return f.newFile(name), nil
}

func verifOSFileWrite(file *os.File, p []byte) (int, error) {
	f := vdDisk
	of := f.open[file]
	if of == nil || of.closed {
		return 0, &fs.PathError{Op: "write", Path: "?", Err: fs.ErrClosed}
	}
	// write(2) on a regular file: the bytes land at the handle's offset (the end with O_APPEND), overwrite what is
	// there and extend the file past its end
	if cur, ok := f.files[of.path]; ok {
		if of.appendTo || of.wpos > len(cur) {
			of.wpos = len(cur)
		}
		out := append([]byte(nil), cur[:of.wpos]...)
		out = append(out, p...)
		if of.wpos+len(p) < len(cur) {
			out = append(out, cur[of.wpos+len(p):]...)
		}
		of.wpos += len(p)
		f.files[of.path] = out
	}
	return len(p), nil
}

// verifOSOpenFile models open(2) for regular files: O_CREATE (with O_EXCL), O_TRUNC, O_APPEND.
func verifOSOpenFile(name string, flag int, perm os.FileMode) (*os.File, error) {
	f := vdDisk
	if f.dirs[name] {
		if flag&(os.O_WRONLY|os.O_RDWR|os.O_CREATE|os.O_TRUNC) != 0 {
			return nil, &fs.PathError{Op: "open", Path: name, Err: errors.New("is a directory")}
		}
		return f.newFile(name), nil
	}
	if _, exists := f.files[name]; !exists {
		if flag&os.O_CREATE == 0 || !f.dirs[vdDiskDirOf(name)] {
			return nil, &fs.PathError{Op: "open", Path: name, Err: fs.ErrNotExist}
		}
		f.files[name] = []byte{}
	} else {
		if flag&os.O_CREATE != 0 && flag&os.O_EXCL != 0 {
			return nil, &fs.PathError{Op: "open", Path: name, Err: fs.ErrExist}
		}
		if flag&os.O_TRUNC != 0 && flag&(os.O_WRONLY|os.O_RDWR) != 0 {
			f.files[name] = []byte{}
		}
	}
	file := f.newFile(name)
	f.open[file].appendTo = flag&os.O_APPEND != 0
	return file, nil
}

func verifOSFileRead(file *os.File, p []byte) (int, error) {
	f := vdDisk
	of := f.open[file]
	if of == nil || of.closed {
		return 0, &fs.PathError{Op: "read", Path: "?", Err: fs.ErrClosed}
	}
	data := f.files[of.path]
	if of.pos >= len(data) {
		if len(p) == 0 {
			return 0, nil
		}
		return 0, io.EOF
	}
	n := copy(p, data[of.pos:])
	of.pos += n
	return n, nil
}

func verifOSFileReaddirnames(file *os.File, n int) ([]string, error) {
	f := vdDisk
	of := f.open[file]
	if of == nil || of.closed || !f.dirs[of.path] {
		return nil, &fs.PathError{Op: "readdirent", Path: "?", Err: errors.New("not a directory")}
	}
	var names []string
	for p := range f.files {
		if vdDiskDirOf(p) == of.path {
			names = append(names, vdDiskBaseOf(p))
		}
	}
	for p := range f.dirs {
		if p != "/" && p != of.path && vdDiskDirOf(p) == of.path {
			names = append(names, vdDiskBaseOf(p))
		}
	}
	sort.Strings(names)
	return names, nil
}

func verifOSFileClose(file *os.File) error {
	of := vdDisk.open[file]
	if of == nil || of.closed {
		return &fs.PathError{Op: "close", Path: "?", Err: fs.ErrClosed}
	}
	of.closed = true
	return nil
}

func verifOSFileName(file *os.File) string {
	if of := vdDisk.open[file]; of != nil {
		return of.path
	}
	return ""
}

func verifOSRename(oldpath, newpath string) error {
	f := vdDisk
	data, ok := f.files[oldpath]
	if !ok {
		return &os.LinkError{Op: "rename", Old: oldpath, New: newpath, Err: fs.ErrNotExist}
	}
	if f.dirs[newpath] {
		return &os.LinkError{Op: "rename", Old: oldpath, New: newpath, Err: errors.New("file exists")}
	}
	delete(f.files, oldpath)
	f.files[newpath] = data
	return nil
}

func verifOSRemove(name string) error {
	f := vdDisk
	if _, ok := f.files[name]; !ok {
		return &fs.PathError{Op: "remove", Path: name, Err: fs.ErrNotExist}
	}
	delete(f.files, name)
	return nil
}

type vdDiskInfo struct {
	name string
	dir  bool
	size int64
}

func (i vdDiskInfo) Name() string { return i.name }
func (i vdDiskInfo) Size() int64  { return i.size }
func (i vdDiskInfo) Mode() fs.FileMode {
	if i.dir {
		return fs.ModeDir | 0755
	}
	return 0644
}
func (i vdDiskInfo) ModTime() time.Time { return time.Time{} }
func (i vdDiskInfo) IsDir() bool        { return i.dir }
func (i vdDiskInfo) Sys() any           { return nil }

func verifOSLstat(name string) (os.FileInfo, error) {
	f := vdDisk
	if f.dirs[name] {
		return vdDiskInfo{name: vdDiskBaseOf(name), dir: true}, nil
	}
	if data, ok := f.files[name]; ok {
		return vdDiskInfo{name: vdDiskBaseOf(name), size: int64(len(data))}, nil
	}
	return nil, &fs.PathError{Op: "lstat", Path: name, Err: fs.ErrNotExist}
}

func verifOSMkdirAll(path string, perm os.FileMode) error {
	f := vdDisk
	for p := path; p != "/" && p != "" && p != "."; p = vdDiskDirOf(p) {
		if _, isFile := f.files[p]; isFile {
			return &fs.PathError{Op: "mkdir", Path: p, Err: errors.New("not a directory")}
		}
		f.dirs[p] = true
	}
	return nil
}

// ---- crash wrapper around the disk bucket (identical under the engine and natively) ----

type vdCrashBucket struct {
	storage.ReadWriteBucket
	ops     int
	crashAt int
	crashed bool
}

func (b *vdCrashBucket) step() bool {
	if b.crashed {
		return false
	}
	b.ops++
	if b.ops == b.crashAt {
		b.crashed = true
		return false
	}
	return true
}

type vdCrashWriter struct {
	b *vdCrashBucket
	w storage.WriteObjectCloser
}

func (b *vdCrashBucket) Put(ctx context.Context, path string, opts ...storage.PutOption) (storage.WriteObjectCloser, error) {
	if !b.step() {
		return nil, vdErrCrashed
	}
	w, err := b.ReadWriteBucket.Put(ctx, path, opts...)
	if err != nil {
		return nil, err
	}
	return &vdCrashWriter{b: b, w: w}, nil
}

func (w *vdCrashWriter) Write(p []byte) (int, error) {
	wasCrashed := w.b.crashed
	if !w.b.step() {
		if !wasCrashed && len(p) > 0 {
			// the dying write transfers a prefix: 0, 1 or all-but-one bytes
			n := []int{0, 1, len(p) - 1}[verifNondetChoice(3)]
			if n > len(p)-1 {
				n = len(p) - 1
			}
			if n > 0 {
				w.w.Write(p[:n])
			}
		}
		return 0, vdErrCrashed
	}
	return w.w.Write(p)
}

func (w *vdCrashWriter) Close() error {
	if !w.b.step() {
		return vdErrCrashed // the process is gone: the object is never closed (no rename, no cleanup)
	}
	return w.w.Close()
}
func (w *vdCrashWriter) SetExternalPath(p string) error { return w.w.SetExternalPath(p) }
func (w *vdCrashWriter) SetLocalPath(p string) error    { return w.w.SetLocalPath(p) }

func vdDiskStore(b storage.ReadWriteBucket) *moduleDataStore {
	return newModuleDataStore(slog.Default(), b, &vdLocker{})
}

// vdNewDisk returns the root directory of an empty cache on a fresh file system and a cleanup function.
func vdNewDisk() (string, func()) {
	if verifInEngine() {
		vdDisk = &vdDiskFS{files: map[string][]byte{}, dirs: map[string]bool{"/": true, "/cache": true}, open: map[*os.File]*vdDiskOpen{}}
		return "/cache", func() {}
	}
	root, err := os.MkdirTemp("", "verif-c09disk-")
	if err != nil {
		panic(err)
	}
	return root, func() { os.RemoveAll(root) }
}

// VerifLemma_C09A_CrashPointsDisk: C09-A.crash-points with the store on the real disk bucket. The process dies at the
// k-th bucket operation of putModuleData (k symbolic). Then, with a healthy process: the interrupted entry reads as a
// miss (or as exactly the intended module when nothing was cut); a later store of the same module succeeds and
// *repairs* the entry - a read is a hit that passes digest verification and serves exactly the intended files, whatever
// the interrupted store left behind on disk (torn files, temp files of atomic puts under their real names).
func VerifLemma_C09A_CrashPointsDisk() {
	thread.SetParallelism(1)
	m := vdNewModule(vdDigestType())
	root, cleanup := vdNewDisk()
	defer cleanup()
	disk, err := storageos.NewProvider().NewReadWriteBucket(root)
	verifAssert(err == nil, "harness: the disk bucket opens on the cache root")
	if err != nil {
		return
	}
	wrap := &vdCrashBucket{ReadWriteBucket: disk}
	wrap.crashAt = verifNondetInt(1, vdMaxOps(m))
	ctx := context.Background()
	datas := []bufmodule.ModuleData{m.moduleData(m.key)}
	keys := []bufmodule.ModuleKey{m.key}
	perr := vdDiskStore(wrap).PutModuleDatas(ctx, datas)
	crashed := wrap.crashed
	if !crashed {
		verifAssert(perr == nil, "an uninterrupted put on the disk bucket succeeds")
	}
	// a later, healthy process
	wrap.crashed, wrap.crashAt = false, 0
	found, notFound, gerr := vdDiskStore(disk).GetModuleDatasForModuleKeys(ctx, keys)
	verifAssert(gerr == nil && len(found)+len(notFound) == 1, "get classifies the key as found or not found")
	if crashed {
		verifCover("crashed during the put")
		verifAssert(len(found) == 0, "an interrupted entry is a miss")
	}
	if len(found) == 1 {
		verifAssert(vdCheckHit(m, found[0], "disk-crash"), "a hit after a crash serves exactly the intended module")
	}
	// repair
	verifAssert(vdDiskStore(disk).PutModuleDatas(ctx, datas) == nil, "repair: a later fault-free put succeeds")
	found, _, gerr = vdDiskStore(disk).GetModuleDatasForModuleKeys(ctx, keys)
	verifAssert(gerr == nil && len(found) == 1, "repair: after the later put the entry is found")
	if len(found) == 1 {
		verifCover("repaired")
		verifAssert(vdCheckHit(m, found[0], "disk-repair"), "repair: the repaired entry passes digest verification and serves exactly the intended module (leftovers of the interrupted store never count as module files)")
	}
}
