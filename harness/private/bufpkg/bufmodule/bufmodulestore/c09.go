//go:build verif

package bufmodulestore

import (
	"bytes"
	"context"
	"errors"
	"io/fs"
	"log/slog"

	"github.com/bufbuild/buf/private/bufpkg/bufcas"
	"github.com/bufbuild/buf/private/bufpkg/bufmodule"
	"github.com/bufbuild/buf/private/bufpkg/bufparse"
	"github.com/bufbuild/buf/private/pkg/encoding"
	"github.com/bufbuild/buf/private/pkg/filelock"
	"github.com/bufbuild/buf/private/pkg/storage"
	"github.com/bufbuild/buf/private/pkg/thread"
	"github.com/google/uuid"
)

// ===================================================================================================
// Harness bucket: a path -> bytes map with a symbolic fault / crash schedule.
//
// Every *mutating* operation (Put, each Write, each Close, Delete) is numbered 1,2,3,... in execution order.
//   - crashAt = k (k > 0): operations 1..k-1 are applied, operation k is cut short (a non-atomic Write may leave a
//     prefix of its bytes) and everything after it is dropped: the "process" is dead, the bucket content is what a
//     later process finds.
//   - failAt / failAt2 = k: operation k returns an error (Put: no object created; Write: a prefix of the bytes may
//     have been written; Close of an atomic Put: object not published; Close of a non-atomic Put: bytes stay).
// Non-atomic Put publishes the (truncated) object at Put time and every Write immediately; atomic Put publishes the
// whole content at a successful Close and nothing otherwise - also nothing when an earlier Write failed (that is the
// documented contract of storage.PutWithAtomic: "Any errors will cause the Put to be skipped"; C15-C checks it for the
// disk bucket).
// ===================================================================================================

var (
	vdErrInjected = errors.New("vd: injected write fault")
	vdErrCrashed  = errors.New("vd: process crashed")
)

type vdObj struct {
	path string
	data []byte
}

type vdBucket struct {
	storage.ReadWriteBucket
	objs    []*vdObj
	ops     int
	crashAt int
	failAt  int
	failAt2 int
	crashed bool
	faulted bool
	locks   *vdLocker
	// observation
	mutationsWithoutExclusiveLock int
	readsWithoutLock              int
}

func (b *vdBucket) find(path string) int {
	for i, o := range b.objs {
		if o.path == path {
			return i
		}
	}
	return -1
}

// step numbers a mutating operation. apply=false: the operation must have no (or only a partial) effect.
func (b *vdBucket) step() (apply bool, err error) {
	if b.crashed {
		return false, vdErrCrashed
	}
	b.ops++
	if b.locks != nil && !b.locks.exclusive {
		b.mutationsWithoutExclusiveLock++
	}
	if b.ops == b.crashAt {
		b.crashed = true
		return false, vdErrCrashed
	}
	if b.ops == b.failAt || b.ops == b.failAt2 {
		b.faulted = true
		return false, vdErrInjected
	}
	return true, nil
}

func (b *vdBucket) set(path string, data []byte) {
	if i := b.find(path); i >= 0 {
		b.objs[i].data = data
		return
	}
	b.objs = append(b.objs, &vdObj{path: path, data: data})
}

func (b *vdBucket) remove(path string) {
	if i := b.find(path); i >= 0 {
		b.objs = append(b.objs[:i:i], b.objs[i+1:]...)
	}
}

type vdReadObj struct {
	path string
	r    *bytes.Reader
}

func (o *vdReadObj) Read(p []byte) (int, error) { return o.r.Read(p) }
func (o *vdReadObj) Close() error               { return nil }
func (o *vdReadObj) Path() string               { return o.path }
func (o *vdReadObj) ExternalPath() string       { return o.path }
func (o *vdReadObj) LocalPath() string          { return "" }

func (b *vdBucket) noteRead() {
	if b.locks != nil && !b.locks.exclusive && b.locks.shared == 0 {
		b.readsWithoutLock++
	}
}

func (b *vdBucket) Get(ctx context.Context, path string) (storage.ReadObjectCloser, error) {
	b.noteRead()
	i := b.find(path)
	if i < 0 {
		return nil, &fs.PathError{Op: "read", Path: path, Err: fs.ErrNotExist}
	}
	return &vdReadObj{path: path, r: bytes.NewReader(b.objs[i].data)}, nil
}

func (b *vdBucket) Stat(ctx context.Context, path string) (storage.ObjectInfo, error) {
	b.noteRead()
	if b.find(path) < 0 {
		return nil, &fs.PathError{Op: "stat", Path: path, Err: fs.ErrNotExist}
	}
	return &vdReadObj{path: path}, nil
}

func vdUnder(path, prefix string) bool {
	if prefix == "" || prefix == "." || path == prefix {
		return true
	}
	return len(path) > len(prefix) && path[:len(prefix)] == prefix && path[len(prefix)] == '/'
}

func (b *vdBucket) Walk(ctx context.Context, prefix string, f func(storage.ObjectInfo) error) error {
	b.noteRead()
	snapshot := append([]*vdObj(nil), b.objs...)
	for _, o := range snapshot {
		if vdUnder(o.path, prefix) {
			if err := f(&vdReadObj{path: o.path}); err != nil {
				return err
			}
		}
	}
	return nil
}

type vdWriter struct {
	b      *vdBucket
	path   string
	atomic bool
	buf    []byte
	closed bool
	failed bool // some Write returned an error (an atomic Put is then skipped: "Any errors will cause the Put to be skipped")
}

func (b *vdBucket) Put(ctx context.Context, path string, opts ...storage.PutOption) (storage.WriteObjectCloser, error) {
	if _, err := b.step(); err != nil {
		return nil, err
	}
	w := &vdWriter{b: b, path: path, atomic: storage.NewPutOptions(opts).Atomic()}
	if !w.atomic {
		b.set(path, nil) // created / truncated now
	}
	return w, nil
}

func (w *vdWriter) Write(p []byte) (int, error) {
	apply, err := w.b.step()
	if !apply {
		w.failed = true
		if w.b.ops == w.b.crashAt || w.b.faulted {
			// the failing / crashing write itself may have transferred a proper prefix of p
			if !w.atomic && len(p) > 0 && (err == vdErrInjected || w.b.ops == w.b.crashAt) && !w.closed {
				// 0, 1 or all-but-one bytes (three representative prefixes)
				n := []int{0, 1, len(p) - 1}[verifNondetChoice(3)]
				if n > len(p)-1 {
					n = len(p) - 1
				}
				if n > 0 && w.b.find(w.path) >= 0 {
					w.buf = append(w.buf, p[:n]...)
					w.b.set(w.path, append([]byte(nil), w.buf...))
				}
				return n, err
			}
		}
		return 0, err
	}
	w.buf = append(w.buf, p...)
	if !w.atomic {
		w.b.set(w.path, append([]byte(nil), w.buf...))
	}
	return len(p), nil
}

func (w *vdWriter) Close() error {
	w.closed = true
	apply, err := w.b.step()
	if !apply {
		return err
	}
	if w.atomic {
		if w.failed {
			return vdErrInjected
		}
		w.b.set(w.path, append([]byte(nil), w.buf...))
	}
	return nil
}
func (w *vdWriter) SetExternalPath(string) error { return nil }
func (w *vdWriter) SetLocalPath(string) error    { return nil }

func (b *vdBucket) Delete(ctx context.Context, path string) error {
	if _, err := b.step(); err != nil {
		return err
	}
	if b.find(path) < 0 {
		return &fs.PathError{Op: "delete", Path: path, Err: fs.ErrNotExist}
	}
	b.remove(path)
	return nil
}

func (b *vdBucket) SetExternalAndLocalPathsSupported() bool { return false }

// ---- lock stub: records the protocol (no blocking; a single process is modelled) ----

type vdLocker struct {
	exclusive bool
	shared    int
	errors    int
}

type vdUnlocker struct {
	l         *vdLocker
	exclusive bool
	done      bool
}

func (u *vdUnlocker) Unlock() error {
	if u.done {
		u.l.errors++
		return nil
	}
	u.done = true
	if u.exclusive {
		u.l.exclusive = false
	} else {
		u.l.shared--
	}
	return nil
}

func (l *vdLocker) Lock(ctx context.Context, path string, _ ...filelock.LockOption) (filelock.Unlocker, error) {
	if l.exclusive || l.shared > 0 {
		l.errors++ // would deadlock against itself
	}
	l.exclusive = true
	return &vdUnlocker{l: l, exclusive: true}, nil
}

func (l *vdLocker) RLock(ctx context.Context, path string, _ ...filelock.LockOption) (filelock.Unlocker, error) {
	if l.exclusive {
		l.errors++
	}
	l.shared++
	return &vdUnlocker{l: l}, nil
}

// ===================================================================================================
// The intended module
// ===================================================================================================

type vdModule struct {
	files    []*vdObj // module files (all match the module file filter)
	deps     []bufmodule.ModuleKey
	bufYAML  []byte // nil = none
	bufLock  []byte
	fullName bufparse.FullName
	commitID uuid.UUID
	key      bufmodule.ModuleKey
}

func vdMust(err error) {
	if err != nil {
		verifAssert(false, "harness construction failed")
		panic(err)
	}
}

func vdSourceBucket(files []*vdObj) storage.ReadBucket {
	b := &vdBucket{}
	for _, f := range files {
		b.set(f.path, f.data)
	}
	return b
}

func (m *vdModule) moduleData(key bufmodule.ModuleKey) bufmodule.ModuleData {
	return bufmodule.NewModuleData(
		context.Background(),
		key,
		func() (storage.ReadBucket, error) { return vdSourceBucket(m.files), nil },
		func() ([]bufmodule.ModuleKey, error) { return m.deps, nil },
		func() (bufmodule.ObjectData, error) {
			if m.bufYAML == nil {
				return nil, nil
			}
			return bufmodule.NewObjectData("buf.yaml", m.bufYAML)
		},
		func() (bufmodule.ObjectData, error) {
			if m.bufLock == nil {
				return nil, nil
			}
			return bufmodule.NewObjectData("buf.lock", m.bufLock)
		},
	)
}

func vdKey(fullName bufparse.FullName, commitID uuid.UUID, digest bufmodule.Digest) bufmodule.ModuleKey {
	key, err := bufmodule.NewModuleKey(fullName, commitID, func() (bufmodule.Digest, error) { return digest, nil })
	vdMust(err)
	return key
}

func vdFixedDigest(digestType bufmodule.DigestType, fill byte) bufmodule.Digest {
	value := make([]byte, 64)
	for i := range value {
		value[i] = fill
	}
	casDigest, err := bufcas.NewDigest(value)
	vdMust(err)
	digest, err := bufmodule.NewDigest(digestType, casDigest)
	vdMust(err)
	return digest
}

// finish computes the module's real digest (through the code under test: a ModuleData built with a wrong key reports
// the actual digest in its DigestMismatchError) and builds the key that pins it.
func (m *vdModule) finish(digestType bufmodule.DigestType) {
	wrong := vdKey(m.fullName, m.commitID, vdFixedDigest(digestType, 0xEE))
	_, err := m.moduleData(wrong).Bucket()
	if err == nil {
		// symbolic contents: the uninterpreted digest may happen to be the probe value; then the probe key is the key
		m.key = wrong
		return
	}
	var mismatch *bufmodule.DigestMismatchError
	if !errors.As(err, &mismatch) {
		verifAssert(false, "harness: a wrong key digest is reported as DigestMismatchError")
		panic("no mismatch")
	}
	m.key = vdKey(m.fullName, m.commitID, mismatch.ActualDigest)
}

// vdNewModule: 1..FILES files (structural choice), optional dep, optional v1 buf.yaml / buf.lock; contents are
// symbolic when SYMDATA=1 (DATA bytes each), fixed otherwise.
func vdNewModule(digestType bufmodule.DigestType) *vdModule {
	fullName, err := bufparse.NewFullName("r.example", "o", "m")
	vdMust(err)
	m := &vdModule{fullName: fullName, commitID: uuid.UUID{1, 2, 3, 4, 5, 6, 7, 8, 9, 10, 11, 12, 13, 14, 15, 16}}
	names := []string{"a.proto", "d/b.proto", "LICENSE"}
	fixed := []string{"syntax = \"proto3\";", "message B {}", "license"}
	n := verifNondetChoice(verifParam("FILES")) + 1
	for i := 0; i < n; i++ {
		data := []byte(fixed[i])
		if verifParam("SYMDATA") == 1 {
			data = verifNondetBytesN(verifParam("DATA"))
		}
		m.files = append(m.files, &vdObj{path: names[i], data: data})
	}
	if verifParam("DEPS") > 0 && verifNondetBool() {
		depName, err := bufparse.NewFullName("r.example", "o", "dep")
		vdMust(err)
		m.deps = append(m.deps, vdKey(depName, uuid.UUID{16, 15, 14, 13, 12, 11, 10, 9, 8, 7, 6, 5, 4, 3, 2, 1}, vdFixedDigest(bufmodule.DigestTypeB5, 0x11)))
	}
	if verifParam("SIDE") > 0 {
		if verifNondetBool() {
			m.bufYAML = []byte("version: v1\n")
		}
		if verifNondetBool() {
			m.bufLock = []byte("version: v1\ndeps: []\n")
		}
	}
	m.finish(digestType)
	return m
}

// vdCheckHit asserts that a found ModuleData is exactly the intended module (or refuses with an error).
// Returns true when all accessors succeeded.
func vdCheckHit(m *vdModule, got bufmodule.ModuleData, label string) bool {
	ctx := context.Background()
	bucket, err := got.Bucket()
	if err != nil {
		return false
	}
	paths, err := storage.AllPaths(ctx, bucket, "")
	if err != nil {
		return false
	}
	verifAssert(len(paths) == len(m.files), "hit: the served module has exactly the intended files")
	for _, f := range m.files {
		data, err := storage.ReadPath(ctx, bucket, f.path)
		verifAssert(err == nil, "hit: every intended file is served")
		if err == nil {
			verifAssert(bytes.Equal(data, f.data), "hit: served file content equals the intended content")
		}
	}
	deps, err := got.DepModuleKeys()
	if err != nil {
		return false
	}
	verifAssert(len(deps) == len(m.deps), "hit: served deps equal the intended deps (count)")
	for i := range deps {
		if i < len(m.deps) {
			want, _ := m.deps[i].Digest()
			have, err := deps[i].Digest()
			verifAssert(err == nil && bufmodule.DigestEqual(want, have), "hit: served dep digest equals the intended one")
			verifAssert(deps[i].FullName().String() == m.deps[i].FullName().String() && deps[i].CommitID() == m.deps[i].CommitID(),
				"hit: served dep name and commit equal the intended ones")
		}
	}
	yamlData, err := got.V1Beta1OrV1BufYAMLObjectData()
	if err != nil {
		return false
	}
	verifAssert((yamlData == nil) == (m.bufYAML == nil), "hit: v1 buf.yaml presence as intended")
	if yamlData != nil && m.bufYAML != nil {
		verifAssert(yamlData.Name() == "buf.yaml" && bytes.Equal(yamlData.Data(), m.bufYAML), "hit: v1 buf.yaml content as intended")
	}
	lockData, err := got.V1Beta1OrV1BufLockObjectData()
	if err != nil {
		return false
	}
	verifAssert((lockData == nil) == (m.bufLock == nil), "hit: v1 buf.lock presence as intended")
	if lockData != nil && m.bufLock != nil {
		verifAssert(lockData.Name() == "buf.lock" && bytes.Equal(lockData.Data(), m.bufLock), "hit: v1 buf.lock content as intended")
	}
	return true
}

func vdStore(b *vdBucket) *moduleDataStore {
	b.locks = &vdLocker{}
	return newModuleDataStore(slog.Default(), b, b.locks)
}

// vdMarkerPresent: the entry is *marked complete* in the property's sense - "module.yaml present+valid == entry
// complete": a module.yaml exists, parses, and is valid by the store's own isValid (a placeholder / unparseable
// module.yaml does not mark anything complete).
func vdMarkerPresent(b *vdBucket) bool {
	for _, o := range b.objs {
		if len(o.path) >= len(externalModuleDataFileName) && o.path[len(o.path)-len(externalModuleDataFileName):] == externalModuleDataFileName {
			var doc externalModuleData
			if err := encoding.UnmarshalYAMLNonStrict(o.data, &doc); err == nil && len(o.data) > 0 && doc.isValid() {
				return true
			}
		}
	}
	return false
}

func vdDigestType() bufmodule.DigestType {
	if verifParam("B4") == 1 {
		return bufmodule.DigestTypeB4
	}
	return bufmodule.DigestTypeB5
}

// VerifLemma_C09_RoundTrip: fault-free put, then get with a fresh store: hit with exactly the intended content;
// a second put is a no-op (entry complete); all bucket mutations happen under the exclusive lock and all reads under
// a lock.
func VerifLemma_C09_RoundTrip() {
	thread.SetParallelism(1)
	m := vdNewModule(vdDigestType())
	b := &vdBucket{}
	store := vdStore(b)
	err := store.PutModuleDatas(context.Background(), []bufmodule.ModuleData{m.moduleData(m.key)})
	verifAssert(err == nil, "fault-free put succeeds")
	verifAssert(vdMarkerPresent(b), "fault-free put leaves the entry marked complete")
	verifAssert(b.mutationsWithoutExclusiveLock == 0, "every mutation of the entry happens under the exclusive lock")
	// (reads are not required to hold a lock: the marker is published atomically and the files are read lazily,
	// after the lock is released, by design - the digest check covers them)
	verifAssert(b.locks.errors == 0 && !b.locks.exclusive && b.locks.shared == 0, "locks are released, never double-unlocked or re-entered")
	found, notFound, err := vdStore(b).GetModuleDatasForModuleKeys(context.Background(), []bufmodule.ModuleKey{m.key})
	verifAssert(err == nil && len(found) == 1 && len(notFound) == 0, "a complete entry is found")
	verifCover("hit")
	if len(found) == 1 {
		verifAssert(vdCheckHit(m, found[0], "roundtrip"), "a fault-free entry passes the digest check")
	}
	// storing a complete entry again is harmless (whether it rewrites anything is not specified)
	err = vdStore(b).PutModuleDatas(context.Background(), []bufmodule.ModuleData{m.moduleData(m.key)})
	verifAssert(err == nil, "putting a complete entry again succeeds")
	if again := vdGetOne(b, m); again != nil {
		verifAssert(vdCheckHit(m, again, "roundtrip2"), "after putting a complete entry again it is still exactly the intended module")
	} else {
		verifAssert(false, "after putting a complete entry again it is still found")
	}
}

func vdPutOne(b *vdBucket, m *vdModule) error {
	return vdStore(b).PutModuleDatas(context.Background(), []bufmodule.ModuleData{m.moduleData(m.key)})
}

// vdGetOne returns the found ModuleData or nil (miss).
func vdGetOne(b *vdBucket, m *vdModule) bufmodule.ModuleData {
	found, notFound, err := vdStore(b).GetModuleDatasForModuleKeys(context.Background(), []bufmodule.ModuleKey{m.key})
	verifAssert(err == nil && len(found)+len(notFound) == 1, "get classifies the key as found or not found")
	if len(found) == 1 {
		return found[0]
	}
	return nil
}

// vdRepair: after a failed / interrupted store, a fault-free store of the same module makes the entry a correct hit.
func vdRepair(b *vdBucket, m *vdModule) {
	b.crashed, b.faulted, b.crashAt, b.failAt, b.failAt2 = false, false, 0, 0, 0
	verifAssert(vdPutOne(b, m) == nil, "repair: a later fault-free put succeeds")
	got := vdGetOne(b, m)
	verifAssert(got != nil, "repair: after the later put the entry is found")
	if got != nil {
		verifAssert(vdCheckHit(m, got, "repair"), "repair: the repaired entry passes the digest check")
	}
}

func vdMaxOps(m *vdModule) int { return 3*(len(m.files)+3) + 1 }

// VerifLemma_C09A_CrashPoints: the process dies at the k-th mutating bucket operation (every Put / Write / Close
// boundary, k symbolic; the dying non-atomic Write may leave a prefix). A later process then reads the key:
// miss, or a hit with exactly the intended content; the entry is marked complete only if nothing was cut off;
// a later put repairs the entry.
func VerifLemma_C09A_CrashPoints() {
	thread.SetParallelism(1)
	m := vdNewModule(vdDigestType())
	b := &vdBucket{}
	b.crashAt = verifNondetInt(1, vdMaxOps(m))
	err := vdPutOne(b, m)
	crashed := b.crashed
	if crashed {
		verifCover("crashed during the put")
		verifAssert(!vdMarkerPresent(b), "an interrupted put never leaves the entry marked complete")
	} else {
		verifCover("crash point after the last operation")
		verifAssert(err == nil && vdMarkerPresent(b), "an uninterrupted put completes the entry")
	}
	// a later process
	b.crashed, b.crashAt = false, 0
	got := vdGetOne(b, m)
	if crashed {
		verifAssert(got == nil, "an interrupted entry is a miss")
	}
	if got != nil {
		verifAssert(vdCheckHit(m, got, "crash"), "a hit after a crash serves exactly the intended module")
	}
	if verifParam("CRASH2") == 1 {
		// the repairing process dies as well (second crash point, numbered from its own first operation)
		b.ops = 0
		b.crashAt = verifNondetInt(1, vdMaxOps(m))
		err2 := vdPutOne(b, m)
		crashed2 := b.crashed
		if crashed2 {
			verifCover("crashed during the repair")
			verifAssert(!vdMarkerPresent(b) || !crashed, "an interrupted repair never marks an incomplete entry complete")
		} else {
			verifAssert(err2 == nil && vdMarkerPresent(b), "an uninterrupted repair completes the entry")
		}
		b.crashed, b.crashAt = false, 0
		got2 := vdGetOne(b, m)
		if crashed && crashed2 {
			verifAssert(got2 == nil, "an entry interrupted twice is a miss")
		}
		if got2 != nil {
			verifAssert(vdCheckHit(m, got2, "crash2"), "a hit after two crashes serves exactly the intended module")
		}
	}
	vdRepair(b, m)
}

// VerifLemma_C09B_Faults: the k-th (and optionally the l-th, l>k) mutating bucket operation returns an error.
// PutModuleDatas reports it, the entry is not marked complete, a reader misses, a later put repairs.
func VerifLemma_C09B_Faults() {
	thread.SetParallelism(1)
	m := vdNewModule(vdDigestType())
	b := &vdBucket{}
	b.failAt = verifNondetInt(1, vdMaxOps(m))
	if verifParam("DOUBLE") == 1 {
		b.failAt2 = verifNondetInt(0, vdMaxOps(m))
		verifAssume(b.failAt2 == 0 || b.failAt2 > b.failAt)
	}
	err := vdPutOne(b, m)
	if b.faulted {
		verifCover("a write operation failed")
		verifAssert(err != nil, "a failed Put/Write/Close is reported by PutModuleDatas")
		verifAssert(!vdMarkerPresent(b), "a failed put never leaves the entry marked complete")
	} else {
		verifAssert(err == nil && vdMarkerPresent(b), "no fault: the put completes the entry")
	}
	verifAssert(b.locks.errors == 0 && !b.locks.exclusive && b.locks.shared == 0, "locks are released on every exit")
	faulted := b.faulted
	b.failAt, b.failAt2 = 0, 0
	got := vdGetOne(b, m)
	if faulted {
		verifAssert(got == nil, "a failed entry is a miss")
	}
	if got != nil {
		verifAssert(vdCheckHit(m, got, "fault"), "a hit serves exactly the intended module")
	}
	vdRepair(b, m)
}

// ===================================================================================================
// C09-C tampering of a complete entry
// ===================================================================================================

func vdEntryDir(m *vdModule) string {
	dir, err := getModuleDataStoreDirPath(m.key)
	vdMust(err)
	return dir
}

const (
	vdTamperFlip = iota
	vdTamperTruncate
	vdTamperDelete
	vdTamperAdd
	vdTamperRename
	vdTamperSideFile
	vdTamperMarker
	vdTamperKinds
)

// vdTamper applies one modification to the complete entry. It returns whether the modification can change what the
// key's digest covers (false: e.g. an added file that is not a module file; such a change must then be invisible or
// harmless) and whether it touches only data that the digest type does not cover (side files under b5).
func vdTamper(b *vdBucket, m *vdModule, kind int) (outsideDigest bool) {
	dir := vdEntryDir(m)
	filesDir := dir + "/" + externalModuleDataFilesDir + "/"
	victim := m.files[verifNondetChoice(len(m.files))]
	i := b.find(filesDir + victim.path)
	verifAssert(i >= 0, "harness: the complete entry holds every module file")
	if i < 0 {
		return false
	}
	switch kind {
	case vdTamperFlip:
		old := b.objs[i].data
		pos := 0
		if verifParam("FLIPALL") == 1 {
			pos = verifNondetChoice(len(old))
		} else {
			pos = []int{0, len(old) / 2, len(old) - 1}[verifNondetChoice(3)]
		}
		nb := verifNondetByte()
		verifAssume(nb != old[pos])
		data := append([]byte(nil), old...)
		data[pos] = nb
		b.objs[i].data = data
	case vdTamperTruncate:
		old := b.objs[i].data
		keep := []int{0, 1, len(old) - 1}[verifNondetChoice(3)]
		b.objs[i].data = append([]byte(nil), old[:keep]...)
	case vdTamperDelete:
		b.remove(filesDir + victim.path)
	case vdTamperAdd:
		// a module file, a doc file (changes the doc-file choice), or a file the module filter ignores
		name := []string{"zz.proto", "README.md", "notes.txt"}[verifNondetChoice(3)]
		b.set(filesDir+name, verifNondetBytes(1))
		return name == "notes.txt"
	case vdTamperRename:
		data := b.objs[i].data
		b.remove(filesDir + victim.path)
		b.set(filesDir+"renamed.proto", data)
	case vdTamperSideFile:
		p := dir + "/" + externalModuleDataV1BufYAMLDir + "/buf.yaml"
		if m.bufYAML == nil || verifNondetBool() {
			p = dir + "/" + externalModuleDataV1BufLockDir + "/buf.lock"
			verifAssume(m.bufLock != nil)
		}
		j := b.find(p)
		verifAssert(j >= 0, "harness: the complete entry holds the side file")
		if j < 0 {
			return false
		}
		if verifNondetBool() {
			b.remove(p)
		} else {
			old := b.objs[j].data
			pos := verifNondetChoice(2) * (len(old) - 1)
			nb := verifNondetByte()
			verifAssume(nb != old[pos])
			data := append([]byte(nil), old...)
			data[pos] = nb
			b.objs[j].data = data
		}
		return true
	}
	return false
}

// vdTamperMarkerDoc replaces module.yaml: deleted, unparseable bytes, or any other *parseable* document (a nondet
// externalModuleData marshalled through the codec).
func vdTamperMarkerDoc(b *vdBucket, m *vdModule) {
	p := vdEntryDir(m) + "/" + externalModuleDataFileName
	j := b.find(p)
	verifAssert(j >= 0, "harness: the complete entry has a marker")
	switch verifNondetChoice(3) {
	case 0:
		b.remove(p)
	case 1:
		b.set(p, []byte("{{{ not yaml"))
	case 2:
		var cur externalModuleData
		vdMust(encoding.UnmarshalYAMLNonStrict(b.objs[j].data, &cur))
		doc := cur
		switch verifNondetChoice(6) {
		case 0:
			doc.Version = []string{"", "v2"}[verifNondetChoice(2)]
		case 1:
			doc.FilesDir = []string{"", "v1_buf_yaml", "elsewhere"}[verifNondetChoice(3)]
		case 2:
			doc.Deps = nil
		case 3:
			// another dependency digest / an extra dependency
			other := vdFixedDigest(bufmodule.DigestTypeB5, 0x22).String()
			if len(doc.Deps) > 0 && verifNondetBool() {
				deps := append([]externalModuleDataDep(nil), doc.Deps...)
				deps[0].Digest = other
				doc.Deps = deps
			} else {
				doc.Deps = append(append([]externalModuleDataDep(nil), doc.Deps...), externalModuleDataDep{
					Name: "r.example/o/extra", Commit: "0102030405060708090a0b0c0d0e0f10", Digest: other})
			}
		case 4:
			doc.V1BufYAMLFile = []string{"", externalModuleDataV1BufLockDir + "/buf.lock", "files/a.proto"}[verifNondetChoice(3)]
		case 5:
			doc.V1BufLockFile = []string{"", externalModuleDataV1BufYAMLDir + "/buf.yaml", "files/a.proto"}[verifNondetChoice(3)]
		}
		data, err := encoding.MarshalYAML(doc)
		vdMust(err)
		b.set(p, data)
	}
}

// VerifLemma_C09C_Tamper: complete entry, one modification, then a read by a fresh store: miss; or a ModuleData whose
// accessors fail (DigestMismatchError); or accessors that succeed and then serve exactly what the key's digest pins
// (files and dependency digests for b5; files, v1 buf.yaml and buf.lock for b4).
func VerifLemma_C09C_Tamper() {
	thread.SetParallelism(1)
	digestType := vdDigestType()
	m := vdNewModule(digestType)
	b := &vdBucket{}
	verifAssert(vdPutOne(b, m) == nil, "fault-free put succeeds")
	kind := verifParam("KIND")
	if kind < 0 {
		kind = verifNondetChoice(vdTamperKinds)
	}
	if kind == vdTamperSideFile {
		verifAssume(m.bufYAML != nil || m.bufLock != nil)
	}
	if kind == vdTamperMarker {
		vdTamperMarkerDoc(b, m)
	} else {
		vdTamper(b, m, kind)
	}
	verifCover("tampered")
	got := vdGetOne(b, m)
	if got == nil {
		verifCover("tampered entry is a miss")
		return
	}
	bucket, err := got.Bucket()
	if err != nil {
		verifCover("tampered entry fails the digest check")
		var mismatch *bufmodule.DigestMismatchError
		verifAssert(errors.As(err, &mismatch) || kind == vdTamperMarker, "a refused hit is refused with DigestMismatchError")
		_, err2 := got.DepModuleKeys()
		verifAssert(err2 != nil, "every accessor of a refused hit fails")
		return
	}
	verifCover("tampered entry still served")
	// served: everything the digest covers must be exactly the intended content
	ctx := context.Background()
	paths, err := storage.AllPaths(ctx, bucket, "")
	verifAssert(err == nil && len(paths) == len(m.files), "served after tampering: exactly the intended files")
	for _, f := range m.files {
		data, err := storage.ReadPath(ctx, bucket, f.path)
		verifAssert(err == nil && bytes.Equal(data, f.data), "served after tampering: file content equals the intended content")
	}
	deps, err := got.DepModuleKeys()
	verifAssert(err == nil, "served after tampering: deps accessible")
	if digestType == bufmodule.DigestTypeB5 {
		verifAssert(len(deps) == len(m.deps), "served after tampering: dependency count as pinned")
		for i := range deps {
			if i < len(m.deps) {
				want, _ := m.deps[i].Digest()
				have, err := deps[i].Digest()
				verifAssert(err == nil && bufmodule.DigestEqual(want, have), "served after tampering: dependency digest as pinned")
			}
		}
	} else {
		yamlData, err := got.V1Beta1OrV1BufYAMLObjectData()
		verifAssert(err == nil && (yamlData == nil) == (m.bufYAML == nil), "served after tampering (b4): buf.yaml presence as pinned")
		if yamlData != nil && m.bufYAML != nil {
			verifAssert(yamlData.Name() == "buf.yaml" && bytes.Equal(yamlData.Data(), m.bufYAML), "served after tampering (b4): buf.yaml content as pinned")
		}
		lockData, err := got.V1Beta1OrV1BufLockObjectData()
		verifAssert(err == nil && (lockData == nil) == (m.bufLock == nil), "served after tampering (b4): buf.lock presence as pinned")
		if lockData != nil && m.bufLock != nil {
			verifAssert(lockData.Name() == "buf.lock" && bytes.Equal(lockData.Data(), m.bufLock), "served after tampering (b4): buf.lock content as pinned")
		}
	}
}
