//go:build verif

package bufmodulestore

import (
	"bytes"
	"context"
	"errors"
	"io"
	"io/fs"
	"log/slog"

	"github.com/bufbuild/buf/private/bufpkg/bufcas"
	"github.com/bufbuild/buf/private/bufpkg/bufmodule"
	"github.com/bufbuild/buf/private/bufpkg/bufparse"
	"github.com/bufbuild/buf/private/pkg/filelock"
	"github.com/bufbuild/buf/private/pkg/storage"
	"github.com/bufbuild/buf/private/pkg/thread"
	"github.com/google/uuid"
)

// ===================================================================================================
// Harness bucket: a path -> bytes map with a symbolic fault / crash schedule.
//
// Every *mutating* operation (Put, each Write, each Close, Delete) is numbered 1,2,3,... in execution order.
//   - crashAt = k (k > 0): operations 1..k-1 are applied, operation k is cut short (a non-atomic Write may leave a
//     prefix of its bytes) and everything after it is dropped: the "process" is dead, the bucket content is what a
//     later process finds.
//   - failAt / failAt2 = k: operation k returns an error (Put: no object created; Write: a prefix of the bytes may
//     have been written; Close of an atomic Put: object not published; Close of a non-atomic Put: bytes stay).
// Non-atomic Put publishes the (truncated) object at Put time and every Write immediately; atomic Put publishes the
// whole content at a successful Close and nothing otherwise (that is the contract of storage.PutWithAtomic, which
// C15-C checks for the disk bucket).
// ===================================================================================================

var (
	vdErrInjected = errors.New("vd: injected write fault")
	vdErrCrashed  = errors.New("vd: process crashed")
)

type vdObj struct {
	path string
	data []byte
}

type vdBucket struct {
	storage.ReadWriteBucket
	objs    []*vdObj
	ops     int
	crashAt int
	failAt  int
	failAt2 int
	crashed bool
	faulted bool
	locks   *vdLocker
	// observation
	mutationsWithoutExclusiveLock int
	readsWithoutLock              int
}

func (b *vdBucket) find(path string) int {
	for i, o := range b.objs {
		if o.path == path {
			return i
		}
	}
	return -1
}

// step numbers a mutating operation. apply=false: the operation must have no (or only a partial) effect.
func (b *vdBucket) step() (apply bool, err error) {
	if b.crashed {
		return false, vdErrCrashed
	}
	b.ops++
	if b.locks != nil && !b.locks.exclusive {
		b.mutationsWithoutExclusiveLock++
	}
	if b.ops == b.crashAt {
		b.crashed = true
		return false, vdErrCrashed
	}
	if b.ops == b.failAt || b.ops == b.failAt2 {
		b.faulted = true
		return false, vdErrInjected
	}
	return true, nil
}

func (b *vdBucket) set(path string, data []byte) {
	if i := b.find(path); i >= 0 {
		b.objs[i].data = data
		return
	}
	b.objs = append(b.objs, &vdObj{path: path, data: data})
}

func (b *vdBucket) remove(path string) {
	if i := b.find(path); i >= 0 {
		b.objs = append(b.objs[:i:i], b.objs[i+1:]...)
	}
}

type vdReadObj struct {
	path string
	r    *bytes.Reader
}

func (o *vdReadObj) Read(p []byte) (int, error) { return o.r.Read(p) }
func (o *vdReadObj) Close() error               { return nil }
func (o *vdReadObj) Path() string               { return o.path }
func (o *vdReadObj) ExternalPath() string       { return o.path }
func (o *vdReadObj) LocalPath() string          { return "" }

func (b *vdBucket) noteRead() {
	if b.locks != nil && !b.locks.exclusive && b.locks.shared == 0 {
		b.readsWithoutLock++
	}
}

func (b *vdBucket) Get(ctx context.Context, path string) (storage.ReadObjectCloser, error) {
	b.noteRead()
	i := b.find(path)
	if i < 0 {
		return nil, &fs.PathError{Op: "read", Path: path, Err: fs.ErrNotExist}
	}
	return &vdReadObj{path: path, r: bytes.NewReader(b.objs[i].data)}, nil
}

func (b *vdBucket) Stat(ctx context.Context, path string) (storage.ObjectInfo, error) {
	b.noteRead()
	if b.find(path) < 0 {
		return nil, &fs.PathError{Op: "stat", Path: path, Err: fs.ErrNotExist}
	}
	return &vdReadObj{path: path}, nil
}

func vdUnder(path, prefix string) bool {
	if prefix == "" || prefix == "." || path == prefix {
		return true
	}
	return len(path) > len(prefix) && path[:len(prefix)] == prefix && path[len(prefix)] == '/'
}

func (b *vdBucket) Walk(ctx context.Context, prefix string, f func(storage.ObjectInfo) error) error {
	b.noteRead()
	snapshot := append([]*vdObj(nil), b.objs...)
	for _, o := range snapshot {
		if vdUnder(o.path, prefix) {
			if err := f(&vdReadObj{path: o.path}); err != nil {
				return err
			}
		}
	}
	return nil
}

type vdWriter struct {
	b      *vdBucket
	path   string
	atomic bool
	buf    []byte
	closed bool
}

func (b *vdBucket) Put(ctx context.Context, path string, opts ...storage.PutOption) (storage.WriteObjectCloser, error) {
	if _, err := b.step(); err != nil {
		return nil, err
	}
	w := &vdWriter{b: b, path: path, atomic: storage.NewPutOptions(opts).Atomic()}
	if !w.atomic {
		b.set(path, nil) // created / truncated now
	}
	return w, nil
}

func (w *vdWriter) Write(p []byte) (int, error) {
	apply, err := w.b.step()
	if !apply {
		if w.b.ops == w.b.crashAt || w.b.faulted {
			// the failing / crashing write itself may have transferred a proper prefix of p
			if !w.atomic && len(p) > 0 && (err == vdErrInjected || w.b.ops == w.b.crashAt) && !w.closed {
				n := verifNondetChoice(len(p))
				if n > 0 && w.b.find(w.path) >= 0 {
					w.buf = append(w.buf, p[:n]...)
					w.b.set(w.path, append([]byte(nil), w.buf...))
				}
				return n, err
			}
		}
		return 0, err
	}
	w.buf = append(w.buf, p...)
	if !w.atomic {
		w.b.set(w.path, append([]byte(nil), w.buf...))
	}
	return len(p), nil
}

func (w *vdWriter) Close() error {
	w.closed = true
	apply, err := w.b.step()
	if !apply {
		return err
	}
	if w.atomic {
		w.b.set(w.path, append([]byte(nil), w.buf...))
	}
	return nil
}
func (w *vdWriter) SetExternalPath(string) error { return nil }
func (w *vdWriter) SetLocalPath(string) error    { return nil }

func (b *vdBucket) Delete(ctx context.Context, path string) error {
	if _, err := b.step(); err != nil {
		return err
	}
	if b.find(path) < 0 {
		return &fs.PathError{Op: "delete", Path: path, Err: fs.ErrNotExist}
	}
	b.remove(path)
	return nil
}

func (b *vdBucket) SetExternalAndLocalPathsSupported() bool { return false }

// ---- lock stub: records the protocol (no blocking; a single process is modelled) ----

type vdLocker struct {
	exclusive bool
	shared    int
	errors    int
}

type vdUnlocker struct {
	l         *vdLocker
	exclusive bool
	done      bool
}

func (u *vdUnlocker) Unlock() error {
	if u.done {
		u.l.errors++
		return nil
	}
	u.done = true
	if u.exclusive {
		u.l.exclusive = false
	} else {
		u.l.shared--
	}
	return nil
}

func (l *vdLocker) Lock(ctx context.Context, path string, _ ...filelock.LockOption) (filelock.Unlocker, error) {
	if l.exclusive || l.shared > 0 {
		l.errors++ // would deadlock against itself
	}
	l.exclusive = true
	return &vdUnlocker{l: l, exclusive: true}, nil
}

func (l *vdLocker) RLock(ctx context.Context, path string, _ ...filelock.LockOption) (filelock.Unlocker, error) {
	if l.exclusive {
		l.errors++
	}
	l.shared++
	return &vdUnlocker{l: l}, nil
}

// ===================================================================================================
// The intended module
// ===================================================================================================

type vdModule struct {
	files    []*vdObj // module files (all match the module file filter)
	deps     []bufmodule.ModuleKey
	bufYAML  []byte // nil = none
	bufLock  []byte
	fullName bufparse.FullName
	commitID uuid.UUID
	key      bufmodule.ModuleKey
}

func vdMust(err error) {
	if err != nil {
		verifAssert(false, "harness construction failed")
		panic(err)
	}
}

func vdSourceBucket(files []*vdObj) storage.ReadBucket {
	b := &vdBucket{}
	for _, f := range files {
		b.set(f.path, f.data)
	}
	return b
}

func (m *vdModule) moduleData(key bufmodule.ModuleKey) bufmodule.ModuleData {
	return bufmodule.NewModuleData(
		context.Background(),
		key,
		func() (storage.ReadBucket, error) { return vdSourceBucket(m.files), nil },
		func() ([]bufmodule.ModuleKey, error) { return m.deps, nil },
		func() (bufmodule.ObjectData, error) {
			if m.bufYAML == nil {
				return nil, nil
			}
			return bufmodule.NewObjectData("buf.yaml", m.bufYAML)
		},
		func() (bufmodule.ObjectData, error) {
			if m.bufLock == nil {
				return nil, nil
			}
			return bufmodule.NewObjectData("buf.lock", m.bufLock)
		},
	)
}

func vdKey(fullName bufparse.FullName, commitID uuid.UUID, digest bufmodule.Digest) bufmodule.ModuleKey {
	key, err := bufmodule.NewModuleKey(fullName, commitID, func() (bufmodule.Digest, error) { return digest, nil })
	vdMust(err)
	return key
}

func vdFixedDigest(digestType bufmodule.DigestType, fill byte) bufmodule.Digest {
	value := make([]byte, 64)
	for i := range value {
		value[i] = fill
	}
	casDigest, err := bufcas.NewDigest(value)
	vdMust(err)
	digest, err := bufmodule.NewDigest(digestType, casDigest)
	vdMust(err)
	return digest
}

// finish computes the module's real digest (through the code under test: a ModuleData built with a wrong key reports
// the actual digest in its DigestMismatchError) and builds the key that pins it.
func (m *vdModule) finish(digestType bufmodule.DigestType) {
	wrong := vdKey(m.fullName, m.commitID, vdFixedDigest(digestType, 0xEE))
	_, err := m.moduleData(wrong).Bucket()
	var mismatch *bufmodule.DigestMismatchError
	if !errors.As(err, &mismatch) {
		verifAssert(false, "harness: a wrong key digest is reported as DigestMismatchError")
		panic("no mismatch")
	}
	m.key = vdKey(m.fullName, m.commitID, mismatch.ActualDigest)
}

// vdNewModule: 1..FILES files (structural choice), optional dep, optional v1 buf.yaml / buf.lock; contents are
// symbolic when SYMDATA=1 (DATA bytes each), fixed otherwise.
func vdNewModule(digestType bufmodule.DigestType) *vdModule {
	fullName, err := bufparse.NewFullName("r.example", "o", "m")
	vdMust(err)
	m := &vdModule{fullName: fullName, commitID: uuid.UUID{1, 2, 3, 4, 5, 6, 7, 8, 9, 10, 11, 12, 13, 14, 15, 16}}
	names := []string{"a.proto", "d/b.proto", "LICENSE"}
	fixed := []string{"syntax = \"proto3\";", "message B {}", "license"}
	n := verifNondetChoice(verifParam("FILES")) + 1
	for i := 0; i < n; i++ {
		data := []byte(fixed[i])
		if verifParam("SYMDATA") == 1 {
			data = verifNondetBytesN(verifParam("DATA"))
		}
		m.files = append(m.files, &vdObj{path: names[i], data: data})
	}
	if verifParam("DEPS") > 0 && verifNondetBool() {
		depName, err := bufparse.NewFullName("r.example", "o", "dep")
		vdMust(err)
		m.deps = append(m.deps, vdKey(depName, uuid.UUID{16, 15, 14, 13, 12, 11, 10, 9, 8, 7, 6, 5, 4, 3, 2, 1}, vdFixedDigest(bufmodule.DigestTypeB5, 0x11)))
	}
	if verifParam("SIDE") > 0 {
		if verifNondetBool() {
			m.bufYAML = []byte("version: v1\n")
		}
		if verifNondetBool() {
			m.bufLock = []byte("version: v1\ndeps: []\n")
		}
	}
	m.finish(digestType)
	return m
}

// vdCheckHit asserts that a found ModuleData is exactly the intended module (or refuses with an error).
// Returns true when all accessors succeeded.
func vdCheckHit(m *vdModule, got bufmodule.ModuleData, label string) bool {
	ctx := context.Background()
	bucket, err := got.Bucket()
	if err != nil {
		return false
	}
	paths, err := storage.AllPaths(ctx, bucket, "")
	if err != nil {
		return false
	}
	verifAssert(len(paths) == len(m.files), "hit: the served module has exactly the intended files")
	for _, f := range m.files {
		data, err := storage.ReadPath(ctx, bucket, f.path)
		verifAssert(err == nil, "hit: every intended file is served")
		if err == nil {
			verifAssert(bytes.Equal(data, f.data), "hit: served file content equals the intended content")
		}
	}
	deps, err := got.DepModuleKeys()
	if err != nil {
		return false
	}
	verifAssert(len(deps) == len(m.deps), "hit: served deps equal the intended deps (count)")
	for i := range deps {
		if i < len(m.deps) {
			want, _ := m.deps[i].Digest()
			have, err := deps[i].Digest()
			verifAssert(err == nil && bufmodule.DigestEqual(want, have), "hit: served dep digest equals the intended one")
			verifAssert(deps[i].FullName().String() == m.deps[i].FullName().String() && deps[i].CommitID() == m.deps[i].CommitID(),
				"hit: served dep name and commit equal the intended ones")
		}
	}
	yamlData, err := got.V1Beta1OrV1BufYAMLObjectData()
	if err != nil {
		return false
	}
	verifAssert((yamlData == nil) == (m.bufYAML == nil), "hit: v1 buf.yaml presence as intended")
	if yamlData != nil && m.bufYAML != nil {
		verifAssert(yamlData.Name() == "buf.yaml" && bytes.Equal(yamlData.Data(), m.bufYAML), "hit: v1 buf.yaml content as intended")
	}
	lockData, err := got.V1Beta1OrV1BufLockObjectData()
	if err != nil {
		return false
	}
	verifAssert((lockData == nil) == (m.bufLock == nil), "hit: v1 buf.lock presence as intended")
	if lockData != nil && m.bufLock != nil {
		verifAssert(lockData.Name() == "buf.lock" && bytes.Equal(lockData.Data(), m.bufLock), "hit: v1 buf.lock content as intended")
	}
	return true
}

func vdStore(b *vdBucket) *moduleDataStore {
	b.locks = &vdLocker{}
	return newModuleDataStore(slog.Default(), b, b.locks)
}

func vdMarkerPresent(b *vdBucket) bool {
	for _, o := range b.objs {
		if len(o.path) >= len(externalModuleDataFileName) && o.path[len(o.path)-len(externalModuleDataFileName):] == externalModuleDataFileName {
			return true
		}
	}
	return false
}

func vdDigestType() bufmodule.DigestType {
	if verifParam("B4") == 1 {
		return bufmodule.DigestTypeB4
	}
	return bufmodule.DigestTypeB5
}

// VerifLemma_C09_RoundTrip: fault-free put, then get with a fresh store: hit with exactly the intended content;
// a second put is a no-op (entry complete); all bucket mutations happen under the exclusive lock and all reads under
// a lock.
func VerifLemma_C09_RoundTrip() {
	thread.SetParallelism(1)
	m := vdNewModule(vdDigestType())
	b := &vdBucket{}
	store := vdStore(b)
	err := store.PutModuleDatas(context.Background(), []bufmodule.ModuleData{m.moduleData(m.key)})
	if err != nil {
		panic("DBG: " + err.Error())
	}
	verifAssert(err == nil, "fault-free put succeeds")
	verifAssert(vdMarkerPresent(b), "fault-free put leaves the entry marked complete")
	verifAssert(b.mutationsWithoutExclusiveLock == 0, "every mutation of the entry happens under the exclusive lock")
	verifAssert(b.readsWithoutLock == 0, "every read of the entry happens under a lock")
	verifAssert(b.locks.errors == 0 && !b.locks.exclusive && b.locks.shared == 0, "locks are released, never double-unlocked or re-entered")
	opsAfterFirst := b.ops
	found, notFound, err := vdStore(b).GetModuleDatasForModuleKeys(context.Background(), []bufmodule.ModuleKey{m.key})
	verifAssert(err == nil && len(found) == 1 && len(notFound) == 0, "a complete entry is found")
	verifCover("hit")
	if len(found) == 1 {
		verifAssert(vdCheckHit(m, found[0], "roundtrip"), "a fault-free entry passes the digest check")
	}
	err = vdStore(b).PutModuleDatas(context.Background(), []bufmodule.ModuleData{m.moduleData(m.key)})
	verifAssert(err == nil && b.ops == opsAfterFirst, "putting a complete entry again writes nothing")
	_ = io.EOF
}

func VerifLemma_C09_Dbg() {
	verifCover("x")
	verifAssert(fs.ErrNotExist != nil, "fs.ErrNotExist set")
	var e error = &fs.PathError{Op: "read", Path: "p", Err: fs.ErrNotExist}
	verifAssert(errors.Is(e, fs.ErrNotExist), "is")
	b := &vdBucket{}
	_, err := b.Get(context.Background(), "x")
	verifAssert(errors.Is(err, fs.ErrNotExist), "is2")
	_, err = storage.ReadPath(context.Background(), storage.MapReadWriteBucket(b, storage.MapOnPrefix("a/b")), "x")
	if !errors.Is(err, fs.ErrNotExist) {
		panic("DBG2: " + err.Error())
	}
}
