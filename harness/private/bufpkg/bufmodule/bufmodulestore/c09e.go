//go:build verif

package bufmodulestore

import (
	"context"
	"encoding/json"
	"log/slog"
	"time"

	"github.com/bufbuild/buf/private/bufpkg/bufmodule"
	"github.com/bufbuild/buf/private/pkg/encoding"
	"github.com/google/uuid"
)

// ---- C09-E: the commit store reading a commit file that was modified / written by another version ----

// vdCommitDoc renders an externalCommit as the store's file content. Under the engine the document goes through the
// identity codec (a token that the intercepted encoding/json.Unmarshal decodes by json tags); natively it is real JSON.
func vdCommitDoc(doc externalCommit) []byte {
	if verifInEngine() {
		data, err := encoding.MarshalYAML(doc)
		vdMust(err)
		return data
	}
	data, err := json.Marshal(doc)
	vdMust(err)
	return data
}

// VerifLemma_C09E_CommitStoreInvalidFile: the commit file of a key holds any parseable document (every field valid or
// invalid independently), unparseable bytes, or is absent. GetCommitsForCommitKeys must classify the key as found or
// not found; a found Commit is never nil and carries exactly the file's owner/module/digest; found <=> the document
// is valid for the key; an invalid or corrupted file is a miss and is removed from the cache.
func VerifLemma_C09E_CommitStoreInvalidFile() {
	ctx := context.Background()
	b := &vdBucket{}
	store := newCommitStore(slog.Default(), b)
	commitID := uuid.UUID{1, 2, 3, 4, 5, 6, 7, 8, 9, 10, 11, 12, 13, 14, 15, 16}
	commitKey, err := bufmodule.NewCommitKey("r.example", commitID, bufmodule.DigestTypeB5)
	vdMust(err)
	path := getCommitStoreDirPath(commitKey) + "/" + getCommitStoreFilePath(commitKey)
	goodDigest := vdFixedDigest(bufmodule.DigestTypeB5, 0x33).String()
	otherTypeDigest := vdFixedDigest(bufmodule.DigestTypeB4, 0x33).String()
	doc := externalCommit{
		Version: []string{"v1", "", "v2"}[verifNondetChoice(3)],
		Owner:   []string{"o", ""}[verifNondetChoice(2)],
		Module:  []string{"m", ""}[verifNondetChoice(2)],
		Digest:  []string{goodDigest, "", otherTypeDigest, "b5:zz"}[verifNondetChoice(4)],
	}
	if verifNondetBool() {
		doc.CreateTime = time.Unix(1700000000, 0)
	}
	fileKind := verifNondetChoice(3) // 0 parseable document, 1 unparseable bytes, 2 absent
	switch fileKind {
	case 0:
		b.set(path, vdCommitDoc(doc))
	case 1:
		b.set(path, []byte("{{{ not json"))
	}
	fieldsValid := doc.Version == "v1" && doc.Owner != "" && doc.Module != "" && !doc.CreateTime.IsZero() && doc.Digest != ""
	valid := fileKind == 0 && fieldsValid && doc.Digest == goodDigest
	found, notFound, err := store.GetCommitsForCommitKeys(ctx, []bufmodule.CommitKey{commitKey})
	verifCover("returned")
	verifAssert(err == nil && len(found)+len(notFound) == 1, "the key is classified as found or not found")
	// known finding: `return nil, err` with err == nil for a parseable document whose fields are invalid or whose
	// digest type differs from the key's -> a nil Commit is reported as found
	nilCommitClass := fileKind == 0 && (!fieldsValid || doc.Digest == otherTypeDigest)
	if verifKnown("F9-commit-store-nil-commit", nilCommitClass) {
		return
	}
	for _, c := range found {
		verifAssert(c != nil, "a found Commit is never nil")
	}
	verifAssert((len(found) == 1) == valid, "found <=> the commit file is a valid document for the key")
	if len(found) == 1 && found[0] != nil {
		verifCover("hit")
		key := found[0].ModuleKey()
		digest, derr := key.Digest()
		verifAssert(derr == nil && digest.String() == doc.Digest, "a hit carries the file's digest")
		verifAssert(key.FullName().Owner() == doc.Owner && key.FullName().Name() == doc.Module && key.FullName().Registry() == "r.example" && key.CommitID() == commitID,
			"a hit carries the key's registry and commit and the file's owner and module")
	}
	// (whether an invalid file is evicted is not specified - today it is; the property only needs it to read as a miss)
}
