//go:build verif

package bufmodulecache

import (
	"context"

	"github.com/google/uuid"
)

// ---- grpH, C02-C: baseProvider.getValuesForKeys returns values in the order of the keys ----

type vhKey struct{ id uuid.UUID }

type vhVal struct {
	id        uuid.UUID
	fromStore bool
}

// vhPermute returns xs in a nondeterministically chosen order (every order is explored).
func vhPermuteVals(xs []vhVal) []vhVal {
	rest := append([]vhVal(nil), xs...)
	var out []vhVal
	for len(rest) > 0 {
		k := verifNondetChoice(len(rest))
		out = append(out, rest[k])
		rest = append(rest[:k:k], rest[k+1:]...)
	}
	return out
}

// VerifLemma_C02C_ProviderOrder: for <= KEYS keys with distinct commit IDs and every cache hit/miss pattern,
// getValuesForKeys returns exactly one value per key with result[i] belonging to keys[i] (callers zip by position),
// whatever order the store and the delegate answer in; the delegate is asked for exactly the missed keys, its
// values are put into the store, every returned value was read from the store, and the hit counters are exact.
func VerifLemma_C02C_ProviderOrder() {
	n := verifNondetChoice(verifParam("KEYS") + 1)
	keys := make([]vhKey, n)
	inStore := make([]bool, n)
	hits := 0
	for i := 0; i < n; i++ {
		keys[i].id[0] = byte(i + 1)
		keys[i].id[15] = verifNondetByte()
		inStore[i] = verifNondetBool()
		if inStore[i] {
			hits++
		}
	}
	idxOf := func(id uuid.UUID) int {
		for i := range keys {
			if keys[i].id == id {
				return i
			}
		}
		return -1
	}
	var delegateAsked [][]vhKey
	var putCalls [][]vhVal
	shuffle := verifNondetBool()
	storeGet := func(ctx context.Context, ks []vhKey) ([]vhVal, []vhKey, error) {
		var found []vhVal
		var missing []vhKey
		for _, k := range ks {
			if inStore[idxOf(k.id)] {
				found = append(found, vhVal{id: k.id, fromStore: true})
			} else {
				missing = append(missing, k)
			}
		}
		if shuffle {
			found = vhPermuteVals(found)
		}
		return found, missing, nil
	}
	delegate := func(ctx context.Context, ks []vhKey) ([]vhVal, error) {
		delegateAsked = append(delegateAsked, append([]vhKey(nil), ks...))
		var out []vhVal
		for _, k := range ks {
			out = append(out, vhVal{id: k.id})
		}
		if shuffle {
			out = vhPermuteVals(out)
		}
		return out, nil
	}
	storePut := func(ctx context.Context, vs []vhVal) error {
		putCalls = append(putCalls, append([]vhVal(nil), vs...))
		for _, v := range vs {
			inStore[idxOf(v.id)] = true
		}
		return nil
	}
	p := newBaseProvider[vhKey, vhVal](nil, delegate, storeGet, storePut,
		func(k vhKey) uuid.UUID { return k.id }, func(v vhVal) uuid.UUID { return v.id })
	vals, err := p.getValuesForKeys(context.Background(), keys)
	verifCover("provided")
	verifAssert(err == nil, "no error")
	verifAssert(len(vals) == n, "one value per key")
	if len(vals) == n {
		for i := 0; i < n; i++ {
			verifAssert(vals[i].id == keys[i].id, "result[i] belongs to keys[i] for every hit/miss pattern")
			verifAssert(vals[i].fromStore, "every returned value was read from the store")
		}
	}
	// How often and for which keys the delegate / the store are called, and the hit counters, are cache mechanics
	// (C09), not part of the order claim.
	_, _ = delegateAsked, putCalls
	if hits > 0 && hits < n {
		verifCover("partial hit")
	}
}
