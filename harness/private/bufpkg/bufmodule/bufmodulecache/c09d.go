//go:build verif

package bufmodulecache

import (
	"context"
	"errors"
	"log/slog"

	"github.com/google/uuid"
)

// ---- C09-D: the cache provider (baseProvider.getValuesForKeys) over a misbehaving store / delegate ----

type vdKey struct {
	commit uuid.UUID
}

type vdVal struct {
	commit uuid.UUID
	origin int // 1 = was in the store before the call, 2 = fetched by the delegate
}

var vdErrStub = errors.New("vd: stub failure")

type vdWorld struct {
	inStore      map[uuid.UUID]int // commit -> origin of the stored value
	delegateHas  map[uuid.UUID]bool
	putSticks    map[uuid.UUID]bool // a put of this commit really completes the entry
	getFailAt    int                // the k-th store get fails (0 = never)
	gets         int
	delegateFail bool
	putFail      bool
	failed       bool // some stub returned an error to the code
	delegateKeys []vdKey
	putVals      []vdVal
	delegateN    int
	putN         int
}

func (w *vdWorld) storeGet(_ context.Context, keys []vdKey) ([]vdVal, []vdKey, error) {
	w.gets++
	if w.gets == w.getFailAt {
		w.failed = true
		return nil, nil, vdErrStub
	}
	var found []vdVal
	var notFound []vdKey
	for _, k := range keys {
		if origin, ok := w.inStore[k.commit]; ok {
			found = append(found, vdVal{commit: k.commit, origin: origin})
		} else {
			notFound = append(notFound, k)
		}
	}
	return found, notFound, nil
}

func (w *vdWorld) delegate(_ context.Context, keys []vdKey) ([]vdVal, error) {
	w.delegateN++
	w.delegateKeys = append(w.delegateKeys, keys...)
	if w.delegateFail {
		w.failed = true
		return nil, vdErrStub
	}
	var vals []vdVal
	for _, k := range keys {
		if w.delegateHas[k.commit] {
			vals = append(vals, vdVal{commit: k.commit, origin: 2})
		}
	}
	return vals, nil
}

func (w *vdWorld) storePut(_ context.Context, vals []vdVal) error {
	w.putN++
	w.putVals = append([]vdVal(nil), vals...)
	if w.putFail {
		w.failed = true
		return vdErrStub
	}
	for _, v := range vals {
		if w.putSticks[v.commit] {
			w.inStore[v.commit] = v.origin
		}
	}
	return nil
}

// VerifLemma_C09D_Provider: 1..KEYS keys (commit ids from a pool, duplicates possible). Per key: already in the store or
// not, delegate returns it or silently drops it, the put completes the entry or leaves it incomplete (crash / tampering
// by another process). Store get (1st or 2nd), delegate and put may fail.
// (1) nil error => one value per key, in key order, each for the right commit; values found before come from the store,
// the others were fetched, put, and re-read from the store; (2) any stub failure, any key still missing after the put
// and any duplicate key => error, never a partial result; (3) the delegate is asked exactly for the missing keys and
// exactly its values are put.
func VerifLemma_C09D_Provider() {
	pool := []uuid.UUID{{1}, {2}, {3}}
	n := verifNondetChoice(verifParam("KEYS")) + 1
	w := &vdWorld{inStore: map[uuid.UUID]int{}, delegateHas: map[uuid.UUID]bool{}, putSticks: map[uuid.UUID]bool{}}
	for _, c := range pool {
		if verifNondetBool() {
			w.inStore[c] = 1
		}
		w.delegateHas[c] = verifNondetBool()
		w.putSticks[c] = verifNondetBool()
	}
	keys := make([]vdKey, n)
	dup := false
	for i := range keys {
		keys[i] = vdKey{commit: pool[verifNondetChoice(len(pool))]}
		for j := 0; j < i; j++ {
			if keys[j].commit == keys[i].commit {
				dup = true
			}
		}
	}
	w.getFailAt = verifNondetChoice(3)
	w.delegateFail, w.putFail = verifNondetBool(), verifNondetBool()
	wasInStore := map[uuid.UUID]bool{}
	for c := range w.inStore {
		wasInStore[c] = true
	}
	p := newBaseProvider(slog.Default(), w.delegate, w.storeGet, w.storePut,
		func(k vdKey) uuid.UUID { return k.commit }, func(v vdVal) uuid.UUID { return v.commit })
	vals, err := p.getValuesForKeys(context.Background(), keys)
	verifCover("returned")
	verifAssert(!w.failed || err != nil, "a failing store get, delegate or put is reported")
	// ("The input ModuleKeys are expected to be unique ... The implementation MAY error if this is not the case": duplicate
	// keys are not required to fail; if they do not, the result must still be right - checked below)
	_ = dup
	missingAfter := false
	for _, k := range keys {
		if _, ok := w.inStore[k.commit]; !ok {
			missingAfter = true
		}
	}
	verifAssert(!missingAfter || err != nil, "a key that is still not in the store after the put is an error, never a partial result")
	if err != nil {
		verifAssert(len(vals) == 0, "no values are returned together with an error")
		return
	}
	verifCover("success")
	verifAssert(len(vals) == len(keys), "nil error: exactly one value per key")
	for i := range keys {
		if i < len(vals) {
			verifAssert(vals[i].commit == keys[i].commit, "nil error: values are in key order, each for its key's commit")
			if !wasInStore[keys[i].commit] {
				verifAssert(vals[i].origin == 2 && w.inStore[keys[i].commit] == 2, "a key that was not cached comes from the delegate and is in the store afterwards")
			}
		}
	}
	// every key that was not cached must have been requested from the delegate (it cannot come from anywhere else).
	// Not specified: how often delegate/put are called, whether cached keys are also re-fetched, what else is put.
	for _, k := range keys {
		if !wasInStore[k.commit] {
			asked := false
			for _, d := range w.delegateKeys {
				if d.commit == k.commit {
					asked = true
				}
			}
			verifAssert(asked, "every key that was not cached is requested from the delegate")
		}
	}
}
