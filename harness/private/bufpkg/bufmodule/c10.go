//go:build verif

package bufmodule

import (
	"context"
	"errors"
	"time"

	"github.com/bufbuild/buf/private/bufpkg/bufparse"
	"github.com/bufbuild/buf/private/pkg/storage"
	"github.com/bufbuild/buf/private/pkg/storage/storagemem"
	"github.com/google/uuid"
)

const vMaxMods = 6

// ---- C10-A getModuleDeps ----

const vWKTPath = "google/protobuf/any.proto"

// vWorkspace is a nondet workspace description shared by the stub and the real-module variant of C10-A.
// Module i owns vProtoName(i) (imports: see below) and "q/"+vProtoName(i) (imports the module's own first file:
// never a dependency). adj[i][j]: the first file of module i imports the first file of module j.
// At most one extra feature is present (EXTRA=1):
//   - wkt:  module wktImporter imports google/protobuf/any.proto, which module wktProvider ships (or nobody: -1).
//     A provided well-known type is an ordinary import: it makes wktProvider a dependency.
//   - bad:  module badImporter imports a path that nobody provides.
//   - dup:  module dupHolder also ships a copy of module dupOwner's first file (a .proto path in two modules).
type vWorkspace struct {
	n           int
	adj         [vMaxMods][vMaxMods]bool // effective module edges (incl. the wkt edge)
	imports     [vMaxMods][]string
	extraFile   [vMaxMods]string // additional import-free .proto file shipped by module i ("" = none)
	badImporter int
	dupHolder   int
	dupOwner    int
}

func vNondetWorkspace(maxN int, extra bool) *vWorkspace {
	w := &vWorkspace{badImporter: -1, dupHolder: -1, dupOwner: -1}
	w.n = verifNondetChoice(maxN) + 1
	n := w.n
	for i := 0; i < n; i++ {
		for j := 0; j < n; j++ {
			if i != j && verifNondetBool() {
				w.adj[i][j] = true
			}
		}
	}
	wktImporter, wktProvider := -1, -1
	if extra {
		nWkt, nBad, nDup := n*(n+1), n, n*(n-1)
		mode := verifNondetChoice(1 + nWkt + nBad + nDup)
		switch {
		case mode == 0:
		case mode <= nWkt:
			m := mode - 1
			wktImporter, wktProvider = m/(n+1), m%(n+1)-1
		case mode <= nWkt+nBad:
			w.badImporter = mode - 1 - nWkt
		default:
			m := mode - 1 - nWkt - nBad
			w.dupHolder = m / (n - 1)
			w.dupOwner = m % (n - 1)
			if w.dupOwner >= w.dupHolder {
				w.dupOwner++
			}
		}
	}
	descending := verifNondetBool()
	for i := 0; i < n; i++ {
		if i == wktImporter {
			w.imports[i] = append(w.imports[i], vWKTPath)
		}
		for k := 0; k < n; k++ {
			j := k
			if descending {
				j = n - 1 - k
			}
			if w.adj[i][j] {
				w.imports[i] = append(w.imports[i], vProtoName(j))
			}
		}
		if i == w.badImporter {
			w.imports[i] = append(w.imports[i], "zz/none.proto")
		}
		if i == wktProvider {
			w.extraFile[i] = vWKTPath
		}
		if i == w.dupHolder {
			w.extraFile[i] = vProtoName(w.dupOwner)
		}
	}
	if wktImporter >= 0 && wktProvider >= 0 && wktImporter != wktProvider {
		w.adj[wktImporter][wktProvider] = true
	}
	return w
}

// VerifLemma_C10A_ModuleDeps: 1..N stub modules in a real moduleSet (real getModuleForFilePath) built from a
// vWorkspace. For every root module:
//   - the root lies on a module import cycle                                => *ModuleCycleError
//   - a walked module imports a path nobody provides                        => *ImportNotExistError
//   - a walked module imports a path that two modules provide (even if one
//     of them is the importer itself), or both providers are walked         => *DuplicateProtoPathError
//   - otherwise deps = exactly the modules reachable through imports (root excluded; a module shipping an imported
//     well-known type included, an unprovided well-known type ignored), sorted by OpaqueID, each once,
//     IsDirect <=> imported by a file of the root, Parent imports the dep.
func VerifLemma_C10A_ModuleDeps() {
	ctx := context.Background()
	w := vNondetWorkspace(verifParam("N"), verifParam("EXTRA") != 0)
	n := w.n
	mods := make([]*vModule, n)
	modules := make([]Module, n)
	for i := 0; i < n; i++ {
		mods[i] = &vModule{
			opaqueID: vModuleName(i),
			isTarget: true,
			isLocal:  true,
			files: []vFileSpec{
				{path: vProtoName(i), fileType: FileTypeProto, imports: w.imports[i]},
				{path: "q/" + vProtoName(i), fileType: FileTypeProto, imports: []string{vProtoName(i)}},
			},
		}
		if w.extraFile[i] != "" {
			mods[i].files = append(mods[i].files, vFileSpec{path: w.extraFile[i], fileType: FileTypeProto})
		}
		modules[i] = mods[i]
	}
	moduleSet, err := newModuleSet(modules)
	verifAssert(err == nil && moduleSet != nil, "module set of distinct modules is accepted")
	if err != nil {
		return
	}
	root := verifNondetChoice(n)
	verifCover("workspace built")
	deps, err := getModuleDeps(ctx, mods[root])
	vCheckModuleDeps(w, root, mods[root].Description(), deps, err)
}

// vCheckModuleDeps compares the result of getModuleDeps for module root against the reference closure of adj.
func vCheckModuleDeps(w *vWorkspace, root int, _ string, deps []ModuleDep, err error) {
	n, adj, badImporter := w.n, w.adj, w.badImporter

	reach := adj
	for k := 0; k < n; k++ {
		for i := 0; i < n; i++ {
			for j := 0; j < n; j++ {
				if reach[i][k] && reach[k][j] {
					reach[i][j] = true
				}
			}
		}
	}
	rootOnCycle := reach[root][root]
	badReachable := badImporter >= 0 && (badImporter == root || reach[root][badImporter])
	// The duplicated path is the first file of dupOwner: it is looked up as soon as dupOwner is walked (its own
	// second file imports it) or any walked module imports it, i.e. iff dupOwner is the root or reachable.
	dupHit := w.dupOwner >= 0 && (w.dupOwner == root || reach[root][w.dupOwner])
	if rootOnCycle || badReachable || dupHit {
		verifAssert(err != nil, "cycle through the module, unresolvable import or doubly provided import is an error")
		if err == nil {
			return
		}
		var cycleErr *ModuleCycleError
		var importErr *ImportNotExistError
		isCycle := errors.As(err, &cycleErr)
		isImport := errors.As(err, &importErr)
		isDup := false
		for _, e := range vJoinedErrors(err) {
			var dupErr *DuplicateProtoPathError
			if errors.As(e, &dupErr) {
				isDup = true
				verifAssert(dupErr.ProtoPath == vProtoName(w.dupOwner), "DuplicateProtoPathError names the doubly provided path")
				verifAssert(len(dupErr.ModuleDescriptions) == 2, "DuplicateProtoPathError names both providers")
			}
		}
		verifAssert(isCycle || isImport || isDup, "error is a ModuleCycleError, ImportNotExistError or DuplicateProtoPathError")
		if isDup {
			verifCover("duplicate path reported")
			verifAssert(dupHit, "DuplicateProtoPathError only when the doubly provided path is looked up")
		}
		if isCycle {
			verifCover("module cycle reported")
			verifAssert(rootOnCycle, "ModuleCycleError only when the module is on a cycle")
			descs := cycleErr.Descriptions
			// "Descriptions are the module descriptions that represent the cycle": where the cycle starts and whether
			// the first module is repeated at the end is not documented.
			verifAssert(len(descs) >= 1, "cycle error describes at least one module")
			for _, desc := range descs {
				verifAssert(desc != "", "cycle error descriptions are not empty")
			}
		}
		if isImport {
			verifCover("unresolvable import reported")
			verifAssert(badReachable, "ImportNotExistError only when a reachable file imports an unprovided path")
		}
		return
	}
	verifCover("resolvable acyclic-from-root workspace")
	verifAssert(err == nil, "no error without cycle through the module and without unresolvable import")
	if err != nil {
		return
	}
	seen := [vMaxMods]bool{}
	prev := ""
	for _, dep := range deps {
		j := -1
		for k := 0; k < n; k++ {
			if dep.OpaqueID() == vModuleName(k) {
				j = k
			}
		}
		verifAssert(j >= 0 && j != root, "dep is another module of the set")
		if j < 0 {
			return
		}
		verifAssert(!seen[j], "no dep twice")
		seen[j] = true
		verifAssert(prev < dep.OpaqueID(), "deps sorted by OpaqueID")
		prev = dep.OpaqueID()
		verifAssert(dep.IsDirect() == adj[root][j], "IsDirect iff imported by the module's own files")
		parent := dep.Parent()
		p := -1
		for k := 0; k < n; k++ {
			if parent != nil && parent.OpaqueID() == vModuleName(k) {
				p = k
			}
		}
		// The doc comment of ModuleDep.Parent says the parent is the top-level module the deps were computed for;
		// the code records the importing module. Both readings are accepted (they agree for direct deps).
		verifAssert(p == root || (p >= 0 && adj[p][j] && reach[root][p]), "Parent is the module itself or a reachable module importing the dep")
		if dep.IsDirect() {
			verifAssert(p == root, "Parent of a direct dep is the module")
		}
	}
	for j := 0; j < n; j++ {
		verifAssert(seen[j] == (j != root && reach[root][j]), "deps are exactly the modules reachable through imports")
	}
}

// VerifLemma_C10A_ModuleDepsReal: the same claim driven through the real Module: real newModule over an in-memory
// bucket with concrete .proto sources (import statements scanned by the real fastscan), real moduleReadBucket,
// real newModuleSet, Module.ModuleDeps().
func VerifLemma_C10A_ModuleDepsReal() {
	ctx := context.Background()
	w := vNondetWorkspace(verifParam("N"), verifParam("EXTRA") != 0)
	n := w.n
	modules := make([]Module, n)
	for i := 0; i < n; i++ {
		src := "syntax = \"proto3\";\npackage p" + vModuleName(i) + ";\n"
		for _, imp := range w.imports[i] {
			src += "import \"" + imp + "\";\n"
		}
		src += "message M {}\n"
		data := map[string][]byte{
			vProtoName(i):        []byte(src),
			"q/" + vProtoName(i): []byte("syntax = \"proto3\";\nimport \"" + vProtoName(i) + "\";\n"),
			"LICENSE":            []byte("license"),
		}
		if w.extraFile[i] != "" {
			data[w.extraFile[i]] = []byte("syntax = \"proto3\";\nmessage Extra {}\n")
		}
		bucket, err := storagemem.NewReadBucket(data)
		verifAssert(err == nil, "memory bucket")
		module, err := newModule(
			ctx,
			func() (storage.ReadBucket, error) { return bucket, nil },
			vModuleName(i), "", nil, uuid.Nil, true, true,
			func() (ObjectData, error) { return nil, nil },
			func() (ObjectData, error) { return nil, nil },
			func() ([]ModuleKey, error) { return nil, nil },
			nil, nil, "", false,
		)
		verifAssert(err == nil && module != nil, "real module constructed")
		if err != nil {
			return
		}
		modules[i] = module
	}
	moduleSet, err := newModuleSet(modules)
	verifAssert(err == nil && moduleSet != nil, "module set of distinct modules is accepted")
	if err != nil {
		return
	}
	root := verifNondetChoice(n)
	verifCover("workspace built")
	deps, err := modules[root].ModuleDeps()
	vCheckModuleDeps(w, root, modules[root].Description(), deps, err)
}

// ---- C10-B selectAddedModuleForOpaqueID ----

type vCommitProvider struct {
	CommitProvider
	secs  []int64 // create time per commit index
	fail  bool
	calls int
}

var vErrProvider = errors.New("provider failed")

func vCommitIndex(commitID uuid.UUID) int { return int(commitID[0]) - 1 }

func (p *vCommitProvider) GetCommitsForModuleKeys(ctx context.Context, moduleKeys []ModuleKey) ([]Commit, error) {
	p.calls++
	if p.fail {
		return nil, vErrProvider
	}
	commits := make([]Commit, len(moduleKeys))
	for i, moduleKey := range moduleKeys {
		sec := p.secs[vCommitIndex(moduleKey.CommitID())]
		commits[i] = NewCommit(moduleKey, func() (time.Time, error) { return time.Unix(sec, 0), nil })
	}
	return commits, nil
}

// VerifLemma_C10B_SelectAddedModule: candidates for one OpaqueID (1..K), each local or remote with one of C commit
// ids, each target or not; commit create times are symbolic. The chosen candidate is a target if any is; among
// the considered ones the first local if any; otherwise a remote whose commit has the latest create time (the first
// added one of that commit); the provider is only asked when two distinct remote commits compete and its failure
// is reported.
func VerifLemma_C10B_SelectAddedModule() {
	ctx := context.Background()
	k := verifNondetChoice(verifParam("K")) + 1
	nCommits := verifParam("C")
	fullName, err := bufparse.NewFullName("buf.build", "acme", "dep")
	verifAssert(err == nil, "full name")
	provider := &vCommitProvider{}
	for c := 0; c < nCommits; c++ {
		provider.secs = append(provider.secs, verifNondetInt64(0, 1<<40))
	}
	provider.fail = verifNondetBool()
	candidates := make([]*addedModule, k)
	isLocal := [vMaxMods]bool{}
	isTarget := [vMaxMods]bool{}
	commitOf := [vMaxMods]int{}
	for i := 0; i < k; i++ {
		isLocal[i] = verifNondetBool()
		isTarget[i] = verifNondetBool()
		if isLocal[i] {
			candidates[i] = newLocalAddedModule(&vModule{opaqueID: "buf.build/acme/dep", isLocal: true}, isTarget[i])
		} else {
			commitOf[i] = verifNondetChoice(nCommits)
			moduleKey, err := NewModuleKey(fullName, uuid.UUID{byte(commitOf[i] + 1)}, func() (Digest, error) { return nil, nil })
			verifAssert(err == nil, "module key")
			candidates[i] = newRemoteAddedModule(moduleKey, nil, nil, isTarget[i])
		}
	}
	verifCover("candidates built")
	// The function under test ranges over Go maps, whose native iteration order is random and cannot be driven by
	// a replay. The engine explores every map order on its own (opts.nondetMapOrder); natively the call and its
	// checks are repeated so that an order-dependent violation found by the engine also shows up in the replay.
	repeats := 1
	if !verifInEngine() {
		repeats = 64
	}
	for r := 0; r < repeats; r++ {
		provider.calls = 0
		input := make([]*addedModule, k)
		copy(input, candidates)
		got, err := selectAddedModuleForOpaqueID(ctx, provider, input)
		vCheckSelected(k, candidates, isLocal, isTarget, commitOf, provider, got, err, r == 0)
	}
}

// vCheckSelected compares one result of selectAddedModuleForOpaqueID against the reference rule (cover points only
// on the first repetition, so that engine and native runs report the same cover sequence).
func vCheckSelected(k int, candidates []*addedModule, isLocal [vMaxMods]bool, isTarget [vMaxMods]bool, commitOf [vMaxMods]int, provider *vCommitProvider, got *addedModule, err error, cover bool) {

	// Reference.
	anyTarget := false
	for i := 0; i < k; i++ {
		if isTarget[i] {
			anyTarget = true
		}
	}
	considered := [vMaxMods]bool{}
	for i := 0; i < k; i++ {
		considered[i] = !anyTarget || isTarget[i]
	}
	firstLocal := -1
	for i := k - 1; i >= 0; i-- {
		if considered[i] && isLocal[i] {
			firstLocal = i
		}
	}
	if firstLocal >= 0 {
		if cover {
			verifCover("local wins")
		}
		// Whether the provider is consulted at all in this case is not part of the contract; if it is and fails,
		// reporting that failure is legitimate.
		if err != nil {
			verifAssert(provider.fail && errors.Is(err, vErrProvider), "the only possible error is the provider's")
			return
		}
		verifAssert(got == candidates[firstLocal], "first considered local module is chosen")
		return
	}
	// All considered are remote. Distinct commits among them.
	distinct := 0
	seenCommit := [vMaxMods]bool{}
	for i := 0; i < k; i++ {
		if considered[i] && !seenCommit[commitOf[i]] {
			seenCommit[commitOf[i]] = true
			distinct++
		}
	}
	if distinct == 1 {
		if cover {
			verifCover("single remote commit")
		}
		if err != nil {
			verifAssert(provider.fail && errors.Is(err, vErrProvider), "the only possible error is the provider's")
			return
		}
		verifAssert(got != nil, "a candidate is chosen")
		if got == nil {
			return
		}
		gi := -1
		for i := 0; i < k; i++ {
			if got == candidates[i] {
				gi = i
			}
		}
		verifAssert(gi >= 0 && considered[gi], "chosen is a considered candidate (duplicates of the commit collapse to one of them)")
		return
	}
	if provider.fail {
		if cover {
			verifCover("provider failure")
		}
		verifAssert(err != nil && errors.Is(err, vErrProvider), "provider failure is reported")
		return
	}
	if cover {
		verifCover("newest remote commit")
	}
	verifAssert(err == nil && got != nil, "selection succeeds")
	if got == nil {
		return
	}
	gi := -1
	for i := 0; i < k; i++ {
		if got == candidates[i] {
			gi = i
		}
	}
	verifAssert(gi >= 0 && considered[gi], "chosen is a considered candidate")
	if gi < 0 {
		return
	}
	for i := 0; i < k; i++ {
		if considered[i] {
			verifAssert(provider.secs[commitOf[i]] <= provider.secs[commitOf[gi]], "chosen commit has the latest create time")
		}
	}
}

// ---- C10-C protoFileTracker ----

// VerifLemma_C10C_ProtoFileTracker: M modules are tracked (nondet which), each module's files are a nondet subset of
// a pool of F proto paths plus optionally a LICENSE: validate() reports exactly one DuplicateProtoPathError per
// proto path tracked for two or more modules (naming exactly those modules) and exactly one NoProtoFilesError per
// tracked module without any .proto file; nil otherwise.
func VerifLemma_C10C_ProtoFileTracker() {
	m := verifNondetChoice(verifParam("M")) + 1
	nPaths := verifParam("F")
	tracker := newProtoFileTracker()
	mods := make([]*vModule, m)
	has := [vMaxMods][vMaxMods]bool{}
	tracked := [vMaxMods]bool{}
	anyProto := [vMaxMods]bool{}
	for i := 0; i < m; i++ {
		mods[i] = &vModule{opaqueID: vModuleName(i), isTarget: true}
		tracked[i] = verifNondetBool()
		trackAfter := verifNondetBool()
		if tracked[i] && !trackAfter {
			tracker.trackModule(mods[i])
		}
		for p := 0; p < nPaths; p++ {
			if verifNondetBool() {
				has[i][p] = true
				anyProto[i] = true
				tracker.trackFileInfo(mods[i].vFileInfo(vFileSpec{path: vProtoName(p), fileType: FileTypeProto}))
			}
		}
		if verifNondetBool() {
			tracker.trackFileInfo(mods[i].vFileInfo(vFileSpec{path: "LICENSE", fileType: FileTypeLicense}))
		}
		if tracked[i] && trackAfter {
			tracker.trackModule(mods[i])
		}
	}
	verifCover("tracked")
	err := tracker.validate()
	errs := vJoinedErrors(err)
	wantCount := 0
	for p := 0; p < nPaths; p++ {
		owners := 0
		for i := 0; i < m; i++ {
			if has[i][p] {
				owners++
			}
		}
		found := 0
		for _, e := range errs {
			var dupErr *DuplicateProtoPathError
			if errors.As(e, &dupErr) && dupErr.ProtoPath == vProtoName(p) {
				found++
				verifAssert(len(dupErr.ModuleDescriptions) == owners, "duplicate error names every owner")
				for _, desc := range dupErr.ModuleDescriptions {
					ok := false
					for i := 0; i < m; i++ {
						if has[i][p] && desc == mods[i].Description() {
							ok = true
						}
					}
					verifAssert(ok, "duplicate error names only owners")
				}
			}
		}
		if owners >= 2 {
			verifCover("duplicate path")
			wantCount++
			verifAssert(found == 1, "a proto path in two modules is reported once")
		} else {
			verifAssert(found == 0, "a proto path in at most one module is not reported")
		}
	}
	for i := 0; i < m; i++ {
		found := 0
		for _, e := range errs {
			var noProtoErr *NoProtoFilesError
			if errors.As(e, &noProtoErr) && noProtoErr.ModuleDescription == mods[i].Description() {
				found++
			}
		}
		if tracked[i] && !anyProto[i] {
			verifCover("module without proto files")
			wantCount++
			verifAssert(found == 1, "a tracked module without .proto files is reported once")
		} else {
			verifAssert(found == 0, "a module with .proto files or untracked is not reported")
		}
	}
	verifAssert(len(errs) == wantCount, "no other errors")
	verifAssert((err == nil) == (wantCount == 0), "nil iff nothing to report")
}
