//go:build verif

package bufanalysis

import (
	"bytes"
	"strconv"
)

// Line/column candidates (structural choice: rendering a symbolic int forks per value anyway):
// unknown (0), negative, 1, one/two/three/five digits.
var vIntCands = []int{0, -1, 1, 12345, 7, 10, 99, 100}

// vNondetPos: one of the first INTS candidates; INTS=0 means "positions are not varied" (the caller's default).
func vNondetPos(fixed int) int {
	if verifParam("INTS") == 0 {
		return fixed
	}
	return vIntCands[verifNondetChoice(verifParam("INTS"))]
}

// vNondetPrintAnnotation: annotation with symbolic strings and candidate positions.
func vNondetPrintAnnotation(allInts bool) *fileAnnotation {
	fi := vNondetFileInfo(verifParam("PATH"))
	sl, sc := vNondetPos(3), vNondetPos(4)
	el, ec := 0, 0
	if allInts {
		el, ec = vNondetPos(5), vNondetPos(6)
	}
	return newFileAnnotation(fi, sl, sc, el, ec,
		verifNondetString(verifParam("TYPE")),
		verifNondetString(verifParam("MSG")),
		verifNondetString(verifParam("PLUGIN")))
}

// ---- the tuple every format is supposed to carry ----

func vRefPath(a *fileAnnotation) string {
	if a.fileInfo != nil {
		return a.fileInfo.ExternalPath()
	}
	return "<input>"
}

func vRefAtLeast1(i int) int {
	if i < 1 {
		return 1
	}
	return i
}

// message shown by text and msvs: the message, else the type, else FAILURE.
func vRefShownMessage(a *fileAnnotation) string {
	if a.message != "" {
		return a.message
	}
	if a.typeString != "" {
		return a.typeString
	}
	return "FAILURE"
}

func vRefPluginSuffix(a *fileAnnotation) string {
	if a.pluginName == "" {
		return ""
	}
	return " (" + a.pluginName + ")"
}

// path:line:col:message[ (plugin)]
func vRefText(a *fileAnnotation) string {
	return vRefPath(a) + ":" + strconv.Itoa(vRefAtLeast1(a.startLine)) + ":" + strconv.Itoa(vRefAtLeast1(a.startColumn)) +
		":" + vRefShownMessage(a) + vRefPluginSuffix(a)
}

// path(line,col) : error TYPE : message[ (plugin)]
func vRefMSVS(a *fileAnnotation) string {
	t := a.typeString
	if t == "" {
		t = "FAILURE"
	}
	return vRefPath(a) + "(" + strconv.Itoa(vRefAtLeast1(a.startLine)) + "," + strconv.Itoa(vRefAtLeast1(a.startColumn)) +
		") : error " + t + " : " + vRefShownMessage(a) + vRefPluginSuffix(a)
}

// vRefGithubEscape: the GitHub Actions toolkit's escaping of workflow-command data ('%', CR, LF) and, for
// property values, additionally ':' and ','.
func vRefGithubEscape(s string, property bool) string {
	out := ""
	for i := 0; i < len(s); i++ {
		c := s[i]
		if c == '%' {
			out += "%25"
		} else if c == '\r' {
			out += "%0D"
		} else if c == '\n' {
			out += "%0A"
		} else if property && c == ':' {
			out += "%3A"
		} else if property && c == ',' {
			out += "%2C"
		} else {
			out += s[i : i+1]
		}
	}
	return out
}

// ::error file=path[,line=L[,col=C][,endLine=EL[,endColumn=EC]]]::message[ (plugin)]
// with path escaped as a property value and message/plugin escaped as command data.
// Unknown (<=0) positions are omitted instead of being shown as 1; an end position is only shown with a start line.
func vRefGithub(a *fileAnnotation) string {
	s := "::error file=" + vRefGithubEscape(vRefPath(a), true)
	if a.startLine > 0 {
		s += ",line=" + strconv.Itoa(a.startLine)
		if a.startColumn > 0 {
			s += ",col=" + strconv.Itoa(a.startColumn)
		}
		if a.endLine > 0 {
			s += ",endLine=" + strconv.Itoa(a.endLine)
			if a.endColumn > 0 {
				s += ",endColumn=" + strconv.Itoa(a.endColumn)
			}
		}
	}
	s += "::" + vRefGithubEscape(a.message, false)
	if a.pluginName != "" {
		s += " (" + vRefGithubEscape(a.pluginName, false) + ")"
	}
	return s
}

// VerifLemma_C20B_TextMSVS: the text and msvs renderings of one annotation are exactly the reference layouts
// over the same (path, atLeast1(line), atLeast1(col), type, shown message, plugin) tuple, and String() is the text form.
func VerifLemma_C20B_TextMSVS() {
	a := vNondetPrintAnnotation(false)
	var bt, bm bytes.Buffer
	errT := printFileAnnotationAsText(&bt, a)
	errM := printFileAnnotationAsMSVS(&bm, a)
	verifCover("printed")
	verifAssert(errT == nil && errM == nil, "text/msvs printers do not fail")
	verifAssert(bt.String() == vRefText(a), "text layout")
	verifAssert(a.String() == vRefText(a), "String() is the text layout")
	verifAssert(bm.String() == vRefMSVS(a), "msvs layout")
}

// VerifLemma_C20B_Github: the github-actions rendering is the reference layout over the same tuple
// (positions <= 0 omitted; an end position only together with a start line).
func VerifLemma_C20B_Github() {
	a := vNondetPrintAnnotation(true)
	var bg bytes.Buffer
	err := printFileAnnotationAsGithubActions(&bg, a)
	verifCover("printed")
	verifAssert(err == nil, "github printer does not fail")
	verifAssert(bg.String() == vRefGithub(a), "github-actions layout")
}

// vNondetSmallAnnotation: annotation for the multi-annotation lemma: no file or one of two concrete paths,
// line 1 or 10, one symbolic message byte.
func vNondetSmallAnnotation() *fileAnnotation {
	var fi FileInfo
	switch verifNondetChoice(3) {
	case 1:
		fi = &vFileInfo{path: "in/a.proto", ext: "a.proto"}
	case 2:
		fi = &vFileInfo{path: "in/b,b.proto", ext: "b,b.proto"}
	}
	line := 1
	if verifNondetBool() {
		line = 10
	}
	return newFileAnnotation(fi, line, 0, 0, 0, "T", verifNondetStringN(1), "")
}

// VerifLemma_C20B_Dispatch: PrintFileAnnotationSet(w, set, format) for the line-oriented formats writes, for the
// annotations of set.FileAnnotations() in that order, the format's reference line followed by '\n' and nothing else;
// the format name is matched case-insensitively with surrounding space trimmed, "" and "gcc" mean text;
// an unknown name is an error and writes nothing.
func VerifLemma_C20B_Dispatch() {
	n := verifNondetChoice(verifParam("ANNS")) + 1
	var in []FileAnnotation
	for i := 0; i < n; i++ {
		in = append(in, vNondetSmallAnnotation())
	}
	set := NewFileAnnotationSet(in...)
	verifAssert(set != nil, "a non-empty annotation list gives a set")
	names := []string{"text", "gcc", "", "msvs", "github-actions", " TEXT ", "Github-Actions\n", "xml"}
	k := verifNondetChoice(len(names))
	var w bytes.Buffer
	err := PrintFileAnnotationSet(&w, set, names[k])
	verifCover("dispatched")
	if k == 7 {
		verifAssert(err != nil, "unknown format is an error")
		return
	}
	verifAssert(err == nil, "known format prints without error")
	want := ""
	for _, x := range set.FileAnnotations() {
		a := x.(*fileAnnotation)
		switch k {
		case 0, 1, 2, 5:
			want += vRefText(a)
		case 3:
			want += vRefMSVS(a)
		default:
			want += vRefGithub(a)
		}
		want += "\n"
	}
	verifAssert(w.String() == want, "every annotation of the set, in set order, one reference line each")
}

// VerifLemma_C20B_GithubWellFormed: a github-actions workflow command is one line `::error k=v,k=v::data`; whatever
// path, message and plugin name contain, the rendering of one annotation has no raw CR/LF (they would cut the
// command short), the property list has exactly the separators the printer itself wrote (a raw ':' or ',' in the
// path would end or split the file= value), and every '%' starts one of the five escapes.
func VerifLemma_C20B_GithubWellFormed() {
	fi := vNondetFileInfo(verifParam("PATH"))
	a := newFileAnnotation(fi, 1, 1, 1, 2, "T", verifNondetString(verifParam("MSG")), verifNondetString(verifParam("PLUGIN")))
	var bg bytes.Buffer
	_ = printAsGithubActions(&bg, []FileAnnotation{a})
	out := bg.Bytes()
	verifCover("printed")
	verifAssert(len(out) > 0 && out[len(out)-1] == '\n', "command is newline-terminated")
	hasBreak := false
	for _, s := range []string{vRefPath(a), a.message, a.pluginName} {
		for i := 0; i < len(s); i++ {
			if s[i] == '\n' || s[i] == '\r' {
				hasBreak = true
			}
		}
	}
	// F20 (fixed in c14ebfe): raw line breaks used to be written as they were
	if verifKnown("F20-github-raw-newline", hasBreak) {
		return
	}
	raw := false
	for i := 0; i < len(out)-1; i++ {
		if out[i] == '\n' || out[i] == '\r' {
			raw = true
		}
	}
	verifAssert(!raw, "line breaks in path/message/plugin are escaped, the command stays on one line")
	// the property list: "::error file=<value>,line=1,col=1,endLine=1,endColumn=2::"
	const head = "::error file="
	const tail = ",line=1,col=1,endLine=1,endColumn=2::"
	verifAssert(len(out) >= len(head)+len(tail) && string(out[:len(head)]) == head, "command head")
	// the escaped path is what lies between head and the first ',' / ':' - it must be followed by the printer's own tail
	j := len(head)
	for j < len(out) && out[j] != ',' && out[j] != ':' {
		j++
	}
	verifAssert(j+len(tail) <= len(out) && string(out[j:j+len(tail)]) == tail, "no raw ':' or ',' inside the file= value")
	// every '%' starts an escape
	for i := 0; i < len(out); i++ {
		if out[i] == '%' {
			ok := i+2 < len(out) && ((out[i+1] == '2' && (out[i+2] == '5' || out[i+2] == 'C')) || (out[i+1] == '0' && (out[i+2] == 'D' || out[i+2] == 'A')) || (out[i+1] == '3' && out[i+2] == 'A'))
			verifAssert(ok, "a percent sign only occurs as part of an escape")
		}
	}
}

// VerifLemma_C20B_ExternalStruct: newExternalFileAnnotation - the struct the json printer (and, through String(), the
// junit failure text) is built from - carries exactly the tuple the text format prints: the EXTERNAL path (not the
// module-internal Path(), which the stub makes different), atLeast1 of the four positions, type, message, plugin.
// The encoding of that struct (encoding/json) is outside the claim.
func VerifLemma_C20B_ExternalStruct() {
	hi := verifParam("MAXPOS")
	fi := vNondetFileInfo(verifParam("PATH"))
	a := newFileAnnotation(fi, verifNondetInt(-1, hi), verifNondetInt(-1, hi), verifNondetInt(-1, hi), verifNondetInt(-1, hi),
		verifNondetString(verifParam("TYPE")), verifNondetString(verifParam("MSG")), verifNondetString(verifParam("PLUGIN")))
	e := newExternalFileAnnotation(a)
	verifCover("converted")
	if fi == nil {
		verifAssert(e.Path == "", "no file: empty path (omitted from the json)")
	} else {
		verifCover("with file")
		verifAssert(fi.Path() != fi.ExternalPath(), "stub: internal and external path differ")
		verifAssert(e.Path == fi.ExternalPath(), "json path is the external path, as in every other format")
		verifAssert(e.Path == vRefPath(a), "json path is the path the text format prints")
	}
	verifAssert(e.StartLine == vRefAtLeast1(a.startLine) && e.StartColumn == vRefAtLeast1(a.startColumn), "json start position = the one text prints")
	verifAssert(e.EndLine == vRefAtLeast1(a.endLine) && e.EndColumn == vRefAtLeast1(a.endColumn), "json end position, at least 1")
	verifAssert(e.Type == a.typeString && e.Message == a.message && e.Plugin == a.pluginName, "json type, message and plugin verbatim")
}
