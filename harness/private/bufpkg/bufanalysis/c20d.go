//go:build verif

package bufanalysis

import (
	"bytes"
	"strings"
)

// vJUnitPaths: file names whose order differs between "full external path" and "path without .proto" (or "<input>"),
// next to ordinary ones.
var vJUnitPaths = []string{"", "a.proto", "user.proto", "user-event.proto", "../p/a.proto", "0.proto", "b/b.proto", "user.protox"}

// VerifLemma_C20D_JUnitOrder: PrintFileAnnotationSet in the junit format lists the annotations (the message attribute
// of every <failure>) in exactly the order of the text format, and both in the set's sorted order - for 2..ANNS
// annotations over a catalogue of file names incl. names that sort differently once ".proto" is cut off and an
// annotation without a file. (The same verdict, the same annotations, the same order in every format.)
func VerifLemma_C20D_JUnitOrder() {
	vJUnitOrder(vJUnitPaths, 2)
}

// vJUnitSpellings: different spellings of one file (equal after cleaning) next to a different file - the formats must
// agree on the order whatever notion of "same file" the sort uses.
var vJUnitSpellings = []string{"./p/i.proto", "p/i.proto", "p//i.proto", "p/j.proto"}

// VerifLemma_C20D_JUnitOrderSpellings: same claim as C20-D.junit-order for annotations whose external paths are
// different spellings of the same file, with interleaving line numbers.
func VerifLemma_C20D_JUnitOrderSpellings() {
	vJUnitOrder(vJUnitSpellings, 3)
}

func vJUnitOrder(catalogue []string, maxLine int) {
	n := verifNondetChoice(verifParam("ANNS")-1) + 2
	in := make([]FileAnnotation, n)
	for i := 0; i < n; i++ {
		p := catalogue[verifNondetChoice(len(catalogue))]
		var fi FileInfo
		if p != "" {
			fi = &vFileInfo{path: p, ext: p}
		}
		in[i] = newFileAnnotation(fi, 1+verifNondetChoice(maxLine), 1, 0, 0, "T", "m", "")
	}
	set := NewFileAnnotationSet(in...)
	var text, junit bytes.Buffer
	verifAssert(PrintFileAnnotationSet(&text, set, "text") == nil, "text prints")
	verifAssert(PrintFileAnnotationSet(&junit, set, "junit") == nil, "junit prints")
	verifCover("printed")
	lines := strings.Split(strings.TrimSuffix(text.String(), "\n"), "\n")
	anns := set.FileAnnotations()
	verifAssert(len(lines) == len(anns), "text prints one line per annotation")
	// messages of the <failure> elements, in document order
	var msgs []string
	rest := junit.String()
	for {
		i := strings.Index(rest, "<failure message=\"")
		if i < 0 {
			break
		}
		rest = rest[i+len("<failure message=\""):]
		j := strings.Index(rest, "\"")
		if j < 0 {
			break
		}
		msgs = append(msgs, rest[:j])
		rest = rest[j:]
	}
	verifAssert(len(msgs) == len(anns), "junit prints one failure per annotation")
	for i := 0; i < len(msgs) && i < len(lines) && i < len(anns); i++ {
		want := strings.ReplaceAll(strings.ReplaceAll(lines[i], "<", "&lt;"), ">", "&gt;")
		got := msgs[i]
		verifAssert(got == want, "junit lists the annotations in the same order as the text format")
		verifAssert(lines[i] == anns[i].String(), "text lists the annotations in the set's order")
	}
}
