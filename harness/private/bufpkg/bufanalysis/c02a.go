//go:build verif

package bufanalysis

import "strconv"

const vMinInt = -1 << 63
const vMaxInt = 1<<63 - 1

// VerifLemma_C02A_CompareOrder: fileAnnotationCompareTo is a strict weak order consistent with field
// equality: antisymmetric, transitive (for <, for ==, and mixed), and 0 exactly when the seven sort-key
// fields are equal. Line/column values range over the full int range.
func VerifLemma_C02A_CompareOrder() {
	pn, tn, mn := verifParam("PATH"), verifParam("TYPE"), verifParam("MSG")
	a := vNondetAnnotation(pn, tn, mn, 0, vMinInt, vMaxInt)
	b := vNondetAnnotation(pn, tn, mn, 0, vMinInt, vMaxInt)
	ab := vSign(fileAnnotationCompareTo(a, b))
	ba := vSign(fileAnnotationCompareTo(b, a))
	verifCover("compared")
	verifAssert(ab == -ba, "antisymmetric")
	verifAssert(vSign(fileAnnotationCompareTo(a, a)) == 0, "reflexive")
	verifAssert((ab == 0) == vSameKeyFields(a, b), "compare is 0 iff all sort-key fields are equal")
}

// VerifLemma_C02A_CompareTransitive: a<=b and b<=c imply a<=c, with a<c unless both are equivalences.
// (The other sign combinations follow from antisymmetry, decided by C02-A.compare-order.)
func VerifLemma_C02A_CompareTransitive() {
	pn, tn, mn := verifParam("PATH"), verifParam("TYPE"), verifParam("MSG")
	a := vNondetAnnotation(pn, tn, mn, 0, vMinInt, vMaxInt)
	b := vNondetAnnotation(pn, tn, mn, 0, vMinInt, vMaxInt)
	ab := fileAnnotationCompareTo(a, b)
	verifAssume(ab <= 0)
	c := vNondetAnnotation(pn, tn, mn, 0, vMinInt, vMaxInt)
	bc := fileAnnotationCompareTo(b, c)
	verifAssume(bc <= 0)
	ac := fileAnnotationCompareTo(a, c)
	verifCover("three compared")
	if ab == 0 && bc == 0 {
		verifCover("all equivalent")
		verifAssert(ac == 0, "equivalence is transitive")
	} else {
		verifAssert(ac < 0, "order is transitive")
	}
}

// VerifLemma_C02A_CompareNil: nil annotations sort first and compare equal to each other.
func VerifLemma_C02A_CompareNil() {
	a := vNondetAnnotation(1, 1, 1, 0, vMinInt, vMaxInt)
	verifCover("nil compared")
	verifAssert(fileAnnotationCompareTo(nil, nil) == 0, "nil == nil")
	verifAssert(fileAnnotationCompareTo(nil, a) < 0, "nil < non-nil")
	verifAssert(fileAnnotationCompareTo(a, nil) > 0, "non-nil > nil")
}

// VerifLemma_C02A_HashInts: hash() identifies an annotation: with path, type and message fixed, equal hashes imply
// equal (startLine, startColumn, endLine, endColumn). sha256 is the engine's collision-free uninterpreted hash, so
// a counterexample is a collision of hash()'s own pre-image encoding, not of SHA-256.
func VerifLemma_C02A_HashInts() {
	hi := verifParam("MAXPOS")
	a := newFileAnnotation(nil, verifNondetInt(0, hi), verifNondetInt(0, hi), verifNondetInt(0, hi), verifNondetInt(0, hi), "T", "m", "")
	b := newFileAnnotation(nil, verifNondetInt(0, hi), verifNondetInt(0, hi), verifNondetInt(0, hi), verifNondetInt(0, hi), "T", "m", "")
	ha, hb := hash(a), hash(b)
	verifCover("hashed")
	same := a.startLine == b.startLine && a.startColumn == b.startColumn && a.endLine == b.endLine && a.endColumn == b.endColumn
	if same {
		verifAssert(ha == hb, "equal annotations have equal hashes")
		return
	}
	if verifKnown("F4-hash-no-separators", ha == hb) {
		return
	}
	verifAssert(ha != hb, "annotations differing in a position have different hashes")
}

// VerifLemma_C02A_ItoaModel validates the engine's model of strconv.Itoa (engine/intercepts_strconv.go), which
// hash() and the printers rely on: the rendering is the canonical decimal numeral of x — optional '-', digits only,
// no leading zero, and it evaluates back to x.
func VerifLemma_C02A_ItoaModel() {
	lo, hi := -verifParam("MAXABS"), verifParam("MAXABS")
	if verifParam("FULL") == 1 {
		lo, hi = vMinInt, vMaxInt
	}
	x := verifNondetInt(lo, hi)
	s := strconv.Itoa(x)
	verifCover("rendered")
	verifAssert(len(s) > 0, "non-empty")
	i := 0
	if x < 0 {
		verifAssert(s[0] == '-', "negative numbers start with '-'")
		i = 1
	}
	verifAssert(len(s) > i, "at least one digit")
	if len(s)-i > 1 {
		verifAssert(s[i] != '0', "no leading zero")
	}
	if verifParam("FULL") >= 1 {
		v := 0 // accumulates -|x| so that MinInt is representable
		for ; i < len(s); i++ {
			c := s[i]
			verifAssert(c >= '0' && c <= '9', "digits only (64-bit)")
			v = v*10 - int(c-'0')
		}
		if x < 0 {
			verifAssert(v == x, "numeral evaluates to x (negative, 64-bit)")
		} else {
			verifAssert(-v == x, "numeral evaluates to x (64-bit)")
		}
		return
	}
	// small ranges: 32-bit accumulator (cheaper for the solver; |x| <= MAXABS < 2^31)
	v := int32(0)
	for ; i < len(s); i++ {
		c := s[i]
		verifAssert(c >= '0' && c <= '9', "digits only")
		v = v*10 + int32(c-'0')
	}
	if x < 0 {
		verifAssert(-v == int32(x), "numeral evaluates to x (negative)")
	} else {
		verifAssert(v == int32(x), "numeral evaluates to x")
	}
}
