//go:build verif

package bufanalysis

import (
	"bytes"
	"strconv"
)

const vMinInt = -1 << 63
const vMaxInt = 1<<63 - 1

// VerifLemma_C02A_CompareOrder: fileAnnotationCompareTo is a strict weak order consistent with field
// equality: antisymmetric, transitive (for <, for ==, and mixed), and 0 exactly when the seven sort-key
// fields are equal. Line/column values range over the full int range.
func VerifLemma_C02A_CompareOrder() {
	pn, tn, mn := verifParam("PATH"), verifParam("TYPE"), verifParam("MSG")
	a := vNondetAnnotation(pn, tn, mn, 0, vMinInt, vMaxInt)
	b := vNondetAnnotation(pn, tn, mn, 0, vMinInt, vMaxInt)
	ab := vSign(fileAnnotationCompareTo(a, b))
	ba := vSign(fileAnnotationCompareTo(b, a))
	verifCover("compared")
	verifAssert(ab == -ba, "antisymmetric")
	verifAssert(vSign(fileAnnotationCompareTo(a, a)) == 0, "reflexive")
	verifAssert((ab == 0) == vSameKeyFields(a, b), "compare is 0 iff all sort-key fields are equal")
}

// VerifLemma_C02A_CompareTransitive: a<=b and b<=c imply a<=c, with a<c unless both are equivalences.
// (The other sign combinations follow from antisymmetry, decided by C02-A.compare-order.)
func VerifLemma_C02A_CompareTransitive() {
	pn, tn, mn := verifParam("PATH"), verifParam("TYPE"), verifParam("MSG")
	a := vNondetAnnotation(pn, tn, mn, 0, vMinInt, vMaxInt)
	b := vNondetAnnotation(pn, tn, mn, 0, vMinInt, vMaxInt)
	ab := fileAnnotationCompareTo(a, b)
	verifAssume(ab <= 0)
	c := vNondetAnnotation(pn, tn, mn, 0, vMinInt, vMaxInt)
	bc := fileAnnotationCompareTo(b, c)
	verifAssume(bc <= 0)
	ac := fileAnnotationCompareTo(a, c)
	verifCover("three compared")
	if ab == 0 && bc == 0 {
		verifCover("all equivalent")
		verifAssert(ac == 0, "equivalence is transitive")
	} else {
		verifAssert(ac < 0, "order is transitive")
	}
}

// VerifLemma_C02A_CompareNil: nil annotations compare equal to each other and consistently against non-nil ones.
func VerifLemma_C02A_CompareNil() {
	a := vNondetAnnotation(1, 1, 1, 0, vMinInt, vMaxInt)
	verifCover("nil compared")
	verifAssert(fileAnnotationCompareTo(nil, nil) == 0, "nil == nil")
	// on which side nil sorts is not documented; it must be distinguishable and consistent
	na, an := vSign(fileAnnotationCompareTo(nil, a)), vSign(fileAnnotationCompareTo(a, nil))
	verifAssert(na != 0 && na == -an, "nil and non-nil are ordered consistently")
}

// VerifLemma_C02A_HashInts: hash() identifies an annotation: with path, type and message fixed, equal hashes imply
// equal (startLine, startColumn, endLine, endColumn). sha256 is the engine's collision-free uninterpreted hash, so
// a counterexample is a collision of hash()'s own pre-image encoding, not of SHA-256.
func VerifLemma_C02A_HashInts() {
	hi := verifParam("MAXPOS")
	a := newFileAnnotation(nil, verifNondetInt(0, hi), verifNondetInt(0, hi), verifNondetInt(0, hi), verifNondetInt(0, hi), "T", "m", "")
	b := newFileAnnotation(nil, verifNondetInt(0, hi), verifNondetInt(0, hi), verifNondetInt(0, hi), verifNondetInt(0, hi), "T", "m", "")
	ha, hb := hash(a), hash(b)
	verifCover("hashed")
	same := a.startLine == b.startLine && a.startColumn == b.startColumn && a.endLine == b.endLine && a.endColumn == b.endColumn
	if same {
		verifAssert(ha == hb, "equal annotations have equal hashes")
		return
	}
	if verifKnown("F4-hash-no-separators", ha == hb) {
		return
	}
	verifAssert(ha != hb, "annotations differing in a position have different hashes")
}

// VerifLemma_C02A_ItoaModel validates the engine's model of strconv.Itoa (engine/intercepts_strconv.go), which
// hash() and the printers rely on: the rendering is the canonical decimal numeral of x — optional '-', digits only,
// no leading zero, and it evaluates back to x.
func VerifLemma_C02A_ItoaModel() {
	lo, hi := -verifParam("MAXABS"), verifParam("MAXABS")
	x := verifNondetInt(lo, hi)
	s := strconv.Itoa(x)
	verifCover("rendered")
	verifAssert(len(s) > 0, "non-empty")
	i := 0
	if x < 0 {
		verifAssert(s[0] == '-', "negative numbers start with '-'")
		i = 1
	}
	verifAssert(len(s) > i, "at least one digit")
	if len(s)-i > 1 {
		verifAssert(s[i] != '0', "no leading zero")
	}
	// 32-bit accumulator (|x| <= MAXABS < 2^31); the 64-bit evaluation of numerals with 10+ digits times out in z3
	v := int32(0)
	for ; i < len(s); i++ {
		c := s[i]
		verifAssert(c >= '0' && c <= '9', "digits only")
		v = v*10 + int32(c-'0')
	}
	if x < 0 {
		verifAssert(-v == int32(x), "numeral evaluates to x (negative)")
	} else {
		verifAssert(v == int32(x), "numeral evaluates to x")
	}
}

// VerifLemma_C02A_HashFields: the same question for the string fields: with equal positions, equal hashes imply
// equal (file, type, message).
func VerifLemma_C02A_HashFields() {
	pn, tn, mn := verifParam("PATH"), verifParam("TYPE"), verifParam("MSG")
	a := newFileAnnotation(vNondetFileInfo(pn), 3, 4, 5, 6, verifNondetString(tn), verifNondetString(mn), "")
	b := newFileAnnotation(vNondetFileInfo(pn), 3, 4, 5, 6, verifNondetString(tn), verifNondetString(mn), "")
	ha, hb := hash(a), hash(b)
	verifCover("hashed")
	if vSameKeyFields(a, b) {
		verifCover("same fields")
		verifAssert(ha == hb, "equal annotations have equal hashes")
		return
	}
	if verifKnown("F4-hash-no-separators", ha == hb) {
		return
	}
	verifAssert(ha != hb, "annotations differing in file, type or message have different hashes")
}

// vPluginFollowsType: within one check run rule IDs are unique across plugins
// (bufcheck.validateNoDuplicateRulesOrCategories), so two annotations of the same type carry the same plugin name.
func vPluginFollowsType(a, b *fileAnnotation) bool {
	return a.typeString != b.typeString || a.pluginName == b.pluginName
}

// VerifLemma_C02A_CompareZeroSameText: annotations that the sort order cannot tell apart are rendered identically
// (text, msvs, github-actions), so that the order of equivalent annotations cannot show in any output.
func VerifLemma_C02A_CompareZeroSameText() {
	pn, tn, mn, gn := verifParam("PATH"), verifParam("TYPE"), verifParam("MSG"), verifParam("PLUGIN")
	hi := verifParam("MAXPOS")
	a := vNondetAnnotation(pn, tn, mn, gn, -1, hi)
	b := vNondetAnnotation(pn, tn, mn, gn, -1, hi)
	if verifParam("ENDPOS") == 0 {
		// quick tier: end positions are not varied
		a.endLine, a.endColumn, b.endLine, b.endColumn = 0, 0, 0, 0
	}
	verifAssume(vPluginFollowsType(a, b))
	verifAssume(fileAnnotationCompareTo(a, b) == 0)
	verifCover("equivalent pair")
	verifAssert(a.String() == b.String(), "same text rendering")
	var ma, mb, ga, gb bytes.Buffer
	_ = printFileAnnotationAsMSVS(&ma, a)
	_ = printFileAnnotationAsMSVS(&mb, b)
	_ = printFileAnnotationAsGithubActions(&ga, a)
	_ = printFileAnnotationAsGithubActions(&gb, b)
	verifAssert(ma.String() == mb.String(), "same msvs rendering")
	verifAssert(ga.String() == gb.String(), "same github-actions rendering")
	verifAssert(hash(a) == hash(b), "same de-duplication key")
}

func vSameAllFields(a, b FileAnnotation) bool {
	return vSameKeyFields(a, b) && a.PluginName() == b.PluginName()
}

// VerifLemma_C02A_DedupPermutation: deduplicateAndSortFileAnnotations gives the same sequence (field-wise) for the
// input and for its permutations (n=2: swap; n=3: swap of the first two and rotation, which generate all six),
// the input slice is not modified, the output is strictly increasing in the documented order and has exactly the
// distinct annotations of the input.
func VerifLemma_C02A_DedupPermutation() {
	n := verifParam("ANNS")
	hi := verifParam("MAXPOS")
	xs := make([]FileAnnotation, n)
	as := make([]*fileAnnotation, n)
	for i := 0; i < n; i++ {
		as[i] = newFileAnnotation(vNondetFileInfo(verifParam("PATH")),
			verifNondetInt(0, hi), verifNondetInt(0, hi), 0, 0,
			verifNondetStringN(1), verifNondetString(verifParam("MSG")), verifNondetStringN(verifParam("PLUGINLEN")))
		xs[i] = as[i]
	}
	for i := 0; i < n; i++ {
		for j := 0; j < i; j++ {
			verifAssume(vPluginFollowsType(as[i], as[j]))
		}
	}
	// known defect F4: two different annotations with the same de-duplication key
	collide := false
	for i := 0; i < n; i++ {
		for j := 0; j < i; j++ {
			if hash(xs[i]) == hash(xs[j]) && !vSameAllFields(xs[i], xs[j]) {
				collide = true
			}
		}
	}
	if verifKnown("F4-hash-no-separators", collide) {
		return
	}
	in0 := append([]FileAnnotation(nil), xs...)
	out := deduplicateAndSortFileAnnotations(xs)
	verifCover("deduplicated")
	for i := 0; i < n; i++ {
		verifAssert(xs[i] == in0[i], "the input slice is left as it was")
	}
	// strictly increasing, every input represented, nothing invented
	for i := 1; i < len(out); i++ {
		verifAssert(fileAnnotationCompareTo(out[i-1], out[i]) < 0, "output strictly increasing in the documented order")
	}
	for i := 0; i < n; i++ {
		found := false
		for _, o := range out {
			if vSameAllFields(o, xs[i]) {
				found = true
			}
		}
		verifAssert(found, "every input annotation is represented in the output")
	}
	for _, o := range out {
		found := false
		for i := 0; i < n; i++ {
			if vSameAllFields(o, xs[i]) {
				found = true
			}
		}
		verifAssert(found, "every output annotation is (field-wise) one of the inputs")
	}
	// permutations
	perms := [][]int{{1, 0, 2}, {1, 2, 0}}
	for _, p := range perms {
		ys := make([]FileAnnotation, n)
		for i := 0; i < n; i++ {
			k := p[i]
			if n == 2 {
				k = 1 - i
			}
			ys[i] = xs[k]
		}
		out2 := deduplicateAndSortFileAnnotations(ys)
		verifAssert(len(out2) == len(out), "same number of annotations for a permuted input")
		if len(out2) == len(out) {
			for i := range out {
				verifAssert(vSameAllFields(out[i], out2[i]), "same annotation at every position for a permuted input")
			}
		}
		if n == 2 {
			break
		}
	}
}
