//go:build verif

package bufanalysis

const vMinInt = -1 << 63
const vMaxInt = 1<<63 - 1

// VerifLemma_C02A_CompareOrder: fileAnnotationCompareTo is a strict weak order consistent with field
// equality: antisymmetric, transitive (for <, for ==, and mixed), and 0 exactly when the seven sort-key
// fields are equal. Line/column values range over the full int range.
func VerifLemma_C02A_CompareOrder() {
	pn, tn, mn := verifParam("PATH"), verifParam("TYPE"), verifParam("MSG")
	a := vNondetAnnotation(pn, tn, mn, 0, vMinInt, vMaxInt)
	b := vNondetAnnotation(pn, tn, mn, 0, vMinInt, vMaxInt)
	ab := vSign(fileAnnotationCompareTo(a, b))
	ba := vSign(fileAnnotationCompareTo(b, a))
	verifCover("compared")
	verifAssert(ab == -ba, "antisymmetric")
	verifAssert(vSign(fileAnnotationCompareTo(a, a)) == 0, "reflexive")
	verifAssert((ab == 0) == vSameKeyFields(a, b), "compare is 0 iff all sort-key fields are equal")
	if verifParam("THREE") == 0 {
		return
	}
	c := vNondetAnnotation(pn, tn, mn, 0, vMinInt, vMaxInt)
	bc := vSign(fileAnnotationCompareTo(b, c))
	ac := vSign(fileAnnotationCompareTo(a, c))
	verifCover("three compared")
	if ab <= 0 && bc <= 0 {
		if ab == 0 && bc == 0 {
			verifAssert(ac == 0, "equivalence is transitive")
		} else {
			verifAssert(ac < 0, "order is transitive")
		}
	}
}

// VerifLemma_C02A_CompareNil: nil annotations sort first and compare equal to each other.
func VerifLemma_C02A_CompareNil() {
	a := vNondetAnnotation(1, 1, 1, 0, vMinInt, vMaxInt)
	verifCover("nil compared")
	verifAssert(fileAnnotationCompareTo(nil, nil) == 0, "nil == nil")
	verifAssert(fileAnnotationCompareTo(nil, a) < 0, "nil < non-nil")
	verifAssert(fileAnnotationCompareTo(a, nil) > 0, "non-nil > nil")
}
