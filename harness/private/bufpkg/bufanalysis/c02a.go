//go:build verif

package bufanalysis

const vMinInt = -1 << 63
const vMaxInt = 1<<63 - 1

// VerifLemma_C02A_CompareOrder: fileAnnotationCompareTo is a strict weak order consistent with field
// equality: antisymmetric, transitive (for <, for ==, and mixed), and 0 exactly when the seven sort-key
// fields are equal. Line/column values range over the full int range.
func VerifLemma_C02A_CompareOrder() {
	pn, tn, mn := verifParam("PATH"), verifParam("TYPE"), verifParam("MSG")
	a := vNondetAnnotation(pn, tn, mn, 0, vMinInt, vMaxInt)
	b := vNondetAnnotation(pn, tn, mn, 0, vMinInt, vMaxInt)
	ab := vSign(fileAnnotationCompareTo(a, b))
	ba := vSign(fileAnnotationCompareTo(b, a))
	verifCover("compared")
	verifAssert(ab == -ba, "antisymmetric")
	verifAssert(vSign(fileAnnotationCompareTo(a, a)) == 0, "reflexive")
	verifAssert((ab == 0) == vSameKeyFields(a, b), "compare is 0 iff all sort-key fields are equal")
}

// VerifLemma_C02A_CompareTransitive: a<=b and b<=c imply a<=c, with a<c unless both are equivalences.
// (The other sign combinations follow from antisymmetry, decided by C02-A.compare-order.)
func VerifLemma_C02A_CompareTransitive() {
	pn, tn, mn := verifParam("PATH"), verifParam("TYPE"), verifParam("MSG")
	a := vNondetAnnotation(pn, tn, mn, 0, vMinInt, vMaxInt)
	b := vNondetAnnotation(pn, tn, mn, 0, vMinInt, vMaxInt)
	ab := fileAnnotationCompareTo(a, b)
	verifAssume(ab <= 0)
	c := vNondetAnnotation(pn, tn, mn, 0, vMinInt, vMaxInt)
	bc := fileAnnotationCompareTo(b, c)
	verifAssume(bc <= 0)
	ac := fileAnnotationCompareTo(a, c)
	verifCover("three compared")
	if ab == 0 && bc == 0 {
		verifCover("all equivalent")
		verifAssert(ac == 0, "equivalence is transitive")
	} else {
		verifAssert(ac < 0, "order is transitive")
	}
}

// VerifLemma_C02A_CompareNil: nil annotations sort first and compare equal to each other.
func VerifLemma_C02A_CompareNil() {
	a := vNondetAnnotation(1, 1, 1, 0, vMinInt, vMaxInt)
	verifCover("nil compared")
	verifAssert(fileAnnotationCompareTo(nil, nil) == 0, "nil == nil")
	verifAssert(fileAnnotationCompareTo(nil, a) < 0, "nil < non-nil")
	verifAssert(fileAnnotationCompareTo(a, nil) > 0, "non-nil > nil")
}

// VerifLemma_C02A_HashInts: hash() identifies an annotation: with path, type and message fixed, equal hashes imply
// equal (startLine, startColumn, endLine, endColumn). sha256 is the engine's collision-free uninterpreted hash, so
// a counterexample is a collision of hash()'s own pre-image encoding, not of SHA-256.
func VerifLemma_C02A_HashInts() {
	hi := verifParam("MAXPOS")
	a := newFileAnnotation(nil, verifNondetInt(0, hi), verifNondetInt(0, hi), verifNondetInt(0, hi), verifNondetInt(0, hi), "T", "m", "")
	b := newFileAnnotation(nil, verifNondetInt(0, hi), verifNondetInt(0, hi), verifNondetInt(0, hi), verifNondetInt(0, hi), "T", "m", "")
	ha, hb := hash(a), hash(b)
	verifCover("hashed")
	same := a.startLine == b.startLine && a.startColumn == b.startColumn && a.endLine == b.endLine && a.endColumn == b.endColumn
	if same {
		verifAssert(ha == hb, "equal annotations have equal hashes")
		return
	}
	if verifKnown("F4-hash-no-separators", ha == hb) {
		return
	}
	verifAssert(ha != hb, "annotations differing in a position have different hashes")
}
