//go:build verif

package bufanalysis

// VerifLemma_C20C_Grouping: groupAnnotationsByPath partitions the slice by shown path ("<input>" for no file),
// keeps the input order inside each group, and orders groups by first occurrence.
func VerifLemma_C20C_Grouping() {
	n := verifNondetChoice(verifParam("ANNS") + 1)
	in := make([]FileAnnotation, n)
	paths := make([]string, n)
	for i := 0; i < n; i++ {
		a := newFileAnnotation(vNondetFileInfo(verifParam("PATH")), i+1, 0, 0, 0, "T", "", "")
		in[i] = a
		paths[i] = vRefPath(a)
	}
	groups := groupAnnotationsByPath(in)
	verifCover("grouped")
	// flatten: every input exactly once; positions strictly increasing within a group
	seen := make([]int, n)
	total := 0
	for gi, g := range groups {
		verifAssert(len(g) > 0, "no empty group")
		first := g[0].StartLine() - 1
		// first-seen order: the first member of group gi precedes the first member of group gi+1
		if gi > 0 {
			verifAssert(groups[gi-1][0].StartLine()-1 < first, "groups ordered by first occurrence")
		}
		prev := -1
		for _, x := range g {
			idx := x.StartLine() - 1
			verifAssert(idx > prev, "input order kept inside a group")
			prev = idx
			seen[idx]++
			total++
			verifAssert(paths[idx] == paths[first], "one path per group")
		}
		// distinct groups have distinct paths
		for gj := 0; gj < gi; gj++ {
			verifAssert(paths[groups[gj][0].StartLine()-1] != paths[first], "one group per path")
		}
	}
	verifAssert(total == n, "nothing added or lost")
	for i := 0; i < n; i++ {
		verifAssert(seen[i] == 1, "every annotation in exactly one group")
	}
	if n == 0 {
		verifAssert(len(groups) == 0, "no annotations, no groups")
	}
}
