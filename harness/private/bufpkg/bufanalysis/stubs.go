//go:build verif

package bufanalysis

// vFileInfo is the stub FileInfo: only the two strings the interface exposes.
type vFileInfo struct{ path, ext string }

func (f *vFileInfo) Path() string         { return f.path }
func (f *vFileInfo) ExternalPath() string { return f.ext }

// vNondetFileInfo: nil (annotation without a file) or a FileInfo with a non-empty symbolic external path of
// 1..pathN bytes. (An empty external path does not occur: buf's FileInfos carry validated non-empty paths.)
func vNondetFileInfo(pathN int) FileInfo {
	if verifNondetBool() {
		return nil
	}
	n := verifNondetChoice(pathN) + 1
	ext := verifNondetStringN(n)
	// Path() (the path inside the module) always differs from ExternalPath() (what the user sees), so that a printer
	// or key that reads the wrong one cannot go unnoticed.
	return &vFileInfo{path: "in/" + ext + ".p", ext: ext}
}

// vNondetAnnotation builds a real *fileAnnotation with symbolic fields. Line/column values range over lo..hi.
func vNondetAnnotation(pathN, typeN, msgN, pluginN int, lo, hi int) *fileAnnotation {
	fi := vNondetFileInfo(pathN)
	return newFileAnnotation(
		fi,
		verifNondetInt(lo, hi),
		verifNondetInt(lo, hi),
		verifNondetInt(lo, hi),
		verifNondetInt(lo, hi),
		verifNondetString(typeN),
		verifNondetString(msgN),
		verifNondetString(pluginN),
	)
}

func vSign(x int) int {
	if x < 0 {
		return -1
	}
	if x > 0 {
		return 1
	}
	return 0
}

func vPathOf(a FileAnnotation) (string, bool) {
	if fi := a.FileInfo(); fi != nil {
		return fi.ExternalPath(), true
	}
	return "", false
}

// vSameKeyFields: the seven fields the documented sort order names are pairwise equal.
func vSameKeyFields(a, b FileAnnotation) bool {
	ap, aok := vPathOf(a)
	bp, bok := vPathOf(b)
	if aok != bok {
		return false
	}
	if ap != bp {
		return false
	}
	if a.StartLine() != b.StartLine() {
		return false
	}
	if a.StartColumn() != b.StartColumn() {
		return false
	}
	if a.EndLine() != b.EndLine() {
		return false
	}
	if a.EndColumn() != b.EndColumn() {
		return false
	}
	if a.Type() != b.Type() {
		return false
	}
	if a.Message() != b.Message() {
		return false
	}
	return true
}
