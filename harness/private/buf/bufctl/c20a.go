//go:build verif

package bufctl

import (
	"errors"
	"fmt"
	"io"

	"github.com/bufbuild/buf/private/bufpkg/bufanalysis"
	"github.com/bufbuild/buf/private/pkg/app"
)

type vWriter struct {
	data   []byte
	fail   bool
	writes int
}

var vErrWrite = errors.New("write failed")

func (w *vWriter) Write(p []byte) (int, error) {
	w.writes++
	if w.fail {
		return 0, vErrWrite
	}
	w.data = append(w.data, p...)
	return len(p), nil
}

type vStdio struct {
	app.EnvStdioContainer
	out, err *vWriter
}

func (s *vStdio) Stdout() io.Writer { return s.out }
func (s *vStdio) Stderr() io.Writer { return s.err }

// VerifLemma_C20A_HandleAnnotationError: controller.handleFileAnnotationSetRetError
//   - leaves nil and annotation-free errors untouched and prints nothing;
//   - for any chain containing a FileAnnotationSet prints the set (here: text format = set.String()+"\n") to the
//     selected stream only and replaces the error by ErrFileAnnotation (exit 100);
//   - if printing fails (unknown format, failing writer) the error stays non-nil with a non-100, non-zero status.
func VerifLemma_C20A_HandleAnnotationError() {
	out, errw := &vWriter{}, &vWriter{}
	toStdout := verifNondetBool()
	formats := []string{"text", "", "msvs", "github-actions", "no-such-format"}
	fk := verifNondetChoice(len(formats))
	c := &controller{
		container:                 &vStdio{out: out, err: errw},
		fileAnnotationErrorFormat: formats[fk],
		fileAnnotationsToStdout:   toStdout,
	}
	sel, other := errw, out
	if toStdout {
		sel, other = out, errw
	}
	sel.fail = verifNondetBool()

	var set bufanalysis.FileAnnotationSet
	var e error
	hasSet := false
	switch verifNondetChoice(3) {
	case 0:
		e = nil
	case 1:
		e = errors.New(verifNondetString(1))
	case 2:
		n := verifNondetChoice(2) + 1
		var anns []bufanalysis.FileAnnotation
		for i := 0; i < n; i++ {
			anns = append(anns, bufanalysis.NewFileAnnotation(nil, i+1, 1, i+1, 2, "T", verifNondetStringN(1), ""))
		}
		set = bufanalysis.NewFileAnnotationSet(anns...)
		e = set
		hasSet = true
	}
	if e != nil {
		switch verifNondetChoice(4) {
		case 1:
			e = fmt.Errorf("ctx: %w", e)
		case 2:
			e = errors.Join(errors.New("other"), e)
		case 3:
			e = fmt.Errorf("outer: %w", errors.Join(e, errors.New("other")))
		}
	}
	orig := e
	retErr := e
	c.handleFileAnnotationSetRetError(&retErr)
	verifCover("handled")
	verifAssert(other.writes == 0, "the other stream is never written")
	if !hasSet {
		verifCover("no annotations")
		verifAssert(retErr == orig, "errors without annotations are left untouched")
		verifAssert(sel.writes == 0, "nothing is printed without annotations")
		verifAssert((app.GetExitCode(retErr) == 0) == (orig == nil), "status 0 iff no error")
		verifAssert(app.GetExitCode(retErr) != ExitCodeFileAnnotation, "no annotations, no status 100")
		return
	}
	if fk == 4 || sel.fail {
		verifCover("printing failed")
		verifAssert(retErr != nil && retErr != ErrFileAnnotation, "a printing failure is reported as such")
		code := app.GetExitCode(retErr)
		verifAssert(code != 0 && code != ExitCodeFileAnnotation, "printing failure: non-zero, not 100")
		return
	}
	verifCover("annotations printed")
	verifAssert(retErr == ErrFileAnnotation, "annotations printed: the sentinel error is returned")
	verifAssert(app.GetExitCode(retErr) == ExitCodeFileAnnotation, "annotations printed: status 100")
	verifAssert(retErr.Error() == "", "the sentinel prints no further message")
	verifAssert(len(sel.data) > 0, "something was printed")
	if fk <= 1 {
		verifAssert(string(sel.data) == set.String()+"\n", "text format prints the set's own rendering")
	}
	lines := 0
	for _, b := range sel.data {
		if b == '\n' {
			lines++
		}
	}
	if !vHasNewline(set) {
		verifAssert(lines == len(set.FileAnnotations()), "one line per annotation of the set")
	}
}

// vHasNewline: a message byte may itself be a line break (text formats do not escape); such sets are
// excluded from the line count.
func vHasNewline(set bufanalysis.FileAnnotationSet) bool {
	for _, a := range set.FileAnnotations() {
		m := a.Message()
		for i := 0; i < len(m); i++ {
			if m[i] == '\n' {
				return true
			}
		}
	}
	return false
}
