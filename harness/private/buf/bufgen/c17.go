//go:build verif

package bufgen

import (
	"context"
	"log/slog"

	"github.com/bufbuild/buf/private/buf/bufprotopluginexec"
	"github.com/bufbuild/buf/private/bufpkg/bufconfig"
	"github.com/bufbuild/buf/private/bufpkg/bufimage"
	"github.com/bufbuild/buf/private/pkg/app"
	"github.com/bufbuild/buf/private/pkg/thread"
	"github.com/google/uuid"
	"google.golang.org/protobuf/types/descriptorpb"
	"google.golang.org/protobuf/types/pluginpb"
)

// ---- C17-D (grpI; identifiers prefixed vi): every plugin group gets the image filtered by ITS OWN type filter ----

// viPluginConfig is a stub local plugin config.
type viPluginConfig struct {
	bufconfig.GeneratePluginConfig
	name     string
	include  []string
	exclude  []string
	strategy bufconfig.GenerateStrategy
}

func (c *viPluginConfig) Name() string                        { return c.name }
func (c *viPluginConfig) Out() string                         { return "gen/" + c.name }
func (c *viPluginConfig) Opt() string                         { return "" }
func (c *viPluginConfig) IncludeImports() bool                { return false }
func (c *viPluginConfig) IncludeWKT() bool                    { return false }
func (c *viPluginConfig) Strategy() bufconfig.GenerateStrategy { return c.strategy }
func (c *viPluginConfig) Path() []string                      { return nil }
func (c *viPluginConfig) ProtocPath() []string                { return nil }
func (c *viPluginConfig) RemoteHost() string                  { return "" }
func (c *viPluginConfig) IncludeTypes() []string              { return c.include }
func (c *viPluginConfig) ExcludeTypes() []string              { return c.exclude }

// viExec stands for bufprotopluginexec.Generator (no plugin is executed): it records, per plugin name, what the
// requests ask the plugin to generate: every file to generate with the message names its descriptor still has.
type viExec struct {
	names []string
	seen  []string
}

func (e *viExec) Generate(
	ctx context.Context,
	container app.EnvStderrContainer,
	pluginName string,
	requests []*pluginpb.CodeGeneratorRequest,
	options ...bufprotopluginexec.GenerateOption,
) (*pluginpb.CodeGeneratorResponse, error) {
	summary := ""
	for _, request := range requests {
		summary += "["
		for _, fileName := range request.FileToGenerate {
			summary += fileName + "{"
			for _, fdp := range request.ProtoFile {
				if fdp.GetName() == fileName {
					for _, message := range fdp.MessageType {
						summary += message.GetName() + ","
					}
				}
			}
			summary += "}"
		}
		summary += "]"
	}
	e.names = append(e.names, pluginName)
	e.seen = append(e.seen, summary)
	return &pluginpb.CodeGeneratorResponse{}, nil
}

func (e *viExec) summaryOf(pluginName string) (string, int) {
	summary, n := "", 0
	for i, name := range e.names {
		if name == pluginName {
			summary = e.seen[i]
			n++
		}
	}
	return summary, n
}

func viStr(s string) *string { return &s }

// viImage: a/a.proto (package a: Foo, Foo2) and b/b.proto (package b: Bar, Bar2), both targeted, no imports.
func viImage() bufimage.Image {
	var files []bufimage.ImageFile
	for _, spec := range [][]string{{"a/a.proto", "a", "Foo", "Foo2"}, {"b/b.proto", "b", "Bar", "Bar2"}} {
		fdp := &descriptorpb.FileDescriptorProto{
			Name: viStr(spec[0]), Package: viStr(spec[1]), Syntax: viStr("proto3"),
			MessageType: []*descriptorpb.DescriptorProto{{Name: viStr(spec[2])}, {Name: viStr(spec[3])}},
		}
		file, err := bufimage.NewImageFile(fdp, nil, uuid.Nil, "", "", false, false, nil)
		if err != nil {
			verifAssume(false)
		}
		files = append(files, file)
	}
	image, err := bufimage.NewImage(files)
	if err != nil {
		verifAssume(false)
	}
	return image
}

// viNondetPluginConfig: no type filter, or types / exclude_types naming one message of one of the two files;
// strategy all or directory.
func viNondetPluginConfig(name string) *viPluginConfig {
	config := &viPluginConfig{name: name, strategy: bufconfig.GenerateStrategyAll}
	if verifParam("STRATEGIES") > 1 && verifNondetBool() {
		config.strategy = bufconfig.GenerateStrategyDirectory
	}
	types := []string{"a.Foo", "b.Bar"}
	switch verifNondetChoice(3) {
	case 1:
		config.include = []string{types[verifNondetChoice(len(types))]}
	case 2:
		config.exclude = []string{types[verifNondetChoice(len(types))]}
	}
	return config
}

// VerifLemma_C17D_PerPluginTypeFilter: execPlugins over 2..PLUGINS local plugin configs with arbitrary type filters,
// for every iteration order of the map of plugin groups: each plugin is asked to generate exactly what it is asked
// when it is the only plugin (its own filter applied to the original image) - no filter leaks between plugin groups.
func VerifLemma_C17D_PerPluginTypeFilter() {
	ctx := context.Background()
	thread.SetParallelism(1)
	n := 2
	if verifParam("PLUGINS") > 2 {
		n += verifNondetChoice(verifParam("PLUGINS") - 1)
	}
	names := []string{"p0", "p1", "p2"}
	var configs []bufconfig.GeneratePluginConfig
	for i := 0; i < n; i++ {
		configs = append(configs, viNondetPluginConfig(names[i]))
	}
	// reference: every plugin alone on a fresh copy of the original image
	var alone []string
	for _, config := range configs {
		exec := &viExec{}
		g := &generator{logger: slog.Default(), pluginexecGenerator: exec}
		responses, err := g.execPlugins(ctx, nil, []bufconfig.GeneratePluginConfig{config}, viImage(), nil, nil)
		verifAssert(err == nil && len(responses) == 1, "a single plugin with a valid type filter is executed")
		summary, calls := exec.summaryOf(config.Name())
		verifAssert(calls == 1, "a single plugin is executed exactly once")
		alone = append(alone, summary)
	}
	exec := &viExec{}
	g := &generator{logger: slog.Default(), pluginexecGenerator: exec}
	responses, err := g.execPlugins(ctx, nil, configs, viImage(), nil, nil)
	verifCover("execPlugins returned")
	verifAssert(err == nil, "plugins with independent type filters are all executed")
	verifAssert(len(responses) == n, "one response per plugin")
	for i, config := range configs {
		summary, calls := exec.summaryOf(config.Name())
		verifAssert(calls == 1, "every plugin is executed exactly once")
		verifAssert(summary == alone[i], "every plugin is asked to generate what its own filter selects from the original image")
		verifAssert(responses[i] != nil, "every plugin has its response at its own index")
	}
}
