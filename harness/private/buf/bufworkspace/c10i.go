//go:build verif

package bufworkspace

import (
	"bytes"
	"context"

	"github.com/bufbuild/buf/private/bufpkg/bufcas"
	"github.com/bufbuild/buf/private/bufpkg/bufconfig"
	"github.com/bufbuild/buf/private/bufpkg/bufmodule"
	"github.com/bufbuild/buf/private/bufpkg/bufparse"
	"github.com/bufbuild/buf/private/pkg/slogext"
	"github.com/bufbuild/buf/private/pkg/storage"
	"github.com/bufbuild/buf/private/pkg/storage/storagemem"
	"github.com/google/uuid"
)

// ---- C10-I (grpF): v1 workspaces: every module's buf.lock pins become remote modules of the workspace ----

func vwDepName(d int) string {
	if d == 0 {
		return "buf.build/acme/d0"
	}
	return "buf.build/acme/d1"
}

func vwDepKey(d int) bufmodule.ModuleKey {
	fullName, err := bufparse.ParseFullName(vwDepName(d))
	verifAssert(err == nil, "dep name")
	bufcasDigest, err := bufcas.NewDigestForContent(bytes.NewReader([]byte(vwDepName(d))))
	verifAssert(err == nil, "content digest")
	digest, err := bufmodule.NewDigest(bufmodule.DigestTypeB4, bufcasDigest)
	verifAssert(err == nil, "b4 digest")
	moduleKey, err := bufmodule.NewModuleKey(fullName, uuid.UUID{byte(d + 1)}, func() (bufmodule.Digest, error) { return digest, nil })
	verifAssert(err == nil, "module key")
	return moduleKey
}

func vwModuleDir(m int) string {
	if m == 0 {
		return "a"
	}
	return "b"
}

// VerifLemma_C10I_V1LockPins: a v1 workspace (buf.work.yaml directories a and b, default module configs) in an
// in-memory bucket; each module directory has (nondet) a v1 buf.lock written with the real bufconfig writer, pinning
// a nondet subset of two remote modules d0, d1; the user's input directory is ".", "a" or "b". The real
// v1WorkspaceTargeting + getWorkspaceForBucketAndModuleDirPathsV1Beta1OrV1 yield a workspace whose modules are: the
// two local modules (target <=> inside the input directory) and exactly the remote modules pinned by ANY module's
// buf.lock - target or not -, each once, non-target, with the pinned commit.
func VerifLemma_C10I_V1LockPins() {
	ctx := context.Background()
	bucket := storagemem.NewReadWriteBucket()
	pinned := [2][2]bool{}
	hasLock := [2]bool{}
	for m := 0; m < 2; m++ {
		dir := vwModuleDir(m)
		verifAssert(storage.PutPath(ctx, bucket, dir+"/"+dir+".proto", []byte("syntax = \"proto3\";\n")) == nil, "proto file written")
		hasLock[m] = verifNondetBool()
		if !hasLock[m] {
			continue
		}
		var keys []bufmodule.ModuleKey
		for d := 0; d < 2; d++ {
			if verifNondetBool() {
				pinned[m][d] = true
				keys = append(keys, vwDepKey(d))
			}
		}
		lockFile, err := bufconfig.NewBufLockFile(bufconfig.FileVersionV1, keys, nil)
		verifAssert(err == nil, "v1 buf.lock value")
		if err != nil {
			return
		}
		verifAssert(bufconfig.PutBufLockFileForPrefix(ctx, bucket, dir, lockFile) == nil, "buf.lock written")
	}
	subDir := verifNondetChoice(3)
	subDirPath := "."
	if subDir > 0 {
		subDirPath = vwModuleDir(subDir - 1)
	}
	bucketTargeting := &vwBucketTargeting{subDirPath: subDirPath}
	verifCover("workspace written")
	targeting, err := v1WorkspaceTargeting(ctx, &workspaceBucketConfig{}, bucket, bucketTargeting, []string{"a", "b"}, nil)
	verifAssert(err == nil && targeting != nil && targeting.v1 != nil, "v1 targeting succeeds")
	if err != nil {
		return
	}
	provider := newWorkspaceProvider(slogext.NopLogger, nil, bufmodule.NopModuleDataProvider, bufmodule.NopCommitProvider, nil)
	workspace, err := provider.getWorkspaceForBucketAndModuleDirPathsV1Beta1OrV1(ctx, bucket, targeting.v1)
	verifAssert(err == nil && workspace != nil, "workspace is built")
	if err != nil {
		return
	}
	verifCover("workspace built")
	modules := workspace.Modules()
	wantRemote := [2]bool{pinned[0][0] || pinned[1][0], pinned[0][1] || pinned[1][1]}
	wantCount := 2
	for d := 0; d < 2; d++ {
		found := 0
		for _, module := range modules {
			if fullName := module.FullName(); fullName != nil && fullName.String() == vwDepName(d) {
				found++
				verifAssert(!module.IsLocal() && !module.IsTarget(), "a pinned dependency is a remote non-target module")
				verifAssert(module.CommitID() == uuid.UUID{byte(d + 1)}, "a pinned dependency has the pinned commit")
			}
		}
		if wantRemote[d] {
			wantCount++
			verifAssert(found == 1, "a dependency pinned in any module's buf.lock is a module of the workspace, once")
			for m := 0; m < 2; m++ {
				isTarget := subDir == 0 || subDir-1 == m
				if pinned[m][d] && !pinned[1-m][d] && !isTarget {
					verifCover("dependency pinned only by a non-target module")
				}
			}
		} else {
			verifAssert(found == 0, "an unpinned remote module is not in the workspace")
		}
	}
	for m := 0; m < 2; m++ {
		found := 0
		for _, module := range modules {
			if module.BucketID() == vwModuleDir(m) {
				found++
				verifAssert(module.IsLocal(), "workspace module is local")
				verifAssert(module.IsTarget() == (subDir == 0 || subDir-1 == m), "local module is a target iff inside the input directory")
			}
		}
		verifAssert(found == 1, "each workspace directory is one local module")
	}
	verifAssert(len(modules) == wantCount, "no other modules")
}
