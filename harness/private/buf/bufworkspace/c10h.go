//go:build verif

package bufworkspace

import (
	"context"

	"github.com/bufbuild/buf/private/buf/buftarget"
	"github.com/bufbuild/buf/private/bufpkg/bufconfig"
	"github.com/bufbuild/buf/private/pkg/storage"
	"github.com/bufbuild/buf/private/pkg/storage/storagemem"
)

// ---- C10-H (grpF): the mapped module bucket of a multi-root (v1beta1) module ----

type vwModuleConfig struct {
	bufconfig.ModuleConfig
	rootToIncludes map[string][]string
	rootToExcludes map[string][]string
}

func (c *vwModuleConfig) RootToIncludes() map[string][]string { return c.rootToIncludes }
func (c *vwModuleConfig) RootToExcludes() map[string][]string { return c.rootToExcludes }

type vwBucketTargeting struct {
	buftarget.BucketTargeting
	subDirPath string
	paths      []string
	excludes   []string
}

func (t *vwBucketTargeting) SubDirPath() string           { return t.subDirPath }
func (t *vwBucketTargeting) TargetPaths() []string        { return t.paths }
func (t *vwBucketTargeting) TargetExcludePaths() []string { return t.excludes }

func vwRoot(r int) string {
	if r == 0 {
		return "r1"
	}
	return "r2"
}

func vwDir(d int) string {
	if d == 0 {
		return "x"
	}
	return "y"
}

func vwFile(r int) string {
	if r == 0 {
		return "a.proto"
	}
	return "b.proto"
}

// VerifLemma_C10H_MappedModuleBucket: getMappedModuleBucketAndModuleTargeting for a module at "." with two roots
// r1, r2 (v1beta1), each root holding x/<f>.proto and y/<f>.proto (f = a for r1, b for r2) plus a non-.proto file;
// per root a nondet set of excludes and a nondet set of includes out of {x, y}. For every iteration order of the
// root maps: the mapped module bucket contains exactly, for each root, the .proto files under that root (relative to
// it) that THAT root's excludes do not contain and (if it has includes) that one of THAT root's includes contains -
// plus the module's LICENSE; the module is a target with no path restrictions.
func VerifLemma_C10H_MappedModuleBucket() {
	ctx := context.Background()
	excluded := [2][2]bool{}
	included := [2][2]bool{}
	rootToExcludes := map[string][]string{}
	rootToIncludes := map[string][]string{}
	for r := 0; r < 2; r++ {
		var excludes, includes []string
		for d := 0; d < 2; d++ {
			if verifNondetBool() {
				excluded[r][d] = true
				excludes = append(excludes, vwDir(d))
			}
			if verifNondetBool() {
				included[r][d] = true
				includes = append(includes, vwDir(d))
			}
		}
		rootToExcludes[vwRoot(r)] = excludes
		rootToIncludes[vwRoot(r)] = includes
	}
	data := map[string][]byte{"LICENSE": []byte("license"), "buf.yaml": []byte("x")}
	for r := 0; r < 2; r++ {
		for d := 0; d < 2; d++ {
			data[vwRoot(r)+"/"+vwDir(d)+"/"+vwFile(r)] = []byte("syntax = \"proto3\";\n")
		}
		data[vwRoot(r)+"/x/notes.txt"] = []byte("notes")
	}
	workspaceBucket, err := storagemem.NewReadBucket(data)
	verifAssert(err == nil, "memory bucket")
	moduleConfig := &vwModuleConfig{rootToIncludes: rootToIncludes, rootToExcludes: rootToExcludes}
	bucketTargeting := &vwBucketTargeting{subDirPath: "."}
	verifCover("inputs built")
	// Native map iteration order is random and cannot be driven by a replay: natively the call and its checks are
	// repeated; the engine explores every order itself (opts.nondetMapOrder).
	repeats := 1
	if !verifInEngine() {
		repeats = 64
	}
	for rep := 0; rep < repeats; rep++ {
		mapped, moduleTargeting, err := getMappedModuleBucketAndModuleTargeting(
			ctx, &workspaceBucketConfig{}, workspaceBucket, bucketTargeting, ".", moduleConfig, true, false,
		)
		verifAssert(err == nil && mapped != nil && moduleTargeting != nil, "mapped module bucket is built")
		if err != nil {
			return
		}
		verifAssert(moduleTargeting.isTargetModule && len(moduleTargeting.moduleTargetPaths) == 0 && len(moduleTargeting.moduleTargetExcludePaths) == 0 && moduleTargeting.moduleDirPath == ".", "module targeted without path restrictions")
		paths, err := storage.AllPaths(ctx, mapped, "")
		verifAssert(err == nil, "mapped bucket is listable")
		if err != nil {
			return
		}
		wantCount := 1 // LICENSE
		for r := 0; r < 2; r++ {
			hasIncludes := included[r][0] || included[r][1]
			for d := 0; d < 2; d++ {
				want := !excluded[r][d] && (!hasIncludes || included[r][d])
				found := 0
				for _, p := range paths {
					if p == vwDir(d)+"/"+vwFile(r) {
						found++
					}
				}
				if want {
					wantCount++
					verifAssert(found == 1, "a file under a root that this root neither excludes nor filters out is in the module, once")
				} else {
					verifAssert(found == 0, "a file this root excludes or does not include is not in the module")
				}
				if rep == 0 && want && excluded[1-r][d] {
					verifCover("file kept although the other root excludes its directory name")
				}
			}
		}
		licenseFound := false
		for _, p := range paths {
			if p == "LICENSE" {
				licenseFound = true
			}
		}
		verifAssert(licenseFound, "the module's LICENSE is in the module")
		verifAssert(len(paths) == wantCount, "nothing else is in the module (no non-.proto files, no buf.yaml)")
	}
}
