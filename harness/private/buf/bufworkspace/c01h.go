//go:build verif

package bufworkspace

import "github.com/bufbuild/buf/private/pkg/normalpath"

// ---- C01-H (grpF): workspace option configs keep --path / --exclude-path / proto file reference apart ----

func vwNondetPaths(maxCount int, maxLen int) []string {
	n := verifNondetChoice(maxCount + 1)
	var out []string
	for i := 0; i < n; i++ {
		out = append(out, verifNondetString(maxLen))
	}
	return out
}

// VerifLemma_C01H_ModuleKeyConfig: newWorkspaceModuleKeyConfig over WithTargetPaths(paths, excludes) (0..K symbolic
// values each, arbitrary bytes 0..L) and an optional WithConfigOverride: fails iff some value is rejected by
// normalpath.NormalizeAndValidate (the reference for a single value, itself the subject of C13); otherwise
// targetPaths are the normalized paths and targetExcludePaths the normalized excludes - each list in its own
// field, same length, same order - and the override is carried over.
func VerifLemma_C01H_ModuleKeyConfig() {
	paths := vwNondetPaths(verifParam("K"), verifParam("L"))
	excludes := vwNondetPaths(verifParam("K"), verifParam("L"))
	var options []WorkspaceModuleKeyOption
	overrideFirst := verifNondetBool()
	hasOverride := verifNondetBool()
	if hasOverride && overrideFirst {
		options = append(options, WithConfigOverride("override"))
	}
	options = append(options, WithTargetPaths(paths, excludes))
	if hasOverride && !overrideFirst {
		options = append(options, WithConfigOverride("override"))
	}
	verifCover("options built")
	config, err := newWorkspaceModuleKeyConfig(options)
	bad := false
	wantPaths := make([]string, len(paths))
	for i, p := range paths {
		normalized, nerr := normalpath.NormalizeAndValidate(p)
		if nerr != nil {
			bad = true
		}
		wantPaths[i] = normalized
	}
	wantExcludes := make([]string, len(excludes))
	for i, p := range excludes {
		normalized, nerr := normalpath.NormalizeAndValidate(p)
		if nerr != nil {
			bad = true
		}
		wantExcludes[i] = normalized
	}
	verifAssert((err != nil) == bad, "config fails iff some path or exclude path is invalid")
	if err != nil || bad {
		verifCover("rejected")
		return
	}
	verifCover("accepted")
	verifAssert(config != nil, "config returned")
	if config == nil {
		return
	}
	verifAssert(len(config.targetPaths) == len(paths), "as many target paths as given")
	verifAssert(len(config.targetExcludePaths) == len(excludes), "as many exclude paths as given")
	for i := 0; i < len(paths) && i < len(config.targetPaths); i++ {
		verifAssert(config.targetPaths[i] == wantPaths[i], "target paths are the normalized --path values in order")
	}
	for i := 0; i < len(excludes) && i < len(config.targetExcludePaths); i++ {
		verifAssert(config.targetExcludePaths[i] == wantExcludes[i], "exclude paths are the normalized --exclude-path values in order")
	}
	if hasOverride {
		verifAssert(config.configOverride == "override", "config override carried over")
	} else {
		verifAssert(config.configOverride == "", "no config override")
	}
}

// VerifLemma_C01H_BucketConfig: newWorkspaceBucketConfig: the proto file reference is stored normalized (empty stays
// empty) together with includePackageFiles; config override and the buf.work.yaml switch are carried over; nothing
// else is set.
func VerifLemma_C01H_BucketConfig() {
	protoFileTargetPath := verifNondetString(verifParam("L"))
	includePackageFiles := verifNondetBool()
	hasProto := verifNondetBool()
	hasOverride := verifNondetBool()
	ignoreWork := verifNondetBool()
	var options []WorkspaceBucketOption
	if hasOverride {
		options = append(options, WithConfigOverride("override"))
	}
	if hasProto {
		options = append(options, WithProtoFileTargetPath(protoFileTargetPath, includePackageFiles))
	}
	if ignoreWork {
		options = append(options, WithIgnoreAndDisallowV1BufWorkYAMLs())
	}
	verifCover("options built")
	config, err := newWorkspaceBucketConfig(options)
	verifAssert(err == nil && config != nil, "bucket config never fails")
	if err != nil || config == nil {
		return
	}
	if hasProto {
		want := protoFileTargetPath
		if want != "" {
			want = normalpath.Normalize(want)
		}
		verifAssert(config.protoFileTargetPath == want, "proto file reference stored normalized")
		verifAssert(config.includePackageFiles == includePackageFiles, "includePackageFiles carried over")
	} else {
		verifAssert(config.protoFileTargetPath == "" && !config.includePackageFiles, "no proto file reference")
	}
	verifAssert((config.configOverride == "override") == hasOverride && (hasOverride || config.configOverride == ""), "config override carried over")
	verifAssert(config.ignoreAndDisallowV1BufWorkYAMLs == ignoreWork, "buf.work.yaml switch carried over")
}
