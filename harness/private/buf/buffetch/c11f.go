//go:build verif

package buffetch

import "github.com/bufbuild/buf/private/buf/buffetch/internal"

// ---- C11-F: the "write" (message ref) and the "read" (any ref) parsers derive the same encoding from a path ----

// refGFormatForExt: the documented table extension -> message format ("" = not a message format).
func refGFormatForExt(ext string) string {
	switch ext {
	case ".bin", ".binpb":
		return "binpb"
	case ".json":
		return "json"
	case ".txtpb":
		return "txtpb"
	case ".yaml":
		return "yaml"
	}
	return ""
}

// VerifLemma_C11F_RefEncodingAgreement: for path = stem ++ formatExt ++ compressionExt (stem: every byte string of
// length 1..N without '.', '/' and '\\'; formatExt in {.bin .binpb .json .txtpb .yaml .yml .tar .foo ""};
// compressionExt in {"" .gz .zst}) and every default message encoding:
//   - a message-format extension: newProcessRawRefMessage (used for `-o` / message refs) and processRawRef (used when
//     the same file is read back as an input) both succeed and derive the same format and the same compression, which
//     are the documented ones (.gz => gzip, .zst => zstd, none => none)
//   - a compression extension on something that is not a message format: if the message parser accepts it at all
//     (today it does not), the compression still follows the table
//   - no recognised extension: the message parser falls back to the default encoding, uncompressed
func VerifLemma_C11F_RefEncodingAgreement() {
	stem := verifNondetString(verifParam("N"))
	verifAssume(len(stem) > 0)
	for i := 0; i < len(stem); i++ {
		c := stem[i]
		verifAssume(c != '.' && c != '/' && c != '\\')
	}
	formatExts := []string{".bin", ".binpb", ".json", ".txtpb", ".yaml", ".yml", ".tar", ".foo", ""}
	formatExt := formatExts[verifNondetChoice(len(formatExts))]
	compressionExts := []string{"", ".gz", ".zst"}
	compressionIndex := verifNondetChoice(len(compressionExts))
	compressionExt := compressionExts[compressionIndex]
	wantCompression := []internal.CompressionType{0, internal.CompressionTypeGzip, internal.CompressionTypeZstd}[compressionIndex]
	encodings := []MessageEncoding{MessageEncodingBinpb, MessageEncodingJSON, MessageEncodingTxtpb, MessageEncodingYAML}
	defaultFormats := []string{"binpb", "json", "txtpb", "yaml"}
	encodingIndex := verifNondetChoice(len(encodings))
	path := stem + formatExt + compressionExt
	verifCover("path built")

	write := &internal.RawRef{Path: path}
	writeErr := newProcessRawRefMessage(encodings[encodingIndex])(write)
	wantFormat := refGFormatForExt(formatExt)

	if wantFormat == "" {
		if compressionExt != "" {
			verifCover("compressed, not a message format")
			// currently rejected by both parsers; rejection is not required, but if the message parser accepts the
			// path the compression must still follow the table
			if writeErr == nil {
				verifAssert(write.CompressionType == wantCompression, "message ref with an unknown format: .gz => gzip, .zst => zstd")
			}
			return
		}
		// No recognised extension: the general parser goes on to guess module vs. directory (file system), which is
		// not the subject; the message parser uses the default encoding.
		verifCover("default encoding")
		verifAssert(writeErr == nil, "a path without a known extension is a message ref in the default encoding")
		verifAssert(write.Format == defaultFormats[encodingIndex] && write.CompressionType == 0, "default encoding, no compression")
		return
	}

	read := &internal.RawRef{Path: path}
	readErr := processRawRef(read)
	verifCover("message format")
	verifAssert(writeErr == nil, "a message-format path is accepted as a message ref")
	verifAssert(readErr == nil, "a message-format path is accepted as an input ref")
	verifAssert(write.Format == wantFormat, "message ref: format follows the extension table")
	verifAssert(write.CompressionType == wantCompression, "message ref: .gz => gzip, .zst => zstd, none => none")
	verifAssert(read.Format == write.Format, "reading back derives the format it was written with")
	verifAssert(read.CompressionType == write.CompressionType, "reading back derives the compression it was written with")
	if compressionExt != "" {
		verifCover("compressed message format")
	}
}
