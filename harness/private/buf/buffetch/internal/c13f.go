//go:build verif

package internal

import "github.com/bufbuild/buf/private/pkg/normalpath"

// VerifLemma_C13F_ValidatePaths: buffetch's validatePaths (the gate in front of archive/git sub-directory
// and --path/--exclude-path handling) rejects the triple iff ANY of the sub-directory, a target path or a
// target exclude path fails normalpath.NormalizeAndValidate - i.e. no path-like user input passes unvalidated.
func VerifLemma_C13F_ValidatePaths() {
	subDir := verifNondetString(verifParam("N"))
	var targets, excludes []string
	nt := verifNondetChoice(verifParam("K") + 1)
	for i := 0; i < nt; i++ {
		targets = append(targets, verifNondetString(verifParam("N")))
	}
	ne := verifNondetChoice(verifParam("K") + 1)
	for i := 0; i < ne; i++ {
		excludes = append(excludes, verifNondetString(verifParam("N")))
	}
	err := validatePaths(subDir, targets, excludes)
	verifCover("returned")
	allValid := true
	if _, e := normalpath.NormalizeAndValidate(subDir); e != nil {
		allValid = false
	}
	for _, p := range targets {
		if _, e := normalpath.NormalizeAndValidate(p); e != nil {
			allValid = false
		}
	}
	excludesValid := true
	for _, p := range excludes {
		if _, e := normalpath.NormalizeAndValidate(p); e != nil {
			excludesValid = false
		}
	}
	if verifKnown("F13f-exclude-paths-not-validated", allValid && !excludesValid) {
		return
	}
	verifAssert((err == nil) == (allValid && excludesValid), "validatePaths accepts iff sub-dir, every --path and every --exclude-path is valid")
}
