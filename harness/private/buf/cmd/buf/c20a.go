//go:build verif

package buf

import (
	"errors"
	"fmt"

	"connectrpc.com/connect"
	"github.com/bufbuild/buf/private/buf/bufctl"
	"github.com/bufbuild/buf/private/bufpkg/bufmodule"
	"github.com/bufbuild/buf/private/pkg/app"
	"github.com/bufbuild/buf/private/pkg/syserror"
)

// VerifLemma_C20A_ExitMapping: app.GetExitCode(wrapError(e)) over a family of error chains.
//
//	0 <=> e == nil;
//	100 whenever an *ImportNotExistError is in the chain, or the chain's governing app error is the
//	annotation sentinel (exit code 100);
//	otherwise the governing app.NewError code, or 1 for errors without a code - never 0, and never 100 unless
//	the code was explicitly 100.
//
// Reference bookkeeping while the chain is built: firstApp = exit code of the first appError in errors.As order
// (0 = none), hasImport, and for a system error the snapshot of what lies beneath it (wrapError reports only
// sysError.Unwrap()).
func VerifLemma_C20A_ExitMapping() {
	var e error
	firstApp, hasImport, hasSys, hasConnect := 0, false, false, false
	connectEarly := false // Unauthenticated / Unavailable: wrapError answers with a fixed message (exit 1)
	switch verifNondetChoice(7) {
	case 0:
		e = nil
	case 1:
		e = errors.New(verifNondetString(verifParam("MSG")))
	case 2:
		e = bufctl.ErrFileAnnotation
		firstApp = bufctl.ExitCodeFileAnnotation
	case 3:
		code := verifNondetInt(-300, 300)
		verifAssume(code != 0)
		e = app.NewError(code, verifNondetString(verifParam("MSG")))
		firstApp = code
	case 4:
		e = &bufmodule.ImportNotExistError{}
		hasImport = true
	case 5:
		e = syserror.New(verifNondetString(verifParam("MSG")))
		hasSys = true
	case 6:
		codes := []connect.Code{connect.CodeUnknown, connect.CodeNotFound, connect.CodeUnauthenticated, connect.CodeUnavailable, connect.CodeUnimplemented, connect.CodeInternal}
		k := verifNondetChoice(len(codes))
		e = connect.NewError(codes[k], errors.New(verifNondetString(verifParam("MSG"))))
		hasConnect = true
		connectEarly = k == 2 || k == 3
	}
	if e == nil {
		verifCover("nil")
		verifAssert(wrapError(nil) == nil, "nil stays nil")
		verifAssert(app.GetExitCode(wrapError(nil)) == 0, "no error exits 0")
		return
	}
	sysApp, sysImport := 0, false
	depth := verifNondetChoice(verifParam("WRAPS") + 1)
	for i := 0; i < depth; i++ {
		switch verifNondetChoice(6) {
		case 0:
			e = fmt.Errorf("ctx: %w", e)
		case 1:
			e = errors.Join(e, errors.New("other"))
		case 2:
			e = errors.Join(errors.New("other"), e)
		case 3:
			code := verifNondetInt(-300, 300)
			verifAssume(code != 0)
			e = app.WrapError(code, e)
			firstApp = code
		case 4:
			if !hasSys {
				sysApp, sysImport = firstApp, hasImport
				hasSys = true
			}
			e = syserror.Wrap(e)
		case 5:
			// a second, independent problem joined in front: the annotation sentinel
			e = errors.Join(bufctl.ErrFileAnnotation, e)
			firstApp = bufctl.ExitCodeFileAnnotation
		}
	}
	got := app.GetExitCode(wrapError(e))
	verifCover("mapped")
	verifAssert(wrapError(e) != nil, "an error stays an error")
	verifAssert(got != 0, "an error never exits 0")
	if hasConnect {
		verifCover("connect")
		// what governs the status: beneath a system error only the wrapped part is reported
		effApp, effImport := firstApp, hasImport
		if hasSys {
			effApp, effImport = sysApp, sysImport
		}
		if effApp != bufctl.ExitCodeFileAnnotation && !effImport {
			verifAssert(got != bufctl.ExitCodeFileAnnotation, "a registry failure is not reported as a source problem")
		}
		if connectEarly {
			verifAssert(got == 1, "authentication / availability failures exit 1")
		}
		return
	}
	if hasSys && depth == 0 {
		verifCover("system error")
		verifAssert(got == 1, "a bare system error exits 1")
		return
	}
	if hasSys {
		// only what lies beneath the system error is reported
		verifCover("wrapped system error")
		if sysImport {
			verifAssert(got == bufctl.ExitCodeFileAnnotation, "import-not-exist beneath a system error exits 100")
		} else if sysApp != 0 {
			verifAssert(got == sysApp, "app code beneath a system error is kept")
		} else {
			verifAssert(got == 1, "system error without a code exits 1")
		}
		return
	}
	if hasImport {
		verifCover("import not exist")
		verifAssert(got == bufctl.ExitCodeFileAnnotation, "a missing import exits 100")
		return
	}
	if firstApp != 0 {
		verifCover("app error")
		verifAssert(got == firstApp, "the governing app error's code is the exit status")
		return
	}
	verifCover("plain")
	verifAssert(got == 1, "an error without a code exits 1 (not 100)")
}
