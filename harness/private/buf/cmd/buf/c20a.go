//go:build verif

package buf

import (
	"errors"
	"fmt"

	"connectrpc.com/connect"
	"github.com/bufbuild/buf/private/buf/bufctl"
	"github.com/bufbuild/buf/private/bufpkg/bufmodule"
	"github.com/bufbuild/buf/private/pkg/app"
	"github.com/bufbuild/buf/private/pkg/syserror"
)

// VerifLemma_C20A_ExitMapping: app.GetExitCode(wrapError(e)) over a family of error chains.
//
//	0 <=> e == nil;
//	never 100 unless the chain holds the annotation sentinel, an explicit status 100 or an *ImportNotExistError;
//	100 for a missing import; for chains built from app.NewError/WrapError statuses: one of the requested statuses
//	(exactly it when there is one); for code-less errors just "non-zero and not 100" (the value 1 is not pinned);
//	for registry (connect) failures and system errors only the first two lines are claimed.
func VerifLemma_C20A_ExitMapping() {
	var e error
	var appCodes []int // every explicit exit code in the chain
	hasImport, hasSys, hasConnect := false, false, false
	switch verifNondetChoice(7) {
	case 0:
		e = nil
	case 1:
		e = errors.New(verifNondetString(verifParam("MSG")))
	case 2:
		e = bufctl.ErrFileAnnotation
		appCodes = append(appCodes, bufctl.ExitCodeFileAnnotation)
	case 3:
		code := verifNondetInt(-300, 300)
		verifAssume(code != 0)
		e = app.NewError(code, verifNondetString(verifParam("MSG")))
		appCodes = append(appCodes, code)
	case 4:
		e = &bufmodule.ImportNotExistError{}
		hasImport = true
	case 5:
		e = syserror.New(verifNondetString(verifParam("MSG")))
		hasSys = true
	case 6:
		codes := []connect.Code{connect.CodeUnknown, connect.CodeNotFound, connect.CodeUnauthenticated, connect.CodeUnavailable, connect.CodeUnimplemented, connect.CodeInternal}
		k := verifNondetChoice(len(codes))
		e = connect.NewError(codes[k], errors.New(verifNondetString(verifParam("MSG"))))
		hasConnect = true
	}
	if e == nil {
		verifCover("nil")
		verifAssert(wrapError(nil) == nil, "nil stays nil")
		verifAssert(app.GetExitCode(wrapError(nil)) == 0, "no error exits 0")
		return
	}
	depth := verifNondetChoice(verifParam("WRAPS") + 1)
	for i := 0; i < depth; i++ {
		switch verifNondetChoice(6) {
		case 0:
			e = fmt.Errorf("ctx: %w", e)
		case 1:
			e = errors.Join(e, errors.New("other"))
		case 2:
			e = errors.Join(errors.New("other"), e)
		case 3:
			code := verifNondetInt(-300, 300)
			verifAssume(code != 0)
			e = app.WrapError(code, e)
			appCodes = append(appCodes, code)
		case 4:
			hasSys = true
			e = syserror.Wrap(e)
		case 5:
			// a second, independent problem joined in front: the annotation sentinel
			e = errors.Join(bufctl.ErrFileAnnotation, e)
			appCodes = append(appCodes, bufctl.ExitCodeFileAnnotation)
		}
	}
	got := app.GetExitCode(wrapError(e))
	verifCover("mapped")
	verifAssert(wrapError(e) != nil, "an error stays an error")
	verifAssert(got != 0, "an error never exits 0")
	any100 := false
	for _, c := range appCodes {
		if c == bufctl.ExitCodeFileAnnotation {
			any100 = true
		}
	}
	if !any100 && !hasImport {
		verifCover("operational error")
		verifAssert(got != bufctl.ExitCodeFileAnnotation, "an operational error (no annotation sentinel, no missing import, no explicit 100) never exits 100")
	}
	if hasConnect || hasSys {
		// registry failures get fixed messages, and of a system error only the wrapped part is reported: which of several
		// statuses in such a chain governs is not part of the claim beyond the two assertions above
		verifCover("connect or system error")
		return
	}
	if hasImport {
		verifCover("import not exist")
		verifAssert(got == bufctl.ExitCodeFileAnnotation, "a missing import exits 100")
		return
	}
	if len(appCodes) > 0 {
		verifCover("app error")
		isOne := false
		for _, c := range appCodes {
			if got == c {
				isOne = true
			}
		}
		verifAssert(isOne, "the exit status is one of the statuses the commands asked for (app.NewError / app.WrapError)")
		if len(appCodes) == 1 {
			verifAssert(got == appCodes[0], "a single requested status is the exit status (100 for the annotation sentinel)")
		}
		return
	}
	verifCover("plain")
	// "a different non-zero status for operational errors": the value (1 today) is not pinned
}
