//go:build verif

package depgraph

import (
	"github.com/bufbuild/buf/private/bufpkg/bufmodule"
	"github.com/bufbuild/buf/private/bufpkg/bufparse"
	"github.com/bufbuild/buf/private/pkg/dag"
	"github.com/bufbuild/buf/private/pkg/slicesext"
	"github.com/google/uuid"
)

// ---- C10-G (grpF): `buf dep graph --format json`: the tree of externalModules mirrors the module graph ----

const vhMax = 6

type vhDigest struct {
	bufmodule.Digest
	text string
}

func (d vhDigest) String() string { return d.text }

// vhModule is a stub bufmodule.Module with exactly what the JSON builder reads.
type vhModule struct {
	bufmodule.Module
	idx int
}

func vhName(i int) string {
	switch i {
	case 0:
		return "m0"
	case 1:
		return "m1"
	case 2:
		return "m2"
	case 3:
		return "m3"
	case 4:
		return "m4"
	}
	return "m5"
}

func (m *vhModule) OpaqueID() string            { return vhName(m.idx) }
func (m *vhModule) FullName() bufparse.FullName { return nil }
func (m *vhModule) CommitID() uuid.UUID         { return uuid.Nil }
func (m *vhModule) IsLocal() bool               { return true }
func (m *vhModule) Digest(bufmodule.DigestType) (bufmodule.Digest, error) {
	return vhDigest{text: "b5:" + vhName(m.idx)}, nil
}

type vhGraph struct {
	n     int
	adj   [vhMax][vhMax]bool
	mods  []bufmodule.Module
	graph *dag.Graph[string, bufmodule.Module]
	// insertion orders, as dag.Graph keeps them
	order []int
	out   [vhMax][]int
	inG   [vhMax]bool
}

func (g *vhGraph) addNode(i int) {
	g.graph.AddNode(g.mods[i])
	if !g.inG[i] {
		g.inG[i] = true
		g.order = append(g.order, i)
	}
}

func (g *vhGraph) addEdge(i int, j int) {
	g.graph.AddEdge(g.mods[i], g.mods[j])
	if !g.inG[i] {
		g.inG[i] = true
		g.order = append(g.order, i)
	}
	if !g.inG[j] {
		g.inG[j] = true
		g.order = append(g.order, j)
	}
	for _, k := range g.out[i] {
		if k == j {
			return
		}
	}
	g.out[i] = append(g.out[i], j)
}

// dfs inserts like bufmodule.moduleSetToDAGRec: node, then for each direct dep the edge and the dep's subtree.
func (g *vhGraph) dfs(i int, descending bool) {
	g.addNode(i)
	for k := 0; k < g.n; k++ {
		j := k
		if descending {
			j = g.n - 1 - k
		}
		if g.adj[i][j] {
			g.addEdge(i, j)
			g.dfs(j, descending)
		}
	}
}

// VerifLemma_C10G_DepGraphJSON: 1..N modules, every acyclic dependency relation (edges from lower to higher index or
// the other way round, nondet), the dag.Graph filled either nodes-first or the way ModuleSetToDAG does (DFS from
// every module), direct deps enumerated ascending or descending. The JSON tree is built with the real addDeps /
// externalModuleNoDepsForModule / sortExternalModules under the node walk of run() (that walk is an inline closure
// of run() and is repeated here verbatim): the top level lists every module once, sorted by name, and for every
// externalModule anywhere in the tree the names in Deps are exactly the direct dependencies of that module, each once.
func VerifLemma_C10G_DepGraphJSON() {
	g := &vhGraph{}
	g.n = verifNondetChoice(verifParam("N")) + 1
	n := g.n
	upward := verifNondetBool()
	for i := 0; i < n; i++ {
		for j := i + 1; j < n; j++ {
			if verifNondetBool() {
				if upward {
					g.adj[i][j] = true
				} else {
					g.adj[j][i] = true
				}
			}
		}
	}
	for i := 0; i < n; i++ {
		g.mods = append(g.mods, &vhModule{idx: i})
	}
	g.graph = dag.NewGraph[string, bufmodule.Module](bufmodule.Module.OpaqueID)
	descending := verifNondetBool()
	if verifNondetBool() {
		for i := 0; i < n; i++ {
			g.addNode(i)
		}
		for i := 0; i < n; i++ {
			for k := 0; k < n; k++ {
				j := k
				if descending {
					j = n - 1 - k
				}
				if g.adj[i][j] {
					g.addEdge(i, j)
				}
			}
		}
	} else {
		for i := 0; i < n; i++ {
			g.dfs(i, descending)
		}
	}
	verifCover("graph built")

	// ---- the JSON branch of run(), up to json.Marshal ----
	graph := g.graph
	flags := newFlags()
	moduleFullNameOrOpaqueIDToExternalModule := make(map[string]externalModule)
	err := graph.WalkNodes(
		func(module bufmodule.Module, _ []bufmodule.Module, deps []bufmodule.Module) error {
			moduleFullNameOrOpaqueID := moduleFullNameOrOpaqueID(module)
			if _, ok := moduleFullNameOrOpaqueIDToExternalModule[moduleFullNameOrOpaqueID]; ok {
				return nil
			}
			externalModule, err := externalModuleNoDepsForModule(module)
			if err != nil {
				return err
			}
			if err := externalModule.addDeps(deps, graph, moduleFullNameOrOpaqueIDToExternalModule, flags); err != nil {
				return err
			}
			sortExternalModules(externalModule.Deps)
			moduleFullNameOrOpaqueIDToExternalModule[moduleFullNameOrOpaqueID] = externalModule
			return nil
		},
	)
	externalModules := slicesext.MapValuesToSlice(moduleFullNameOrOpaqueIDToExternalModule)
	sortExternalModules(externalModules)
	// ---- end of the code under test ----

	verifAssert(err == nil, "the tree is built without error")
	if err != nil {
		return
	}
	// Known finding F10b: addDeps returns (instead of continuing) at the first direct dep that was already
	// converted, dropping the remaining direct deps. The class: replaying the intended traversal, some module has
	// a direct dep that is already converted and is not the last one in its dep list.
	seen := [vhMax]bool{}
	class := false
	var sim func(i int)
	sim = func(i int) {
		for k, d := range g.out[i] {
			if seen[d] {
				if k != len(g.out[i])-1 {
					class = true
				}
				continue
			}
			sim(d)
			seen[d] = true
		}
	}
	for _, i := range g.order {
		if seen[i] {
			continue
		}
		sim(i)
		seen[i] = true
	}
	if class {
		verifCover("an already converted dep precedes another dep")
	}
	if verifKnown("F10b-depgraph-json-drops-deps", class) {
		return
	}
	verifAssert(len(externalModules) == n, "every module is listed once at the top level")
	for k := 0; k < len(externalModules); k++ {
		verifAssert(k >= n || externalModules[k].Name == vhName(k), "top level sorted by name, no duplicates")
		g.vhCheckTree(externalModules[k], n)
	}
}

// vhCheckTree: Deps of e (recursively) name exactly the direct dependencies of the module e stands for.
func (g *vhGraph) vhCheckTree(e externalModule, depth int) {
	i := -1
	for k := 0; k < g.n; k++ {
		if e.Name == vhName(k) {
			i = k
		}
	}
	verifAssert(i >= 0, "tree node is a module of the graph")
	if i < 0 || depth < 0 {
		return
	}
	verifAssert(e.Digest == "b5:"+vhName(i) && e.Local && e.Commit == "", "tree node carries the module's digest, locality and commit")
	count := [vhMax]int{}
	for _, dep := range e.Deps {
		for k := 0; k < g.n; k++ {
			if dep.Name == vhName(k) {
				count[k]++
			}
		}
	}
	for k := 0; k < g.n; k++ {
		want := 0
		if g.adj[i][k] {
			want = 1
		}
		verifAssert(count[k] == want, "deps of a tree node are exactly the module's direct dependencies, each once")
	}
	verifAssert(len(e.Deps) == len(g.out[i]), "no other deps")
	for _, dep := range e.Deps {
		g.vhCheckTree(dep, depth-1)
	}
}
