//go:build verif

package bufmigrate

import (
	"context"
	"log/slog"

	"buf.build/go/bufplugin/check"
	"github.com/bufbuild/buf/private/bufpkg/bufcheck"
	"github.com/bufbuild/buf/private/bufpkg/bufconfig"
	"github.com/bufbuild/buf/private/bufpkg/bufplugin"
	"github.com/bufbuild/buf/private/pkg/encoding"
	"github.com/bufbuild/buf/private/pkg/storage"
	"github.com/bufbuild/buf/private/pkg/storage/storagemem"
	"github.com/bufbuild/buf/private/pkg/wasm"
)

// verifStubBufcheckNewClient is what the engine runs instead of bufcheck.NewClient (the real client needs the plugin
// runtime and protobuf reflection). Its ConfiguredRules returns one non-deprecated rule per configured use-id, so
// the real equivalentCheckConfigInV2 takes its "simple translation is equivalent" branch.
func verifStubBufcheckNewClient(logger *slog.Logger, runnerProvider bufcheck.RunnerProvider, options ...bufcheck.ClientOption) (bufcheck.Client, error) {
	return &vClient{}, nil
}

type (
	iClient = bufcheck.Client
	iRule   = bufcheck.Rule
)

type vClient struct{ iClient }

type vRule struct {
	iRule
	id string
}

func (r *vRule) ID() string               { return r.id }
func (r *vRule) Deprecated() bool         { return false }
func (r *vRule) ReplacementIDs() []string { return nil }

// The stub universe. With an empty `use` the configured rules are the DEFAULT set of the config's file version, and
// the default sets differ between versions (as the real ones do: v2 adds rules), so a faithful migration has to
// compensate with `except` entries. A non-empty `use` lists rule ids directly. `except` removes ids.
var (
	vLintDefaultV1     = []string{"ENUM_PASCAL_CASE", "FIELD_LOWER_SNAKE_CASE"}
	vLintDefaultV2     = []string{"ENUM_PASCAL_CASE", "FIELD_LOWER_SNAKE_CASE", "FIELD_NOT_REQUIRED"}
	vBreakingDefaultV1 = []string{"FILE_NO_DELETE"}
	vBreakingDefaultV2 = []string{"EXTENSION_NO_DELETE", "FILE_NO_DELETE"}
)

func (c *vClient) ConfiguredRules(ctx context.Context, ruleType check.RuleType, config bufconfig.CheckConfig, options ...bufcheck.ConfiguredRulesOption) ([]bufcheck.Rule, error) {
	ids := config.UseIDsAndCategories()
	if len(ids) == 0 {
		v2 := config.FileVersion() == bufconfig.FileVersionV2
		switch {
		case ruleType == check.RuleTypeLint && v2:
			ids = vLintDefaultV2
		case ruleType == check.RuleTypeLint:
			ids = vLintDefaultV1
		case v2:
			ids = vBreakingDefaultV2
		default:
			ids = vBreakingDefaultV1
		}
	}
	var rules []bufcheck.Rule
	for _, id := range ids { // sorted already (config accessors and the default lists are sorted)
		excepted := false
		for _, e := range config.ExceptIDsAndCategories() {
			if e == id {
				excepted = true
			}
		}
		if !excepted {
			rules = append(rules, &vRule{id: id})
		}
	}
	return rules, nil
}

// vConfiguredIDs: the configured, non-deprecated rule ids of a check config according to the bufcheck client
// (the stub client under the engine, the real client natively).
func vConfiguredIDs(ctx context.Context, ruleType check.RuleType, config bufconfig.CheckConfig) []string {
	client, err := bufcheck.NewClient(slog.Default(), bufcheck.NewLocalRunnerProvider(
		wasm.UnimplementedRuntime,
		bufplugin.NopPluginKeyProvider,
		bufplugin.NopPluginDataProvider,
	))
	verifAssume(err == nil)
	rules, err := client.ConfiguredRules(ctx, ruleType, config)
	verifAssume(err == nil)
	var ids []string
	for _, r := range rules {
		if !r.Deprecated() {
			ids = append(ids, r.ID())
		}
	}
	return ids
}

// The v1/v1beta1 buf.yaml document, with the yaml keys of bufconfig's external struct (the identity codec matches
// by key).
type vBuild struct {
	Roots    []string `yaml:"roots,omitempty"`
	Excludes []string `yaml:"excludes,omitempty"`
}
type vChecks struct {
	Use    []string `yaml:"use,omitempty"`
	Ignore []string `yaml:"ignore,omitempty"`
}
type vBufYAMLV1 struct {
	Version  string  `yaml:"version,omitempty"`
	Name     string  `yaml:"name,omitempty"`
	Build    vBuild  `yaml:"build,omitempty"`
	Lint     vChecks `yaml:"lint,omitempty"`
	Breaking vChecks `yaml:"breaking,omitempty"`
}

func vComp(n int) string {
	s := verifNondetString(n)
	verifAssume(len(s) > 0)
	for i := 0; i < len(s); i++ {
		c := s[i]
		verifAssume(c > ' ' && c < 0x7f && c != '/')
	}
	verifAssume(s != "." && s != "..")
	return s
}

func vJoin(a, b string) string {
	if a == "." || a == "" {
		return b
	}
	if b == "." || b == "" {
		return a
	}
	return a + "/" + b
}

func vStrsEq(a, b []string) bool {
	if len(a) != len(b) {
		return false
	}
	for i := range a {
		if a[i] != b[i] {
			return false
		}
	}
	return true
}

func vStrsMapLenEq(a, b map[string][]string) bool { return len(a) == len(b) }

// refUnder: normalized relative dir d contains-or-equals path p.
func refUnder(d, p string) bool {
	if d == "." || d == p {
		return true
	}
	return len(p) > len(d) && p[:len(d)] == d && p[len(d)] == '/'
}

// VerifLemma_C16D_AddModule: migrateBuilder.addModule on one v1 / v1beta1 module directory.
//
// For every root r of the module (v1: the single root "."): exactly one migrated v2 module config exists whose
// directory, re-joined with the destination, is moduleDir/r; its excludes are the root's excludes; its lint and
// breaking settings (use, ignore paths, switched-off) are the module's; the name is kept (dropped when a v1beta1
// module with several roots is split). A symbolic workspace file is selected by the migrated modules iff it was
// selected by the original module. Adding a second module directory with the same name is an error.
func VerifLemma_C16D_AddModule() {
	ctx := context.Background()
	n := verifParam("N")
	// where the module lives and where the migrated buf.yaml goes
	top := vComp(n)
	moduleDir, dest := top, "."
	switch verifNondetChoice(4) {
	case 1:
		moduleDir = top + "/" + vComp(n)
	case 2:
		dest = top
	case 3:
		moduleDir, dest = top+"/"+vComp(n), top
	}
	doc := vBufYAMLV1{Version: "v1"}
	if verifNondetBool() {
		doc.Breaking = vChecks{Use: []string{"FILE"}}
	}
	roots := []string{"."}
	if verifNondetBool() {
		doc.Version = "v1beta1"
		switch verifNondetChoice(3) {
		case 1:
			roots = []string{vComp(n)}
			doc.Build.Roots = roots
		case 2:
			a, b := vComp(n), vComp(n)
			verifAssume(a < b)
			roots = []string{a, b}
			doc.Build.Roots = roots
		}
	}
	named := verifNondetBool()
	if named {
		doc.Name = "buf.build/acme/one"
	}
	// one optional exclude under the first root
	excl := ""
	if verifNondetBool() {
		excl = vComp(n)
		doc.Build.Excludes = []string{vJoin(roots[0], excl)}
	}
	// lint: default | use + ignore a path | switched off
	lintIgnore := ""
	lintOff := false
	switch verifNondetChoice(3) {
	case 1:
		lintIgnore = vComp(n)
		doc.Lint = vChecks{Use: []string{"DEFAULT"}, Ignore: []string{lintIgnore}}
	case 2:
		lintOff = true
		doc.Lint = vChecks{Ignore: []string{"."}}
	}
	data, err := encoding.MarshalYAML(&doc)
	verifAssume(err == nil)
	bucket := storagemem.NewReadWriteBucket()
	verifAssume(storage.PutPath(ctx, bucket, moduleDir+"/buf.yaml", data) == nil)

	m := newMigrateBuilder(slog.Default(), nil, bucket, dest)
	err = m.addModule(ctx, moduleDir)
	// domain: documents the v1 reader accepts (e.g. the two roots are not nested, the exclude is not a root)
	orig, rerr := bufconfig.GetBufYAMLFileForPrefix(ctx, bucket, moduleDir)
	verifAssume(rerr == nil)
	verifCover("module added")
	verifAssert(err == nil, "addModule succeeds on an accepted v1/v1beta1 module")
	om := orig.ModuleConfigs()[0]
	verifAssert(len(m.moduleConfigs) == len(roots), "one migrated module per root")
	for _, r := range roots {
		// the builder's internal order is not part of the contract (NewBufYAMLFile sorts): find the module by directory
		var mc bufconfig.ModuleConfig
		nFound := 0
		for _, c := range m.moduleConfigs {
			if vJoin(dest, c.DirPath()) == vJoin(moduleDir, r) {
				mc = c
				nFound++
			}
		}
		verifAssert(nFound == 1, "exactly one migrated module for the root's directory")
		verifAssert(mc.LintConfig().FileVersion() == bufconfig.FileVersionV2, "migrated config is v2")
		verifAssert(vJoin(dest, mc.DirPath()) == vJoin(moduleDir, r), "migrated module directory, seen from the destination, is moduleDir/root")
		verifAssert(vStrsEq(mc.RootToExcludes()["."], om.RootToExcludes()[r]) && len(mc.RootToExcludes()) == 1, "excludes of the root carried over")
		verifAssert(len(mc.RootToIncludes()["."]) == 0, "no includes invented")
		verifAssert(vStrsEq(mc.LintConfig().IgnorePaths(), om.LintConfig().IgnorePaths()) &&
			vStrsMapLenEq(mc.LintConfig().IgnoreIDOrCategoryToPaths(), om.LintConfig().IgnoreIDOrCategoryToPaths()), "lint ignore paths carried over")
		if vKnownMigrateDisabled(lintOff) {
			continue
		}
		if !lintOff {
			verifAssert(vStrsEq(vConfiguredIDs(ctx, check.RuleTypeLint, mc.LintConfig()), vConfiguredIDs(ctx, check.RuleTypeLint, om.LintConfig())),
				"the migrated module is linted with the same rules as before")
		}
		verifAssert(vStrsEq(vConfiguredIDs(ctx, check.RuleTypeBreaking, mc.BreakingConfig()), vConfiguredIDs(ctx, check.RuleTypeBreaking, om.BreakingConfig())),
			"the migrated module is breaking-checked with the same rules as before")
		verifAssert(mc.LintConfig().Disabled() == om.LintConfig().Disabled(), "switched-off lint stays switched off after migration")
		if len(roots) > 1 || !named {
			verifAssert(len(roots) == 1 || mc.FullName() == nil, "split roots become unnamed modules")
		} else {
			verifAssert(mc.FullName() != nil && mc.FullName().String() == "buf.build/acme/one", "module name kept")
		}
	}
	// file selection: a symbolic workspace file moduleDir/<c1>[/<c2>]/x.proto
	fileDir := vComp(n)
	if verifNondetBool() {
		fileDir = fileDir + "/" + vComp(n)
	}
	file := moduleDir + "/" + fileDir + "/x.proto"
	before := false
	for _, r := range roots {
		if !refUnder(vJoin(moduleDir, r), file) {
			continue
		}
		sel := true
		for _, e := range om.RootToExcludes()[r] {
			if refUnder(vJoin(vJoin(moduleDir, r), e), file) {
				sel = false
			}
		}
		if sel {
			before = true
		}
	}
	after := false
	for _, mc := range m.moduleConfigs {
		d := vJoin(dest, mc.DirPath())
		if !refUnder(d, file) {
			continue
		}
		sel := true
		for _, e := range mc.RootToExcludes()["."] {
			if refUnder(vJoin(d, e), file) {
				sel = false
			}
		}
		if sel {
			after = true
		}
	}
	verifAssert(before == after, "a workspace file is built by the migrated modules iff it was built by the original module")
	if before {
		verifCover("file selected")
	} else {
		verifCover("file not selected")
	}
	_ = excl
}

// vKnownMigrateDisabled gates the class of finding F16d: migration re-enables switched-off checks.
func vKnownMigrateDisabled(class bool) bool {
	return verifKnown("F16d-migrate-reenables-disabled-checks", class)
}

// VerifLemma_C16D_DuplicateName: two v1 module directories with the same module name => addModule fails on the
// second; with different names (or unnamed) both are added.
func VerifLemma_C16D_DuplicateName() {
	ctx := context.Background()
	n := verifParam("N")
	d1, d2 := vComp(n), vComp(n)
	verifAssume(d1 != d2)
	names := []string{"", "buf.build/acme/one", "buf.build/acme/two"}
	n1, n2 := names[verifNondetChoice(3)], names[verifNondetChoice(3)]
	bucket := storagemem.NewReadWriteBucket()
	for i, d := range []string{d1, d2} {
		doc := vBufYAMLV1{Version: "v1", Name: []string{n1, n2}[i]}
		data, err := encoding.MarshalYAML(&doc)
		verifAssume(err == nil)
		verifAssume(storage.PutPath(ctx, bucket, d+"/buf.yaml", data) == nil)
	}
	m := newMigrateBuilder(slog.Default(), nil, bucket, ".")
	err1 := m.addModule(ctx, d1)
	err2 := m.addModule(ctx, d2)
	verifCover("added")
	verifAssert(err1 == nil, "first module is added")
	if n1 != "" && n1 == n2 {
		verifCover("duplicate")
		verifAssert(err2 != nil, "a second module with the same name is an error")
	} else {
		verifAssert(err2 == nil && len(m.moduleConfigs) == 2, "modules with different names (or none) are both added")
	}
	// adding the same directory again is a no-op
	verifAssert(m.addModule(ctx, d1) == nil && len(m.moduleConfigs) <= 2, "re-adding a directory is a no-op")
}

// VerifLemma_C16D_CheckOptions: equivalentLintConfigInV2 / equivalentBreakingConfigInV2 (the real functions, on the
// stub bufcheck client) carry every scalar option and every path list of a v1 / v1beta1 config over unchanged:
// enum_zero_value_suffix, rpc_allow_same_request_response, rpc_allow_google_protobuf_empty_requests / _responses,
// service_suffix, allow_comment_ignores, disable_builtin, ignore_unstable_packages, ignore, ignore_only, and the
// switched-off state; the result is a v2 config.
func VerifLemma_C16D_CheckOptions() {
	ctx := context.Background()
	n := verifParam("N")
	fileVersion := bufconfig.FileVersionV1
	if verifNondetBool() {
		fileVersion = bufconfig.FileVersionV1Beta1
	}
	// The lint and the breaking section get the same shape but each with rule ids of its own type (the real
	// check client - used natively - rejects a lint id in a breaking config and vice versa).
	var cc, ccBreaking bufconfig.CheckConfig
	off := verifNondetBool()
	if off {
		cc = bufconfig.NewDisabledCheckConfig(fileVersion)
		ccBreaking = bufconfig.NewDisabledCheckConfig(fileVersion)
	} else {
		var use, useBreaking []string
		if verifNondetBool() {
			use = []string{"ENUM_PASCAL_CASE"}
			useBreaking = []string{"FILE_NO_DELETE"}
		}
		var ignore []string
		ignoreOnly := map[string][]string{}
		ignoreOnlyBreaking := map[string][]string{}
		if verifNondetBool() {
			ignore = []string{vComp(n)}
			p := vComp(n) + "/" + vComp(n)
			ignoreOnly["FIELD_LOWER_SNAKE_CASE"] = []string{p}
			ignoreOnlyBreaking["FILE_NO_DELETE"] = []string{p}
		}
		disableBuiltin := verifNondetBool()
		var err error
		cc, err = bufconfig.NewEnabledCheckConfig(fileVersion, use, nil, ignore, ignoreOnly, disableBuiltin)
		verifAssume(err == nil)
		ccBreaking, err = bufconfig.NewEnabledCheckConfig(fileVersion, useBreaking, nil, ignore, ignoreOnlyBreaking, disableBuiltin)
		verifAssume(err == nil)
	}
	lc := bufconfig.NewLintConfig(cc, verifNondetString(1), verifNondetBool(), verifNondetBool(), verifNondetBool(), verifNondetString(1), verifNondetBool())
	bc := bufconfig.NewBreakingConfig(ccBreaking, verifNondetBool())
	lc2, err := equivalentLintConfigInV2(ctx, slog.Default(), lc)
	verifAssert(err == nil, "lint config is migrated")
	bc2, err := equivalentBreakingConfigInV2(ctx, slog.Default(), bc)
	verifAssert(err == nil, "breaking config is migrated")
	verifCover("migrated")
	verifAssert(lc2.FileVersion() == bufconfig.FileVersionV2 && bc2.FileVersion() == bufconfig.FileVersionV2, "migrated configs are v2")
	verifAssert(lc2.Disabled() == off && bc2.Disabled() == off, "switched-off state carried over")
	verifAssert(lc2.EnumZeroValueSuffix() == lc.EnumZeroValueSuffix(), "enum_zero_value_suffix carried over")
	verifAssert(lc2.RPCAllowSameRequestResponse() == lc.RPCAllowSameRequestResponse(), "rpc_allow_same_request_response carried over")
	verifAssert(lc2.RPCAllowGoogleProtobufEmptyRequests() == lc.RPCAllowGoogleProtobufEmptyRequests(), "rpc_allow_google_protobuf_empty_requests carried over")
	verifAssert(lc2.RPCAllowGoogleProtobufEmptyResponses() == lc.RPCAllowGoogleProtobufEmptyResponses(), "rpc_allow_google_protobuf_empty_responses carried over")
	verifAssert(lc2.ServiceSuffix() == lc.ServiceSuffix(), "service_suffix carried over")
	verifAssert(lc2.AllowCommentIgnores() == lc.AllowCommentIgnores(), "allow_comment_ignores carried over")
	verifAssert(bc2.IgnoreUnstablePackages() == bc.IgnoreUnstablePackages(), "ignore_unstable_packages carried over")
	if !off {
		verifCover("enabled")
		verifAssert(lc2.DisableBuiltin() == lc.DisableBuiltin() && bc2.DisableBuiltin() == bc.DisableBuiltin(), "disable_builtin carried over")
		verifAssert(vStrsEq(lc2.IgnorePaths(), lc.IgnorePaths()) && vStrsEq(bc2.IgnorePaths(), bc.IgnorePaths()), "ignore paths carried over")
		m1, m2 := lc.IgnoreIDOrCategoryToPaths(), lc2.IgnoreIDOrCategoryToPaths()
		verifAssert(len(m1) == len(m2), "ignore_only entries carried over (count)")
		for k, v := range m1 {
			verifAssert(vStrsEq(m2[k], v), "ignore_only paths carried over")
		}
		verifAssert(vStrsEq(vConfiguredIDs(ctx, check.RuleTypeLint, lc2), vConfiguredIDs(ctx, check.RuleTypeLint, lc)), "same lint rules")
	}
}
