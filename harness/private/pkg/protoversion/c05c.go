//go:build verif

package protoversion

// Reference recogniser of the documented version forms (doc comment of PackageVersion):
//   v\d+ | v\d+test.* | v\d+(alpha|beta)\d* | v\d+p\d+(alpha|beta)\d*      with every number >= 1
// written as a left-to-right scanner; nothing of the package under test is used.

type lvRefVersion struct {
	ok        bool
	level     StabilityLevel
	hasPatch  bool
	hasMinor  bool
	majorOne  bool // the major number has the value 1 (spelled 0*1)
	suffixLen int
}

// lvDigits scans a maximal run of digits of s from i; returns the end, whether the run is non-empty and whether
// its value is >= 1 (some digit is not '0'), and whether the value is exactly 1.
func lvDigits(s string, i int) (end int, nonEmpty bool, positive bool, isOne bool) {
	end = i
	isOne = true
	for end < len(s) && s[end] >= '0' && s[end] <= '9' {
		if s[end] != '0' {
			positive = true
		}
		if end+1 < len(s) && s[end+1] >= '0' && s[end+1] <= '9' {
			// not the last digit of the run: must be '0' for the value to be 1
			if s[end] != '0' {
				isOne = false
			}
		} else if s[end] != '1' {
			isOne = false
		}
		end++
	}
	nonEmpty = end > i
	if !nonEmpty {
		isOne = false
	}
	return
}

func lvHasAt(s string, i int, w string) bool {
	if i+len(w) > len(s) {
		return false
	}
	for k := 0; k < len(w); k++ {
		if s[i+k] != w[k] {
			return false
		}
	}
	return true
}

func lvRefComponent(c string) lvRefVersion {
	var r lvRefVersion
	if len(c) < 2 || c[0] != 'v' {
		return r
	}
	i, nonEmpty, positive, isOne := lvDigits(c, 1)
	if !nonEmpty || !positive {
		return r
	}
	r.majorOne = isOne
	if i == len(c) {
		r.ok, r.level = true, StabilityLevelStable
		return r
	}
	if lvHasAt(c, i, "test") {
		r.ok, r.level, r.suffixLen = true, StabilityLevelTest, len(c)-i-4
		return r
	}
	if c[i] == 'p' {
		j, ne, pos, _ := lvDigits(c, i+1)
		if !ne || !pos {
			return r
		}
		r.hasPatch = true
		i = j
	}
	if lvHasAt(c, i, "alpha") {
		r.level = StabilityLevelAlpha
		i += 5
	} else if lvHasAt(c, i, "beta") {
		r.level = StabilityLevelBeta
		i += 4
	} else {
		return r
	}
	if i == len(c) {
		r.ok = true
		return r
	}
	j, ne, pos, _ := lvDigits(c, i)
	if !ne || !pos || j != len(c) {
		return r
	}
	r.hasMinor = true
	r.ok = true
	return r
}

func lvIsPkgByte(c byte) bool {
	return (c >= 'a' && c <= 'z') || (c >= 'A' && c <= 'Z') || (c >= '0' && c <= '9') || c == '_'
}

// VerifLemma_C05C_VersionComponent: for every component c over [A-Za-z0-9_] up to N bytes:
// NewPackageVersionForComponent(c) accepts <=> c has one of the documented forms (numbers >= 1), and the parsed
// stability level / presence of patch and minor / suffix agree with the form.
func VerifLemma_C05C_VersionComponent() {
	c := verifNondetString(verifParam("N"))
	for i := 0; i < len(c); i++ {
		verifAssume(lvIsPkgByte(c[i]))
	}
	pv, ok := NewPackageVersionForComponent(c)
	verifCover("parsed")
	ref := lvRefComponent(c)
	if ok {
		verifCover("accepted")
	} else {
		verifCover("rejected")
	}
	verifAssert(ok == ref.ok, "component accepted iff it has a documented version form")
	if !ok || !ref.ok {
		return
	}
	verifAssert(pv.StabilityLevel() == ref.level, "stability level matches the form")
	verifAssert(pv.Major() >= 1, "major >= 1")
	verifAssert((pv.Major() == 1) == ref.majorOne, "major == 1 iff spelled 0*1")
	verifAssert((pv.Patch() > 0) == ref.hasPatch, "patch present iff pN part")
	verifAssert((pv.Minor() > 0) == ref.hasMinor, "minor present iff digits after alpha/beta")
	verifAssert(len(pv.Suffix()) == ref.suffixLen, "test suffix length")
}

// VerifLemma_C05C_VersionPackage: for every package name over [A-Za-z0-9_.] up to N bytes:
// NewPackageVersionForPackage(pkg) accepts <=> pkg has >= 2 dot-separated components and the last one is accepted by
// NewPackageVersionForComponent (so PACKAGE_VERSION_SUFFIX flags exactly the packages without a version suffix).
func VerifLemma_C05C_VersionPackage() {
	pkg := verifNondetString(verifParam("N"))
	lastDot := -1
	for i := 0; i < len(pkg); i++ {
		verifAssume(lvIsPkgByte(pkg[i]) || pkg[i] == '.')
		if pkg[i] == '.' {
			lastDot = i
		}
	}
	_, ok := NewPackageVersionForPackage(pkg)
	verifCover("parsed")
	if lastDot < 0 {
		verifAssert(!ok, "single-component package has no version")
		return
	}
	ref := lvRefComponent(pkg[lastDot+1:])
	if ref.ok {
		verifCover("versioned package")
	}
	verifAssert(ok == ref.ok, "package accepted iff last component is a version")
}

// lvKeywords are the concrete middles of the shaped lemma: the documented stability words, with and without a
// patch part, and near-misses (zero patch, missing patch number, two words, word followed by "test", ...).
var lvKeywords = []string{
	"alpha", "beta", "test", "p1alpha", "p1beta", "p0beta", "palpha", "alphabeta", "alphatest", "testalpha", "p1test", "alpha1beta",
}

// VerifLemma_C05C_VersionShaped: the long documented forms ("v1alpha1", "v1p1beta2", "v1testfoo" need 8-9 bytes) at
// an affordable cost: c = "v" + a + K + b with K any of lvKeywords (structural choice) and a, b *every* string over
// [A-Za-z0-9_] of length 0..A / 0..B. Same assertion as VerifLemma_C05C_VersionComponent.
func VerifLemma_C05C_VersionShaped() {
	k := lvKeywords[verifNondetChoice(len(lvKeywords))]
	a := verifNondetString(verifParam("A"))
	for i := 0; i < len(a); i++ {
		verifAssume(lvIsPkgByte(a[i]))
	}
	b := verifNondetString(verifParam("B"))
	for i := 0; i < len(b); i++ {
		verifAssume(lvIsPkgByte(b[i]))
	}
	c := "v" + a + k + b
	pv, ok := NewPackageVersionForComponent(c)
	verifCover("parsed")
	ref := lvRefComponent(c)
	if ok {
		verifCover("accepted")
	}
	verifAssert(ok == ref.ok, "component accepted iff it has a documented version form")
	if !ok || !ref.ok {
		return
	}
	verifAssert(pv.StabilityLevel() == ref.level, "stability level matches the form")
	verifAssert((pv.Patch() > 0) == ref.hasPatch, "patch present iff pN part")
	verifAssert((pv.Minor() > 0) == ref.hasMinor, "minor present iff digits after alpha/beta")
	verifAssert(len(pv.Suffix()) == ref.suffixLen, "test suffix length")
}
