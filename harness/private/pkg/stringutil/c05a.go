//go:build verif

package stringutil

// Reference grammars of the three naming styles over the lexical alphabet of a proto identifier
// ([A-Za-z0-9_]). They are written as plain byte loops; nothing of the package under test is used.

func refIsIdentByte(c byte) bool {
	return (c >= 'a' && c <= 'z') || (c >= 'A' && c <= 'Z') || (c >= '0' && c <= '9') || c == '_'
}

// refIsPascal: [A-Z0-9][A-Za-z0-9]* (no underscore, does not start with a lower-case letter).
// A leading digit cannot occur in a proto identifier; it is accepted here because the converter leaves it alone.
func refIsPascal(s string) bool {
	if len(s) == 0 {
		return false
	}
	if s[0] >= 'a' && s[0] <= 'z' {
		return false
	}
	for i := 0; i < len(s); i++ {
		if s[i] == '_' {
			return false
		}
	}
	return true
}

// refIsSnake: words of [lo..hi]|[0-9] separated by single underscores, no leading/trailing underscore.
func refIsSnake(s string, lo, hi byte) bool {
	if len(s) == 0 {
		return false
	}
	prevUnderscore := true // so that a leading '_' is rejected
	for i := 0; i < len(s); i++ {
		c := s[i]
		if c == '_' {
			if prevUnderscore {
				return false
			}
			prevUnderscore = true
			continue
		}
		if !((c >= lo && c <= hi) || (c >= '0' && c <= '9')) {
			return false
		}
		prevUnderscore = false
	}
	return !prevUnderscore
}

func lvNondetIdent(n int) string {
	s := verifNondetString(n)
	for i := 0; i < len(s); i++ {
		verifAssume(refIsIdentByte(s[i]))
	}
	return s
}

// VerifLemma_C05A_Pascal: for every identifier-alphabet string s (1..N bytes): ToPascalCase(s) == s  <=>  s is in
// the PascalCase grammar (no false positive on conforming names, no false negative on names with '_' or a
// lower-case initial); the suggestion is itself PascalCase (or empty) and the conversion is idempotent.
func VerifLemma_C05A_Pascal() {
	s := lvNondetIdent(verifParam("N"))
	verifAssume(len(s) > 0)
	out := ToPascalCase(s)
	verifCover("converted")
	if refIsPascal(s) {
		verifCover("conforming")
		verifAssert(out == s, "PascalCase name is a fixed point (no false positive)")
	} else {
		verifCover("violating")
		verifAssert(out != s, "non-PascalCase name is not a fixed point (no false negative)")
	}
	verifAssert(len(out) == 0 || refIsPascal(out), "suggested name is PascalCase")
	verifAssert(ToPascalCase(out) == out, "ToPascalCase idempotent")
}

// VerifLemma_C05A_LowerSnake: same for ToLowerSnakeCase and the lower_snake_case grammar.
func VerifLemma_C05A_LowerSnake() {
	s := lvNondetIdent(verifParam("N"))
	verifAssume(len(s) > 0)
	out := ToLowerSnakeCase(s)
	verifCover("converted")
	if refIsSnake(s, 'a', 'z') {
		verifCover("conforming")
		verifAssert(out == s, "lower_snake_case name is a fixed point (no false positive)")
	} else {
		verifCover("violating")
		verifAssert(out != s, "non-lower_snake_case name is not a fixed point (no false negative)")
	}
	verifAssert(len(out) == 0 || refIsSnake(out, 'a', 'z'), "suggested name is lower_snake_case")
	verifAssert(ToLowerSnakeCase(out) == out, "ToLowerSnakeCase idempotent")
}

// VerifLemma_C05A_UpperSnake: same for ToUpperSnakeCase and the UPPER_SNAKE_CASE grammar.
func VerifLemma_C05A_UpperSnake() {
	s := lvNondetIdent(verifParam("N"))
	verifAssume(len(s) > 0)
	out := ToUpperSnakeCase(s)
	verifCover("converted")
	if refIsSnake(s, 'A', 'Z') {
		verifCover("conforming")
		verifAssert(out == s, "UPPER_SNAKE_CASE name is a fixed point (no false positive)")
	} else {
		verifCover("violating")
		verifAssert(out != s, "non-UPPER_SNAKE_CASE name is not a fixed point (no false negative)")
	}
	verifAssert(len(out) == 0 || refIsSnake(out, 'A', 'Z'), "suggested name is UPPER_SNAKE_CASE")
	verifAssert(ToUpperSnakeCase(out) == out, "ToUpperSnakeCase idempotent")
}
