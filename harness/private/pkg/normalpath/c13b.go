//go:build verif

package normalpath

// refUnder: ext is root itself or lies strictly below it, for *normalized* paths that may be absolute or start
// with ".." components (bucket roots are not validated): ext == root, or ext == root + "/" + rest where rest has
// no ".." component (a normalized rest could only have leading ones, which would climb out again).
// Special spellings: root "." (rest = ext, must be relative) and root "/" (rest = ext without the slash).
func refUnder(root, ext string) bool {
	if ext == root {
		return true
	}
	var rest string
	switch {
	case root == ".":
		if len(ext) > 0 && ext[0] == '/' {
			return false
		}
		rest = ext
	case root == "/":
		if len(ext) == 0 || ext[0] != '/' {
			return false
		}
		rest = ext[1:]
	default:
		if len(ext) <= len(root)+1 || ext[:len(root)] != root || ext[len(root)] != '/' {
			return false
		}
		rest = ext[len(root)+1:]
	}
	return len(rest) > 0 && refNoDotDotComponent(rest)
}

// vcRoot returns a bucket root: one of the fixed spellings or an arbitrary normalized path of <= n bytes
// (absolute and ..-prefixed roots included - storageos does not validate its root).
func vcRoot(n int) string {
	switch verifNondetChoice(6) {
	case 0:
		return "."
	case 1:
		return "a"
	case 2:
		return "a/b"
	case 3:
		return "/r"
	case 4:
		return "../u"
	}
	r := verifNondetString(n)
	verifAssume(Normalize(r) == r)
	return r
}

// VerifLemma_C13B_Join: joining a validated path onto any normalized root stays at or below that root.
func VerifLemma_C13B_Join() {
	root := vcRoot(verifParam("ROOT"))
	s := verifNondetString(verifParam("N"))
	p, err := NormalizeAndValidate(s)
	if err != nil {
		return
	}
	verifCover("validated")
	j := Join(root, p)
	verifAssert(refUnder(root, j), "Join(root, validated path) is the root or below it")
	if p == "." {
		verifAssert(j == root, "Join(root, .) is the root")
	} else {
		verifAssert(j != root, "Join(root, non-root path) is strictly below the root")
	}
	verifAssert(Normalize(j) == j, "Join result is normalized")
}

// VerifLemma_C13B_WalkRel: the path layer of storageos.Walk: for an absolute root and any absolute cleaned
// external path, Rel + NormalizeAndValidate accepts only external paths below the root, and the accepted
// relative path joined onto the root is the external path again (no other object is named).
func VerifLemma_C13B_WalkRel() {
	var root string
	switch verifNondetChoice(4) {
	case 0:
		root = "/"
	case 1:
		root = "/r"
	case 2:
		root = "/r/s"
	default:
		root = verifNondetString(verifParam("ROOT"))
		verifAssume(len(root) > 0 && root[0] == '/')
		verifAssume(Normalize(root) == root)
	}
	abs := verifNondetString(verifParam("N"))
	verifAssume(len(abs) > 0 && abs[0] == '/')
	verifAssume(Normalize(abs) == abs)
	verifCover("inputs")
	path, err := Rel(root, abs)
	if err != nil {
		return
	}
	path, err = NormalizeAndValidate(path)
	under := refUnder(root, abs)
	verifAssert((err == nil) == under, "the relative path is accepted exactly for external paths at or below the root")
	if err != nil {
		return
	}
	verifCover("accepted")
	verifAssert(Join(root, path) == abs, "root joined with the accepted relative path is the external path")
}
