//go:build verif

package normalpath

// refNoDotDotComponent reports whether no '/'-separated component of p is "..".
func refNoDotDotComponent(p string) bool {
	start := 0
	for i := 0; i <= len(p); i++ {
		if i == len(p) || p[i] == '/' {
			if i-start == 2 && p[start] == '.' && p[start+1] == '.' {
				return false
			}
			start = i + 1
		}
	}
	return true
}

// VerifLemma_C13A_Validate: for every byte string s up to N bytes, a path accepted by
// NormalizeAndValidate is relative, is a fixed point of Normalize, and has no ".." component.
func VerifLemma_C13A_Validate() {
	s := verifNondetString(verifParam("N"))
	p, err := NormalizeAndValidate(s)
	if err != nil {
		return
	}
	verifCover("accepted")
	if verifKnown("F2-bare-dotdot", p == "..") {
		return
	}
	verifAssert(refNoDotDotComponent(p), "accepted path has no .. component")
	verifAssert(len(p) > 0 && p[0] != '/', "accepted path is relative and non-empty")
	verifAssert(Normalize(p) == p, "accepted path is normalized")
}

// VerifLemma_C13A_ValidateExact: the verdict of NormalizeAndValidate is exactly "the cleaned path (independent
// component-stack reference refClean, c14.go) is relative and does not start with a .. component" - so nothing
// hostile is accepted and nothing harmless is rejected ("good case still works").
func VerifLemma_C13A_ValidateExact() {
	s := verifNondetString(verifParam("N"))
	want := refClean(s)
	hostile := want[0] == '/' || want == ".." || (len(want) >= 3 && want[0] == '.' && want[1] == '.' && want[2] == '/')
	p, err := NormalizeAndValidate(s)
	verifCover("validated")
	verifAssert((err != nil) == hostile, "rejected exactly when the cleaned path is absolute or starts with ..")
	if err == nil {
		verifAssert(p == want, "accepted path is the reference cleaned path")
	}
	// harmless spellings: no leading '/', no ".." component anywhere => always accepted
	if len(s) > 0 && s[0] != '/' && refNoDotDotComponent(s) {
		verifCover("harmless")
		verifAssert(err == nil, "a relative path without .. components is accepted")
	}
}

// VerifLemma_C13A_Component: ValidatePathComponent(c)=nil => c is non-empty, has no '/' and no ".."; plain names
// are accepted. All 256 byte values (url.PathEscape forks ~20 ways per byte, hence the small N).
func VerifLemma_C13A_Component() {
	c := verifNondetString(verifParam("N"))
	err := ValidatePathComponent(c)
	verifCover("checked")
	plain := len(c) > 0
	for i := 0; i < len(c); i++ {
		ch := c[i]
		if !((ch >= 'a' && ch <= 'z') || (ch >= '0' && ch <= '9') || ch == '_' || ch == '-') {
			plain = false
		}
	}
	if plain {
		verifAssert(err == nil, "a plain name is a valid component")
	}
	if err != nil {
		return
	}
	verifCover("accepted component")
	vcCheckComponentShape(c)
}

func vcCheckComponentShape(c string) {
	verifAssert(len(c) > 0, "accepted component is non-empty")
	for i := 0; i < len(c); i++ {
		verifAssert(c[i] != '/', "accepted component has no slash")
		if i+1 < len(c) {
			verifAssert(!(c[i] == '.' && c[i+1] == '.'), "accepted component has no ..")
		}
	}
}

// VerifLemma_C13A_ComponentJoin: longer components over the alphabet that matters for containment
// ('a', '.', '/', '%', '~', ' ', 0x00, 0xff): an accepted component joined onto a validated root is a strict
// descendant of that root (or the root itself for the component "."), never a sibling or ancestor.
func VerifLemma_C13A_ComponentJoin() {
	const alpha = "a./%~ \x00\xff"
	n := verifNondetChoice(verifParam("N") + 1)
	b := make([]byte, n)
	for i := range b {
		b[i] = alpha[verifNondetChoice(len(alpha))]
	}
	c := string(b)
	err := ValidatePathComponent(c)
	verifCover("checked")
	if err != nil {
		return
	}
	verifCover("accepted component")
	vcCheckComponentShape(c)
	root := vcNormalizedValidated(verifParam("ROOT"))
	j := Join(root, c)
	if c == "." {
		verifAssert(j == root, "joining the component . stays at the root")
		return
	}
	verifAssert(refEqualsOrContains(root, j) && j != root, "Join(root, component) is strictly inside root")
	verifAssert(refNoDotDotComponent(j), "Join(root, component) has no .. component")
}
