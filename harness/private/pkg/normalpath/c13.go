//go:build verif

package normalpath

// refNoDotDotComponent reports whether no '/'-separated component of p is "..".
func refNoDotDotComponent(p string) bool {
	start := 0
	for i := 0; i <= len(p); i++ {
		if i == len(p) || p[i] == '/' {
			if i-start == 2 && p[start] == '.' && p[start+1] == '.' {
				return false
			}
			start = i + 1
		}
	}
	return true
}

// VerifLemma_C13A_Validate: for every byte string s up to N bytes, a path accepted by
// NormalizeAndValidate is relative, is a fixed point of Normalize, and has no ".." component.
func VerifLemma_C13A_Validate() {
	s := verifNondetString(verifParam("N"))
	p, err := NormalizeAndValidate(s)
	if err != nil {
		return
	}
	verifCover("accepted")
	if verifKnown("F2-bare-dotdot", p == "..") {
		return
	}
	verifAssert(refNoDotDotComponent(p), "accepted path has no .. component")
	verifAssert(len(p) > 0 && p[0] != '/', "accepted path is relative and non-empty")
	verifAssert(Normalize(p) == p, "accepted path is normalized")
}
