//go:build verif

package normalpath

// ---- shared reference models (plain byte loops; used by the C13 / C14 lemmas of this package) ----

// refClean is an independent reference for Normalize on unix: lexical cleaning by a component stack.
//   - split on '/', drop "" and "." components
//   - ".." pops the previous component unless there is none or it is itself ".."; at the root of an absolute
//     path it is dropped; otherwise it is kept
//   - result is the components joined by '/', prefixed by '/' if s is rooted; empty result is "."
func refClean(s string) string {
	rooted := len(s) > 0 && s[0] == '/'
	var starts, ends []int // component stack as index pairs into s
	i := 0
	for i <= len(s) {
		j := i
		for j < len(s) && s[j] != '/' {
			j++
		}
		// component s[i:j]
		if j-i == 0 || (j-i == 1 && s[i] == '.') {
			// skip
		} else if j-i == 2 && s[i] == '.' && s[i+1] == '.' {
			n := len(starts)
			if n > 0 && !(ends[n-1]-starts[n-1] == 2 && s[starts[n-1]] == '.' && s[starts[n-1]+1] == '.') {
				starts, ends = starts[:n-1], ends[:n-1]
			} else if !rooted {
				starts, ends = append(starts, i), append(ends, j)
			}
		} else {
			starts, ends = append(starts, i), append(ends, j)
		}
		i = j + 1
	}
	var out []byte
	if rooted {
		out = append(out, '/')
	}
	for k := range starts {
		if k > 0 {
			out = append(out, '/')
		}
		for x := starts[k]; x < ends[k]; x++ {
			out = append(out, s[x])
		}
	}
	if len(out) == 0 {
		return "."
	}
	return string(out)
}

// refEqualsOrContains is the component-wise ("path-wise") prefix relation on normalized relative paths:
// v is the root ".", or v equals p, or p continues v at a '/' boundary.
func refEqualsOrContains(v, p string) bool {
	if v == "." {
		return true
	}
	if len(p) == len(v) {
		return p == v
	}
	if len(p) > len(v) {
		return p[:len(v)] == v && p[len(v)] == '/'
	}
	return false
}

// vcNormalizedValidated returns an arbitrary normalized+validated relative path of at most n bytes
// (every fixed point of NormalizeAndValidate, "." included).
func vcNormalizedValidated(n int) string {
	s := verifNondetString(n)
	p, err := NormalizeAndValidate(s)
	verifAssume(err == nil)
	verifAssume(p == s)
	return s
}

// VerifLemma_C14A_CleanReference: Normalize agrees with the component-stack reference on every byte string.
// (Grounds the use of refClean as the "equivalent spellings" oracle elsewhere.)
func VerifLemma_C14A_CleanReference() {
	s := verifNondetString(verifParam("N"))
	got := Normalize(s)
	want := refClean(s)
	verifCover("normalized")
	verifAssert(got == want, "Normalize(s) equals the component-stack reference")
}

// VerifLemma_C14A_EqualsOrContains: EqualsOrContainsPath (walks up with Dir) is exactly the component-prefix
// relation on normalized validated paths; ContainsPath is its strict version.
func VerifLemma_C14A_EqualsOrContains() {
	n := verifParam("N")
	v := vcNormalizedValidated(n)
	p := vcNormalizedValidated(n)
	verifCover("pair")
	got := EqualsOrContainsPath(v, p, Relative)
	verifAssert(got == refEqualsOrContains(v, p), "EqualsOrContainsPath equals the component-prefix relation")
	gotStrict := ContainsPath(v, p, Relative)
	verifAssert(gotStrict == (v != p && refEqualsOrContains(v, p)), "ContainsPath equals the strict component-prefix relation")
}

// VerifLemma_C14A_MapContaining: the map variants agree with the pairwise relation on maps of <= 2 keys.
func VerifLemma_C14A_MapContaining() {
	n := verifParam("N")
	p := vcNormalizedValidated(n)
	m := make(map[string]struct{})
	var keys []string
	cnt := verifNondetChoice(3)
	for i := 0; i < cnt; i++ {
		k := vcNormalizedValidated(n)
		if i == 1 {
			verifAssume(k != keys[0])
		}
		keys = append(keys, k)
		m[k] = struct{}{}
	}
	verifCover("map built")
	want := false
	wantN := 0
	for _, k := range keys {
		if refEqualsOrContains(k, p) {
			want = true
			wantN++
		}
	}
	verifAssert(MapHasEqualOrContainingPath(m, p, Relative) == want, "MapHasEqualOrContainingPath equals exists-key relation")
	all := MapAllEqualOrContainingPathMap(m, p, Relative)
	verifAssert(len(all) == wantN, "MapAllEqualOrContainingPathMap returns as many keys as the reference")
	for _, k := range keys {
		_, in := all[k]
		verifAssert(in == refEqualsOrContains(k, p), "MapAllEqualOrContainingPathMap contains exactly the related keys")
	}
	sl := MapAllEqualOrContainingPaths(m, p, Relative)
	verifAssert(len(sl) == wantN, "MapAllEqualOrContainingPaths has the reference size")
	if len(sl) == 2 {
		verifAssert(sl[0] < sl[1], "MapAllEqualOrContainingPaths is sorted and duplicate-free")
	}
}

// VerifLemma_C14A_Spellings: equivalent spellings of a path denote the same validated path. A spelling s2 is
// derived from s by one rewrite that the path semantics say is a no-op (doubling a '/', inserting "./" or
// "x/../" at a component start, appending '/' or "/."): NormalizeAndValidate gives the same verdict and path.
func VerifLemma_C14A_Spellings() {
	s := verifNondetString(verifParam("N"))
	at := verifNondetChoice(len(s) + 1)
	// insertion points: component starts (not before a leading '/', which would turn absolute into relative)
	compStart := (at == 0 && (len(s) == 0 || s[0] != '/')) || (at > 0 && s[at-1] == '/')
	var ins string
	switch verifNondetChoice(5) {
	case 0:
		verifAssume(at > 0 && s[at-1] == '/')
		ins = "/"
	case 1:
		verifAssume(compStart)
		ins = "./"
	case 2:
		verifAssume(compStart)
		ins = "x/../"
	case 3:
		verifAssume(at == len(s) && len(s) > 0)
		ins = "/"
	case 4:
		verifAssume(at == len(s) && len(s) > 0)
		ins = "/."
	}
	s2 := s[:at] + ins + s[at:]
	verifCover("respelled")
	p1, err1 := NormalizeAndValidate(s)
	p2, err2 := NormalizeAndValidate(s2)
	verifAssert((err1 == nil) == (err2 == nil), "equivalent spellings are accepted or rejected together")
	if err1 == nil && err2 == nil {
		verifAssert(p1 == p2, "equivalent spellings normalize to the same path")
	}
}
