//go:build verif

package protosourcepath

import "google.golang.org/protobuf/reflect/protoreflect"

// Reference grammar of descriptor source paths (descriptor.proto field numbers), written as a recursive
// descent over positions. It returns whether the path is a well-formed location path and the list of
// *lengths* of the prefixes of p that are the enclosing complete declarations (outermost first).
// A length of -1 stands for "the whole path" (option paths are associated with themselves).
//
// Nothing of the package under test is used: the constants are the numbers from descriptor.proto.

type lvRef struct {
	p        []int32
	lens     []int
	ok       bool
	jsonName bool // the path ends in FieldDescriptorProto.json_name (10)
}

func (r *lvRef) emit(n int) { r.lens = append(r.lens, n) }

// mustEnd: the path must end exactly at length n.
func (r *lvRef) mustEnd(n int) { r.ok = len(r.p) == n }

func lvRefAssociated(p []int32) (bool, []int, bool) {
	r := &lvRef{p: p}
	r.file()
	return r.ok, r.lens, r.jsonName
}

func (r *lvRef) file() {
	p := r.p
	if len(p) == 0 {
		r.ok = true
		return
	}
	switch p[0] {
	case 2, 12, 14: // package, syntax, edition
		r.emit(1)
		r.mustEnd(1)
	case 3: // dependency[i]
		if len(p) < 2 {
			return
		}
		r.emit(2)
		r.mustEnd(2)
	case 4:
		if len(p) < 2 {
			return
		}
		r.message(1)
	case 5:
		if len(p) < 2 {
			return
		}
		r.enum(1)
	case 6:
		if len(p) < 2 {
			return
		}
		r.service(1)
	case 8: // file options: associated with the full path, anything may follow
		r.emit(-1)
		r.ok = true
	case 7: // extension block, then extension[i] as a field
		r.emit(1)
		if len(p) == 1 {
			r.ok = true
			return
		}
		r.field(1)
	}
}

// message: p[i] is the index of a message declaration.
func (r *lvRef) message(i int) {
	p := r.p
	r.emit(i + 1)
	if len(p) == i+1 {
		r.ok = true
		return
	}
	j := i + 1 // position of the member tag
	switch p[j] {
	case 1: // name
		r.mustEnd(j + 1)
	case 2: // field[k]
		if len(p) < j+2 {
			return
		}
		r.field(j + 1)
	case 8: // oneof_decl[k]
		if len(p) < j+2 {
			return
		}
		r.oneof(j + 1)
	case 3: // nested_type[k]
		if len(p) < j+2 {
			return
		}
		r.message(j + 1)
	case 4: // enum_type[k]
		if len(p) < j+2 {
			return
		}
		r.enum(j + 1)
	case 7: // options
		r.emit(-1)
		r.ok = true
	case 5: // extension_range
		r.emit(j + 1)
		if len(p) == j+1 {
			r.ok = true
			return
		}
		r.rangeDecl(j+1, true)
	case 6: // extension (block), extension[k] as a field
		r.emit(j + 1)
		if len(p) == j+1 {
			r.ok = true
			return
		}
		r.field(j + 1)
	case 9: // reserved_range
		r.emit(j + 1)
		if len(p) == j+1 {
			r.ok = true
			return
		}
		r.rangeDecl(j+1, false)
	case 10: // reserved_name
		r.emit(j + 1)
		if len(p) == j+1 {
			r.ok = true
			return
		}
		r.emit(j + 2)
		r.mustEnd(j + 2)
	}
}

// rangeDecl: p[i] is the index of an extension range / reserved range.
func (r *lvRef) rangeDecl(i int, withOptions bool) {
	p := r.p
	r.emit(i + 1)
	if len(p) == i+1 {
		r.ok = true
		return
	}
	t := p[i+1]
	if t == 1 || t == 2 { // start, end
		r.mustEnd(i + 2)
		return
	}
	if withOptions && t == 3 {
		r.emit(-1)
		r.ok = true
	}
}

// field: p[i] is the index of a field / extension declaration.
func (r *lvRef) field(i int) {
	p := r.p
	r.emit(i + 1)
	if len(p) == i+1 {
		r.ok = true
		return
	}
	switch p[i+1] {
	case 1, 2, 3, 4, 5, 6: // name, extendee, number, label, type, type_name
		r.mustEnd(i + 2)
	case 10: // json_name (bufprotosource.Field.JSONNameLocation): only present when set, associated with itself like default_value
		r.emit(i + 2)
		r.mustEnd(i + 2)
		r.jsonName = r.ok
	case 7: // default_value
		r.emit(i + 2)
		r.mustEnd(i + 2)
	case 8: // options
		r.emit(-1)
		r.ok = true
	}
}

func (r *lvRef) oneof(i int) {
	p := r.p
	r.emit(i + 1)
	if len(p) == i+1 {
		r.ok = true
		return
	}
	switch p[i+1] {
	case 1:
		r.mustEnd(i + 2)
	case 2:
		r.emit(-1)
		r.ok = true
	}
}

func (r *lvRef) enum(i int) {
	p := r.p
	r.emit(i + 1)
	if len(p) == i+1 {
		r.ok = true
		return
	}
	j := i + 1
	switch p[j] {
	case 1:
		r.mustEnd(j + 1)
	case 2: // value[k]
		if len(p) < j+2 {
			return
		}
		r.emit(j + 2)
		if len(p) == j+2 {
			r.ok = true
			return
		}
		switch p[j+2] {
		case 1, 2:
			r.mustEnd(j + 3)
		case 3:
			r.emit(-1)
			r.ok = true
		}
	case 3:
		r.emit(-1)
		r.ok = true
	case 4: // reserved_range
		r.emit(j + 1)
		if len(p) == j+1 {
			r.ok = true
			return
		}
		r.rangeDecl(j+1, false)
	case 5: // reserved_name
		r.emit(j + 1)
		if len(p) == j+1 {
			r.ok = true
			return
		}
		r.emit(j + 2)
		r.mustEnd(j + 2)
	}
}

func (r *lvRef) service(i int) {
	p := r.p
	r.emit(i + 1)
	if len(p) == i+1 {
		r.ok = true
		return
	}
	j := i + 1
	switch p[j] {
	case 1:
		r.mustEnd(j + 1)
	case 2: // method[k]
		if len(p) < j+2 {
			return
		}
		r.emit(j + 2)
		if len(p) == j+2 {
			r.ok = true
			return
		}
		switch p[j+2] {
		case 1, 2, 3, 5, 6: // name, input, output, client_streaming, server_streaming
			r.mustEnd(j + 3)
		case 4:
			r.emit(-1)
			r.ok = true
		}
	case 3:
		r.emit(-1)
		r.ok = true
	}
}

func lvIsPrefix(q, p protoreflect.SourcePath, n int) bool {
	if len(q) != n || n > len(p) {
		return false
	}
	for i := 0; i < n; i++ {
		if q[i] != p[i] {
			return false
		}
	}
	return true
}

// VerifLemma_C06C_AssociatedSourcePaths: for every int32 sequence p of length 0..N:
// GetAssociatedSourcePaths accepts p <=> the reference grammar of descriptor location paths accepts p; and for
// an accepted p the result is exactly the list of enclosing complete declarations: every returned path is a
// prefix of p (a comment directive can only suppress from the element itself or an enclosing element, never from
// a sibling), the lengths are the reference's, and a non-empty path has at least one associated path.
func VerifLemma_C06C_AssociatedSourcePaths() {
	n := verifNondetChoice(verifParam("N") + 1)
	p := make(protoreflect.SourcePath, n)
	for i := 0; i < n; i++ {
		p[i] = verifNondetInt32(-2147483648, 2147483647)
	}
	saved := make([]int32, n)
	copy(saved, p)
	got, err := GetAssociatedSourcePaths(p)
	verifCover("returned")
	ok, lens, jsonName := lvRefAssociated(saved)
	if verifKnown("F21-json-name-source-path", jsonName) {
		return
	}
	if err != nil {
		verifCover("rejected")
		verifAssert(!ok, "a path of the reference grammar is accepted")
		return
	}
	verifCover("accepted")
	// Whatever is accepted (the contract does not forbid accepting more location paths than this grammar knows):
	// every associated path is a prefix of the input - suppression can only come from the element or an encloser.
	for k := 0; k < len(got); k++ {
		verifAssert(lvIsPrefix(got[k], saved, len(got[k])), "every associated path is a prefix of the input")
	}
	if !ok {
		verifCover("accepted outside the reference grammar")
		return
	}
	verifAssert(n == 0 || len(got) > 0, "a valid non-empty path has at least one associated path")
	// As a *set* (order and repetitions are not part of the contract): exactly the enclosing complete declarations.
	for k := 0; k < len(got); k++ {
		expected := false
		for _, want := range lens {
			if want < 0 {
				want = n
			}
			if len(got[k]) == want {
				expected = true
			}
		}
		verifAssert(expected, "every associated path is one of the enclosing complete declarations")
	}
	for _, want := range lens {
		if want < 0 {
			want = n
		}
		found := false
		for k := 0; k < len(got); k++ {
			if len(got[k]) == want {
				found = true
			}
		}
		verifAssert(found, "every enclosing complete declaration is among the associated paths")
	}
}
