//go:build verif

package netrc

import (
	"io/fs"
	"os"
	"path/filepath"

	"github.com/jdx/go-netrc"
)

// ---- environment of GetMachineForNameAndFilePath under the engine ----
//
// os.Stat and netrc.Parse are delegated to these functions by the engine (intercepts_osfs.go, intercepts_netrc.go);
// the file's text goes through the library's real lexer and parser (netrc.ParseString).
// Natively (replay) the real functions run on a real temporary file with the same text.

var (
	vhFileExists bool
	vhContents   string
)

func verifOSLstat(name string) (os.FileInfo, error) {
	if !vhFileExists {
		return nil, &fs.PathError{Op: "stat", Path: name, Err: fs.ErrNotExist}
	}
	return nil, nil
}

func verifNetrcParse(path string) (*netrc.Netrc, error) {
	return netrc.ParseString(vhContents)
}

type vhEntry struct {
	isDefault bool
	name      string
	password  string
}

func vhLower(s string) {
	for i := 0; i < len(s); i++ {
		c := s[i]
		verifAssume(c >= 'a' && c <= 'z')
	}
}

// VerifLemma_C19C_NetrcMachine: GetMachineForNameAndFilePath(h, file) over a .netrc with up to ENTRIES entries in
// any order (machine entries with distinct symbolic names, at most one `default` entry): the machine named exactly h
// if there is one - wherever the default entry stands -, else the default entry (reported with the empty name),
// else nil; a missing file gives nil. The password returned is that entry's password, never another entry's.
func VerifLemma_C19C_NetrcMachine() {
	n := verifNondetChoice(verifParam("ENTRIES") + 1)
	host := verifNondetStringN(verifNondetChoice(verifParam("N")) + 1)
	vhLower(host)
	entries := make([]vhEntry, n)
	haveDefault := false
	for i := 0; i < n; i++ {
		e := vhEntry{password: verifNondetStringN(1)}
		vhLower(e.password)
		if !haveDefault && verifNondetBool() {
			e.isDefault, e.name, haveDefault = true, "default", true
		} else {
			e.name = verifNondetStringN(verifNondetChoice(verifParam("N")) + 1)
			vhLower(e.name)
			// names that are keywords of the .netrc syntax start a new entry when they appear as a token
			verifAssume(e.name != "default" && e.name != "machine")
			for j := 0; j < i; j++ {
				verifAssume(entries[j].name != e.name)
			}
		}
		entries[i] = e
	}
	// a machine literally called "default" cannot be told from the default entry: outside the claim
	verifAssume(host != "default")
	exists := verifNondetBool()
	contents := ""
	for _, e := range entries {
		if e.isDefault {
			contents += "default\n"
		} else {
			contents += "machine " + e.name + "\n"
		}
		contents += "  login login\n  password " + e.password + "\n"
	}
	filePath := "/netrc"
	if verifInEngine() {
		vhFileExists, vhContents = exists, contents
	} else {
		dir, err := os.MkdirTemp("", "verifnetrc")
		verifAssume(err == nil)
		defer os.RemoveAll(dir)
		filePath = filepath.Join(dir, "netrc")
		if exists {
			verifAssume(os.WriteFile(filePath, []byte(contents), 0600) == nil)
		}
	}
	m, err := GetMachineForNameAndFilePath(host, filePath)
	verifCover("looked up")
	verifAssert(err == nil, "lookup does not fail")
	if !exists {
		verifAssert(m == nil, "no file, no machine")
		return
	}
	// reference: exact name first, default second
	idx := -1
	for i, e := range entries {
		if !e.isDefault && e.name == host {
			idx = i
		}
	}
	if idx < 0 {
		for i, e := range entries {
			if e.isDefault {
				idx = i
			}
		}
		if idx < 0 {
			verifCover("no entry")
			verifAssert(m == nil, "neither the host nor a default entry: nil")
			return
		}
		verifCover("default entry")
		verifAssert(m != nil, "default entry is used when the host has no entry")
		verifAssert(m.Name() == "" && m.Password() == entries[idx].password, "default entry: empty name, its own password")
		return
	}
	verifCover("host entry")
	verifAssert(m != nil, "the host's entry is found")
	verifAssert(m.Name() == host, "the entry named exactly like the host is returned")
	verifAssert(m.Password() == entries[idx].password, "the host's own password is returned, wherever the default entry stands")
	verifAssert(m.Login() == "login", "login of that entry")
}
