//go:build verif

package thread

import (
	"context"
	"errors"
)

var vErrJob = errors.New("job failed")

// VerifLemma_C02D_Parallelize: for n <= JOBS jobs with arbitrary failure flags, parallelism 1..JOBS and
// with/without cancel-on-failure, under every completion order of the cooperative scheduler:
// every job runs at most once; without cancellation every job runs exactly once; the returned error is
// non-nil iff some job that ran failed (or the context was cancelled before a job could start).
func VerifLemma_C02D_Parallelize() {
	n := verifNondetChoice(verifParam("JOBS")) + 1
	par := verifNondetChoice(verifParam("JOBS")) + 1
	cancelOnFailure := verifNondetBool()
	SetParallelism(par)
	ran := make([]int, n)
	fails := make([]bool, n)
	jobs := make([]func(context.Context) error, n)
	for i := 0; i < n; i++ {
		i := i
		fails[i] = verifNondetBool()
		jobs[i] = func(ctx context.Context) error {
			ran[i]++
			if fails[i] {
				return vErrJob
			}
			return nil
		}
	}
	var opts []ParallelizeOption
	if cancelOnFailure {
		opts = append(opts, ParallelizeWithCancelOnFailure())
	}
	err := Parallelize(context.Background(), jobs, opts...)
	verifCover("returned")
	anyRanFailed, anyFail, skipped := false, false, false
	for i := 0; i < n; i++ {
		verifAssert(ran[i] <= 1, "a job runs at most once")
		if ran[i] == 1 && fails[i] {
			anyRanFailed = true
		}
		if fails[i] {
			anyFail = true
		}
		if ran[i] == 0 {
			skipped = true
		}
	}
	if skipped {
		verifCover("some job was skipped after cancellation")
	}
	if !cancelOnFailure {
		verifAssert(!skipped, "without cancel-on-failure every job runs")
		verifAssert((err != nil) == anyFail, "error iff some job failed")
	} else {
		verifAssert(!skipped || anyRanFailed, "a job is skipped only after a failure")
		verifAssert((err != nil) == anyRanFailed, "error iff some job that ran failed")
	}
	if anyRanFailed {
		verifAssert(errors.Is(err, vErrJob), "a job's error is in the returned chain")
	}
}

// VerifLemma_C02D_ParallelizeExternalCancel: the caller's context is cancelled while Parallelize is running
// (here: by one of the jobs, which itself succeeds). Whatever the completion order and options, Parallelize must
// not report success unless every job ran: a job that was never started because of the cancellation has to
// surface as a non-nil error (ctx.Err()).
func VerifLemma_C02D_ParallelizeExternalCancel() {
	n := verifNondetChoice(verifParam("JOBS")-1) + 2 // 2..JOBS
	par := verifNondetChoice(verifParam("JOBS")) + 1
	cancelOnFailure := verifNondetBool()
	canceller := verifNondetChoice(n)
	SetParallelism(par)
	parent, parentCancel := context.WithCancel(context.Background())
	defer parentCancel()
	ran := make([]int, n)
	jobs := make([]func(context.Context) error, n)
	for i := 0; i < n; i++ {
		i := i
		jobs[i] = func(ctx context.Context) error {
			ran[i]++
			if i == canceller {
				parentCancel()
			}
			return nil
		}
	}
	var opts []ParallelizeOption
	if cancelOnFailure {
		opts = append(opts, ParallelizeWithCancelOnFailure())
	}
	err := Parallelize(parent, jobs, opts...)
	verifCover("returned")
	skipped := false
	for i := 0; i < n; i++ {
		verifAssert(ran[i] <= 1, "a job runs at most once (external cancel)")
		if ran[i] == 0 {
			skipped = true
		}
	}
	if skipped {
		verifCover("a job was skipped because the caller's context was cancelled")
		verifAssert(err != nil, "jobs skipped after an external cancellation are reported as an error")
		verifAssert(errors.Is(err, context.Canceled), "the reported error is the context's")
	} else {
		verifAssert(err == nil, "all jobs ran and none failed: no error")
	}
}
