//go:build verif

package thread

import (
	"context"
)

// VerifLemma_C15B_ParallelizeFailureAfterCancel (property C15: a failed write is always reported): jobs may fail
// (a Put / Write / Close error inside a per-file copy job) AND the caller's context may be cancelled mid-run by one of
// the jobs (a deadline, ctrl-C, a sibling operation). Whatever the completion order and options: if a job that ran
// returned an error, or a job never ran, Parallelize returns a non-nil error - a cancellation never hides a failure
// of a job that was already in flight.
func VerifLemma_C15B_ParallelizeFailureAfterCancel() {
	n := verifNondetChoice(verifParam("JOBS")-1) + 2 // 2..JOBS
	par := verifNondetChoice(verifParam("JOBS")) + 1
	cancelOnFailure := verifNondetBool()
	canceller := verifNondetChoice(n + 1) // n: nobody cancels the caller's context
	SetParallelism(par)
	parent, parentCancel := context.WithCancel(context.Background())
	defer parentCancel()
	ran := make([]int, n)
	fails := make([]bool, n)
	jobs := make([]func(context.Context) error, n)
	for i := 0; i < n; i++ {
		i := i
		fails[i] = verifNondetBool()
		jobs[i] = func(ctx context.Context) error {
			ran[i]++
			if i == canceller {
				parentCancel()
			}
			if fails[i] {
				return vErrJob
			}
			return nil
		}
	}
	var opts []ParallelizeOption
	if cancelOnFailure {
		opts = append(opts, ParallelizeWithCancelOnFailure())
	}
	err := Parallelize(parent, jobs, opts...)
	verifCover("returned")
	skipped, failed := false, false
	for i := 0; i < n; i++ {
		verifAssert(ran[i] <= 1, "a job runs at most once")
		if ran[i] == 0 {
			skipped = true
		} else if fails[i] {
			failed = true
		}
	}
	if failed {
		verifCover("a job that ran failed")
		verifAssert(err != nil, "the failure of a job that ran is reported, also when the context was cancelled meanwhile")
	}
	if skipped {
		verifAssert(err != nil, "a job that never ran is reported as an error")
	}
	if !failed && !skipped && canceller == n {
		// (with a cancelled caller context and every job done, returning nil or ctx.Err() are both defensible)
		verifAssert(err == nil, "all jobs ran, none failed, nobody cancelled: no error")
	}
}
