//go:build verif

package dag

import "errors"

// C10-E: the generic graph kernel used by bufmodule.ModuleSetToDAG and `buf dep graph`.
//
// The graph is structural: n nodes with fixed distinct names, every ordered pair (i,j) (self loops included)
// is an edge or not (nondet). The reference is a plain adjacency matrix with a Floyd-Warshall closure.

type vVal struct {
	name string
	idx  int
}

var vNames = []string{"a", "b", "c", "d", "e", "f"}

const vMax = 6

type vGraph struct {
	n     int
	adj   [vMax][vMax]bool // adj[i][j]: edge i -> j
	reach [vMax][vMax]bool // reflexive-transitive closure
	onCyc [vMax]bool       // node lies on a cycle
	g     *Graph[string, vVal]
	// order in which the node keys were first inserted
	order []int
}

// vBuildGraph makes the nondet graph and the real Graph. Nodes are either all added first with AddNode, or
// only through AddEdge (then nodes without any edge are added last); every edge may be added twice.
//
// Sizes 1..maxN are explored with self loops, sizes maxN+1..maxM (if maxM > maxN) without.
func vBuildGraph(maxN int, maxM int) *vGraph {
	v := &vGraph{}
	if maxM < maxN {
		maxM = maxN
	}
	v.n = verifNondetChoice(maxM) + 1
	n := v.n
	selfLoops := n <= maxN
	for i := 0; i < n; i++ {
		for j := 0; j < n; j++ {
			if i == j && !selfLoops {
				continue
			}
			if verifNondetBool() {
				v.adj[i][j] = true
			}
		}
	}
	nodesFirst := verifNondetBool()
	twice := verifNondetBool()
	v.g = NewGraph[string, vVal](func(x vVal) string { return x.name })
	seen := [vMax]bool{}
	note := func(i int) {
		if !seen[i] {
			seen[i] = true
			v.order = append(v.order, i)
		}
	}
	if nodesFirst {
		for i := 0; i < n; i++ {
			v.g.AddNode(vVal{vNames[i], i})
			note(i)
		}
	}
	for i := 0; i < n; i++ {
		for j := 0; j < n; j++ {
			if v.adj[i][j] {
				v.g.AddEdge(vVal{vNames[i], i}, vVal{vNames[j], j})
				note(i)
				note(j)
				if twice {
					v.g.AddEdge(vVal{vNames[i], i}, vVal{vNames[j], j})
				}
			}
		}
	}
	for i := 0; i < n; i++ {
		v.g.AddNode(vVal{vNames[i], i})
		note(i)
	}
	// reference closure
	for i := 0; i < n; i++ {
		for j := 0; j < n; j++ {
			v.reach[i][j] = v.adj[i][j] || i == j
		}
	}
	for k := 0; k < n; k++ {
		for i := 0; i < n; i++ {
			for j := 0; j < n; j++ {
				if v.reach[i][k] && v.reach[k][j] {
					v.reach[i][j] = true
				}
			}
		}
	}
	for i := 0; i < n; i++ {
		for k := 0; k < n; k++ {
			if v.adj[i][k] && v.reach[k][i] {
				v.onCyc[i] = true
			}
		}
	}
	return v
}

// vCheckCycle asserts that err is a *CycleError whose keys are nodes on a cycle of the graph and whose consecutive
// keys are edges (the error renders them as "a -> b"). Whether the first key is repeated at the end, and how a
// self loop is spelled, is not documented and not asserted.
func (v *vGraph) vCheckCycle(err error) {
	var cycleErr *CycleError[string]
	ok := errors.As(err, &cycleErr)
	verifAssert(ok, "cycle is reported as *CycleError")
	if !ok {
		return
	}
	keys := cycleErr.Keys
	verifAssert(len(keys) >= 1, "cycle error names at least one key")
	for x := 0; x < len(keys); x++ {
		i := v.vIndex(keys[x])
		verifAssert(i >= 0 && v.onCyc[i], "every cycle key is a node on a cycle of the graph")
	}
	for x := 0; x+1 < len(keys); x++ {
		i, j := v.vIndex(keys[x]), v.vIndex(keys[x+1])
		verifAssert(i >= 0 && j >= 0 && v.adj[i][j], "consecutive cycle keys are an edge of the graph")
	}
}

func (v *vGraph) vNumEdges() int {
	nEdges := 0
	for i := 0; i < v.n; i++ {
		for j := 0; j < v.n; j++ {
			if v.adj[i][j] {
				nEdges++
			}
		}
	}
	return nEdges
}

func (v *vGraph) vIndex(name string) int {
	for i := 0; i < v.n; i++ {
		if vNames[i] == name {
			return i
		}
	}
	return -1
}

// VerifLemma_C10E_TopoSort: TopoSort(start) errors with a real cycle iff a cycle is reachable from start;
// otherwise it lists exactly the nodes reachable from start, each once, every edge's target before its source.
func VerifLemma_C10E_TopoSort() {
	v := vBuildGraph(verifParam("N"), verifParam("M"))
	n := v.n
	start := verifNondetChoice(n)
	verifCover("graph built")
	out, err := v.g.TopoSort(vNames[start])
	cyc := false
	for j := 0; j < n; j++ {
		if v.reach[start][j] && v.onCyc[j] {
			cyc = true
		}
	}
	if cyc {
		verifCover("cycle reachable")
		verifAssert(err != nil, "reachable cycle is an error")
		if err != nil {
			v.vCheckCycle(err)
		}
		return
	}
	verifCover("acyclic from start")
	verifAssert(err == nil, "no error without a reachable cycle")
	if err != nil {
		return
	}
	pos := [vMax]int{}
	for i := 0; i < n; i++ {
		pos[i] = -1
	}
	for p, x := range out {
		i := v.vIndex(x.name)
		verifAssert(i >= 0 && x.idx == i, "toposort returns the stored values")
		if i < 0 {
			return
		}
		verifAssert(pos[i] == -1, "toposort lists no node twice")
		pos[i] = p
	}
	for i := 0; i < n; i++ {
		verifAssert((pos[i] >= 0) == v.reach[start][i], "toposort lists exactly the reachable nodes")
	}
	for i := 0; i < n; i++ {
		for j := 0; j < n; j++ {
			if v.adj[i][j] && pos[i] >= 0 {
				verifAssert(pos[j] >= 0 && pos[j] < pos[i], "edge target precedes its source")
			}
		}
	}
}

// VerifLemma_C10E_WalkEdges: WalkEdges errors with a real cycle iff the graph has a cycle; otherwise it calls f
// exactly once per edge, with the stored values, and never for a non-edge. An error of f is returned
// (whether the walk goes on after it is not documented and not asserted).
func VerifLemma_C10E_WalkEdges() {
	v := vBuildGraph(verifParam("N"), verifParam("M"))
	n := v.n
	verifCover("graph built")
	count := [vMax][vMax]int{}
	calls := 0
	failAt := -1
	if verifNondetBool() {
		failAt = verifNondetChoice(v.vNumEdges() + 1)
	}
	vErr := errors.New("callback failed")
	err := v.g.WalkEdges(func(from vVal, to vVal) error {
		if calls == failAt {
			calls++
			return vErr
		}
		calls++
		i, j := v.vIndex(from.name), v.vIndex(to.name)
		verifAssert(i >= 0 && j >= 0 && from.idx == i && to.idx == j, "walkedges passes the stored values")
		if i >= 0 && j >= 0 {
			count[i][j]++
		}
		return nil
	})
	for i := 0; i < n; i++ {
		for j := 0; j < n; j++ {
			verifAssert(count[i][j] <= 1, "no edge visited twice")
			verifAssert(count[i][j] == 0 || v.adj[i][j], "only edges are visited")
		}
	}
	if failAt >= 0 && calls > failAt {
		verifCover("callback error")
		verifAssert(errors.Is(err, vErr), "callback error is returned")
		return
	}
	anyCyc := false
	for i := 0; i < n; i++ {
		if v.onCyc[i] {
			anyCyc = true
		}
	}
	// source nodes: no inbound edge
	nSources := 0
	srcCyc := false
	for s := 0; s < n; s++ {
		in := false
		for i := 0; i < n; i++ {
			if v.adj[i][s] {
				in = true
			}
		}
		if in {
			continue
		}
		nSources++
		for j := 0; j < n; j++ {
			if v.reach[s][j] && v.onCyc[j] {
				srcCyc = true
			}
		}
	}
	if anyCyc {
		verifCover("cyclic graph")
		// Known finding: with at least one source node, a cycle that no source node reaches is neither
		// reported nor are its edges visited.
		if verifKnown("F10-dag-walkedges-unreachable-cycle", nSources > 0 && !srcCyc) {
			return
		}
		verifAssert(err != nil, "a cycle in the graph is an error")
		if err != nil {
			v.vCheckCycle(err)
		}
		return
	}
	verifCover("acyclic graph")
	verifAssert(err == nil, "no error for an acyclic graph")
	for i := 0; i < n; i++ {
		for j := 0; j < n; j++ {
			if v.adj[i][j] {
				verifAssert(count[i][j] == 1, "every edge is visited exactly once")
			}
		}
	}
}

// VerifLemma_C10E_WalkNodes: WalkNodes visits every node exactly once in insertion order and reports exactly
// its inbound and outbound neighbours (each once); NumNodes/NumEdges/ContainsNode/InboundNodes/OutboundNodes agree.
func VerifLemma_C10E_WalkNodes() {
	v := vBuildGraph(verifParam("N"), verifParam("M"))
	n := v.n
	verifCover("graph built")
	nEdges := v.vNumEdges()
	verifAssert(v.g.NumNodes() == n, "NumNodes")
	verifAssert(v.g.NumEdges() == nEdges, "NumEdges")
	verifAssert(!v.g.ContainsNode("zz"), "ContainsNode false for an absent key")
	visited := 0
	err := v.g.WalkNodes(func(x vVal, in []vVal, out []vVal) error {
		k := v.vIndex(x.name)
		verifAssert(k >= 0 && x.idx == k, "walknodes passes the stored value")
		if k < 0 {
			return nil
		}
		verifAssert(visited < n && v.order[visited] == k, "walknodes visits in insertion order")
		visited++
		v.vCheckNeighbours(k, in, true)
		v.vCheckNeighbours(k, out, false)
		return nil
	})
	verifAssert(err == nil, "walknodes does not fail")
	verifAssert(visited == n, "walknodes visits every node once")
	for k := 0; k < n; k++ {
		verifAssert(v.g.ContainsNode(vNames[k]), "ContainsNode true for every node")
		in, err := v.g.InboundNodes(vNames[k])
		verifAssert(err == nil, "InboundNodes succeeds")
		v.vCheckNeighbours(k, in, true)
		out, err := v.g.OutboundNodes(vNames[k])
		verifAssert(err == nil, "OutboundNodes succeeds")
		v.vCheckNeighbours(k, out, false)
	}
	_, err = v.g.InboundNodes("zz")
	verifAssert(err != nil, "InboundNodes of an absent key fails")
	_, err = v.g.OutboundNodes("zz")
	verifAssert(err != nil, "OutboundNodes of an absent key fails")
}

func (v *vGraph) vCheckNeighbours(k int, got []vVal, inbound bool) {
	cnt := [vMax]int{}
	for _, x := range got {
		i := v.vIndex(x.name)
		verifAssert(i >= 0 && x.idx == i, "neighbour is a stored value")
		if i >= 0 {
			cnt[i]++
		}
	}
	for i := 0; i < v.n; i++ {
		want := 0
		if inbound && v.adj[i][k] {
			want = 1
		}
		if !inbound && v.adj[k][i] {
			want = 1
		}
		verifAssert(cnt[i] == want, "neighbour set is exactly the edge set, each once")
	}
}
