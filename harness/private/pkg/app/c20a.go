//go:build verif

package app

import (
	"errors"
	"fmt"
)

// VerifLemma_C20A_GetExitCode: GetExitCode is 0 exactly for nil; for errors made by NewError/NewErrorf/WrapError it is
// the given code (an illegal code 0 becomes 1, never 0), found through any %w / Join wrapping; 1 for foreign errors.
func VerifLemma_C20A_GetExitCode() {
	code := verifNondetInt(vMinInt, vMaxInt)
	msg := verifNondetString(verifParam("MSG"))
	var e error
	want := 1
	if code != 0 {
		want = code
	}
	choice := verifNondetChoice(5)
	switch choice {
	case 0:
		verifAssert(GetExitCode(nil) == 0, "nil exits 0")
		return
	case 1:
		e = errors.New(msg)
		want = 1
	case 2:
		e = NewError(code, msg)
	case 3:
		e = WrapError(code, errors.New(msg))
	case 4:
		e = NewErrorf(code, "%s", msg)
	}
	switch verifNondetChoice(4) {
	case 1:
		e = fmt.Errorf("ctx: %w", e)
	case 2:
		e = errors.Join(errors.New("first"), e)
	case 3:
		// an outer app error governs
		// two statuses in one chain: either may govern (errors.As order is not part of the documented contract)
		outer := verifNondetInt(1, 255)
		inner := want
		hadInner := choice != 1
		e = WrapError(outer, e)
		got := GetExitCode(e)
		verifCover("nested")
		verifAssert(got != 0, "an error never exits 0 (nested)")
		verifAssert(got == outer || (hadInner && got == inner), "exit code is one of the codes of the chain")
		return
	}
	got := GetExitCode(e)
	verifCover("mapped")
	verifAssert(got != 0, "an error never exits 0")
	verifAssert(got == want, "exit code is the app error's code, 1 without one (documented: 'Otherwise, this returns 1')")
}

const vMinInt = -1 << 63
const vMaxInt = 1<<63 - 1
