//go:build verif

package storage

import (
	"github.com/bufbuild/buf/private/pkg/normalpath"
)

// ---- shared helpers of the C13 / C14 lemmas in package storage (prefix vc / refC) ----

// refCEqualsOrContains: component-wise prefix relation on normalized relative paths.
func refCEqualsOrContains(v, p string) bool {
	if v == "." {
		return true
	}
	if len(p) == len(v) {
		return p == v
	}
	if len(p) > len(v) {
		return p[:len(v)] == v && p[len(v)] == '/'
	}
	return false
}

// refCNoDotDot: no '/'-separated component of p is "..".
func refCNoDotDot(p string) bool {
	start := 0
	for i := 0; i <= len(p); i++ {
		if i == len(p) || p[i] == '/' {
			if i-start == 2 && p[start] == '.' && p[start+1] == '.' {
				return false
			}
			start = i + 1
		}
	}
	return true
}

// refCJoin: join of two normalized validated relative paths ("." is the unit).
func refCJoin(a, b string) string {
	if a == "." {
		return b
	}
	if b == "." {
		return a
	}
	return a + "/" + b
}

// vcValidated returns an arbitrary normalized+validated relative path of at most n bytes ("." included).
func vcValidated(n int) string {
	s := verifNondetString(n)
	p, err := normalpath.NormalizeAndValidate(s)
	verifAssume(err == nil)
	verifAssume(p == s)
	return s
}

// vcValidatedFile is vcValidated without the root ".": a path an object can live at.
func vcValidatedFile(n int) string {
	s := vcValidated(n)
	verifAssume(s != ".")
	return s
}

// VerifLemma_C13C_PrefixMapper: a prefix mapper never maps outside its prefix and never unmaps a foreign path;
// MapPath and UnmapFullPath are mutually inverse on the mapped subtree (C14 mechanism 3).
func VerifLemma_C13C_PrefixMapper() {
	prefix := vcValidated(verifParam("PRE"))
	p := vcValidated(verifParam("N"))
	m := MapOnPrefix(prefix)
	verifCover("mapper built")

	full, ok := m.MapPath(p)
	verifAssert(ok, "prefixMapper.MapPath always matches")
	verifAssert(refCEqualsOrContains(prefix, full), "MapPath(p) is equal to or inside the prefix")
	verifAssert(full == refCJoin(prefix, p), "MapPath(p) is the reference join")
	verifAssert(refCNoDotDot(full), "MapPath(p) has no .. component")
	back, ok2, err := m.UnmapFullPath(full)
	verifAssert(err == nil && ok2, "UnmapFullPath accepts every mapped path")
	verifAssert(back == p, "UnmapFullPath(MapPath(p)) == p")
}

// VerifLemma_C13C_PrefixUnmap: UnmapFullPath on an arbitrary validated full path: matches iff the full path is
// path-wise under the prefix, and then yields a validated path that maps back to the full path.
func VerifLemma_C13C_PrefixUnmap() {
	prefix := vcValidated(verifParam("PRE"))
	f := vcValidated(verifParam("N"))
	m := MapOnPrefix(prefix)
	verifCover("mapper built")
	path, ok, err := m.UnmapFullPath(f)
	verifAssert(err == nil, "UnmapFullPath does not fail on validated input")
	verifAssert(ok == refCEqualsOrContains(prefix, f), "UnmapFullPath matches exactly the paths under the prefix")
	if ok {
		verifCover("unmapped")
		np, verr := normalpath.NormalizeAndValidate(path)
		verifAssert(verr == nil && np == path, "unmapped path is normalized and validated")
		again, _ := m.MapPath(path)
		verifAssert(again == f, "MapPath(UnmapFullPath(f)) == f")
	}
}

// VerifLemma_C13C_ChainMapper: the same two laws for a chain of two prefix mappers (outer prefix a, inner b).
func VerifLemma_C13C_ChainMapper() {
	a := vcValidated(verifParam("PRE"))
	b := vcValidated(verifParam("PRE"))
	p := vcValidated(verifParam("N"))
	m := MapChain(MapOnPrefix(a), MapOnPrefix(b))
	verifCover("chain built")
	full, ok := m.MapPath(p)
	verifAssert(ok, "chain MapPath matches")
	verifAssert(full == refCJoin(a, refCJoin(b, p)), "chain MapPath is a/b/p")
	verifAssert(refCEqualsOrContains(a, full), "chain MapPath stays inside the outer prefix")
	back, ok2, err := m.UnmapFullPath(full)
	verifAssert(err == nil && ok2 && back == p, "chain UnmapFullPath inverts MapPath")

	f := vcValidated(verifParam("F"))
	path, ok3, err3 := m.UnmapFullPath(f)
	verifAssert(err3 == nil, "chain UnmapFullPath does not fail on validated input")
	verifAssert(ok3 == refCEqualsOrContains(refCJoin(a, b), f), "chain UnmapFullPath matches exactly the paths under a/b")
	if ok3 {
		again, _ := m.MapPath(path)
		verifAssert(again == f, "chain MapPath(UnmapFullPath(f)) == f")
	}
}
