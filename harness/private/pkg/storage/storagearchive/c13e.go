//go:build verif

package storagearchive

// refCClean / refCKey: see harness/private/pkg/storage/storagemem/c14b.go (component-stack cleaner, checked against
// Normalize by lemma C14-A.clean-reference).
func refCClean(s string) string {
	rooted := len(s) > 0 && s[0] == '/'
	var starts, ends []int
	i := 0
	for i <= len(s) {
		j := i
		for j < len(s) && s[j] != '/' {
			j++
		}
		if j-i == 0 || (j-i == 1 && s[i] == '.') {
			// skip
		} else if j-i == 2 && s[i] == '.' && s[i+1] == '.' {
			n := len(starts)
			if n > 0 && !(ends[n-1]-starts[n-1] == 2 && s[starts[n-1]] == '.' && s[starts[n-1]+1] == '.') {
				starts, ends = starts[:n-1], ends[:n-1]
			} else if !rooted {
				starts, ends = append(starts, i), append(ends, j)
			}
		} else {
			starts, ends = append(starts, i), append(ends, j)
		}
		i = j + 1
	}
	var out []byte
	if rooted {
		out = append(out, '/')
	}
	for k := range starts {
		if k > 0 {
			out = append(out, '/')
		}
		for x := starts[k]; x < ends[k]; x++ {
			out = append(out, s[x])
		}
	}
	if len(out) == 0 {
		return "."
	}
	return string(out)
}

func refCKey(s string) (string, bool) {
	c := refCClean(s)
	if c[0] == '/' {
		return "", false
	}
	if len(c) >= 2 && c[0] == '.' && c[1] == '.' && (len(c) == 2 || c[2] == '/') {
		return "", false
	}
	return c, true
}

// refCStrip drops the first n components of a normalized validated non-root path; false if it has <= n.
func refCStrip(p string, n int) (string, bool) {
	for ; n > 0; n-- {
		i := 0
		for i < len(p) && p[i] != '/' {
			i++
		}
		if i == len(p) {
			return "", false
		}
		p = p[i+1:]
	}
	return p, true
}

// VerifLemma_C13E_UnmapArchivePath: the name of a tar/zip entry, however spelled, is rejected (error), skipped, or
// mapped to a normalized, validated, non-root bucket path - exactly the cleaned name minus the stripped components;
// the matcher sees only such paths.
func VerifLemma_C13E_UnmapArchivePath() {
	name := verifNondetString(verifParam("N"))
	strip := verifNondetChoice(3)
	var matcher func(string) bool
	matcherSaw := ""
	matcherCalls := 0
	accept := true
	if verifNondetBool() {
		accept = verifNondetBool()
		matcher = func(p string) bool {
			// whatever is shown to the matcher (however often) is a normalized validated non-root path
			k, v := refCKey(p)
			verifAssert(v && k == p && p != ".", "the matcher only ever sees normalized validated non-root paths")
			matcherSaw = p
			matcherCalls++
			return accept
		}
	}
	path, ok, err := unmapArchivePath(name, matcher, uint32(strip))
	verifCover("called")
	key, valid := refCKey(name)
	if name == "" || !valid {
		verifAssert(err != nil, "archive entry names that are empty, absolute or climbing are an error")
		return
	}
	verifAssert(err == nil, "valid entry names are not an error")
	var want string
	wantOK := key != "."
	if wantOK {
		want, wantOK = refCStrip(key, strip)
	}
	if wantOK && matcher != nil {
		verifAssert(matcherCalls >= 1 && matcherSaw == want, "the matcher is consulted on the stripped normalized path")
		wantOK = accept
	}
	verifAssert(ok == wantOK, "an entry is kept exactly when it is a non-root path with enough components that the matcher accepts")
	if !ok {
		return
	}
	verifCover("kept")
	verifAssert(path == want, "kept entries map to the cleaned name minus the stripped components")
	k2, v2 := refCKey(path)
	verifAssert(v2 && k2 == path && path != ".", "kept entries map to a normalized validated non-root path")
}
