//go:build verif

package storage

import (
	"context"
	"errors"
	"io"

	"github.com/bufbuild/buf/private/pkg/thread"
)

// ---- C15-B: storage.Copy of <= OBJS objects through the real thread.Parallelize ----
//
// Every object has its own fault plan (one fault kind out of vdFaultKinds, chosen by the solver per object, so
// multi-object fault combinations are covered) and its own "a fault on this object was returned to the code" flag.

const (
	vdFaultNone = iota
	vdFaultGet
	vdFaultRead
	vdFaultReadClose
	vdFaultPut
	vdFaultWrite
	vdFaultShortWrite
	vdFaultWriteClose
	vdFaultSetExt
	vdFaultKinds
)

type vdSrcObj struct {
	path     string
	data     string
	fault    int
	observed bool // an injected failure for this object was returned to the code under test
	pos      int
	closed   int
	gets     int
}

// vdSrcHandle: one open read handle (own read position: an object may legitimately be fetched more than once)
type vdSrcHandle struct {
	o   *vdSrcObj
	pos *int
}

func (h vdSrcHandle) Read(p []byte) (int, error) {
	o := h.o
	if o.fault == vdFaultRead {
		o.observed = true
		return 0, vInjected()
	}
	if *h.pos >= len(o.data) {
		return 0, io.EOF
	}
	n := copy(p, o.data[*h.pos:])
	*h.pos += n
	return n, nil
}
func (h vdSrcHandle) Close() error {
	h.o.closed++
	if h.o.fault == vdFaultReadClose {
		h.o.observed = true
		return vInjected()
	}
	return nil
}
func (h vdSrcHandle) Path() string         { return h.o.path }
func (h vdSrcHandle) ExternalPath() string { return "ext/" + h.o.path }
func (h vdSrcHandle) LocalPath() string    { return "loc/" + h.o.path }

type vdSrcBucket struct {
	ReadBucket
	objs     []*vdSrcObj
	walkFail bool
	walkRev  bool
}

func (b *vdSrcBucket) find(path string) *vdSrcObj {
	for _, o := range b.objs {
		if o.path == path {
			return o
		}
	}
	return nil
}

func (b *vdSrcBucket) Get(ctx context.Context, path string) (ReadObjectCloser, error) {
	o := b.find(path)
	if o == nil {
		return nil, errors.New("vd: no such object")
	}
	o.gets++
	if o.fault == vdFaultGet {
		o.observed = true
		return nil, vInjected()
	}
	return vdSrcHandle{o, new(int)}, nil
}

func (b *vdSrcBucket) Walk(ctx context.Context, prefix string, f func(ObjectInfo) error) error {
	n := len(b.objs)
	for i := 0; i < n; i++ {
		j := i
		if b.walkRev {
			j = n - 1 - i
		}
		if err := f(vdSrcHandle{b.objs[j], new(int)}); err != nil {
			return err
		}
	}
	if b.walkFail {
		vFaultObserved = true
		return vInjected()
	}
	return nil
}

type vdDstObj struct {
	src    *vdSrcObj
	wrote  []byte
	closed int
	ext    string
	local  string
	atomic bool
}

func (w *vdDstObj) Write(p []byte) (int, error) {
	switch w.src.fault {
	case vdFaultWrite:
		w.src.observed = true
		return 0, vInjected()
	case vdFaultShortWrite:
		if len(p) > 0 {
			w.src.observed = true
			w.wrote = append(w.wrote, p[:len(p)-1]...)
			return len(p) - 1, vInjected()
		}
	}
	w.wrote = append(w.wrote, p...)
	return len(p), nil
}
func (w *vdDstObj) Close() error {
	w.closed++
	if w.src.fault == vdFaultWriteClose {
		w.src.observed = true
		return vInjected()
	}
	return nil
}
func (w *vdDstObj) SetExternalPath(p string) error {
	if w.src.fault == vdFaultSetExt {
		w.src.observed = true
		return vInjected()
	}
	w.ext = p
	return nil
}
func (w *vdDstObj) SetLocalPath(p string) error { w.local = p; return nil }

type vdDstBucket struct {
	WriteBucket
	src  *vdSrcBucket
	objs map[string]*vdDstObj
	puts int
}

func (b *vdDstBucket) Put(ctx context.Context, path string, opts ...PutOption) (WriteObjectCloser, error) {
	b.puts++
	o := b.src.find(path)
	if o == nil {
		return nil, errors.New("vd: put of a path that is not in the source")
	}
	if o.fault == vdFaultPut {
		o.observed = true
		return nil, vInjected()
	}
	w := &vdDstObj{src: o, atomic: NewPutOptions(opts).Atomic()}
	b.objs[path] = w
	return w, nil
}

// vdFaultPlan: all fault kinds, or (EXACT=1, three objects) one representative per stage of copyPath.
func vdFaultPlan() int {
	if verifParam("EXACT") == 1 {
		// the first FAULTS kinds of: one representative per stage of copyPath, then the remaining read/put stages
		return []int{vdFaultNone, vdFaultGet, vdFaultShortWrite, vdFaultWriteClose, vdFaultPut, vdFaultRead}[verifNondetChoice(verifParam("FAULTS"))]
	}
	return verifNondetChoice(vdFaultKinds)
}

func vdContent() string {
	if verifParam("EXACT") == 1 {
		return verifNondetStringN(verifParam("DATA"))
	}
	return verifNondetString(verifParam("DATA"))
}

// VerifLemma_C15B_ParallelCopy: Copy(from, to) with 1..OBJS objects, per-object fault plan, parallelism 1..OBJS,
// every completion order of the jobs. (1) any failure returned to the code ⇒ Copy returns an error;
// (2) the returned count = number of objects copied without any failure, and each of those has the full content
// in the destination and was closed; (3) nil error ⇒ count = number of objects.
// Param EXACT=1 (used for OBJS=3): exactly OBJS objects of exactly DATA bytes, and the three option booleans tied together.
func VerifLemma_C15B_ParallelCopy() {
	vReset()
	n := verifNondetChoice(verifParam("OBJS")) + 1
	if verifParam("EXACT") == 1 {
		n = verifParam("OBJS")
	}
	thread.SetParallelism(verifNondetChoice(verifParam("OBJS")) + 1)
	names := []string{"a", "b/c", "d"}
	src := &vdSrcBucket{walkFail: verifNondetBool(), walkRev: verifNondetBool()}
	copyExt, atomic := src.walkRev, src.walkRev
	if verifParam("EXACT") != 1 && verifParam("TIEOPTS") != 1 {
		copyExt, atomic = verifNondetBool(), verifNondetBool()
	}
	for i := 0; i < n; i++ {
		src.objs = append(src.objs, &vdSrcObj{
			path:  names[i],
			data:  vdContent(),
			fault: vdFaultPlan(),
		})
	}
	dst := &vdDstBucket{src: src, objs: map[string]*vdDstObj{}}
	var opts []CopyOption
	if copyExt {
		opts = append(opts, CopyWithExternalAndLocalPaths())
	}
	if atomic {
		opts = append(opts, CopyWithAtomic())
	}
	count, err := Copy(context.Background(), src, dst, opts...)
	verifCover("returned")
	// What the property requires (and nothing more): every failure the code saw is reported (a failing Walk
	// included); an object the code reports as copied is complete and was closed; the count is the number of complete
	// copies ("Returns the number of files copied"); and without any failure everything is copied. NOT specified:
	// whether the remaining objects are still attempted after a failure (stopping early, e.g. cancel-on-failure, is
	// legitimate), whether anything is copied when the walk failed, how often an object is fetched, which of several
	// errors is returned, and whether the read handles are closed (a leak, not a C15 matter).
	anyObserved, copied := src.walkFail, 0
	for i := 0; i < n; i++ {
		o := src.objs[i]
		if o.observed {
			anyObserved = true
			continue
		}
		w := dst.objs[o.path]
		if o.gets == 0 || w == nil {
			// not attempted (only legitimate after some other object failed - asserted below)
			continue
		}
		copied++
		verifAssert(string(w.wrote) == o.data, "Copy: an object without failure has the full content in the destination")
		verifAssert(w.closed >= 1, "Copy: the destination object of a complete copy was closed (published)")
		verifAssert(w.atomic == atomic, "Copy: atomic option forwarded")
		if copyExt {
			verifAssert(w.ext == "ext/"+o.path && w.local == "loc/"+o.path, "Copy: external/local paths forwarded")
		}
	}
	if anyObserved {
		verifCover("some object failed")
		verifAssert(err != nil, "Copy: an injected failure seen by the code is reported")
	} else {
		verifAssert(err == nil, "Copy: no failure, no error")
		verifAssert(copied == n, "Copy: without any failure every object is copied")
	}
	verifAssert(count == copied, "Copy: returned count = objects copied completely")
	verifAssert(err != nil || count == n, "Copy: nil error implies every object was copied")
}
